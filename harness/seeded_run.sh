#!/bin/bash
# seeded_run.sh <id> [checks…] — apply seeded/<id>/patch.diff to /repo, run demo + the given checks (default: the property in meta.json), undo.
cd "$(dirname "$0")/.."
id=$1; shift
d=seeded/$id
prop=$(python3 -c "import json;print(json.load(open('$d/meta.json'))['property'])")
checks=${@:-$prop}
git -C /repo apply "$PWD/$d/patch.diff" || { echo "patch does not apply"; exit 2; }
trap 'git -C /repo checkout -- . ; git -C /repo clean -fdq genlm tests 2>/dev/null' EXIT
(cd /repo && timeout 120 /venv/bin/python "$OLDPWD/$d/demo.py" >/dev/null 2>&1); echo "$id demo rc=$? (non-zero expected)"
for c in $checks; do
  out=$(VERIF_OUT=/tmp/mut/scratch_repo_mode timeout 1500 /venv/bin/python harness/check.py $c 2>/dev/null); echo "$id $c rc=$? $(echo "$out" | grep -c KNOWN) known; $(echo "$out" | grep VIOLATION | head -1)"
done
