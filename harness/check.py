#!/venv/bin/python
"""check.py Cxx [--tier quick|thorough] [--replay FILE]

Pipeline (DESIGN.md section 3/6):
  A. proof obligations: translator, `lake build` of the property's theorem module and of the
     driver, forbidden-token scan, axiom audit of every theorem in `Genlm.Props.Cxx`;
  B. correspondence: seeded cases -> real implementation (worker subprocesses under several
     PYTHONHASHSEEDs) and Lean driver -> canonicalise -> compare;
  C. decision: a disagreement between the real code and a *specification* oracle is a violation
     of the property with that input as replay; a broken proof / translation / structural
     correspondence without such an input is reported with `no-failing-input-found`.
Exit 0 = held; 1 = VIOLATION line printed; 2 = infrastructure error / timeout.
"""
import argparse
import importlib
import json
import os
import random
import select
import subprocess
import sys
import time

sys.path.insert(0, os.path.dirname(os.path.dirname(os.path.abspath(__file__))))
from harness import common  # noqa: E402

PY = "/venv/bin/python"


def run_impl(prop, cases, hashseed, per_case_timeout, env_extra=None):
    """Run cases through the worker; returns {id: res}. A stuck case is recorded as
    {"exc": "Timeout"} and the worker restarted on the remaining cases."""
    results = {}
    todo = list(cases)
    env = dict(os.environ)
    env["PYTHONHASHSEED"] = str(hashseed)
    env[common.GUARD] = "1"
    env["PYTHONWARNINGS"] = "ignore"
    if common.REPO != "/repo":  # development: run the implementation from a scratch worktree
        env["PYTHONPATH"] = common.REPO
    # one BLAS thread per worker: 16 workers × a thread pool per core each made single cases exceed the watchdog on a loaded machine
    # (spurious "Timeout" results); the matrices of the harness are tiny
    for var in ("OPENBLAS_NUM_THREADS", "OMP_NUM_THREADS", "MKL_NUM_THREADS"):
        env.setdefault(var, "1")
    if env_extra:
        env.update(env_extra)
    while todo:
        p = subprocess.Popen([PY, os.path.join(common.VERIF, "harness", "impl_worker.py"), prop],
                             stdin=subprocess.PIPE, stdout=subprocess.PIPE, stderr=subprocess.DEVNULL,
                             env=env, cwd=common.VERIF)
        data = "".join(json.dumps(c, ensure_ascii=False) + "\n" for c in todo).encode()
        # feed stdin from a thread-less approach: write all then close (pipe buffer may fill, so use a writer process)
        import threading

        def feed():
            try:
                p.stdin.write(data)
                p.stdin.close()
            except Exception:
                pass
        th = threading.Thread(target=feed, daemon=True)
        th.start()
        idx = 0
        buf = b""
        stuck = False
        deadline = time.time() + per_case_timeout + 20  # first case also pays the import
        while idx < len(todo):
            r, _, _ = select.select([p.stdout], [], [], max(0.05, deadline - time.time()))
            if not r:
                if time.time() >= deadline:
                    stuck = True
                    break
                continue
            chunk = os.read(p.stdout.fileno(), 1 << 16)
            if not chunk:
                break
            buf += chunk
            while b"\n" in buf:
                line, buf = buf.split(b"\n", 1)
                d = json.loads(line)
                results[d["id"]] = d["res"]
                idx += 1
                deadline = time.time() + per_case_timeout
        if idx >= len(todo):
            p.wait(timeout=30)
            break
        # worker died or hung on todo[idx]
        try:
            p.kill()
        except Exception:
            pass
        p.wait()
        results[todo[idx]["id"]] = {"exc": "Timeout" if stuck else "Crash", "msg": "worker killed"}
        todo = todo[idx + 1:]
    return results


def run_impl_parallel(prop, cases, hashseeds, per_case_timeout, jobs):
    """cases × hashseeds, split in chunks over `jobs` worker processes."""
    from concurrent.futures import ThreadPoolExecutor
    out = {h: {} for h in hashseeds}
    nchunks = max(1, min(len(cases), jobs // max(1, len(hashseeds)) or 1))
    chunks = [cases[i::nchunks] for i in range(nchunks)]
    with ThreadPoolExecutor(max_workers=jobs) as ex:
        futs = []
        for h in hashseeds:
            for ch in chunks:
                if ch:
                    futs.append((h, ex.submit(run_impl, prop, ch, h, per_case_timeout)))
        for h, f in futs:
            out[h].update(f.result())
    # a case that timed out while 16 workers (and whatever else the machine runs) competed for the cores is run again
    # alone with five times the budget: only a hang that persists is reported (a loaded machine must not raise an alarm)
    byid = {c["id"]: c for c in cases}
    for h in hashseeds:
        late = [byid[i] for i, r in out[h].items() if isinstance(r, dict) and r.get("exc") == "Timeout" and i in byid]
        for c in late[:8]:
            out[h].update(run_impl(prop, [c], h, per_case_timeout * 5))
    return out


def load_known():
    p = os.path.join(common.VERIF, "known_findings.json")
    if os.path.exists(p):
        return json.load(open(p))
    return {"findings": [], "fixed": []}


def main():
    ap = argparse.ArgumentParser()
    ap.add_argument("prop")
    ap.add_argument("--tier", default=os.environ.get("VERIF_TIER", "quick"))
    ap.add_argument("--replay")
    ap.add_argument("--jobs", type=int, default=int(os.environ.get("VERIF_JOBS", "16")))
    args = ap.parse_args()
    prop = args.prop.upper()
    tier = args.tier if args.tier in ("quick", "thorough") else "quick"
    seed = int(os.environ.get("VERIF_SEED", "0") or 0)
    t0 = time.time()
    mod = importlib.import_module(f"harness.props.{prop.lower()}")

    # ---- A. proof obligations
    try:
        b = common.build_and_audit(prop)
    except subprocess.TimeoutExpired:
        print(f"ERROR property={prop} build timed out")
        return 2
    expected = json.load(open(os.path.join(common.VERIF, "harness", "obligations.json"))).get(prop, [])
    audit = b.get("audit", {})
    bad_axioms = {t: [a for a in ax if a not in common.STD_AXIOMS] for t, ax in audit.items()}
    bad_axioms = {t: a for t, a in bad_axioms.items() if a}
    discharged = [t for t in expected if t in audit and t not in bad_axioms]
    missing = [t for t in expected if t not in discharged]
    extra = [t for t in audit if t not in expected]
    proof_problems = []
    if not b.get("driver_ok", True):
        print(f"ERROR property={prop} the Lean driver does not build:\n{b.get('build_log', '')[-2000:]}")
        return 2
    if not b["ok"]:
        proof_problems.append({"kind": "build", "detail": b.get("build_log", "")[-3000:]})
    if not b.get("translate", {}).get("ok", True):
        proof_problems.append({"kind": "translate", "detail": b["translate"].get("log", "")})
    if missing:
        proof_problems.append({"kind": "obligations", "detail": f"not discharged: {missing}"})
    if b.get("forbidden"):
        proof_problems.append({"kind": "forbidden", "detail": b["forbidden"]})
    if bad_axioms:
        proof_problems.append({"kind": "axioms", "detail": bad_axioms})

    # ---- B. correspondence
    rng = random.Random((seed, prop, tier).__repr__())
    ctx = {"tier": tier, "seed": seed, "rng": rng, "jobs": args.jobs, "prop": prop,
           "run_impl": lambda cases, hashseeds, timeout=30: run_impl_parallel(prop, cases, hashseeds, timeout, args.jobs),
           "lean": (lambda ops, timeout=None, jobs=16: common.lean_batch(ops, timeout or (600 if tier == "quick" else 3600), jobs)), "replay": None}
    if args.replay:
        ctx["replay"] = json.load(open(args.replay))
    try:
        rep = mod.run(ctx)
    except common.DriverError as e:
        print(f"ERROR property={prop} driver: {e}")
        return 2
    # failing-input search (DESIGN section 6, stage D): a proof obligation, translation or structural correspondence
    # broke but the routine sample exhibits no input on which the property itself fails -> search wider
    if (proof_problems or rep.get("structural")) and not rep.get("semantic") and not args.replay and not os.environ.get("VERIF_NO_SEARCH"):
        ctx2 = dict(ctx, mult=4, rng=random.Random((seed, prop, tier, "search").__repr__()))
        try:
            rep2 = mod.run(ctx2)
            rep2["structural"] = rep.get("structural", []) + rep2.get("structural", [])
            for kk in ("evaluations", "traces"):
                rep2[kk] = rep.get(kk, 0) + rep2.get(kk, 0)
            rep2.setdefault("extra", {})["failing_input_search"] = "ran with 4x cases after a broken obligation/correspondence"
            rep = rep2
        except common.DriverError as e:
            print(f"ERROR property={prop} driver (search): {e}")
            return 2
    # rep: dict(evaluations, distinct_nontrivial, rule, samples, traces, semantic=[…], structural=[…], extra={…})
    known = load_known()
    semantic = rep.get("semantic", [])
    # a worker that was killed by the watchdog even when re-run alone with five times the budget is an INFRASTRUCTURE problem
    # (exit 2) unless termination is what the property states (C14: "minimisation terminates on every input")
    def _is_timeout(v):
        return any(isinstance(x, dict) and x.get("exc") == "Timeout" for k, x in v.items() if k != "case")
    timeouts = [v for v in semantic if _is_timeout(v)]
    # C14 states termination: up to a handful of persistent time-outs are reported as violations there; dozens of them mean an
    # overloaded machine for C14 too
    if timeouts and (prop != "C14" or len(timeouts) > 6):
        semantic = [v for v in semantic if not _is_timeout(v)]
        rep["semantic"] = semantic
        if not semantic and not rep.get("structural") and not proof_problems:
            print(f"ERROR property={prop} {len(timeouts)} case(s) timed out in the worker (machine overloaded?); no verdict")
            return 2
        rep.setdefault("extra", {})["worker_timeouts_ignored"] = len(timeouts)
    structural = rep.get("structural", [])
    known_hits, new_sem = [], []
    for v in semantic:
        hit = next((k for k in known.get("findings", []) if k["property"] == prop and k["signature"] == v.get("signature")), None)
        (known_hits if hit else new_sem).append((v, hit))
    violations = 0
    lines = []
    os.makedirs(os.path.join(common.OUT, "replay"), exist_ok=True)
    for v, hit in known_hits:
        lines.append(f"KNOWN-FINDING: property={prop} {hit['what']}")
    if new_sem:
        v = new_sem[0][0]
        path = os.path.join("replay", f"{prop}_{tier}_{seed}.json")
        json.dump({"property": prop, "kind": "semantic", "failing": [x[0] for x in new_sem[:10]],
                   "proof_problems": proof_problems}, open(os.path.join(common.OUT, path), "w"), indent=1, ensure_ascii=False)
        lines.append(f"VIOLATION property={prop} replay={path}")
        violations = len(new_sem)
    elif structural or proof_problems:
        path = os.path.join("replay", f"{prop}_{tier}_{seed}.json")
        json.dump({"property": prop, "kind": "no-failing-input-found",
                   "no_longer_checks": [p["kind"] + ": " + str(p["detail"])[:1500] for p in proof_problems] +
                                       [f"correspondence {s.get('op')}: {s.get('what')}" for s in structural[:10]],
                   "first_disagreements": structural[:5]}, open(os.path.join(common.OUT, path), "w"), indent=1, ensure_ascii=False)
        lines.append(f"VIOLATION property={prop} replay={path} no-failing-input-found")
        violations = max(1, len(structural))
    wall = time.time() - t0
    cov = {
        "obligations": len(expected), "discharged": len(discharged),
        "checker_cmd": f"cd lean && lake build GenlmModel.Props.{prop} driver && lake env lean --run Audit.lean GenlmModel.Props.{prop} Genlm.Props.{prop}",
        "trusted_base": ["Lean 4.33.0 kernel", "axioms: " + ", ".join(sorted({a for ax in audit.values() for a in ax}) or ["none"]),
                         "harness/translate.py + correspondence harness (sampled link)", "Lean compiler for the native driver"] + rep.get("trusted", []),
        "theorems": {t: audit.get(t) for t in expected},
        "unexpected_theorems": extra,
        "evaluations": rep.get("evaluations", 0), "distinct_nontrivial": rep.get("distinct_nontrivial", 0),
        "rule": rep.get("rule", ""), "samples": rep.get("samples", [])[:6],
        "traces_validated_against_impl": rep.get("traces", 0),
        "disagreements_checked": len(semantic) + len(structural),
        "build_cached": bool(b.get("cached")), "build_s": b.get("build_s"),
    }
    cov.update(rep.get("extra", {}))
    ev = {"property_id": prop, "tier": tier, "seed": seed, "level": "proof", "coverage": cov,
          "assumptions": rep.get("assumptions", []), "wall_s": round(wall, 2), "violations": violations}
    os.makedirs(os.path.join(common.OUT, "evidence"), exist_ok=True)
    json.dump(ev, open(os.path.join(common.OUT, "evidence", f"{prop}.json"), "w"), indent=1, ensure_ascii=False)
    for l in lines:
        print(l)
    print(f"{prop} {tier} seed={seed}: obligations {len(discharged)}/{len(expected)}, evaluations {cov['evaluations']}, "
          f"nontrivial {cov['distinct_nontrivial']}, semantic {len(semantic)}, structural {len(structural)}, {wall:.1f}s")
    return 1 if violations else 0


if __name__ == "__main__":
    sys.exit(main())
