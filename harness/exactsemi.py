"""An EXACT field semiring in the library's plain-number protocol (the shape of `genlm.grammar.semiring.Float`:
weights are bare numbers, the class only supplies `zero`, `one`, `star`, `chart`), with `fractions.Fraction`
constants.  The library's own `Float` has `zero = 0`, `one = 1` (ints) and `star(x) = 1 / (1 - x)`, so that
`Float.star(0) == 1.0` turns every weight that passes through ε-removal or a linear solve into a float even when
the machine was built from Fractions; over `Exact` the REAL code (`WFSA.epsremove`, `push`, `determinize`, `trim`,
`reverse`, `min_det`, `WeightedGraph`) runs unchanged on exact rationals, so a mirror model evaluated over ℚ must agree
with it to the last digit (C13's exact leg)."""
from fractions import Fraction

from genlm.grammar.chart import Chart


class Exact:
    def star(self):
        return 1 / (1 - Fraction(self))

    @classmethod
    def from_string(cls, x):
        return Fraction(x)

    def metric(x, y):  # noqa: N805  (same convention as semiring.Float)
        return abs(x - y)

    @classmethod
    def chart(cls, *args, **kwargs):
        return Chart(cls, *args, **kwargs)

    zero = Fraction(0)
    one = Fraction(1)
