"""Seeded structured generators (grammars, strings, automata, transducers, graphs)."""
from fractions import Fraction
from harness.common import frac_str

TERMS = ["a", "b", "c"]
DYADIC = [Fraction(1, 2), Fraction(1, 4), Fraction(1, 8), Fraction(3, 8), Fraction(1, 16), Fraction(3, 16), Fraction(1), Fraction(5, 8), Fraction(3, 4)]
SMALL = [Fraction(1, 2), Fraction(1, 4), Fraction(1, 8), Fraction(3, 8), Fraction(1, 16), Fraction(3, 16)]

CFG_SHAPES = ["plain", "nullable", "nullable_run", "nullable_run", "mutual_left_rec", "lc_unary_cycle", "cnf_like", "mutual3", "nullable_cycle", "unary_chain", "unary_cycle", "unary_cycle", "unary_scc_chord", "left_rec", "right_rec",
              "useless", "nongen_start", "dup_rules", "start_on_rhs", "repeat_sym", "undefined_nt", "mixed",
              "empty_lang", "eps_only"]


def _rand_body(rng, nts, terms, maxlen=3, p_nt=0.45):
    n = rng.choice([0, 1, 1, 2, 2, 2, 3][: maxlen + 4])
    n = min(n, maxlen)
    return [rng.choice(nts) if rng.random() < p_nt else rng.choice(terms) for _ in range(n)]


def zn_float(rules, V, n):
    """float Kleene iteration of the total-weight equations (for convergence screening only)."""
    heads = {h for _, h, _ in rules}
    z = {h: 0.0 for h in heads}
    hist = []
    for _ in range(n):
        new = {h: 0.0 for h in heads}
        for w, h, b in rules:
            u = float(w)
            for y in b:
                if y in V:
                    continue
                u *= z.get(y, 0.0)
            new[h] += u
        z = new
        hist.append(dict(z))
        if any(v > 1e6 for v in z.values()):
            return None
    return hist


def make_convergent(rules, V, rng, depth=60):
    """halve the weights of recursive rules until the iteration converges geometrically fast"""
    rules = [list(r) for r in rules]
    for _ in range(40):
        hist = zn_float(rules, V, depth)
        if hist is not None:
            a, b = hist[depth // 2 - 1], hist[-1]
            if all(abs(b[h] - a[h]) <= 1e-13 * max(1.0, abs(b[h])) for h in b):
                return rules
        for r in rules:
            if any(y not in V for y in r[2]):
                r[0] = r[0] / 2
    return rules


def gen_cfg(rng, shape=None, nnt=None, nterms=None, convergent=True, maxrules=8, maxbody=3, weights=None):
    """Returns (desc, shape) with desc = {"S","V","rules":[[w, head, body]…]}, weights as 'n/d' strings."""
    shape = shape or rng.choice(CFG_SHAPES)
    nnt = nnt or rng.choice([1, 2, 2, 3, 3, 4])
    nterms = nterms or rng.choice([1, 2, 2, 3])
    terms = TERMS[:nterms]
    nts = ["S"] + [f"N{i}" for i in range(1, nnt)]
    W = weights or DYADIC
    rules = []
    nrules = rng.randint(max(1, nnt), maxrules)
    for _ in range(nrules):
        rules.append([rng.choice(W), rng.choice(nts), _rand_body(rng, nts, terms, maxbody)])
    # every nonterminal gets a chance to terminate (except for some shapes)
    if shape not in ("empty_lang", "nongen_start"):
        for X in nts:
            if rng.random() < 0.8:
                rules.append([rng.choice(W), X, [rng.choice(terms) for _ in range(rng.choice([1, 1, 2]))]])
    A = rng.choice(nts)
    B = rng.choice(nts)
    if shape == "nullable":
        for X in rng.sample(nts, rng.randint(1, len(nts))):
            rules.append([rng.choice(W), X, []])
    elif shape == "nullable_run":
        # a token behind a RUN of nullable nonterminals in a long body (binarisation folds the run into fresh
        # nonterminals which must be nullable too; derivatives multiply the skipped null weights)
        n1, n2 = rng.choice(nts), rng.choice(nts + ["Nz"])
        for X in {n1, n2}:
            rules.append([rng.choice(SMALL), X, []])
            rules.append([rng.choice(SMALL), X, [rng.choice(terms)]])
        t = rng.choice(terms)
        rules.append([rng.choice(W), A, [n1, n2, t] + ([rng.choice(terms + nts)] if rng.random() < 0.4 else [])])
        if rng.random() < 0.5:
            rules.append([rng.choice(SMALL), "S", [n2, n1, n1, rng.choice(terms)]])
        rules.append([rng.choice(W), "S", [rng.choice(terms)]])
    elif shape == "mutual_left_rec":
        # left-corner cycle through several nonterminals, entered at different symbols by different start rules
        cyc = [f"L{k}" for k in range(rng.choice([2, 3, 3]))]
        for k, X in enumerate(cyc):
            rules.append([rng.choice(SMALL), X, [cyc[(k + 1) % len(cyc)], rng.choice(terms)]])
        rules.append([rng.choice(W), cyc[-1], [rng.choice(terms)]])
        if rng.random() < 0.5:
            rules.append([rng.choice(W), cyc[0], [rng.choice(terms)]])
        for X in cyc:
            rules.append([rng.choice(W), "S", [rng.choice(terms), X]])
        if rng.random() < 0.5:
            rules.append([rng.choice(W), "S", [cyc[0]]])
    elif shape == "lc_unary_cycle":
        # an INDIRECT left-corner cycle whose way back is a unary rule (B -> D t, D -> B), entered first at B, which also has
        # single-terminal rules; a later position expects only the inner node D (S -> B t D t)
        rules.append([rng.choice(SMALL), "Lb", ["Ld", rng.choice(terms)]])
        for t in terms:
            rules.append([rng.choice(W), "Lb", [t]])
        rules.append([rng.choice(SMALL), "Ld", ["Lb"]])
        if rng.random() < 0.7:
            rules.append([rng.choice(SMALL), "Ld", [rng.choice(terms), "Ld", rng.choice(terms)]])
        rules.append([rng.choice(W), "S", ["Lb", rng.choice(terms), "Ld", rng.choice(terms)]])
        if rng.random() < 0.3:
            rules.append([rng.choice(W), "S", ["Ld", rng.choice(terms)]])
    elif shape == "cnf_like":
        # ALREADY in (textbook) Chomsky normal form — only A -> a and A -> B C — with the start symbol on right-hand sides and
        # no empty rule: conversion must still take the start symbol off the right-hand sides
        rules = []
        for X in nts:
            rules.append([rng.choice(W), X, [rng.choice(terms)]])
            if rng.random() < 0.7:
                rules.append([rng.choice(SMALL), X, [rng.choice(nts), rng.choice(nts)]])
        rules.append([rng.choice(SMALL), "S", ["S", rng.choice(nts)] if rng.random() < 0.5 else [rng.choice(nts), "S"]])
    elif shape == "unary_scc_chord":
        # a unary component that is NOT a simple cycle (A->R, R->A, B->R, A->B): whether a depth-first search sees the edge into
        # an explored, unfinished, non-ancestor node depends on the iteration order, i.e. on the names
        pool = rng.sample(["Qa", "Qb", "Qc", "Qd", "Qe", "Qf", "Qg"], 3)
        a_, r_, b_ = pool
        for x, y in ((a_, r_), (r_, a_), (b_, r_), (a_, b_)):
            rules.append([rng.choice(SMALL) / 2, x, [y]])
        rules.append([rng.choice(W), rng.choice(pool), [rng.choice(terms)]])
        rules.append([rng.choice(W), "S", [rng.choice(pool)]])
        if rng.random() < 0.5:
            rules.append([rng.choice(W), "S", [rng.choice(terms), rng.choice(pool)]])
    elif shape == "mutual3":
        # three (or four) mutually recursive nonterminals with chords: one SCC that a DFS can enter and close in many orders
        m = [f"M{k}" for k in rng.sample(range(9), rng.choice([3, 3, 4]))]
        for k, X in enumerate(m):
            rules.append([rng.choice(SMALL), X, [m[(k + 1) % len(m)], rng.choice(terms)]])
            rules.append([rng.choice(W), X, [rng.choice(terms)]])
        for _ in range(rng.randint(1, 3)):
            x, y = rng.sample(m, 2)
            rules.append([rng.choice(SMALL), x, [rng.choice(terms), y] if rng.random() < 0.5 else [y, y]])
        rules.append([rng.choice(W), "S", [rng.choice(m), rng.choice(m)] if rng.random() < 0.5 else [rng.choice(m)]])
    elif shape == "nullable_cycle":
        rules.append([rng.choice(W), A, []])
        rules.append([rng.choice(SMALL), A, [A, A]])
        rules.append([rng.choice(SMALL), B, [A, B]])
        rules.append([rng.choice(W), B, []])
    elif shape == "unary_chain":
        chain = rng.sample(nts, len(nts))
        for x, y in zip(chain, chain[1:]):
            rules.append([rng.choice(W), x, [y]])
    elif shape == "unary_cycle":
        cyc = rng.sample(nts, rng.randint(1, len(nts)))
        for x, y in zip(cyc, cyc[1:] + cyc[:1]):
            rules.append([rng.choice(SMALL), x, [y]])
        if rng.random() < 0.7:
            # a SECOND unary cycle (a self-loop or a 2-cycle) and a unary rule that links the two cyclic components:
            # the link belongs to neither component's closure
            z = ["Uz"] if rng.random() < 0.5 else ["Uz", "Uy"]
            for x, y in zip(z, z[1:] + z[:1]):
                rules.append([rng.choice(SMALL), x, [y]])
            rules.append([rng.choice(SMALL), rng.choice(cyc), [z[0]]])
            rules.append([rng.choice(W), z[-1], [rng.choice(terms)]])
            if rng.random() < 0.3:
                rules.append([rng.choice(SMALL), z[-1], [rng.choice(cyc)]] if False else [rng.choice(SMALL), "S", [z[0], rng.choice(terms)]])
    elif shape == "left_rec":
        rules.append([rng.choice(SMALL), A, [A, rng.choice(terms)]])
        rules.append([rng.choice(SMALL), "S", ["S"] + _rand_body(rng, nts, terms, 2)])
    elif shape == "right_rec":
        rules.append([rng.choice(SMALL), A, [rng.choice(terms), A]])
    elif shape == "useless":
        rules.append([rng.choice(W), "U1", ["U1", rng.choice(terms)]])      # non-generating, unreachable
        rules.append([rng.choice(W), A, ["U2", rng.choice(terms)]])          # reachable, non-generating
        rules.append([rng.choice(W), "U2", ["U2"]])
        rules.append([rng.choice(W), "U3", [rng.choice(terms)]])            # generating, unreachable
        rules.append([rng.choice(W), "S", ["N9", "U2"]])                     # generating sibling of a dead symbol
        rules.append([rng.choice(W), "N9", [rng.choice(terms)]])
    elif shape == "nongen_start":
        rules = [r for r in rules if r[1] != "S"]
        rules.append([rng.choice(W), "S", ["S", rng.choice(terms)]])
        rules.append([rng.choice(W), "S", ["Dead", rng.choice(nts)]])
        rules.append([rng.choice(W), "Dead", ["Dead"]])
        rules.append([rng.choice(W), rng.choice(nts[1:] or ["N1"]), [rng.choice(terms)]])
    elif shape == "empty_lang":
        rules = [[w, h, b + [rng.choice(nts)]] for w, h, b in rules]
    elif shape == "eps_only":
        rules = [[w, h, [y for y in b if y not in terms]] for w, h, b in rules]
        rules.append([rng.choice(W), "S", []])
    elif shape == "dup_rules":
        for r in rng.sample(rules, min(3, len(rules))):
            rules.append([rng.choice(W), r[1], list(r[2])])
    elif shape == "start_on_rhs":
        rules.append([rng.choice(SMALL), A, [rng.choice(terms), "S"]])
        rules.append([rng.choice(SMALL), "S", ["S", "S"]])
    elif shape == "repeat_sym":
        rules.append([rng.choice(SMALL), A, [B, B]])
        rules.append([rng.choice(SMALL), B, [B, rng.choice(terms), B]])
        rules.append([rng.choice(W), B, [rng.choice(terms), rng.choice(terms)]])
    elif shape == "undefined_nt":
        rules.append([rng.choice(W), A, ["Undef", rng.choice(terms)]])
        rules.append([rng.choice(W), A, [rng.choice(terms), "Undef2"]])
        rules.append([rng.choice(SMALL), rng.choice(nts), ["Undef3"]])     # a UNARY rule to a nonterminal that heads no rule
    elif shape == "mixed":
        rules.append([rng.choice(W), A, []])
        rules.append([rng.choice(SMALL), A, [B]])
        rules.append([rng.choice(SMALL), B, [A]])
        rules.append([rng.choice(SMALL), B, [B, A]])
    # orthogonal twist: an EXACT duplicate (same weight, head, body) of some rule — rule lists are multisets, while
    # `Rule` hashes/compares structurally, so anything keyed by Rule objects silently merges the copies
    if shape == "useless" and rng.random() < 0.6:
        # a head whose ONLY rule (listed twice, identically) has one generating and one dead body symbol, used elsewhere
        w = rng.choice(W)
        body = [rng.choice(terms), "U2"] if rng.random() < 0.5 else ["N9", "U2"]
        rules.append([w, "Ud", list(body)])
        rules.append([w, "Ud", list(body)])
        rules.append([rng.choice(W), A, ["Ud"]])
        rules.append([rng.choice(W), "S", [rng.choice(terms), "Ud"]])
    elif rng.random() < 0.3 and rules:
        r = rng.choice(rules)
        rules.append([r[0], r[1], list(r[2])])
    rng.shuffle(rules)
    V = set(terms)
    # unary part: keep every row of the unary matrix below 1/2 so that its closure converges
    # (a self-loop of weight >= 1 is a divergent input, outside every property)
    for _ in range(12):
        rows = {}
        for w, h, b in rules:
            if len(b) == 1 and b[0] not in V:
                rows[h] = rows.get(h, 0) + w
        bad = {h for h, v in rows.items() if v > Fraction(1, 2)}
        if not bad:
            break
        for r in rules:
            if r[1] in bad and len(r[2]) == 1 and r[2][0] not in V:
                r[0] = r[0] / 2
    if convergent:
        rules = make_convergent(rules, V, rng)
    desc = {"S": "S", "V": sorted(V), "rules": [[frac_str(w), h, list(b)] for w, h, b in rules]}
    return desc, shape


def reconverge(desc, rng=None):
    """re-establish geometric convergence after a plug-in has ADDED rules to a generated grammar (the added mass can push a
    recursive nonterminal over the edge: Z = c + w·Z² has no finite solution once 4wc > 1)"""
    V = set(desc["V"])
    rules = [[Fraction(w) if not isinstance(w, bool) else w, h, list(b)] for w, h, b in desc["rules"]]
    if any(isinstance(r[0], bool) for r in rules):
        return desc
    rules = make_convergent(rules, V, rng)
    return {**desc, "rules": [[frac_str(w), h, b] for w, h, b in rules]}


def intify_terms(desc, *string_lists, offset=0):
    """rename the terminals to the integers 0, 1, … (token ids): `0` is a FALSY terminal, as are the NUL byte and `()`;
    with offset = -len(V) the ids are -n … -1, so that `renumber()` starts its names at 0 (a falsy START symbol);
    returns (desc', renamed string lists)"""
    m = {v: k + offset for k, v in enumerate(desc["V"])}
    f = lambda y: m.get(y, y) if isinstance(y, str) else y  # noqa
    d = {**desc, "V": [m[v] for v in desc["V"]], "rules": [[w, h, [f(y) for y in b]] for w, h, b in desc["rules"]]}
    return d, [[[f(y) for y in x] for x in xs] for xs in string_lists], m


def to_bool(desc):
    return {"S": desc["S"], "V": desc["V"], "rules": [[True, h, b] for _, h, b in desc["rules"]]}


def sample_string(rng, desc, maxlen=5, maxdepth=12):
    """random derivation from S (returns None if it fails to terminate within the bounds)"""
    V = set(desc["V"])
    by = {}
    for _, h, b in desc["rules"]:
        by.setdefault(h, []).append(b)

    def expand(X, d):
        if X in V:
            return [X]
        if d <= 0 or X not in by:
            return None
        opts = by[X]
        if d <= 3:
            opts = sorted(opts, key=len)[: max(1, len(opts) // 2)]
        out = []
        for y in rng.choice(opts):
            s = expand(y, d - 1)
            if s is None:
                return None
            out += s
            if len(out) > maxlen:
                return None
        return out
    for _ in range(6):
        s = expand(desc["S"], maxdepth)
        if s is not None:
            return s
    return None


def gen_strings(rng, desc, k=6, maxlen=4):
    """strings to evaluate: sampled derivations, one-token corruptions, random strings, the empty string"""
    V = desc["V"] or ["a"]
    out = [[]]
    for _ in range(k):
        s = sample_string(rng, desc, maxlen)
        if s is not None:
            out.append(s)
            if s and rng.random() < 0.5:
                t = list(s)
                t[rng.randrange(len(t))] = rng.choice(V)
                out.append(t)
            if rng.random() < 0.3:
                out.append(s[:-1] if s else s)
    for _ in range(k // 2 + 1):
        out.append([rng.choice(V) for _ in range(rng.randint(0, maxlen))])
    seen, res = set(), []
    for s in out:
        if len(s) <= maxlen and tuple(s) not in seen:
            seen.add(tuple(s))
            res.append(s)
    return res


def all_strings(V, maxlen):
    out = [[]]
    frontier = [[]]
    for _ in range(maxlen):
        frontier = [s + [a] for s in frontier for a in V]
        out += frontier
    return out


# ----------------------------------------------------------------------------- automata
WFSA_SHAPES = ["plain", "multi_init_final", "parallel", "eps", "eps_cycle", "dead_states", "named_like_symbols", "acyclic", "init_is_final", "empty"]


def gen_wfsa(rng, shape=None, nstates=None, nsyms=None, weights=None, allow_eps=True):
    """Returns (desc, shape); ε-row sums ≤ 1/2 so that ε-closures converge geometrically."""
    shape = shape or rng.choice(WFSA_SHAPES)
    n = nstates or rng.choice([1, 2, 2, 3, 3, 4])
    syms = TERMS[: (nsyms or rng.choice([1, 2, 2, 3]))]
    W = weights or SMALL + [Fraction(1), Fraction(3, 4)]
    states = list(range(n))
    if shape == "named_like_symbols":
        states = (syms + ["q", "r", "s"])[:n]
    arcs = []
    narcs = rng.randint(n, 2 * n + 2)
    acyc = shape == "acyclic"
    for _ in range(narcs):
        i, j = rng.randrange(n), rng.randrange(n)
        if acyc:
            if i == j:
                continue
            i, j = min(i, j), max(i, j)
        arcs.append([states[i], rng.choice(syms), states[j], rng.choice(W)])
    start = [[states[0], rng.choice(W)]]
    stop = [[states[-1], rng.choice(W)]]
    if shape == "multi_init_final":
        for q in rng.sample(states, rng.randint(1, n)):
            start.append([q, rng.choice(W)])
        for q in rng.sample(states, rng.randint(1, n)):
            stop.append([q, rng.choice(W)])
    if shape == "init_is_final":
        stop.append([states[0], rng.choice(W)])
    if shape == "parallel" and arcs:
        for a in rng.sample(arcs, min(2, len(arcs))):
            arcs.append([a[0], a[1], a[2], rng.choice(W)])          # same triple again: accumulates
            arcs.append([a[0], rng.choice(syms), a[2], rng.choice(W)])
    if shape in ("eps", "eps_cycle") and allow_eps:
        for _ in range(rng.randint(1, 3)):
            i, j = rng.randrange(n), rng.randrange(n)
            if shape == "eps" and i >= j:
                if i == j:
                    continue
                i, j = j, i
            arcs.append([states[i], "", states[j], rng.choice(SMALL)])
        if shape == "eps_cycle":
            i = rng.randrange(n)
            arcs.append([states[i], "", states[i], rng.choice(SMALL)])
            if n > 1:
                j = (i + 1) % n
                arcs.append([states[i], "", states[j], rng.choice(SMALL)])
                arcs.append([states[j], "", states[i], rng.choice(SMALL)])
    if shape == "dead_states":
        arcs.append([states[0], rng.choice(syms), "dead", rng.choice(W)])
        arcs.append(["dead", rng.choice(syms), "dead", rng.choice(W)])
        arcs.append(["unreach", rng.choice(syms), states[-1], rng.choice(W)])
    if shape == "empty":
        stop = []
    # ε rows ≤ 1/2
    for _ in range(10):
        rows = {}
        for i, a, j, w in arcs:
            if a == "":
                rows[i] = rows.get(i, 0) + w
        bad = {i for i, v in rows.items() if v > Fraction(1, 2)}
        if not bad:
            break
        for a in arcs:
            if a[1] == "" and a[0] in bad:
                a[3] = a[3] / 2
    desc = {"start": [[q, frac_str(w)] for q, w in start], "stop": [[q, frac_str(w)] for q, w in stop],
            "arcs": [[i, a, j, frac_str(w)] for i, a, j, w in arcs], "syms": syms}
    return desc, shape


def wfsa_to_bool(desc):
    return {"start": [[q, True] for q, _ in desc["start"]], "stop": [[q, True] for q, _ in desc["stop"]],
            "arcs": [[i, a, j, True] for i, a, j, _ in desc["arcs"]], "syms": desc["syms"]}


def eps_acyclic(desc):
    g = {}
    for i, a, j, _ in desc["arcs"]:
        if a == "":
            g.setdefault(symkey_(i), set()).add(symkey_(j))
    seen, stack = {}, []

    def dfs(u):
        seen[u] = 1
        for v in g.get(u, ()):
            if seen.get(v) == 1:
                return False
            if v not in seen and not dfs(v):
                return False
        seen[u] = 2
        return True
    return all(dfs(u) for u in list(g) if u not in seen)


def symkey_(x):
    import json
    return json.dumps(x, sort_keys=True)


def wfsa_states(desc):
    out = []
    for q, _ in desc["start"] + desc["stop"]:
        if q not in out:
            out.append(q)
    for i, _, j, _ in desc["arcs"]:
        for q in (i, j):
            if q not in out:
                out.append(q)
    return out


# ----------------------------------------------------------------------------- transducers
FST_SHAPES = ["plain", "eps_out", "eps_in", "eps_eps", "cyclic", "multi_init_final", "dead_states", "tiny"]


def gen_fst(rng, shape=None, nstates=None, in_syms=None, out_syms=None):
    """Returns (desc, shape) with arcs [i, a, b, j, w]; every arc with an ε on some tape has a small
    weight and the per-state sum of such arcs is ≤ 1/2 (all ε-paths converge geometrically)."""
    shape = shape or rng.choice(FST_SHAPES)
    n = nstates or (1 if shape == "tiny" else rng.choice([1, 2, 2, 3]))
    A = in_syms or TERMS[:2]
    B = out_syms or ["x", "y"]
    W = SMALL + [Fraction(1), Fraction(3, 4)]
    states = list(range(n))
    arcs = []
    for _ in range(rng.randint(n, 2 * n + 2)):
        i, j = rng.randrange(n), rng.randrange(n)
        a, b = rng.choice(A), rng.choice(B)
        if shape == "eps_out" and rng.random() < 0.4:
            b = ""
        if shape == "eps_in" and rng.random() < 0.4:
            a = ""
        if shape in ("eps_eps", "cyclic") and rng.random() < 0.3:
            a, b = rng.choice([("", ""), ("", b), (a, "")])
        arcs.append([states[i], a, b, states[j], rng.choice(W if a != "" and b != "" else SMALL)])
    if arcs and rng.random() < 0.4:
        # parallel arcs: same states and same label on one tape, different label on the other
        e = rng.choice(arcs)
        arcs.append([e[0], e[1], rng.choice(B + [""]), e[3], rng.choice(SMALL)])
        arcs.append([e[0], rng.choice(A + [""]), e[2], e[3], rng.choice(SMALL)])
    if shape == "cyclic":
        i = rng.randrange(n)
        arcs.append([states[i], "", "", states[i], rng.choice(SMALL)])
        arcs.append([states[i], "", rng.choice(B), states[(i + 1) % n], rng.choice(SMALL)])
        arcs.append([states[(i + 1) % n], rng.choice(A), "", states[i], rng.choice(SMALL)])
    start = [[states[0], rng.choice(W)]]
    stop = [[states[-1], rng.choice(W)]]
    if shape == "multi_init_final":
        for q in rng.sample(states, rng.randint(1, n)):
            start.append([q, rng.choice(W)])
        for q in rng.sample(states, rng.randint(1, n)):
            stop.append([q, rng.choice(W)])
    if shape == "dead_states":
        arcs.append([states[0], rng.choice(A), rng.choice(B), "dead", rng.choice(W)])
        arcs.append(["unreach", rng.choice(A), rng.choice(B), states[-1], rng.choice(W)])
    for _ in range(10):
        rows = {}
        for i, a, b, j, w in arcs:
            if a == "" or b == "":
                rows[i] = rows.get(i, 0) + w
        bad = {i for i, v in rows.items() if v > Fraction(1, 2)}
        if not bad:
            break
        for e in arcs:
            if (e[1] == "" or e[2] == "") and e[0] in bad:
                e[4] = e[4] / 2
    desc = {"start": [[q, frac_str(w)] for q, w in start], "stop": [[q, frac_str(w)] for q, w in stop],
            "arcs": [[i, a, b, j, frac_str(w)] for i, a, b, j, w in arcs], "in_syms": A, "out_syms": B}
    return desc, shape


def fst_to_bool(desc):
    return {**desc, "start": [[q, True] for q, _ in desc["start"]], "stop": [[q, True] for q, _ in desc["stop"]],
            "arcs": [[i, a, b, j, True] for i, a, b, j, _ in desc["arcs"]]}


def fst_states(desc):
    out = []
    for q, _ in desc["start"] + desc["stop"]:
        if q not in out:
            out.append(q)
    for e in desc["arcs"]:
        for q in (e[0], e[3]):
            if q not in out:
                out.append(q)
    return out


def fst_eps_acyclic(desc):
    """no cycle of ε:ε arcs"""
    d = {"arcs": [[e[0], "", e[3], e[4]] for e in desc["arcs"] if e[1] == "" and e[2] == ""]}
    return eps_acyclic(d)


def gen_finite_cfg(rng, terms=None, weights=None):
    """two-level acyclic grammar: every string has length ≤ 4 (exact finite sums everywhere)"""
    terms = terms or TERMS[:2]
    W = weights or DYADIC
    l1 = [f"N{i}" for i in range(1, rng.choice([2, 3, 4]))]
    rules = []
    for X in l1:
        for _ in range(rng.randint(1, 3)):
            rules.append([rng.choice(W), X, [rng.choice(terms) for _ in range(rng.choice([0, 1, 1, 2]))]])
    for _ in range(rng.randint(2, 4)):
        body = [rng.choice(l1 + terms) for _ in range(rng.choice([0, 1, 2, 2]))]
        rules.append([rng.choice(W), "S", body])
    if rng.random() < 0.3:
        rules.append([rng.choice(W), "S", [rng.choice(l1)]])      # unary
    if rng.random() < 0.3:
        r = rng.choice(rules)
        rules.append([rng.choice(W), r[1], list(r[2])])           # duplicate
    if rng.random() < 0.3:
        r = rng.choice(rules)
        rules.append([r[0], r[1], list(r[2])])                    # exact duplicate (same weight)
    rng.shuffle(rules)
    return {"S": "S", "V": sorted(terms), "rules": [[frac_str(w), h, b] for w, h, b in rules]}
