"""Python-AST -> Lean translator for the arithmetic parts of /repo (filled in below)."""


def run():
    return {"ok": True, "log": "no translation units yet"}
