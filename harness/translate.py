"""Python-AST -> Lean translator for the parts of /repo that are plain arithmetic.

Regenerated on every run (DESIGN 5.1):
  * genlm/grammar/semiring.py  ->  lean/GenlmModel/Generated/Semiring.lean
      for every shipped weight type its `+`, `*`, `star`, `zero`, `one` as Lean definitions over an
      abstract scalar type `T` (operations passed as type-class instances / parameters);
  * genlm/grammar/parse/earley.py, earley_rescaled.py  ->  lean/GenlmModel/Generated/Earley.lean
      the expression assigned to `ORDER_MAX` and the agenda priority expression.
The law proofs (Proofs/Semiring.lean, Proofs/Prio.lean) are about these generated definitions, so they
are re-checked against what the source says now.  Anything outside the supported subset raises
`Untranslatable`, which the checks treat like a broken proof (never silently skipped).
"""
import ast
import os

from harness import common


class Untranslatable(Exception):
    pass


SCALAR = {"Real", "MaxPlus", "MaxTimes", "Log"}
PAIR = {"Expectation", "Entropy"}
ALL = ["Boolean", "Real", "Float", "MaxPlus", "MaxTimes", "Expectation", "Entropy", "Log"]


class Ctx:
    def __init__(self, cls, kind, tagged):
        self.cls, self.kind, self.tagged = cls, kind, tagged
        self.cvals = {}
        self.env = {}       # python local name -> lean expr (scalar)
        self.uses = set()   # operations used


def _attr_chain(n):
    if isinstance(n, ast.Attribute):
        b = _attr_chain(n.value)
        return None if b is None else b + [n.attr]
    if isinstance(n, ast.Name):
        return [n.id]
    return None


def scal(n, c):
    """scalar-valued python expression -> Lean term over T"""
    if isinstance(n, ast.Constant):
        v = n.value
        if isinstance(v, bool) and c.kind == "bool":
            return "true" if v else "false"
        if isinstance(v, (int, float)) and float(v) == int(v) and 0 <= int(v) <= 9:
            return f"({int(v)} : T)"
        raise Untranslatable(f"constant {v!r}")
    if isinstance(n, ast.Name):
        if n.id in c.env:
            return c.env[n.id]
        raise Untranslatable(f"name {n.id}")
    if isinstance(n, ast.UnaryOp) and isinstance(n.op, ast.USub):
        ch = _attr_chain(n.operand)
        if ch == ["np", "inf"]:
            c.uses.add("negInf")
            return "negInf"
        c.uses.add("neg")
        return f"(- {scal(n.operand, c)})"
    if isinstance(n, ast.BinOp):
        op = {ast.Add: "+", ast.Sub: "-", ast.Mult: "*", ast.Div: "/"}.get(type(n.op))
        if op is None:
            raise Untranslatable(f"operator {ast.dump(n.op)}")
        c.uses.add({"+": "add", "-": "sub", "*": "mul", "/": "div"}[op])
        return f"({scal(n.left, c)} {op} {scal(n.right, c)})"
    if isinstance(n, ast.Subscript):
        ch = _attr_chain(n.value)
        if ch in (["self", "score"], ["other", "score"]) and isinstance(n.slice, ast.Constant) and n.slice.value in (0, 1) and c.kind == "pair":
            v = 'a' if ch[0] == 'self' else 'b'
            return f"{v}.2.{n.slice.value + 1}" if c.tagged else f"{v}.{n.slice.value + 1}"
        raise Untranslatable("subscript")
    if isinstance(n, ast.Attribute):
        ch = _attr_chain(n)
        if ch in (["self", "score"], ["other", "score"]) and c.kind in ("scalar", "bool"):
            return "a" if ch[0] == "self" else "b"
        raise Untranslatable(f"attribute {ch}")
    if isinstance(n, ast.Call):
        ch = _attr_chain(n.func)
        if ch == ["max"] and len(n.args) == 2:
            c.uses.add("max")
            return f"(max {scal(n.args[0], c)} {scal(n.args[1], c)})"
        if ch in (["np", "log"], ["np", "exp"], ["np", "log1p"]) and len(n.args) == 1:
            c.uses.add(ch[1])
            return f"({ch[1]} {scal(n.args[0], c)})"
        if ch == ["bool"] and c.kind == "bool":
            return scal(n.args[0], c)
        raise Untranslatable(f"call {ch}")
    if isinstance(n, ast.BoolOp) and c.kind == "bool":
        op = "||" if isinstance(n.op, ast.Or) else "&&"
        return "(" + f" {op} ".join(scal(v, c) for v in n.values) + ")"
    raise Untranslatable(ast.dump(n)[:80])


def value(n, c):
    """semiring-valued python expression -> Lean term of the value type"""
    ch = _attr_chain(n)
    if ch is not None:
        if ch == ["self"]:
            return "a"
        if ch == ["other"]:
            return "b"
        if len(ch) == 2 and ch[0] in ("self", "other", c.cls) and ch[1] in ("zero", "one"):
            return c.cvals[ch[1]]
        if c.kind == "float" and ch == ["self"]:
            return "a"
    if isinstance(n, ast.Call):
        f = _attr_chain(n.func)
        if f == [c.cls]:
            args = [scal(x, c) for x in n.args]
            if c.kind == "pair" and len(args) == 2:
                body = f"({args[0]}, {args[1]})"
                return f"(Tag.fresh, {body})" if c.tagged else body
            if c.kind in ("scalar", "bool") and len(args) == 1:
                return args[0]
        raise Untranslatable(f"value call {f}")
    if c.kind == "float":
        return scal_float(n, c)
    raise Untranslatable("value " + ast.dump(n)[:80])


def scal_float(n, c):
    # Float.star: `1 / (1 - self)` — `self` is the number itself
    if isinstance(n, ast.Name) and n.id == "self":
        return "a"
    if isinstance(n, ast.BinOp):
        op = {ast.Add: "+", ast.Sub: "-", ast.Mult: "*", ast.Div: "/"}.get(type(n.op))
        if op is None:
            raise Untranslatable("float op")
        return f"({scal_float(n.left, c)} {op} {scal_float(n.right, c)})"
    if isinstance(n, ast.Constant) and isinstance(n.value, (int, float)) and float(n.value) == int(n.value):
        return f"({int(n.value)} : T)"
    raise Untranslatable("float expr " + ast.dump(n)[:60])


def test(n, c):
    """python condition -> Lean Bool/Prop term"""
    if isinstance(n, ast.Compare) and len(n.ops) == 1:
        l, r, op = n.left, n.comparators[0], n.ops[0]
        lc, rc = _attr_chain(l), _attr_chain(r)
        if isinstance(op, ast.Is) and lc in (["self"], ["other"]) and rc and rc[-1] in ("zero", "one") and c.tagged:
            v = "a" if lc == ["self"] else "b"
            return f"({v}.1 = Tag.{rc[-1]})"
        if isinstance(op, ast.Eq) and lc in (["self"], ["other"]) and rc and rc[-1] in ("zero", "one") and c.kind == "scalar":
            v = "a" if lc == ["self"] else "b"
            return f"({v} = {c.cvals[rc[-1]]})"
        if isinstance(op, (ast.Gt, ast.Lt, ast.GtE, ast.LtE)):
            s = {ast.Gt: ">", ast.Lt: "<", ast.GtE: "≥", ast.LtE: "≤"}[type(op)]
            c.uses.add("lt")
            return f"({scal(l, c)} {s} {scal(r, c)})"
    if c.kind == "bool":
        return f"({scal(n, c)} = true)"
    raise Untranslatable("test " + ast.dump(n)[:80])


def block(stmts, c):
    """statement list ending in return (along every path) -> Lean term"""
    if not stmts:
        raise Untranslatable("fall-through without return")
    s, rest = stmts[0], stmts[1:]
    if isinstance(s, ast.Expr) and isinstance(s.value, ast.Constant):  # docstring
        return block(rest, c)
    if isinstance(s, ast.Return):
        return value(s.value, c)
    if isinstance(s, ast.If):
        t = test(s.test, c)
        thn = block(s.body, c)
        els = block(s.orelse if s.orelse else rest, c)
        return f"(if {t} then {thn} else {els})"
    if isinstance(s, ast.Assign) and len(s.targets) == 1:
        tg = s.targets[0]
        if isinstance(tg, ast.Name):
            e = scal(s.value, c)
            inner = Ctx(c.cls, c.kind, c.tagged)
            inner.cvals = c.cvals
            inner.env = dict(c.env)
            inner.env[tg.id] = tg.id
            inner.uses = c.uses
            return f"(let {tg.id} := {e}; {block(rest, inner)})"
        if isinstance(tg, ast.Tuple) and _attr_chain(s.value) in (["self", "score"], ["other", "score"]) and c.kind == "pair":
            v = "a" if _attr_chain(s.value)[0] == "self" else "b"
            inner = Ctx(c.cls, c.kind, c.tagged)
            inner.cvals = c.cvals
            inner.env = dict(c.env)
            inner.uses = c.uses
            for k, el in enumerate(tg.elts):
                inner.env[el.id] = f"{v}.2.{k + 1}" if c.tagged else f"{v}.{k + 1}"
            return block(rest, inner)
    raise Untranslatable("statement " + ast.dump(s)[:80])


def translate_semiring(src):
    tree = ast.parse(src)
    classes = {n.name: n for n in tree.body if isinstance(n, ast.ClassDef)}
    consts = {}
    for n in tree.body:
        if isinstance(n, ast.Assign) and len(n.targets) == 1:
            ch = _attr_chain(n.targets[0])
            if ch and len(ch) == 2 and ch[0] in classes and ch[1] in ("zero", "one"):
                consts[(ch[0], ch[1])] = n.value
    out = ["/- GENERATED by harness/translate.py from genlm/grammar/semiring.py — do not edit -/",
           "namespace Genlm.Gen", "",
           "/-- identity tag of a value: Python `x is R.zero` / `x is R.one` tests -/",
           "inductive Tag | zero | one | fresh", "deriving DecidableEq, Repr", ""]
    for name in ALL:
        if name not in classes:
            raise Untranslatable(f"class {name} missing")
        cls = classes[name]
        meths = {m.name: m for m in cls.body if isinstance(m, ast.FunctionDef)}
        kind = "bool" if name == "Boolean" else "float" if name == "Float" else "pair" if name in PAIR else "scalar"
        src_txt = ast.unparse(cls)
        tagged = kind == "pair" and (" is self.zero" in src_txt or " is self.one" in src_txt)
        uses = set()
        cvals = {}

        def mk(cname):
            c = Ctx(name, kind, tagged)
            c.env = {}
            c.uses = uses
            c.cvals = cvals
            return c
        # constants
        for cn in ("zero", "one"):
            if kind == "float":
                val = next((s.value for s in cls.body if isinstance(s, ast.Assign) and _attr_chain(s.targets[0]) == [cn]), None)
                if val is None:
                    raise Untranslatable(f"Float.{cn}")
                cvals[cn] = scal_float(val, mk(cn))
            else:
                e = consts.get((name, cn))
                if e is None:
                    raise Untranslatable(f"{name}.{cn} not assigned")
                c = mk(cn)
                if isinstance(e, ast.Call) and _attr_chain(e.func) == [name]:
                    args = [scal(x, c) for x in e.args]
                elif isinstance(e, ast.Call) and _attr_chain(e.func) == [name, "from_string"] and isinstance(e.args[0], ast.Constant):
                    # Expectation.from_string("<p,r>")
                    import re
                    m = re.fullmatch(r"<\s*([0-9.]+)\s*,\s*([0-9.]+)\s*>", e.args[0].value)
                    if not m:
                        raise Untranslatable("from_string constant")
                    args = [f"({int(float(m.group(1)))} : T)", f"({int(float(m.group(2)))} : T)"]
                else:
                    raise Untranslatable(f"{name}.{cn} initialiser")
                if kind == "pair":
                    body = f"({args[0]}, {args[1]})"
                    cvals[cn] = f"(Tag.{cn}, {body})" if tagged else body
                else:
                    cvals[cn] = args[0]
        # operations
        ops = {}
        for py, ln in (("__add__", "add"), ("__mul__", "mul"), ("star", "star")):
            if kind == "float" and py != "star":
                ops[ln] = "(a + b)" if ln == "add" else "(a * b)"   # Python's own + and * on numbers
                uses.add("add" if ln == "add" else "mul")
                continue
            if py not in meths:
                raise Untranslatable(f"{name}.{py} missing")
            c = mk(ln)
            ops[ln] = block(meths[py].body, c)
            if kind == "float":
                uses.update({"sub", "div"})
        # header
        if kind == "bool":
            vt, binders = "Bool", ""
        else:
            vt = "T" if kind in ("scalar", "float") else ("(Tag × T × T)" if tagged else "(T × T)")
            inst = ["[OfNat T 0] [OfNat T 1]"]
            for u, i in (("add", "[Add T]"), ("sub", "[Sub T]"), ("mul", "[Mul T]"), ("div", "[Div T]"), ("max", "[Max T]"),
                         ("neg", "[Neg T]"), ("lt", "[LT T] [DecidableLT T] [LE T] [DecidableLE T]")):
                if u in uses:
                    inst.append(i)
            if kind == "scalar" and any(" = " in ops[k] for k in ops):
                inst.append("[DecidableEq T]")
            params = []
            if "negInf" in uses:
                params.append("(negInf : T)")
            for fn in ("log", "exp", "log1p"):
                if fn in uses:
                    params.append(f"({fn} : T → T)")
            binders = "variable {T : Type} " + " ".join(inst) + (" " + " ".join(params) if params else "")
        out.append(f"namespace {name}")
        out.append("section")
        if binders:
            out.append(binders)
        out.append(f"def zeroV : {vt} := {cvals['zero']}")
        out.append(f"def oneV : {vt} := {cvals['one']}")
        extra = ""
        if kind != "bool":
            ps = [p for p in ("negInf",) if p in uses]
        # definitions that use zeroV/oneV need the section parameters applied implicitly: Lean includes
        # section `variable`s that are mentioned, so refer to constants through local notation
        out.append(f"def add (a b : {vt}) : {vt} := {ops['add']}")
        out.append(f"def mul (a b : {vt}) : {vt} := {ops['mul']}")
        out.append(f"def star (a : {vt}) : {vt} := {ops['star']}")
        out.append("end")
        out.append(f"end {name}")
        out.append("")
    out.append("end Genlm.Gen")
    return "\n".join(out) + "\n"


def _find_assign(tree, pred):
    for n in ast.walk(tree):
        if isinstance(n, ast.Assign) and len(n.targets) == 1 and pred(n.targets[0]):
            return n.value
    return None


def _int_expr(n, names):
    """integer expression over the given names -> Lean Int term"""
    if isinstance(n, ast.Constant) and isinstance(n.value, int):
        return f"({n.value} : Int)"
    if isinstance(n, ast.UnaryOp) and isinstance(n.op, ast.USub):
        return f"(- {_int_expr(n.operand, names)})"
    if isinstance(n, ast.BinOp):
        op = {ast.Add: "+", ast.Sub: "-", ast.Mult: "*"}.get(type(n.op))
        if op is None:
            raise Untranslatable("int op")
        return f"({_int_expr(n.left, names)} {op} {_int_expr(n.right, names)})"
    ch = _attr_chain(n)
    if ch is not None:
        key = ".".join(ch)
        if key in names:
            return names[key]
    if isinstance(n, ast.Subscript):
        ch = _attr_chain(n.value)
        if ch == ["self", "order"]:
            return names["order"]
    if isinstance(n, ast.Call) and _attr_chain(n.func) == ["max"] and len(n.args) == 1 and ast.unparse(n.args[0]) == "self.order.values()":
        return names["maxorder"]
    raise Untranslatable("int expr " + ast.unparse(n)[:60])


def translate_earley(src, ns):
    tree = ast.parse(src)
    om = _find_assign(tree, lambda t: _attr_chain(t) == ["self", "ORDER_MAX"])
    if om is None:
        raise Untranslatable("ORDER_MAX assignment not found")
    pr = _find_assign(tree, lambda t: isinstance(t, ast.Subscript) and _attr_chain(t.value) in (["Q"], ["col", "Q"]))
    if pr is None:
        raise Untranslatable("priority assignment not found")
    om_l = _int_expr(om, {"maxorder": "m"})
    pr_l = _int_expr(pr, {"K": "K", "I": "I", "self.ORDER_MAX": "OM", "order": "ord"})
    return (f"namespace {ns}\n/-- `self.ORDER_MAX = {ast.unparse(om)}` with `m = max(self.order.values())` -/\n"
            f"def orderMax (m : Int) : Int := {om_l}\n/-- agenda priority `{ast.unparse(pr)}` -/\n"
            f"def prio (K I OM ord : Int) : Int := {pr_l}\nend {ns}\n")


def _write_if_changed(path, txt):
    os.makedirs(os.path.dirname(path), exist_ok=True)
    if not os.path.exists(path) or open(path, encoding="utf-8").read() != txt:
        open(path, "w", encoding="utf-8").write(txt)


def run():
    gen = os.path.join(common.LEAN, "GenlmModel", "Generated")
    log, ok = [], True
    try:
        src = open(os.path.join(common.REPO, "genlm", "grammar", "semiring.py"), encoding="utf-8").read()
        _write_if_changed(os.path.join(gen, "Semiring.lean"), translate_semiring(src))
        log.append("semiring.py translated")
    except Untranslatable as e:
        ok = False
        log.append(f"semiring.py: untranslatable: {e}")
    try:
        parts = ["/- GENERATED by harness/translate.py from genlm/grammar/parse/earley*.py — do not edit -/\nnamespace Genlm.Gen\n"]
        for f, ns in (("earley.py", "Earley"), ("earley_rescaled.py", "EarleyRescaled")):
            parts.append(translate_earley(open(os.path.join(common.REPO, "genlm", "grammar", "parse", f), encoding="utf-8").read(), ns))
        parts.append("end Genlm.Gen\n")
        _write_if_changed(os.path.join(gen, "Earley.lean"), "\n".join(parts))
        log.append("earley priorities translated")
    except Untranslatable as e:
        ok = False
        log.append(f"earley: untranslatable: {e}")
    return {"ok": ok, "log": "; ".join(log)}


if __name__ == "__main__":
    print(run())
