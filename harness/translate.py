"""Python-AST -> Lean translator for the parts of /repo that are plain arithmetic.

Regenerated on every run (DESIGN 5.1):
  * genlm/grammar/semiring.py  ->  lean/GenlmModel/Generated/Semiring.lean
      for every shipped weight type its `+`, `*`, `star`, `zero`, `one` as Lean definitions over an
      abstract scalar type `T` (operations passed as type-class instances / parameters);
  * genlm/grammar/parse/earley.py, earley_rescaled.py  ->  lean/GenlmModel/Generated/Earley.lean
      the expression assigned to `ORDER_MAX` and the agenda priority expression.
  * the BUILDER functions of fst.py, cfg.py, cfglm.py, wfsa/base.py (table `BUILDERS`)  ->  Generated/Builders.lean
      one Lean definition per function in the vocabulary of the hand models; Proofs/GenLink/*.lean prove
      `gen_<f>_eq_model`: the regenerated definition IS the hand-written model.
  * the FOLD functions of chart.py, lm.py (table `FOLDS`: `Chart.sum`, `normalize`, `product`, `LM.__call__`)  ->  Generated/Folds.lean
      value-computing accumulator loops (with `break`), same theorems `gen_<f>_eq_model`.
The law proofs (Proofs/Semiring.lean, Proofs/Prio.lean, Proofs/GenLink/) are about these generated definitions, so
they are re-checked against what the source says now.  Anything outside the supported subset raises
`Untranslatable`, which the checks treat like a broken proof (never silently skipped).
"""
import warnings
warnings.filterwarnings("ignore", category=SyntaxWarning)   # docstrings of the translated sources contain LaTeX backslashes
import ast
import os
import re

from harness import common


class Untranslatable(Exception):
    pass


SCALAR = {"Real", "MaxPlus", "MaxTimes", "Log"}
PAIR = {"Expectation", "Entropy"}
ALL = ["Boolean", "Real", "Float", "MaxPlus", "MaxTimes", "Expectation", "Entropy", "Log"]


class Ctx:
    def __init__(self, cls, kind, tagged):
        self.cls, self.kind, self.tagged = cls, kind, tagged
        self.cvals = {}
        self.env = {}       # python local name -> lean expr (scalar)
        self.uses = set()   # operations used


def _attr_chain(n):
    if isinstance(n, ast.Attribute):
        b = _attr_chain(n.value)
        return None if b is None else b + [n.attr]
    if isinstance(n, ast.Name):
        return [n.id]
    return None


def scal(n, c):
    """scalar-valued python expression -> Lean term over T"""
    if isinstance(n, ast.Constant):
        v = n.value
        if isinstance(v, bool) and c.kind == "bool":
            return "true" if v else "false"
        if isinstance(v, (int, float)) and float(v) == int(v) and 0 <= int(v) <= 9:
            return f"({int(v)} : T)"
        raise Untranslatable(f"constant {v!r}")
    if isinstance(n, ast.Name):
        if n.id in c.env:
            return c.env[n.id]
        raise Untranslatable(f"name {n.id}")
    if isinstance(n, ast.UnaryOp) and isinstance(n.op, ast.USub):
        ch = _attr_chain(n.operand)
        if ch == ["np", "inf"]:
            c.uses.add("negInf")
            return "negInf"
        c.uses.add("neg")
        return f"(- {scal(n.operand, c)})"
    if isinstance(n, ast.BinOp):
        op = {ast.Add: "+", ast.Sub: "-", ast.Mult: "*", ast.Div: "/"}.get(type(n.op))
        if op is None:
            raise Untranslatable(f"operator {ast.dump(n.op)}")
        c.uses.add({"+": "add", "-": "sub", "*": "mul", "/": "div"}[op])
        return f"({scal(n.left, c)} {op} {scal(n.right, c)})"
    if isinstance(n, ast.Subscript):
        ch = _attr_chain(n.value)
        if ch in (["self", "score"], ["other", "score"]) and isinstance(n.slice, ast.Constant) and n.slice.value in (0, 1) and c.kind == "pair":
            v = 'a' if ch[0] == 'self' else 'b'
            return f"{v}.2.{n.slice.value + 1}" if c.tagged else f"{v}.{n.slice.value + 1}"
        raise Untranslatable("subscript")
    if isinstance(n, ast.Attribute):
        ch = _attr_chain(n)
        if ch in (["self", "score"], ["other", "score"]) and c.kind in ("scalar", "bool"):
            return "a" if ch[0] == "self" else "b"
        raise Untranslatable(f"attribute {ch}")
    if isinstance(n, ast.Call):
        ch = _attr_chain(n.func)
        if ch == ["max"] and len(n.args) == 2:
            c.uses.add("max")
            return f"(max {scal(n.args[0], c)} {scal(n.args[1], c)})"
        if ch in (["np", "log"], ["np", "exp"], ["np", "log1p"]) and len(n.args) == 1:
            c.uses.add(ch[1])
            return f"({ch[1]} {scal(n.args[0], c)})"
        if ch == ["bool"] and c.kind == "bool":
            return scal(n.args[0], c)
        raise Untranslatable(f"call {ch}")
    if isinstance(n, ast.BoolOp) and c.kind == "bool":
        op = "||" if isinstance(n.op, ast.Or) else "&&"
        return "(" + f" {op} ".join(scal(v, c) for v in n.values) + ")"
    raise Untranslatable(ast.dump(n)[:80])


def value(n, c):
    """semiring-valued python expression -> Lean term of the value type"""
    ch = _attr_chain(n)
    if ch is not None:
        if ch == ["self"]:
            return "a"
        if ch == ["other"]:
            return "b"
        if len(ch) == 2 and ch[0] in ("self", "other", c.cls) and ch[1] in ("zero", "one"):
            return c.cvals[ch[1]]
        if c.kind == "float" and ch == ["self"]:
            return "a"
    if isinstance(n, ast.Call):
        f = _attr_chain(n.func)
        if f == [c.cls]:
            args = [scal(x, c) for x in n.args]
            if c.kind == "pair" and len(args) == 2:
                body = f"({args[0]}, {args[1]})"
                return f"(Tag.fresh, {body})" if c.tagged else body
            if c.kind in ("scalar", "bool") and len(args) == 1:
                return args[0]
        raise Untranslatable(f"value call {f}")
    if c.kind == "float":
        return scal_float(n, c)
    raise Untranslatable("value " + ast.dump(n)[:80])


def scal_float(n, c):
    # Float.star: `1 / (1 - self)` — `self` is the number itself
    if isinstance(n, ast.Name) and n.id == "self":
        return "a"
    if isinstance(n, ast.BinOp):
        op = {ast.Add: "+", ast.Sub: "-", ast.Mult: "*", ast.Div: "/"}.get(type(n.op))
        if op is None:
            raise Untranslatable("float op")
        return f"({scal_float(n.left, c)} {op} {scal_float(n.right, c)})"
    if isinstance(n, ast.Constant) and isinstance(n.value, (int, float)) and float(n.value) == int(n.value):
        return f"({int(n.value)} : T)"
    raise Untranslatable("float expr " + ast.dump(n)[:60])


def test(n, c):
    """python condition -> Lean Bool/Prop term"""
    if isinstance(n, ast.Compare) and len(n.ops) == 1:
        l, r, op = n.left, n.comparators[0], n.ops[0]
        lc, rc = _attr_chain(l), _attr_chain(r)
        if isinstance(op, ast.Is) and lc in (["self"], ["other"]) and rc and rc[-1] in ("zero", "one") and c.tagged:
            v = "a" if lc == ["self"] else "b"
            return f"({v}.1 = Tag.{rc[-1]})"
        if isinstance(op, ast.Eq) and lc in (["self"], ["other"]) and rc and rc[-1] in ("zero", "one") and c.kind == "scalar":
            v = "a" if lc == ["self"] else "b"
            return f"({v} = {c.cvals[rc[-1]]})"
        if isinstance(op, (ast.Gt, ast.Lt, ast.GtE, ast.LtE)):
            s = {ast.Gt: ">", ast.Lt: "<", ast.GtE: "≥", ast.LtE: "≤"}[type(op)]
            c.uses.add("lt")
            return f"({scal(l, c)} {s} {scal(r, c)})"
    if c.kind == "bool":
        return f"({scal(n, c)} = true)"
    raise Untranslatable("test " + ast.dump(n)[:80])


def block(stmts, c):
    """statement list ending in return (along every path) -> Lean term"""
    if not stmts:
        raise Untranslatable("fall-through without return")
    s, rest = stmts[0], stmts[1:]
    if isinstance(s, ast.Expr) and isinstance(s.value, ast.Constant):  # docstring
        return block(rest, c)
    if isinstance(s, ast.Return):
        return value(s.value, c)
    if isinstance(s, ast.If):
        t = test(s.test, c)
        thn = block(s.body, c)
        els = block(s.orelse if s.orelse else rest, c)
        return f"(if {t} then {thn} else {els})"
    if isinstance(s, ast.Assign) and len(s.targets) == 1:
        tg = s.targets[0]
        if isinstance(tg, ast.Name):
            e = scal(s.value, c)
            inner = Ctx(c.cls, c.kind, c.tagged)
            inner.cvals = c.cvals
            inner.env = dict(c.env)
            inner.env[tg.id] = tg.id
            inner.uses = c.uses
            return f"(let {tg.id} := {e}; {block(rest, inner)})"
        if isinstance(tg, ast.Tuple) and _attr_chain(s.value) in (["self", "score"], ["other", "score"]) and c.kind == "pair":
            v = "a" if _attr_chain(s.value)[0] == "self" else "b"
            inner = Ctx(c.cls, c.kind, c.tagged)
            inner.cvals = c.cvals
            inner.env = dict(c.env)
            inner.uses = c.uses
            for k, el in enumerate(tg.elts):
                inner.env[el.id] = f"{v}.2.{k + 1}" if c.tagged else f"{v}.{k + 1}"
            return block(rest, inner)
    raise Untranslatable("statement " + ast.dump(s)[:80])


def translate_semiring(src):
    tree = ast.parse(src)
    classes = {n.name: n for n in tree.body if isinstance(n, ast.ClassDef)}
    consts = {}
    for n in tree.body:
        if isinstance(n, ast.Assign) and len(n.targets) == 1:
            ch = _attr_chain(n.targets[0])
            if ch and len(ch) == 2 and ch[0] in classes and ch[1] in ("zero", "one"):
                consts[(ch[0], ch[1])] = n.value
    out = ["/- GENERATED by harness/translate.py from genlm/grammar/semiring.py — do not edit -/",
           "namespace Genlm.Gen", "",
           "/-- identity tag of a value: Python `x is R.zero` / `x is R.one` tests -/",
           "inductive Tag | zero | one | fresh", "deriving DecidableEq, Repr", ""]
    for name in ALL:
        if name not in classes:
            raise Untranslatable(f"class {name} missing")
        cls = classes[name]
        meths = {m.name: m for m in cls.body if isinstance(m, ast.FunctionDef)}
        kind = "bool" if name == "Boolean" else "float" if name == "Float" else "pair" if name in PAIR else "scalar"
        src_txt = ast.unparse(cls)
        tagged = kind == "pair" and (" is self.zero" in src_txt or " is self.one" in src_txt)
        uses = set()
        cvals = {}

        def mk(cname):
            c = Ctx(name, kind, tagged)
            c.env = {}
            c.uses = uses
            c.cvals = cvals
            return c
        # constants
        for cn in ("zero", "one"):
            if kind == "float":
                val = next((s.value for s in cls.body if isinstance(s, ast.Assign) and _attr_chain(s.targets[0]) == [cn]), None)
                if val is None:
                    raise Untranslatable(f"Float.{cn}")
                cvals[cn] = scal_float(val, mk(cn))
            else:
                e = consts.get((name, cn))
                if e is None:
                    raise Untranslatable(f"{name}.{cn} not assigned")
                c = mk(cn)
                if isinstance(e, ast.Call) and _attr_chain(e.func) == [name]:
                    args = [scal(x, c) for x in e.args]
                elif isinstance(e, ast.Call) and _attr_chain(e.func) == [name, "from_string"] and isinstance(e.args[0], ast.Constant):
                    # Expectation.from_string("<p,r>")
                    import re
                    m = re.fullmatch(r"<\s*([0-9.]+)\s*,\s*([0-9.]+)\s*>", e.args[0].value)
                    if not m:
                        raise Untranslatable("from_string constant")
                    args = [f"({int(float(m.group(1)))} : T)", f"({int(float(m.group(2)))} : T)"]
                else:
                    raise Untranslatable(f"{name}.{cn} initialiser")
                if kind == "pair":
                    body = f"({args[0]}, {args[1]})"
                    cvals[cn] = f"(Tag.{cn}, {body})" if tagged else body
                else:
                    cvals[cn] = args[0]
        # operations
        ops = {}
        for py, ln in (("__add__", "add"), ("__mul__", "mul"), ("star", "star")):
            if kind == "float" and py != "star":
                ops[ln] = "(a + b)" if ln == "add" else "(a * b)"   # Python's own + and * on numbers
                uses.add("add" if ln == "add" else "mul")
                continue
            if py not in meths:
                raise Untranslatable(f"{name}.{py} missing")
            c = mk(ln)
            ops[ln] = block(meths[py].body, c)
            if kind == "float":
                uses.update({"sub", "div"})
        # header
        if kind == "bool":
            vt, binders = "Bool", ""
        else:
            vt = "T" if kind in ("scalar", "float") else ("(Tag × T × T)" if tagged else "(T × T)")
            inst = ["[OfNat T 0] [OfNat T 1]"]
            for u, i in (("add", "[Add T]"), ("sub", "[Sub T]"), ("mul", "[Mul T]"), ("div", "[Div T]"), ("max", "[Max T]"),
                         ("neg", "[Neg T]"), ("lt", "[LT T] [DecidableLT T] [LE T] [DecidableLE T]")):
                if u in uses:
                    inst.append(i)
            if kind == "scalar" and any(" = " in ops[k] for k in ops):
                inst.append("[DecidableEq T]")
            params = []
            if "negInf" in uses:
                params.append("(negInf : T)")
            for fn in ("log", "exp", "log1p"):
                if fn in uses:
                    params.append(f"({fn} : T → T)")
            binders = "variable {T : Type} " + " ".join(inst) + (" " + " ".join(params) if params else "")
        out.append(f"namespace {name}")
        out.append("section")
        if binders:
            out.append(binders)
        out.append(f"def zeroV : {vt} := {cvals['zero']}")
        out.append(f"def oneV : {vt} := {cvals['one']}")
        extra = ""
        if kind != "bool":
            ps = [p for p in ("negInf",) if p in uses]
        # definitions that use zeroV/oneV need the section parameters applied implicitly: Lean includes
        # section `variable`s that are mentioned, so refer to constants through local notation
        out.append(f"def add (a b : {vt}) : {vt} := {ops['add']}")
        out.append(f"def mul (a b : {vt}) : {vt} := {ops['mul']}")
        out.append(f"def star (a : {vt}) : {vt} := {ops['star']}")
        out.append("end")
        out.append(f"end {name}")
        out.append("")
    out.append("end Genlm.Gen")
    return "\n".join(out) + "\n"


def _find_assign(tree, pred):
    for n in ast.walk(tree):
        if isinstance(n, ast.Assign) and len(n.targets) == 1 and pred(n.targets[0]):
            return n.value
    return None


def _int_expr(n, names):
    """integer expression over the given names -> Lean Int term"""
    if isinstance(n, ast.Constant) and isinstance(n.value, int):
        return f"({n.value} : Int)"
    if isinstance(n, ast.UnaryOp) and isinstance(n.op, ast.USub):
        return f"(- {_int_expr(n.operand, names)})"
    if isinstance(n, ast.BinOp):
        op = {ast.Add: "+", ast.Sub: "-", ast.Mult: "*"}.get(type(n.op))
        if op is None:
            raise Untranslatable("int op")
        return f"({_int_expr(n.left, names)} {op} {_int_expr(n.right, names)})"
    ch = _attr_chain(n)
    if ch is not None:
        key = ".".join(ch)
        if key in names:
            return names[key]
    if isinstance(n, ast.Subscript):
        ch = _attr_chain(n.value)
        if ch == ["self", "order"]:
            return names["order"]
    if isinstance(n, ast.Call) and _attr_chain(n.func) == ["max"] and len(n.args) == 1 and ast.unparse(n.args[0]) == "self.order.values()":
        return names["maxorder"]
    raise Untranslatable("int expr " + ast.unparse(n)[:60])


def translate_earley(src, ns):
    tree = ast.parse(src)
    om = _find_assign(tree, lambda t: _attr_chain(t) == ["self", "ORDER_MAX"])
    if om is None:
        raise Untranslatable("ORDER_MAX assignment not found")
    pr = _find_assign(tree, lambda t: isinstance(t, ast.Subscript) and _attr_chain(t.value) in (["Q"], ["col", "Q"]))
    if pr is None:
        raise Untranslatable("priority assignment not found")
    om_l = _int_expr(om, {"maxorder": "m"})
    pr_l = _int_expr(pr, {"K": "K", "I": "I", "self.ORDER_MAX": "OM", "order": "ord"})
    return (f"namespace {ns}\n/-- `self.ORDER_MAX = {ast.unparse(om)}` with `m = max(self.order.values())` -/\n"
            f"def orderMax (m : Int) : Int := {om_l}\n/-- agenda priority `{ast.unparse(pr)}` -/\n"
            f"def prio (K I OM ord : Int) : Int := {pr_l}\nend {ns}\n")


# ----------------------------------------------------------------------------- builder functions
# A STRICT translator for code that constructs a machine / grammar by a fixed pattern of `add_I` / `add_F` / `add_arc` /
# `add` calls: straight-line code, `for` loops over a parameter (an alphabet, the arcs / initial / final weights / states of
# an operand, `range(len(xs))`, `enumerate(..)`), `if`/`elif` on equalities.  Output: Generated/Builders.lean, one
# definition per function, in the vocabulary of the hand models (`FST`/`WFSA` with `start`, `stop`, `arcs`; `CFG`).
# The three lists are filled in program order: a call contributes a singleton, a loop a `flatMap`, a branch an `if`.
#
# Interpretation of the primitives (fixed here, NOT read off the source — the conventions of Model/Wfsa*.lean):
#   M.I / M.F / M.arcs()      the lists M.start / M.stop / M.arcs (the model keeps zero entries and repeated keys)
#   M.arcs(i)                 M.arcs.filter (src = i);   M.states  FST.states M / WFSA.states M
#   EPSILON, ε                `none`;  ε_1, ε_2  `some ESym.e1/e2` (the result is then over `ESym σ`, other labels `ESym.lift`ed)
#   R.one / R.zero            1 / 0;   a / b  `a * inv b`;  Z[x]  `Z x`;  Z.product(b)  `lprod (b.map Z)`
#   self, other = self.rename_apart(other)      WFSA.mapStates Sum.inl / Sum.inr
#   X.spawn(keep_..=..)       the body of `WFSA.spawn` INLINED with the constant flags; cfg.spawn(S=..) same V, no rules
#   _gen_nt(..)               a fresh symbol: an explicit argument;  self.agenda(..)  a chart: an explicit argument `Z`
#   set.add(x)                `x :: set`;  CFG.add keeps zero-weight rules (their skipping is `dropZero`, Model/Norm.lean)
#   xs[:k], xs[k]             `xs.take k`, `xs[k]?` (as a label)
# round 3 (T8):
#   V = self.backward / self.forward      a solution of a linear system: an explicit argument `V : ι → K`; `V[i]` is `V i`
#   E = self.E; S = E.closure()           the ε closure: explicit arguments `S : ι → ι → K`, `S_outgoing : ι → List ι` (`S.outgoing[i]`)
#   self.start[i] / self.stop[i]          the ACCUMULATED weight `wlook self.start i`;  w ** (-1)  `inv w`
#   a set of states (parameter)           a list; iterating it visits `eraseDups`, `j in active` is `j ∈ active`
#   self.alphabet - {EPSILON}             `WFSA.labels self`;  states of a machine turned into a grammar are symbols (`WFSA σ σ K`)
#   self.rules[i], r.body[k]              may fail: explicit arguments (`rules[i]? = some s`, … are hypotheses of the theorems)
#   self.rhs[X]                           `rules.filter (head = X)`;  enumerate(self)  `rules.zipIdx`;  self.is_terminal(y)  `y ∈ V`
#   cfg.V (iterated)                      `V.eraseDups` (a Python set);  CFG.spawn  its return expression, inlined with the given keywords
# Everything else raises Untranslatable; the function's definition is then omitted, so its theorem no longer builds.

class Val:
    """typed Lean term: k = kind, tm = term (a 2-tuple of label terms for k='lpair'), ty = state type / (class, state type)"""
    def __init__(self, k, tm=None, ty=None):
        self.k, self.tm, self.ty = k, tm, ty


P_TY = {"label": "Option σ", "weight": "K", "oweight": "Option K", "str": "List σ", "nat": "Nat", "syms": "List σ",
        "labels": "List (Option σ)", "pairs": "List (List σ × List σ)", "cfg": "CFG σ K", "sym": "σ",
        "stateset": "List ι", "fn": "σ → σ", "wfn": "K → K'", "sfn": "ι → κ", "mode": "String", "osym": "Option σ", "ovocab": "Option (List σ)"}
# module constants the interpretation above relies on: (file, name) -> source text of the assigned value
CONSTS = {("wfsa/base.py", "EPSILON"): "''", ("fst.py", "ε"): "EPSILON", ("fst.py", "ε_1"): "f'{EPSILON}₁'",
          ("fst.py", "ε_2"): "f'{EPSILON}₂'", ("cfglm.py", "EOS"): "'▪'"}
M = lambda c, st: ("mach", (c, st))  # noqa: E731
# (file, python name, props whose models it ties, parameter kinds, result (class, state type))
BUILDERS = [
    ("wfsa/base.py", "WFSA.lift", ["C12"], {"cls": "skip", "x": "label", "w": "weight", "R": "skip"}, ("WFSA", "Nat")),
    ("wfsa/base.py", "WFSA.from_string", ["C12", "C10"], {"cls": "skip", "xs": "str", "R": "skip", "w": "oweight"}, ("WFSA", "List σ")),
    ("wfsa/base.py", "WFSA.zero", ["C12"], {"self": M("WFSA", "ι")}, ("WFSA", "ι")),
    ("wfsa/base.py", "WFSA.one", ["C12"], {"self": M("WFSA", "ι")}, ("WFSA", "Nat")),
    ("wfsa/base.py", "WFSA.reverse", ["C12"], {"self": M("WFSA", "ι")}, ("WFSA", "ι")),
    ("wfsa/base.py", "WFSA.__add__", ["C12"], {"self": M("WFSA", "ι"), "other": M("WFSA", "κ")}, ("WFSA", "ι ⊕ κ")),
    ("wfsa/base.py", "WFSA.__mul__", ["C12"], {"self": M("WFSA", "ι"), "other": M("WFSA", "κ")}, ("WFSA", "ι ⊕ κ")),
    ("wfsa/base.py", "WFSA.kleene_plus", ["C12"], {"self": M("WFSA", "ι")}, ("WFSA", "ι")),
    ("fst.py", "FST.diag", ["C10"], {"cls": "skip", "fsa": M("WFSA", "ι")}, ("FST", "ι")),
    ("fst.py", "FST.from_string", ["C10"], {"cls": "skip", "xs": "str", "R": "skip", "w": "oweight"}, ("FST", "List σ")),
    ("fst.py", "FST.T", ["C10"], {"self": M("FST", "ι")}, ("FST", "ι")),
    ("fst.py", "FST.project", ["C10"], {"self": M("FST", "ι"), "axis": "nat"}, ("WFSA", "ι")),
    ("fst.py", "FST._augment_epsilon_transitions", ["C10"], {"self": M("FST", "ι"), "idx": "nat"}, ("FST", "ι")),
    ("fst.py", "epsilon_filter_fst", ["C10"], {"R": "skip", "Sigma": "labels"}, ("FST", "Nat")),
    ("fst.py", "FST.from_pairs", ["C10"], {"pairs": "pairs", "R": "skip"}, ("FST", "PairState")),
    ("cfg.py", "prefix_transducer", ["C03"], {"R": "skip", "V": "syms"}, ("FST", "Nat")),
    ("cfglm.py", "add_EOS", ["C20"], {"cfg": "cfg", "eos": "sym"}, ("CFG", None)),
    ("cfglm.py", "locally_normalize", ["C20"], {"self": "cfg", "kwargs": "skip"}, ("CFG", None)),
    # ---- round 3 (T8).  A sixth component = options: `pin` (the cfg.py primitives the body relies on are checked against PINS),
    # `name` (Lean name), `K` (weight type of the result), `kwonly` (keyword-only parameters), `returns` (shape of the final return)
    ("wfsa/base.py", "WFSA.rename", ["C12"], {"self": M("WFSA", "ι"), "f": "sfn"}, ("WFSA", "κ"), {}),
    ("wfsa/base.py", "WFSA.epsremove", ["C11"], {"self": M("WFSA", "ι")}, ("WFSA", "ι"), {}),
    ("wfsa/base.py", "WFSA.push", ["C13"], {"self": M("WFSA", "ι")}, ("WFSA", "ι"), {}),
    ("wfsa/base.py", "WFSA._trim", ["C13"], {"self": M("WFSA", "ι"), "active": "stateset"}, ("WFSA", "ι"), {}),
    ("wfsa/base.py", "WFSA.to_cfg", ["C17"], {"self": M("WFSA", "σ"), "S": "sym", "recursion": "mode"}, ("CFG", None), {"pin": True}),
    ("cfg.py", "CFG.spawn", ["C02", "C06", "C07"], {"self": "cfg", "R": "skip", "S": "osym", "V": "ovocab"}, ("CFG", None),
     {"pin": True, "kwonly": True}),
    ("cfg.py", "CFG.separate_start", ["C02", "C06", "C07"], {"self": "cfg"}, ("CFG", None), {"pin": True, "returns": "new-or-self"}),
    ("cfg.py", "CFG.rename", ["C02", "C06", "C07"], {"self": "cfg", "f": "fn"}, ("CFG", None), {"pin": True}),
    ("cfg.py", "CFG.unfold", ["C06"], {"self": "cfg", "i": "nat", "k": "nat"}, ("CFG", None), {"pin": True}),
    ("cfg.py", "CFG.map_values", ["C07"], {"self": "cfg", "f": "wfn", "R": "skip"}, ("CFG", None), {"pin": True, "K": "K'"}),
    ("cfg.py", "CFG.truncate_length", ["C09"], {"self": "cfg", "max_length": "nat"}, ("WFSA", "Nat"),
     {"pin": True, "returns": "self @ acceptor", "name": "CFG_truncate_length_acceptor"}),
]
# primitives of cfg.py whose meaning the interpretation FIXES (they are not translated): their bodies (docstring dropped) are
# compared with the text the interpretation was written for; a difference makes every `pin` builder that uses them untranslatable
PINS = {
    ("cfg.py", "CFG.__init__"): "self.R = R\nself.V = V\nself.N = {S}\nself.S = S\nself.rules = []\nself._trim_cache = [None, None]",
    ("cfg.py", "CFG.add"): "if w == self.R.zero:\n    return\nself.N.add(head)\nr = Rule(w, head, body)\nself.rules.append(r)\nreturn r",
    ("cfg.py", "CFG.__iter__"): "return iter(self.rules)",
    ("cfg.py", "CFG.is_terminal"): "return x in self.V",
    ("cfg.py", "CFG.is_nonterminal"): "return not self.is_terminal(X)",
    ("cfg.py", "CFG.rhs"): "rhs = defaultdict(list)\nfor r in self:\n    rhs[r.head].append(r)\nreturn rhs",
}
LEAN_KW = {"at", "do", "fun", "in", "from", "show", "then", "end", "have", "let", "if", "else", "match", "with", "e", "inv", "K"}


def lean_name(py):
    """`FST._augment_epsilon_transitions` -> `FST_augment_epsilon_transitions`, `WFSA.__add__` -> `WFSA_add`"""
    return "_".join(part.strip("_") for part in py.split("."))


def _ident(n):
    if not isinstance(n, ast.Name) or not n.id.isascii() or not n.id.isidentifier():
        raise Untranslatable("binder " + ast.unparse(n))
    return n.id + "_" if (n.id in LEAN_KW or re.fullmatch(r"e\d*", n.id)) else n.id


def _cat(a, b):
    """concatenation of two piece lists (adjacent literals are merged)"""
    if a and b and a[-1][0] == "lit" and b[0][0] == "lit":
        return a[:-1] + [("lit", a[-1][1] + b[0][1])] + b[1:]
    return a + b


def _render(ps):
    out = []
    for p in ps:
        if p[0] == "lit":
            out.append("[" + ", ".join(p[1]) + "]")
        elif p[0] == "raw":
            out.append(p[1])
        elif p[0] == "for":
            out.append(f"({p[1]}.flatMap fun {p[2]} => {_render(p[3])})")
        else:
            out.append(f"(if {p[1]} then {_render(p[2])} else {_render(p[3])})")
    return " ++ ".join(out) if out else "[]"


class Builder:
    """translation of one builder function (`done`: python name -> (FunctionDef params, spec) of those already emitted)"""

    def __init__(self, spec, trees, done):
        self.file, self.py, self.props, self.kinds, self.ret = spec[:5]
        self.opt = spec[5] if len(spec) > 5 else {}
        self.trees, self.done = trees, done
        self.cls = self.py.split(".")[0] if "." in self.py else None
        self.fn = self.find(self.file, self.py)
        self.esym = any(isinstance(n, ast.Name) and n.id in ("ε_1", "ε_2") for n in ast.walk(self.fn))
        self.extra, self.pre, self.inst = [], [], []
        self.obj = self.kind_of_obj = None   # name / class of the object under construction
        self.nest = 0            # > 0 inside a loop or a (non-constant) branch
        self.S = self.V = None   # CFG results: start symbol, vocabulary
        self.pinned = set()
        self.resolved = set()    # optional symbol parameters (default None) whose default the body was seen to fill in

    def pin(self, name):
        """the primitive `CFG.<name>` is used with its fixed interpretation: its body must be the one that was read"""
        key = ("cfg.py", "CFG." + name)
        if not self.opt.get("pin") or key in self.pinned:
            return
        body = self.find(*key).body
        if body and isinstance(body[0], ast.Expr) and isinstance(body[0].value, ast.Constant):
            body = body[1:]
        if name == "__init__":
            # the five public fields must be set as the interpretation assumes; further PRIVATE attributes (caches) are no concern
            body = [x for x in body if not (isinstance(x, ast.Assign) and len(x.targets) == 1 and (_attr_chain(x.targets[0]) or [""])[0] == "self"
                                            and len(_attr_chain(x.targets[0])) == 2 and _attr_chain(x.targets[0])[1].startswith("_")
                                            and _attr_chain(x.targets[0])[1] != "_trim_cache")]
        got = "\n".join(ast.unparse(x) for x in body)
        if got != PINS[key]:
            raise Untranslatable(f"primitive {key[1]} changed: {got[:120]!r}")
        self.pinned.add(key)

    def find(self, file, py):
        body = self.trees[file].body
        for part in py.split("."):
            hit = [n for n in body if isinstance(n, (ast.ClassDef, ast.FunctionDef)) and n.name == part]
            if len(hit) != 1:
                raise Untranslatable(f"{py}: not found (or defined twice)")
            body = hit[0].body
        if not isinstance(hit[0], ast.FunctionDef):
            raise Untranslatable(f"{py}: not a function")
        for dec in hit[0].decorator_list:
            if ast.unparse(dec) not in ("classmethod", "staticmethod", "property", "cached_property"):
                raise Untranslatable(f"{py}: decorator {ast.unparse(dec)}")
        return hit[0]

    def const(self, name):
        """a module-level constant, checked against the value the interpretation assumes"""
        for (f, nm), want in CONSTS.items():
            if nm == name:
                got = [ast.unparse(s.value) for s in self.trees[f].body if isinstance(s, ast.Assign) and len(s.targets) == 1
                       and isinstance(s.targets[0], ast.Name) and s.targets[0].id == name]
                if got != [want]:
                    raise Untranslatable(f"constant {name} = {got} (expected {want})")
                return True
        return False

    def lift(self, t):
        return f"(ESym.lift {t})" if self.esym else t

    # ------------------------------------------------------------------ expressions
    def label(self, n, env):
        if isinstance(n, ast.Name) and n.id in env:
            v = env[n.id]
            if v.k == "label":
                return v.tm
            if v.k == "sym":
                return f"(some (ESym.sym {v.tm}))" if self.esym else f"(some {v.tm})"
        elif isinstance(n, ast.Name) and n.id in ("EPSILON", "ε") and self.const("EPSILON") and self.const(n.id):
            return "none"
        elif isinstance(n, ast.Name) and n.id in ("ε_1", "ε_2") and self.const(n.id):
            return "(some ESym.e1)" if n.id == "ε_1" else "(some ESym.e2)"
        elif isinstance(n, ast.Subscript) and isinstance(n.value, ast.Name) and n.value.id in env:
            v = env[n.value.id]
            if v.k == "lpair" and isinstance(n.slice, ast.Constant) and n.slice.value in (0, 1):
                return v.tm[n.slice.value]
            if v.k == "str" and not self.esym:
                return f"{v.tm}[{self.nat(n.slice, env)}]?"
        raise Untranslatable("label " + ast.unparse(n))

    def lpair(self, n, env):
        if isinstance(n, ast.Tuple) and len(n.elts) == 2:
            return (self.label(n.elts[0], env), self.label(n.elts[1], env))
        if isinstance(n, ast.Name) and n.id in env and env[n.id].k == "lpair":
            return env[n.id].tm
        raise Untranslatable("transducer label (a pair is required) " + ast.unparse(n))

    def nat(self, n, env):
        if isinstance(n, ast.Constant) and isinstance(n.value, int) and not isinstance(n.value, bool) and n.value >= 0:
            return str(n.value)
        if isinstance(n, ast.Name) and n.id in env and env[n.id].k == "nat":
            return env[n.id].tm
        if isinstance(n, ast.BinOp) and isinstance(n.op, ast.Add):
            return f"({self.nat(n.left, env)} + {self.nat(n.right, env)})"
        if isinstance(n, ast.Call) and isinstance(n.func, ast.Name) and not n.keywords:
            if n.func.id == "len" and len(n.args) == 1 and isinstance(n.args[0], ast.Name) and env.get(n.args[0].id, Val("")).k == "str":
                return f"{env[n.args[0].id].tm}.length"
            if n.func.id == "max" and len(n.args) == 2:
                return f"(max {self.nat(n.args[0], env)} {self.nat(n.args[1], env)})"
        raise Untranslatable("number " + ast.unparse(n))

    def state(self, n, env):
        want = self.ret[1]
        if isinstance(n, ast.Constant) and isinstance(n.value, int) and not isinstance(n.value, bool) and n.value >= 0:
            if want == "Nat":
                return str(n.value)
            if want == "PairState":
                return f"(.inl {n.value})"
        elif isinstance(n, ast.Name) and n.id in env:
            v = env[n.id]
            if (v.k == "state" and v.ty == want) or (v.k == "str" and want == "List σ") or (v.k == "nat" and want == "Nat"):
                return v.tm
        elif isinstance(n, ast.Subscript) and isinstance(n.value, ast.Name) and env.get(n.value.id, Val("")).k == "str" and want == "List σ":
            sl = n.slice
            if isinstance(sl, ast.Slice) and sl.lower is None and sl.step is None and sl.upper is not None:
                return f"({env[n.value.id].tm}.take {self.nat(sl.upper, env)})"
        elif isinstance(n, ast.BinOp) and want == "Nat":
            return self.nat(n, env)
        elif isinstance(n, ast.Call) and isinstance(n.func, ast.Name) and env.get(n.func.id, Val("")).k == "sfn" and len(n.args) == 1 \
                and not n.keywords and isinstance(n.args[0], ast.Name) and env.get(n.args[0].id, Val("")).k == "state" \
                and env[n.args[0].id].ty == "ι" and want == "κ":
            return f"({env[n.func.id].tm} {env[n.args[0].id].tm})"
        elif isinstance(n, ast.Tuple) and len(n.elts) == 2 and want == "PairState":
            return f"(.inr ({self.nat(n.elts[0], env)}, {self.nat(n.elts[1], env)}))"
        raise Untranslatable(f"state {ast.unparse(n)} (result states: {want})")

    def sym(self, n, env):
        ch = _attr_chain(n)
        if ch and ch[0] in env:
            v = env[ch[0]]
            if len(ch) == 1 and (v.k == "sym" or v.k == "state" and v.ty == "σ"):    # states of a `WFSA σ σ K` are symbols
                return v.tm
            if len(ch) == 2 and ((v.k == "cfg" and ch[1] == "S") or (v.k == "rule" and ch[1] == "head")):
                return f"{v.tm}.{ch[1]}"
        if isinstance(n, ast.Call) and isinstance(n.func, ast.Name) and env.get(n.func.id, Val("")).k == "fn" and len(n.args) == 1 and not n.keywords:
            return f"({env[n.func.id].tm} {self.sym(n.args[0], env)})"
        if isinstance(n, ast.IfExp):
            c = self.test(n.test, env)
            if isinstance(c, str):
                return f"(if {c} then {self.sym(n.body, env)} else {self.sym(n.orelse, env)})"
        if isinstance(n, ast.Subscript) and not isinstance(n.slice, ast.Slice):
            b = _attr_chain(n.value)
            if b and len(b) == 2 and env.get(b[0], Val("")).k == "rule" and b[1] == "body":
                # `r.body[k]` may fail: the symbol is an explicit argument, `r.body[k]? = some <it>` a hypothesis of the theorem
                nm = f"{env[b[0]].tm}_body_{self.nat(n.slice, env)}"
                if not re.fullmatch(r"[A-Za-z_][A-Za-z_0-9]*", nm):
                    raise Untranslatable("symbol " + ast.unparse(n))
                if f"({nm} : σ)" not in self.extra:
                    self.extra.append(f"({nm} : σ)")
                    self.pre.append(f"{nm} = {ast.unparse(n)}")
                return nm
        raise Untranslatable("symbol " + ast.unparse(n))

    def vocab(self, n, env):
        """a vocabulary (Python set of terminals) -> Lean list"""
        if isinstance(n, ast.Name) and env.get(n.id, Val("")).k == "vocab":
            return env[n.id].tm
        if isinstance(n, ast.Call) and ast.unparse(n.func) == "set" and len(n.args) == 1 and not n.keywords:
            b = _attr_chain(n.args[0])       # `set(self.V)`: a copy
            if b and len(b) == 2 and env.get(b[0], Val("")).k == "cfg" and b[1] == "V":
                return f"{env[b[0]].tm}.V"
        raise Untranslatable("vocabulary " + ast.unparse(n))

    def seq(self, n, env):
        """a starred argument of `add` (a sequence of body symbols) -> Lean list term"""
        b = _attr_chain(n)
        if b and len(b) == 2 and env.get(b[0], Val("")).k == "rule" and b[1] == "body":
            return f"{env[b[0]].tm}.body"
        if isinstance(n, ast.Subscript) and isinstance(n.slice, ast.Slice) and n.slice.step is None:
            b = _attr_chain(n.value)
            if b and len(b) == 2 and env.get(b[0], Val("")).k == "rule" and b[1] == "body":
                lo, up = n.slice.lower, n.slice.upper
                if lo is None and up is not None:
                    return f"({env[b[0]].tm}.body.take {self.nat(up, env)})"
                if lo is not None and up is None:
                    return f"({env[b[0]].tm}.body.drop {self.nat(lo, env)})"
        if isinstance(n, ast.GeneratorExp) and len(n.generators) == 1:
            g = n.generators[0]
            if not g.ifs and not g.is_async and isinstance(g.target, ast.Name) and g.target.id not in env:
                inner = dict(env)
                inner[g.target.id] = Val("sym", _ident(g.target))
                return f"({self.seq(g.iter, env)}.map fun {_ident(g.target)} => {self.sym(n.elt, inner)})"
        raise Untranslatable("rule body " + ast.unparse(n))

    def weight(self, n, env):
        ch = _attr_chain(n)
        if ch and ch[-1] in ("one", "zero") and len(ch) >= 2 and ch[-2] == "R" and \
                (len(ch) == 2 and env.get("R", Val("")).k == "skip" or len(ch) == 3 and env.get(ch[0], Val("")).k in ("mach", "cfg")):
            return "1" if ch[-1] == "one" else "0"
        if ch and len(ch) == 1 and ch[0] in env and env[ch[0]].k == "weight":
            return env[ch[0]].tm
        if ch and len(ch) == 2 and ch[0] in env and env[ch[0]].k == "rule" and ch[1] == "w":
            return f"{env[ch[0]].tm}.w"
        if isinstance(n, ast.Call) and isinstance(n.func, ast.Name) and env.get(n.func.id, Val("")).k == "wfn" and len(n.args) == 1 and not n.keywords:
            return f"({env[n.func.id].tm} {self.weight(n.args[0], env)})"
        if isinstance(n, ast.BinOp) and isinstance(n.op, (ast.Mult, ast.Add)):
            return f"({self.weight(n.left, env)} {'*' if isinstance(n.op, ast.Mult) else '+'} {self.weight(n.right, env)})"
        if isinstance(n, ast.BinOp) and isinstance(n.op, ast.Div):
            if "(inv : K → K)" not in self.inst:
                self.inst.append("(inv : K → K)")
            return f"({self.weight(n.left, env)} * inv {self.weight(n.right, env)})"
        if isinstance(n, ast.BinOp) and isinstance(n.op, ast.Pow) and ast.unparse(n.right) in ("-1", "(-1)"):
            if "(inv : K → K)" not in self.inst:
                self.inst.append("(inv : K → K)")
            return f"(inv {self.weight(n.left, env)})"
        if isinstance(n, ast.Subscript) and isinstance(n.value, ast.Name) and env.get(n.value.id, Val("")).k == "svec":
            return f"({env[n.value.id].tm} {self.samestate(n.slice, env)})"
        if isinstance(n, ast.Subscript) and isinstance(n.value, ast.Name) and env.get(n.value.id, Val("")).k == "closure" \
                and isinstance(n.slice, ast.Tuple) and len(n.slice.elts) == 2:
            return f"({env[n.value.id].tm} {self.samestate(n.slice.elts[0], env)} {self.samestate(n.slice.elts[1], env)})"
        if isinstance(n, ast.Subscript) and _attr_chain(n.value) and len(_attr_chain(n.value)) == 2 \
                and env.get(_attr_chain(n.value)[0], Val("")).k == "mach" and _attr_chain(n.value)[1] in ("start", "stop"):
            b = _attr_chain(n.value)      # the accumulated initial / final weight of a state
            return f"(wlook {env[b[0]].tm}.{b[1]} {self.samestate(n.slice, env)})"
        if isinstance(n, ast.Subscript) and isinstance(n.value, ast.Name) and env.get(n.value.id, Val("")).k == "chart":
            return f"({n.value.id} {self.sym(n.slice, env)})"
        ch = _attr_chain(n.func) if isinstance(n, ast.Call) else None
        if ch and len(ch) == 2 and env.get(ch[0], Val("")).k == "chart" and ch[1] == "product" and len(n.args) == 1 and not n.keywords:
            b = _attr_chain(n.args[0])
            if b and len(b) == 2 and env.get(b[0], Val("")).k == "rule" and b[1] == "body":
                return f"lprod ({env[b[0]].tm}.body.map {ch[0]})"
        if isinstance(n, ast.IfExp) and isinstance(n.orelse, ast.Name) and env.get(n.orelse.id, Val("")).k == "oweight" \
                and ast.unparse(n.test) == f"{n.orelse.id} is None":
            return f"({env[n.orelse.id].tm}.getD {self.weight(n.body, env)})"
        raise Untranslatable("weight " + ast.unparse(n))

    def test(self, n, env):
        """condition -> Lean Prop (decidable), or a Python bool when it is decided by a constant flag"""
        if isinstance(n, ast.Name) and n.id in env and env[n.id].k == "flag":
            return env[n.id].tm
        if isinstance(n, ast.BoolOp) and isinstance(n.op, ast.And):
            cs = [self.test(v, env) for v in n.values]
            if all(isinstance(c, str) for c in cs):
                return "(" + " ∧ ".join(cs) + ")"
        if isinstance(n, ast.Compare) and len(n.ops) == 1 and isinstance(n.ops[0], (ast.Eq, ast.NotEq)):
            l, r = n.left, n.comparators[0]
            rel = "=" if isinstance(n.ops[0], ast.Eq) else "≠"
            if isinstance(l, ast.Name) and env.get(l.id, Val("")).k == "mode" and isinstance(r, ast.Constant) and isinstance(r.value, str) \
                    and re.fullmatch(r"[a-z_]+", r.value):
                return f'({env[l.id].tm} {rel} "{r.value}")'
            for f in (self.nat, self.label, self.samestate):
                try:
                    return f"({f(l, env)} {rel} {f(r, env)})"
                except Untranslatable:
                    pass
            if isinstance(r, ast.Constant) and r.value == 0 and type(r.value) is int and rel == "=":
                if "[DecidableEq K]" not in self.inst:
                    self.inst.append("[DecidableEq K]")
                return f"({self.weight(l, env)} = 0)"
        if isinstance(n, ast.Compare) and len(n.ops) == 1 and isinstance(n.ops[0], (ast.Eq, ast.NotEq)) \
                and (_attr_chain(n.comparators[0]) or [""])[-1] == "zero":
            if "[DecidableEq K]" not in self.inst:
                self.inst.append("[DecidableEq K]")
            return f"({self.weight(n.left, env)} {'=' if isinstance(n.ops[0], ast.Eq) else '≠'} {self.weight(n.comparators[0], env)})"
        if isinstance(n, ast.Compare) and len(n.ops) == 1 and isinstance(n.ops[0], ast.In) and isinstance(n.comparators[0], ast.Name) \
                and env.get(n.comparators[0].id, Val("")).k == "stateset":
            return f"({self.samestate(n.left, env)} ∈ {env[n.comparators[0].id].tm})"
        if isinstance(n, ast.Call) and not n.keywords and len(n.args) == 1:
            ch = _attr_chain(n.func)
            if ch and len(ch) == 2 and env.get(ch[0], Val("")).k == "cfg" and ch[1] in ("is_terminal", "is_nonterminal"):
                self.pin("is_terminal")
                if ch[1] == "is_nonterminal":
                    self.pin("is_nonterminal")
                return f"({self.sym(n.args[0], env)} {'∈' if ch[1] == 'is_terminal' else '∉'} {env[ch[0]].tm}.V)"
        if isinstance(n, ast.Compare) and len(n.ops) == 1 and isinstance(n.ops[0], ast.In) and isinstance(n.comparators[0], ast.SetComp):
            sc = n.comparators[0]     # `X in {y for r in self for y in r.body}`
            if len(sc.generators) == 2 and all(not g.ifs and not g.is_async and isinstance(g.target, ast.Name) for g in sc.generators):
                g1, g2 = sc.generators
                b = _attr_chain(g2.iter)
                if isinstance(g1.iter, ast.Name) and env.get(g1.iter.id, Val("")).k == "cfg" and g1.target.id not in env \
                        and g2.target.id not in env and g1.target.id != g2.target.id \
                        and b == [g1.target.id, "body"] and isinstance(sc.elt, ast.Name) and sc.elt.id == g2.target.id:
                    self.pin("__iter__")
                    return f"({self.sym(n.left, env)} ∈ ({env[g1.iter.id].tm}.rules.flatMap fun {_ident(g1.target)} => {_ident(g1.target)}.body))"
        raise Untranslatable("test " + ast.unparse(n))

    def samestate(self, n, env):
        """a state variable in a comparison (both sides must have the same state type: checked by Lean)"""
        if isinstance(n, ast.Name) and env.get(n.id, Val("")).k == "state":
            return env[n.id].tm
        raise Untranslatable("state " + ast.unparse(n))

    def mach(self, n, env):
        if isinstance(n, ast.Name) and n.id in env and env[n.id].k == "mach":
            return env[n.id]
        raise Untranslatable("machine " + ast.unparse(n))

    def call(self, n, env):
        """call of an already translated builder -> Val('mach')"""
        ch = _attr_chain(n.func)
        if ch and len(ch) >= 2:
            owner = ch[:-1]
            c = self.cls if owner == ["cls"] else owner[0] if len(owner) == 1 and owner[0] in ("WFSA", "FST") else \
                env[owner[0]].ty[0] if len(owner) == 2 and owner[1] == "__class__" and env.get(owner[0], Val("")).k == "mach" else None
            cand = [c] + (["WFSA"] if c == "FST" else [])          # FST inherits from WFSA
            for cc in cand:
                if f"{cc}.{ch[-1]}" in self.done:
                    params, spec = self.done[f"{cc}.{ch[-1]}"]
                    names = [p for p in params if p not in ("cls", "self")]
                    given = dict(zip(names, n.args))
                    for kw in n.keywords:
                        if kw.arg is None or kw.arg in given or kw.arg not in names:
                            raise Untranslatable("arguments of " + ast.unparse(n))
                        given[kw.arg] = kw.value
                    if len(n.args) > len(names):
                        raise Untranslatable("arguments of " + ast.unparse(n))
                    args = []
                    for p in names:
                        k = spec[3][p]
                        if k == "skip":
                            continue
                        if p not in given:
                            if k == "oweight":
                                args.append("none")
                                continue
                            raise Untranslatable(f"argument {p} of {ast.unparse(n)}")
                        a = given[p]
                        if k == "label":
                            args.append(self.label(a, env))
                        elif k == "weight":
                            args.append(self.weight(a, env))
                        elif isinstance(k, tuple):
                            v = self.call(a, env) if isinstance(a, ast.Call) else self.mach(a, env)
                            if v.ty[0] != k[1][0]:
                                raise Untranslatable(f"argument {p} of {ast.unparse(n)}: {v.ty[0]}")
                            args.append(v.tm)
                        elif isinstance(a, ast.Name) and a.id in env and env[a.id].k == k:
                            args.append(env[a.id].tm)
                        else:
                            raise Untranslatable(f"argument {p} of {ast.unparse(n)}")
                    st = spec[4][1]
                    for p, k in spec[3].items():      # the callee's state type follows its machine argument
                        if isinstance(k, tuple) and k[1][1] == st:
                            st = self.call(given[p], env).ty[1] if isinstance(given[p], ast.Call) else self.mach(given[p], env).ty[1]
                    return Val("mach", "(" + " ".join([lean_name(spec[1])] + args) + ")", (spec[4][0], st))
        raise Untranslatable("call " + ast.unparse(n))

    # ------------------------------------------------------------------ statements
    def new_machine(self, n, env):
        """`FST(R)`, `WFSA(R=self.R)`, `cls(R)`, `self.__class__(self.R)` -> class name of the fresh empty machine"""
        f = ast.unparse(n.func)
        arg = [ast.unparse(a) for a in n.args] + [ast.unparse(k.value) for k in n.keywords if k.arg == "R"]
        if len(arg) != 1 or len(n.args) + len(n.keywords) != 1:
            return None
        ch = arg[0].split(".")
        if not (ch == ["R"] and env.get("R", Val("")).k == "skip" or len(ch) == 2 and ch[1] == "R" and env.get(ch[0], Val("")).k in ("mach", "cfg")):
            return None
        if f in ("FST", "WFSA"):
            return f
        if f == "cls" and env.get("cls", Val("")).k == "skip":
            return self.cls
        if f.endswith(".__class__") and env.get(f[:-10], Val("")).k == "mach":
            return env[f[:-10]].ty[0]
        return None

    def inline_spawn(self, recv, call, d):
        """`recv.spawn(keep_init=.., keep_arcs=.., keep_stop=..)`: the body of WFSA.spawn with the constant flags"""
        fn = self.find("wfsa/base.py", "WFSA.spawn")
        a = fn.args
        if a.posonlyargs or a.vararg or a.kwarg or [x.arg for x in a.args] != ["self"] or call.args:
            raise Untranslatable("signature / call of spawn")
        env = {"self": recv}
        for p, dflt in zip(a.kwonlyargs, a.kw_defaults):
            if not (isinstance(dflt, ast.Constant) and isinstance(dflt.value, bool)):
                raise Untranslatable("spawn default")
            env[p.arg] = Val("flag", dflt.value)
        for kw in call.keywords:
            if kw.arg not in env or kw.arg == "self" or not (isinstance(kw.value, ast.Constant) and isinstance(kw.value.value, bool)):
                raise Untranslatable("spawn argument " + ast.unparse(kw))
            env[kw.arg] = Val("flag", kw.value.value)
        saved, self.obj = self.obj, None
        ch = self.body(fn.body, env, d)
        if self.kind_of_obj != recv.ty[0]:
            raise Untranslatable("spawn: class of the result")
        self.obj = saved
        return ch

    def cfg_ctor(self, call, env):
        """`CFG(R=.., S=.., V=..)` / `self.__class__(R=.., S=.., V=..)` (keywords only) -> (S term, V term) of the empty grammar"""
        f = ast.unparse(call.func)
        ok = f == "CFG" or (f.endswith(".__class__") and env.get(f[:-10], Val("")).k == "cfg")
        kw = {k.arg: k.value for k in call.keywords}
        if not ok or call.args or len(kw) != 3 or set(kw) != {"R", "S", "V"}:
            raise Untranslatable("grammar constructor " + ast.unparse(call)[:80])
        self.pin("__init__")

        def opt(n, plain):
            """`<dflt> if P is None else P` with `P` an optional parameter; otherwise `plain`"""
            if isinstance(n, ast.IfExp) and isinstance(n.orelse, ast.Name) and ast.unparse(n.test) == f"{n.orelse.id} is None" and n.orelse.id in env:
                v = env[n.orelse.id]
                if v.k == "pynone":                       # inlined call: the argument was not given
                    return plain(n.body)
                if v.k in ("osym", "ovocab"):             # the definition of `spawn` itself
                    return f"({v.tm}.getD {plain(n.body)})"
                return plain(n.orelse)                    # inlined call: the argument was given
            return plain(n)
        r = kw["R"]
        rs = ast.unparse(r.body if isinstance(r, ast.IfExp) and ast.unparse(r.test) == "R is None" and ast.unparse(r.orelse) == "R" else r).split(".")
        if not (rs == ["R"] and env.get("R", Val("")).k in ("skip", "pynone") or len(rs) == 2 and rs[1] == "R" and env.get(rs[0], Val("")).k in ("mach", "cfg")):
            raise Untranslatable("semiring of " + ast.unparse(call)[:80])
        return opt(kw["S"], lambda x: self.sym(x, env)), opt(kw["V"], lambda x: self.vocab(x, env))

    def inline_cfg_spawn(self, recv, call, env):
        """`recv.spawn(S=.., R=..)`: the return expression of `CFG.spawn` with the given / absent keyword arguments"""
        fn = self.find("cfg.py", "CFG.spawn")
        a = fn.args
        if a.posonlyargs or a.vararg or a.kwarg or [x.arg for x in a.args] != ["self"] or call.args \
                or [x.arg for x in a.kwonlyargs] != ["R", "S", "V"] \
                or not all(isinstance(d, ast.Constant) and d.value is None for d in a.kw_defaults):
            raise Untranslatable("signature / call of CFG.spawn")
        inner = {"self": recv, "R": Val("pynone"), "S": Val("pynone"), "V": Val("pynone")}
        for kw in call.keywords:
            if kw.arg == "S":
                inner["S"] = Val("sym", self.sym(kw.value, env))
            elif kw.arg == "R" and ast.unparse(kw.value) == "R" and env.get("R", Val("")).k == "skip":
                inner["R"] = Val("skip")
            else:
                raise Untranslatable("spawn argument " + ast.unparse(kw))
        body = [x for x in fn.body if not (isinstance(x, ast.Expr) and isinstance(x.value, ast.Constant))]
        if len(body) != 1 or not isinstance(body[0], ast.Return) or not isinstance(body[0].value, ast.Call):
            raise Untranslatable("body of CFG.spawn")
        return self.cfg_ctor(body[0].value, inner)

    def body(self, stmts, env, d):
        """function body `…; return <object>` -> channels"""
        if not stmts or not isinstance(stmts[-1], ast.Return):
            raise Untranslatable("no final return")
        ch = self.block(stmts[:-1], env, d)
        r = stmts[-1].value
        if self.opt.get("returns") == "self @ acceptor":     # the machine built here is composed with the grammar
            if not (isinstance(r, ast.BinOp) and isinstance(r.op, ast.MatMult) and isinstance(r.left, ast.Name)
                    and env.get(r.left.id, Val("")).k == "cfg" and isinstance(r.right, ast.Name) and r.right.id == self.obj):
                raise Untranslatable("return " + ast.unparse(stmts[-1]))
        elif not (isinstance(r, ast.Name) and r.id == self.obj):
            raise Untranslatable("return " + ast.unparse(stmts[-1]))
        return ch

    def block(self, stmts, env, d):
        ch = {}
        for k, s in enumerate(stmts):
            if isinstance(s, ast.If) and len(s.body) == 1 and isinstance(s.body[0], ast.Continue) and not s.orelse:
                c, rest = self.test(s.test, env), self.block(stmts[k + 1:], env, d)
                for nm, ps in rest.items():
                    ch[nm] = _cat(ch.get(nm, []), [("if", c, [], ps)])
                return ch
            for nm, ps in self.stmt(s, env, d).items():
                ch[nm] = _cat(ch.get(nm, []), ps)
        return ch

    def stmt(self, s, env, d):
        if isinstance(s, ast.Expr) and isinstance(s.value, ast.Constant) and isinstance(s.value.value, str):
            return {}
        if isinstance(s, ast.Assert) and s.msg is None:
            self.pre.append(("in its branch: " if self.nest else "") + ast.unparse(s.test))
            return {}
        if ast.unparse(s) == "if R is None:\n    R = w.__class__" and env.get("R", Val("")).k == "skip":
            return {}
        if isinstance(s, ast.ImportFrom) and s.level == 0 and s.module in ("genlm.grammar", "genlm.grammar.cfg") and not self.nest \
                and all(a.asname is None and a.name in ("CFG", "_gen_nt", "WFSA") for a in s.names):
            return {}
        if ast.unparse(s) == "if S is None:\n    S = _gen_nt()" and env.get("S", Val("")).k == "sym" and not self.nest:
            self.resolved.add("S")
            return {}    # the fresh symbol is the explicit argument `S`
        if isinstance(s, ast.While):
            # the renaming loop of `to_cfg`: it establishes the hypotheses of the correctness theorems and is not executed
            # when they hold; the definition is about the machine AFTER the loop (`mapStates` keeps the language)
            if ast.unparse(s) == "while S in self.states or not V.isdisjoint(self.states):\n    self = self.rename(lambda q: (q,))" \
                    and env.get("S", Val("")).k == "sym" and env.get("self", Val("")).k == "mach" and self.obj is None and not self.nest \
                    and env.get("V", Val("")).k == "vocab" and env["V"].tm == f"(WFSA.labels {env['self'].tm})":
                self.pre.append("not (S in self.states or not V.isdisjoint(self.states)) [after the renaming loop]")
                return {}
            raise Untranslatable("loop " + ast.unparse(s)[:80])
        if isinstance(s, ast.Assign) and len(s.targets) == 1:
            return self.assign(s.targets[0], s.value, env, d)
        if isinstance(s, ast.Expr) and isinstance(s.value, ast.Call):
            return self.emit(s.value, env)
        if isinstance(s, ast.For) and not s.orelse:
            return self.loop(s, env, d)
        if isinstance(s, ast.If):
            return self.branch(s, env, d)
        raise Untranslatable("statement " + ast.unparse(s)[:80])

    def assign(self, tg, v, env, d):
        src = ast.unparse(v)
        if self.nest:
            raise Untranslatable("assignment inside a loop / branch: " + ast.unparse(tg) + " = " + src[:60])
        if isinstance(tg, ast.Name) and isinstance(v, ast.Call):
            ch = _attr_chain(v.func)
            c = self.new_machine(v, env)
            if c is not None and self.obj is None:
                self.obj, self.kind_of_obj = tg.id, c
                return {}
            if ch == ["CFG"] and self.obj is None:
                self.S, self.V = self.cfg_ctor(v, env)
                self.obj, self.kind_of_obj = tg.id, "CFG"
                return {}
            if ch and len(ch) == 2 and ch[1] == "spawn" and ch[0] in env and self.obj is None:
                recv = env[ch[0]]
                if recv.k == "mach":
                    out = self.inline_spawn(recv, v, d)
                    self.obj = tg.id
                    return out
                if recv.k == "cfg" and self.opt.get("pin"):
                    self.S, self.V = self.inline_cfg_spawn(recv, v, env)
                    self.obj, self.kind_of_obj = tg.id, "CFG"
                    return {}
                if recv.k == "cfg" and not v.args and all(k.arg == "S" for k in v.keywords) and len(v.keywords) <= 1:
                    self.obj, self.kind_of_obj = tg.id, "CFG"
                    self.S = self.sym(v.keywords[0].value, env) if v.keywords else f"{recv.tm}.S"
                    self.V = f"{recv.tm}.V"
                    return {}
            if (src == "_gen_nt('<START>')" or self.opt.get("pin") and src == "_gen_nt(self.S)" and env.get("self", Val("")).k == "cfg") \
                    and tg.id not in env:
                env[tg.id] = Val("sym", _ident(tg))
                self.extra.append(f"({_ident(tg)} : σ)")
                return {}
            if ch and len(ch) == 2 and ch[1] == "agenda" and env.get(ch[0], Val("")).k == "cfg" and src == f"{ch[0]}.agenda(**kwargs)" \
                    and env.get("kwargs", Val("")).k == "skip" and tg.id not in env:
                env[tg.id] = Val("chart", _ident(tg))
                self.extra.append(f"({_ident(tg)} : σ → K)")
                return {}
        if isinstance(tg, ast.Name) and tg.id not in env and isinstance(v, ast.BinOp) and isinstance(v.op, ast.Sub) and self.obj is None:
            b = _attr_chain(v.left)       # `V = self.alphabet - {EPSILON}`
            if b and len(b) == 2 and env.get(b[0], Val("")).k == "mach" and env[b[0]].ty[0] == "WFSA" and b[1] == "alphabet" \
                    and ast.unparse(v.right) == "{EPSILON}" and self.const("EPSILON") and not self.esym:
                env[tg.id] = Val("vocab", f"(WFSA.labels {env[b[0]].tm})")
                return {}
        if isinstance(tg, ast.Name) and tg.id not in env and isinstance(v, ast.Attribute) and isinstance(v.value, ast.Name) \
                and env.get(v.value.id, Val("")).k == "mach" and env[v.value.id].tm == v.value.id:
            m = env[v.value.id]           # quantities of the ORIGINAL operand that the code obtains from a solver
            if v.attr in ("backward", "forward"):
                env[tg.id] = Val("svec", _ident(tg), m.ty[1])
                self.extra.append(f"({_ident(tg)} : {m.ty[1]} → K)")
                self.pre.append(f"{_ident(tg)} = {src}")
                return {}
            if v.attr == "E":
                env[tg.id] = Val("graph", None, m.ty[1])
                return {}
        if isinstance(tg, ast.Name) and tg.id not in env and isinstance(v, ast.Call) and not v.args and not v.keywords \
                and isinstance(v.func, ast.Attribute) and v.func.attr == "closure" and isinstance(v.func.value, ast.Name) \
                and env.get(v.func.value.id, Val("")).k == "graph":
            st = env[v.func.value.id].ty
            env[tg.id] = Val("closure", _ident(tg), st)
            self.extra += [f"({_ident(tg)} : {st} → {st} → K)", f"({_ident(tg)}_outgoing : {st} → List {st})"]
            self.pre.append(f"{_ident(tg)} = the closure of the ε graph self.E")
            return {}
        if isinstance(tg, ast.Name) and tg.id not in env and isinstance(v, ast.Subscript) and not isinstance(v.slice, ast.Slice):
            b = _attr_chain(v.value)      # `s = self.rules[i]` may fail: the rule is an explicit argument, `rules[i]? = some s` a hypothesis
            if b and len(b) == 2 and env.get(b[0], Val("")).k == "cfg" and b[1] == "rules":
                self.nat(v.slice, env)
                env[tg.id] = Val("rule", _ident(tg))
                self.extra.append(f"({_ident(tg)} : Rule σ K)")
                self.pre.append(f"{_ident(tg)} = {src}")
                return {}
        if isinstance(tg, ast.Name) and env.get(tg.id, Val("")).k == "sym" and src == f"{tg.id} or EOS" and self.const("EOS"):
            self.resolved.add(tg.id)
            return {}   # default value of an optional argument
        if ast.unparse(tg) == "(self, other)" and src == "self.rename_apart(other)" and self.obj is None:
            a, b = self.mach(ast.Name("self"), env), self.mach(ast.Name("other"), env)
            st = f"{a.ty[1]} ⊕ {b.ty[1]}"
            env["self"] = Val("mach", f"(WFSA.mapStates Sum.inl {a.tm})", (a.ty[0], st))
            env["other"] = Val("mach", f"(WFSA.mapStates Sum.inr {b.tm})", (b.ty[0], st))
            return {}
        raise Untranslatable("assignment " + ast.unparse(tg) + " = " + src[:60])

    def emit(self, c, env):
        ch = _attr_chain(c.func)
        if not ch or ch[0] != self.obj or c.keywords:
            raise Untranslatable("call " + ast.unparse(c)[:80])
        op, a = ch[1:], c.args
        if self.kind_of_obj in ("WFSA", "FST"):
            if op in (["add_I"], ["add_F"]) and len(a) == 2:
                return {"start" if op == ["add_I"] else "stop": [("lit", [f"({self.state(a[0], env)}, {self.weight(a[1], env)})"])]}
            if op == ["add_arc"] and len(a) == 4:
                lab = list(self.lpair(a[1], env)) if self.kind_of_obj == "FST" else [self.label(a[1], env)]
                return {"arcs": [("lit", ["⟨" + ", ".join([self.state(a[0], env)] + lab + [self.state(a[2], env), self.weight(a[3], env)]) + "⟩"])]}
        elif op == ["add"] and len(a) >= 2:
            self.pin("add")
            parts = []
            for y in a[2:]:
                if isinstance(y, ast.Starred):
                    parts = _cat(parts, [("raw", self.seq(y.value, env))])
                elif isinstance(y, ast.Name) and env.get(y.id, Val("")).k == "label":
                    # an arc label as a body symbol: only where it is known not to be ε (`else` of `a == EPSILON`)
                    if env[y.id].ty != "noneps" or self.esym:
                        raise Untranslatable(f"label {y.id} as a body symbol (it may be ε)")
                    parts = _cat(parts, [("raw", f"{env[y.id].tm}.toList")])
                else:
                    parts = _cat(parts, [("lit", [self.sym(y, env)])])
            return {"rules": [("lit", [f"⟨{self.weight(a[0], env)}, {self.sym(a[1], env)}, {_render(parts)}⟩"])]}
        elif op == ["V", "add"] and len(a) == 1 and not self.nest:
            self.V = f"{self.sym(a[0], env)} :: {self.V}"
            return {}
        raise Untranslatable("call " + ast.unparse(c)[:80])

    def loop(self, s, env, d):
        it, tg, env = s.iter, s.target, dict(env)
        e = "e" if d == 0 else f"e{d}"
        names = [x for x in tg.elts] if isinstance(tg, ast.Tuple) else None
        ch = _attr_chain(it.func if isinstance(it, ast.Call) else it)

        def bind(name, val):
            if not isinstance(name, ast.Name) or name.id in env:     # no shadowing: Python's loop variables leak
                raise Untranslatable("loop target " + ast.unparse(tg))
            env[name.id] = val
        if isinstance(it, ast.Name) and it.id in env and env[it.id].k in ("syms", "labels", "cfg"):
            v, b = env[it.id], _ident(tg)
            if v.k == "cfg":
                self.pin("__iter__")
            src = v.tm + (".rules" if v.k == "cfg" else "")
            bind(tg, Val("sym", b) if v.k == "syms" else Val("label", self.lift(b)) if v.k == "labels" else Val("rule", b))
        elif not isinstance(it, ast.Call) and ch and len(ch) == 2 and env.get(ch[0], Val("")).k == "mach" and ch[1] in ("I", "F") \
                and names and len(names) == 2:
            m, b = env[ch[0]], e
            src = f"{m.tm}.{'start' if ch[1] == 'I' else 'stop'}"
            bind(names[0], Val("state", f"{e}.1", m.ty[1]))
            bind(names[1], Val("weight", f"{e}.2"))
        elif isinstance(it, ast.Name) and env.get(it.id, Val("")).k == "stateset":
            b = _ident(tg)                 # a Python set: no repetitions
            src = f"{env[it.id].tm}.eraseDups"
            bind(tg, Val("state", b, "ι"))
        elif isinstance(it, ast.Subscript) and _attr_chain(it.value) and len(_attr_chain(it.value)) == 2 and isinstance(tg, ast.Name) \
                and env.get(_attr_chain(it.value)[0], Val("")).k == "closure" and _attr_chain(it.value)[1] == "outgoing":
            c, b = env[_attr_chain(it.value)[0]], _ident(tg)
            src = f"({c.tm}_outgoing {self.samestate(it.slice, env)})"
            bind(tg, Val("state", b, c.ty))
        elif not isinstance(it, ast.Call) and ch and len(ch) == 2 and env.get(ch[0], Val("")).k == "mach" and ch[1] == "states":
            m, b = env[ch[0]], _ident(tg)
            src = f"({m.ty[0]}.states {m.tm})"
            bind(tg, Val("state", b, m.ty[1]))
        elif isinstance(it, ast.Call) and ch and len(ch) == 2 and env.get(ch[0], Val("")).k == "mach" and ch[1] == "arcs" \
                and not it.keywords and names and len(names) + len(it.args) == 4 and len(it.args) <= 1:
            m, b = env[ch[0]], e
            src = f"{m.tm}.arcs"
            if it.args:
                i = env.get(it.args[0].id) if isinstance(it.args[0], ast.Name) else None
                if i is None or i.k != "state" or i.ty != m.ty[1]:
                    raise Untranslatable("arcs of " + ast.unparse(it))
                src = f"({src}.filter fun {e} => {e}.src = {i.tm})"
            else:
                bind(names[0], Val("state", f"{e}.src", m.ty[1]))
            lab = names[-3]
            if m.ty[0] == "FST":
                two = (self.lift(f"{e}.inp"), self.lift(f"{e}.out"))
                if isinstance(lab, ast.Tuple) and len(lab.elts) == 2:
                    bind(lab.elts[0], Val("label", two[0]))
                    bind(lab.elts[1], Val("label", two[1]))
                else:
                    bind(lab, Val("lpair", two))
            else:
                bind(lab, Val("label", self.lift(f"{e}.lbl")))
            bind(names[-2], Val("state", f"{e}.dst", m.ty[1]))
            bind(names[-1], Val("weight", f"{e}.w"))
        elif isinstance(it, ast.Call) and ast.unparse(it.func) == "range" and isinstance(tg, ast.Name) \
                and (ast.unparse(it).startswith("range(len(") or self.opt.get("pin")):
            b = _ident(tg)
            src = f"(List.range {self.nat(it.args[0], env)})" if len(it.args) == 1 and not it.keywords else None
            bind(tg, Val("nat", b))
        elif not isinstance(it, ast.Call) and ch and len(ch) == 2 and env.get(ch[0], Val("")).k == "cfg" and ch[1] == "V" and self.opt.get("pin"):
            b = _ident(tg)                 # a Python set: no repetitions
            src = f"{env[ch[0]].tm}.V.eraseDups"
            bind(tg, Val("sym", b))
        elif isinstance(it, ast.Subscript) and _attr_chain(it.value) and len(_attr_chain(it.value)) == 2 and self.opt.get("pin") \
                and env.get(_attr_chain(it.value)[0], Val("")).k == "cfg" and _attr_chain(it.value)[1] == "rhs" and isinstance(tg, ast.Name):
            self.pin("rhs")                # `self.rhs[X]`: the rules with head X, in order
            self.pin("__iter__")
            g, b = env[_attr_chain(it.value)[0]], _ident(tg)
            src = f"({g.tm}.rules.filter fun {b} => {b}.head = {self.sym(it.slice, env)})"
            bind(tg, Val("rule", b))
        elif isinstance(it, ast.Call) and ast.unparse(it.func) == "enumerate" and len(it.args) == 1 and not it.keywords \
                and names and len(names) == 2 and isinstance(names[1], ast.Name) and isinstance(it.args[0], ast.Name) \
                and env.get(it.args[0].id, Val("")).k == "cfg":
            self.pin("__iter__")
            b = e
            src = f"{env[it.args[0].id].tm}.rules.zipIdx"
            bind(names[0], Val("nat", f"{e}.2"))
            bind(names[1], Val("rule", f"{e}.1"))
        elif isinstance(it, ast.Call) and ast.unparse(it.func) == "enumerate" and len(it.args) == 1 and not it.keywords \
                and names and len(names) == 2 and isinstance(names[1], ast.Tuple) and len(names[1].elts) == 2:
            x, b = it.args[0], e
            bind(names[0], Val("nat", f"{e}.2"))
            if isinstance(x, ast.Name) and env.get(x.id, Val("")).k == "pairs":
                src = f"{env[x.id].tm}.zipIdx"
                bind(names[1].elts[0], Val("str", f"{e}.1.1"))
                bind(names[1].elts[1], Val("str", f"{e}.1.2"))
            elif isinstance(x, ast.Call) and ast.unparse(x.func) == "zip_longest" and len(x.args) == 2 and not self.esym \
                    and [ast.unparse(k) for k in x.keywords] == ["fillvalue=EPSILON"] and self.const("EPSILON") \
                    and all(isinstance(y, ast.Name) and env.get(y.id, Val("")).k == "str" for y in x.args):
                src = f"(zipLongest {env[x.args[0].id].tm} {env[x.args[1].id].tm}).zipIdx"
                bind(names[1].elts[0], Val("label", f"{e}.1.1"))
                bind(names[1].elts[1], Val("label", f"{e}.1.2"))
            else:
                src = None
        else:
            src = None
        if src is None:
            raise Untranslatable("loop over " + ast.unparse(it))
        self.nest += 1
        body = self.block(s.body, env, d + (1 if b == e else 0))
        self.nest -= 1
        return {nm: [("for", src, b, ps)] for nm, ps in body.items() if ps}

    def branch(self, s, env, d):
        # (a) `if c1: v = (l, l') elif c2: v = (m, m')` on a label-pair variable: conditional rebinding
        chain, cur = [], s
        while isinstance(cur, ast.If) and len(cur.body) == 1 and isinstance(cur.body[0], ast.Assign) and len(cur.body[0].targets) == 1 \
                and isinstance(cur.body[0].targets[0], ast.Name) and env.get(cur.body[0].targets[0].id, Val("")).k == "lpair":
            chain.append((cur.test, cur.body[0].targets[0].id, cur.body[0].value))
            if len(cur.orelse) == 1 and isinstance(cur.orelse[0], ast.If):
                cur = cur.orelse[0]
            else:
                cur = cur.orelse
                break
        if chain and cur == [] and len({v for _, v, _ in chain}) == 1:
            var = chain[0][1]
            new = list(env[var].tm)
            for t, _, val in reversed(chain):
                c, p = self.test(t, env), self.lpair(val, env)
                new = [f"(if {c} then {p[k]} else {new[k]})" for k in (0, 1)]
            env[var] = Val("lpair", tuple(new))
            return {}
        # (b) branches that add entries
        c = self.test(s.test, env)
        if isinstance(c, bool):      # decided by a constant flag (inlined `spawn`): only the live branch exists
            return self.block(s.body if c else s.orelse, env, d)
        e_thn, e_els = dict(env), dict(env)
        t = s.test      # `a == EPSILON` / `a != EPSILON` on a label variable: in the other branch `a` is a symbol
        if isinstance(t, ast.Compare) and len(t.ops) == 1 and isinstance(t.ops[0], (ast.Eq, ast.NotEq)) and isinstance(t.left, ast.Name) \
                and env.get(t.left.id, Val("")).k == "label" and ast.unparse(t.comparators[0]) in ("EPSILON", "ε") and not self.esym:
            (e_els if isinstance(t.ops[0], ast.Eq) else e_thn)[t.left.id] = Val("label", env[t.left.id].tm, "noneps")
        self.nest += 1
        thn, els = self.block(s.body, e_thn, d), self.block(s.orelse, e_els, d)
        self.nest -= 1
        return {nm: [("if", c, thn.get(nm, []), els.get(nm, []))] for nm in list(thn) + [k for k in els if k not in thn]}

    # ------------------------------------------------------------------ the definition
    def translate(self):
        a = self.fn.args
        if a.posonlyargs or a.vararg or (a.kwonlyargs and not self.opt.get("kwonly")):
            raise Untranslatable("signature")
        params = [x.arg for x in a.args] + [x.arg for x in a.kwonlyargs] + ([a.kwarg.arg] if a.kwarg else [])
        mode_default, need = {}, set()
        if params != list(self.kinds):
            raise Untranslatable(f"parameters {params} (expected {list(self.kinds)})")
        for x, dflt in list(zip(a.args[len(a.args) - len(a.defaults):], a.defaults)) + list(zip(a.kwonlyargs, a.kw_defaults)):
            if isinstance(dflt, ast.Constant) and isinstance(dflt.value, str) and self.kinds[x.arg] == "mode" and re.fullmatch(r"[a-z_]+", dflt.value):
                mode_default[x.arg] = dflt.value      # becomes the default value of the Lean parameter
                continue
            if self.kinds[x.arg] == "sym":
                need.add(x.arg)
            if not (isinstance(dflt, ast.Constant) and dflt.value is None and self.kinds[x.arg] in ("skip", "oweight", "sym", "osym", "ovocab")):
                raise Untranslatable(f"default of {x.arg}")
        env, binders = {}, []
        for p, k in self.kinds.items():
            if isinstance(k, tuple):
                env[p] = Val("mach", p, k[1])
                binders.append(f"({p} : {k[1][0]} {k[1][1]} σ K)")
            else:
                env[p] = Val(k, p)
                if k != "skip":
                    binders.append(f"({p} : {P_TY[k]}" + (f' := "{mode_default[p]}")' if p in mode_default else ")"))
        stmts = [s for s in self.fn.body]
        sigma = "(ESym σ)" if self.esym else "σ"
        rty = f"CFG σ {self.opt.get('K', 'K')}" if self.ret[0] == "CFG" else \
            f"{self.ret[0]} {'(' + self.ret[1] + ')' if ' ' in self.ret[1] else self.ret[1]} {sigma} K"
        last = stmts[-1] if stmts else None
        docs = lambda ss: all(isinstance(s, ast.Expr) and isinstance(s.value, ast.Constant) for s in ss)   # noqa: E731
        if isinstance(last, ast.Return) and isinstance(last.value, ast.Call) and docs(stmts[:-1]) and self.ret[0] == "CFG":
            S, V = self.cfg_ctor(last.value, env)          # `CFG.spawn`: an empty grammar
            rhs = f" where\n  S := {S}\n  V := {V}\n  rules := []"
        elif self.opt.get("returns") == "new-or-self":
            # `if <test>: <build new>; return new  else: return self` (the whole body)
            if not (isinstance(last, ast.If) and docs(stmts[:-1]) and len(last.orelse) == 1 and isinstance(last.orelse[0], ast.Return)
                    and isinstance(last.orelse[0].value, ast.Name) and env.get(last.orelse[0].value.id, Val("")).k == "cfg"):
                raise Untranslatable("shape of the body (if .. return new else return self)")
            c = self.test(last.test, env)
            if not isinstance(c, str):
                raise Untranslatable("test " + ast.unparse(last.test))
            ch = self.body(last.body, env, 0)
            if self.kind_of_obj != "CFG" or set(ch) - {"rules"}:
                raise Untranslatable("result of the first branch")
            rhs = f" :=\n  if {c} then {{ S := {self.S}, V := {self.V}, rules := {_render(ch.get('rules', []))} }}\n  else {env[last.orelse[0].value.id].tm}"
        elif isinstance(last, ast.Return) and isinstance(last.value, ast.Call) and docs(stmts[:-1]):
            c = self.new_machine(last.value, env)
            if c is not None:
                v = Val("mach", "{ start := [], stop := [], arcs := [] }", (c, self.ret[1]))
            else:
                v = self.call(last.value, env)
            if v.ty != tuple(self.ret):
                raise Untranslatable(f"result {v.ty} (expected {self.ret})")
            rhs = " :=\n  " + v.tm
        else:
            ch = self.body(stmts, env, 0)
            if self.kind_of_obj != self.ret[0]:
                raise Untranslatable(f"result class {self.kind_of_obj}")
            if self.ret[0] == "CFG":
                rhs = f" where\n  S := {self.S}\n  V := {self.V}\n  rules := {_render(ch.get('rules', []))}"
                extra = set(ch) - {"rules"}
            else:
                rhs = " where" + "".join(f"\n  {nm} := {_render(ch.get(nm, []))}" for nm in ("start", "stop", "arcs"))
                extra = set(ch) - {"start", "stop", "arcs"}
            if extra:
                raise Untranslatable(f"entries {extra} in a {self.ret[0]}")
        if need - self.resolved:
            raise Untranslatable(f"optional parameter(s) {sorted(need - self.resolved)}: the default None is not replaced in the body")
        doc = f"/-- `{self.file}`: `{self.py}({', '.join(params)})`" + "".join(f"; requires `{p}`" for p in self.pre) + " -/\n"
        return doc + f"def {self.opt.get('name') or lean_name(self.py)} {' '.join(self.inst + binders + self.extra)} : {rty}{rhs}\n", params


def translate_builders(read):
    """`read(file)` -> source text.  Returns (Lean text, {python name: reason} of the functions left out)."""
    trees, failed, done = {}, {}, {}
    for f in sorted({b[0] for b in BUILDERS}):
        trees[f] = ast.parse(read(f))
    out = ["/- GENERATED by harness/translate.py from genlm/grammar/{fst,cfg,cfglm,wfsa/base}.py — do not edit -/",
           "import GenlmModel.Model.FstOps", "import GenlmModel.Model.Norm", "import GenlmModel.Model.WfsaOps2", "namespace Genlm.Gen.Build",
           "set_option linter.unusedVariables false", "",
           "variable {ι κ σ K K' : Type} [DecidableEq ι] [DecidableEq κ] [DecidableEq σ] [Add K] [Mul K] [Zero K] [One K]", ""]
    for spec in BUILDERS:
        try:
            txt, params = Builder(spec, trees, done).translate()
            done[spec[1]] = (params, spec)
            out += [txt]
        except Exception as e:   # Untranslatable, or an AST shape the code above did not expect: fail closed
            failed[spec[1]] = str(e) if isinstance(e, Untranslatable) else f"internal: {e!r}"
            out += [f"-- `{spec[0]}`: `{spec[1]}` is outside the translated fragment: {str(e)[:200]}".replace("\n", " "), ""]
    out.append("end Genlm.Gen.Build")
    return "\n".join(out) + "\n", failed


# ----------------------------------------------------------------------------- fold functions
# A second STRICT fragment: functions that compute a VALUE with one accumulator loop (chart.py, lm.py).  Output:
# Generated/Folds.lean; Proofs/GenLink/{ChartProduct,Lm}.lean prove `gen_<f>_eq_model`.
# Statement language: `assert` (recorded), `ACC = <scalar>`, `for <x> in <keys>` / `for i, y in enumerate(<keys>)` whose body is
# `assert`, `x = self.p_next(<keys>[:i])`, `ACC op= <scalar>` and a final `if ACC == 0: break`; `if <scalar> == 0: return self`;
# `return <scalar | chart comprehension>`.
# Interpretation (fixed here): a `Chart` read with `self[k]` (`__missing__` gives zero) is a total function `τ → K`; a chart that
# is iterated (`values()`, `items()`) is an association list `List (τ × K)`; Python's `sum` is a left fold from `0`;
# `self.semiring.chart(<pairs>)` is the list of the pairs; `self.p_next(c)[y]` is an explicit function `p_next c y`;
# a loop with `break` is a fold over (accumulator, stopped) that ignores the rounds after the break.
FOLDS = [
    ("chart.py", "Chart.sum", ["C04"], {"self": "chart"}, "K"),
    ("chart.py", "Chart.normalize", ["C04"], {"self": "chart"}, "List (τ × K)"),
    ("chart.py", "Chart.product", ["C20"], {"self": "chartfn", "ks": "keys"}, "K"),
    ("lm.py", "LM.__call__", ["C04"], {"self": "lm", "context": "keys"}, "K"),
]
F_TY = {"chart": "List (τ × K)", "chartfn": "τ → K", "keys": "List τ"}


class Fold:
    def __init__(self, spec, trees, done):
        self.file, self.py, self.props, self.kinds, self.rty = spec
        self.trees, self.done, self.pre = trees, done, []
        self.fn = Builder.find(self, self.file, self.py)

    def keys(self, n, env):
        if isinstance(n, ast.Name) and env.get(n.id, Val("")).k == "keys":
            return env[n.id].tm
        if isinstance(n, ast.Subscript) and isinstance(n.slice, ast.Slice) and n.slice.lower is None and n.slice.step is None \
                and n.slice.upper is not None:
            return f"({self.keys(n.value, env)}.take {self.nat(n.slice.upper, env)})"
        raise Untranslatable("sequence " + ast.unparse(n))

    def nat(self, n, env):
        if isinstance(n, ast.Name) and env.get(n.id, Val("")).k == "nat":
            return env[n.id].tm
        raise Untranslatable("number " + ast.unparse(n))

    def key(self, n, env):
        if isinstance(n, ast.Name) and env.get(n.id, Val("")).k == "key":
            return env[n.id].tm
        raise Untranslatable("key " + ast.unparse(n))

    def scalar(self, n, env):
        if isinstance(n, ast.Constant) and type(n.value) is int and n.value in (0, 1):
            return str(n.value)
        if isinstance(n, ast.Name) and env.get(n.id, Val("")).k == "scalar":
            return env[n.id].tm
        ch = _attr_chain(n)
        if ch and len(ch) == 3 and env.get(ch[0], Val("")).k in ("chart", "chartfn") and ch[1] == "semiring" and ch[2] in ("one", "zero"):
            return "1" if ch[2] == "one" else "0"
        if isinstance(n, ast.BinOp) and type(n.op) in (ast.Add, ast.Mult, ast.Div):
            return f"({self.scalar(n.left, env)} {({ast.Add: '+', ast.Mult: '*', ast.Div: '/'})[type(n.op)]} {self.scalar(n.right, env)})"
        if isinstance(n, ast.Subscript) and isinstance(n.value, ast.Name) and env.get(n.value.id, Val("")).k in ("chartfn", "dist"):
            return f"({env[n.value.id].tm} {self.key(n.slice, env)})"
        if isinstance(n, ast.Call) and not n.keywords:
            f = ast.unparse(n.func)
            if f == "sum" and len(n.args) == 1:
                a = n.args[0]
                if isinstance(a, ast.Call) and not a.args and not a.keywords and _attr_chain(a.func) and len(_attr_chain(a.func)) == 2 \
                        and env.get(_attr_chain(a.func)[0], Val("")).k == "chart" and _attr_chain(a.func)[1] == "values":
                    return f"({env[_attr_chain(a.func)[0]].tm}.foldl (fun acc e => acc + e.2) 0)"
            ch = _attr_chain(n.func)
            if ch and len(ch) == 2 and not n.args and env.get(ch[0], Val("")).k == "chart" and f"Chart.{ch[1]}" in self.done \
                    and self.done[f"Chart.{ch[1]}"] == ["self"] and ch[1] == "sum":
                return f"(Chart_sum {env[ch[0]].tm})"
        raise Untranslatable("value " + ast.unparse(n))

    def result(self, n, env):
        if self.rty == "K":
            return self.scalar(n, env)
        if isinstance(n, ast.Name) and env.get(n.id, Val("")).k == "chart":
            return env[n.id].tm
        if isinstance(n, ast.Call) and not n.keywords and len(n.args) == 1 and isinstance(n.args[0], ast.GeneratorExp):
            ch, g = _attr_chain(n.func), n.args[0]
            if ch and len(ch) == 3 and env.get(ch[0], Val("")).k == "chart" and ch[1:] == ["semiring", "chart"] and len(g.generators) == 1:
                gg = g.generators[0]
                it = gg.iter
                if not gg.ifs and not gg.is_async and isinstance(gg.target, ast.Tuple) and len(gg.target.elts) == 2 \
                        and all(isinstance(x, ast.Name) and x.id not in env for x in gg.target.elts) \
                        and isinstance(it, ast.Call) and not it.args and not it.keywords and _attr_chain(it.func) == [ch[0], "items"] \
                        and isinstance(g.elt, ast.Tuple) and len(g.elt.elts) == 2:
                    inner = dict(env)
                    inner[gg.target.elts[0].id] = Val("key", "e.1")
                    inner[gg.target.elts[1].id] = Val("scalar", "e.2")
                    return f"({env[ch[0]].tm}.map fun e => ({self.key(g.elt.elts[0], inner)}, {self.scalar(g.elt.elts[1], inner)}))"
        raise Untranslatable("result " + ast.unparse(n))

    def loop(self, s, env, acc):
        """`for` with accumulator `acc` -> Lean term of the final accumulator"""
        if s.orelse:
            raise Untranslatable("for .. else")
        env, it, tg = dict(env), s.iter, s.target
        if isinstance(it, ast.Name) and env.get(it.id, Val("")).k == "keys" and isinstance(tg, ast.Name) and tg.id not in env:
            src, b = env[it.id].tm, _ident(tg)
            env[tg.id] = Val("key", b)
        elif isinstance(it, ast.Call) and ast.unparse(it.func) == "enumerate" and len(it.args) == 1 and not it.keywords \
                and isinstance(tg, ast.Tuple) and len(tg.elts) == 2 and all(isinstance(x, ast.Name) and x.id not in env for x in tg.elts):
            src, b = f"{self.keys(it.args[0], env)}.zipIdx", "e"
            env[tg.elts[0].id] = Val("nat", "e.2")
            env[tg.elts[1].id] = Val("key", "e.1")
        else:
            raise Untranslatable("loop over " + ast.unparse(it))
        lets, brk, body = [], False, list(s.body)
        if body and ast.unparse(body[-1]) == f"if {acc} == 0:\n    break":
            brk, body = True, body[:-1]
        for st in body:
            if isinstance(st, ast.Assert):
                self.pre.append("in the loop: " + ast.unparse(st.test))
            elif isinstance(st, ast.AugAssign) and isinstance(st.target, ast.Name) and st.target.id == acc and type(st.op) in (ast.Mult, ast.Add):
                lets.append(f"let {acc} := {acc} {'*' if isinstance(st.op, ast.Mult) else '+'} {self.scalar(st.value, env)}")
            elif isinstance(st, ast.Assign) and len(st.targets) == 1 and isinstance(st.targets[0], ast.Name) and st.targets[0].id not in env \
                    and isinstance(st.value, ast.Call) and _attr_chain(st.value.func) and len(_attr_chain(st.value.func)) == 2 \
                    and env.get(_attr_chain(st.value.func)[0], Val("")).k == "lm" and _attr_chain(st.value.func)[1] == "p_next" \
                    and len(st.value.args) == 1 and not st.value.keywords:
                nm = _ident(st.targets[0])
                lets.append(f"let {nm} := p_next {self.keys(st.value.args[0], env)}")
                env[st.targets[0].id] = Val("dist", nm)
            else:
                raise Untranslatable("statement in a loop: " + ast.unparse(st)[:80])
        if not any(x.startswith(f"let {acc} :=") for x in lets):
            raise Untranslatable("loop without an update of " + acc)
        if brk:
            return (f"({src}.foldl (fun (st : K × Bool) {b} => if st.2 then st else\n      let {acc} := st.1; " + "; ".join(lets)
                    + f"; ({acc}, decide ({acc} = 0))) ({env[acc].tm}, false)).1")
        return f"({src}.foldl (fun {acc} {b} => " + "; ".join(lets) + f"; {acc}) {env[acc].tm})"

    def translate(self):
        a = self.fn.args
        if a.posonlyargs or a.vararg or a.kwonlyargs or a.kwarg or a.defaults or [x.arg for x in a.args] != list(self.kinds):
            raise Untranslatable("signature")
        env, binders = {}, []
        for p_, k in self.kinds.items():
            env[p_] = Val(k, p_)
            binders.append("(p_next : List τ → τ → K)" if k == "lm" else f"({p_} : {F_TY[k]})")
        lines = []
        stmts = [x for x in self.fn.body if not (isinstance(x, ast.Expr) and isinstance(x.value, ast.Constant))]
        for k, st in enumerate(stmts):
            last = k == len(stmts) - 1
            if isinstance(st, ast.Assert) and not last:
                self.pre.append(ast.unparse(st.test))
            elif isinstance(st, ast.Assign) and not last and len(st.targets) == 1 and isinstance(st.targets[0], ast.Name) and st.targets[0].id not in env:
                nm = _ident(st.targets[0])
                lines.append(f"let {nm} : K := {self.scalar(st.value, env)}")
                env[st.targets[0].id] = Val("scalar", nm)
            elif isinstance(st, ast.For) and not last and k + 2 == len(stmts) and ast.unparse(stmts[-1]).startswith("return ") \
                    and isinstance(stmts[-1].value, ast.Name) and env.get(stmts[-1].value.id, Val("")).k == "scalar":
                acc = stmts[-1].value.id
                lines.append(f"let {acc} : K := {self.loop(st, env, acc)}")
            elif isinstance(st, ast.If) and not last and not st.orelse and len(st.body) == 1 and isinstance(st.body[0], ast.Return) \
                    and isinstance(st.test, ast.Compare) and len(st.test.ops) == 1 and isinstance(st.test.ops[0], ast.Eq) \
                    and isinstance(st.test.comparators[0], ast.Constant) and type(st.test.comparators[0].value) is int \
                    and st.test.comparators[0].value == 0 and k + 2 == len(stmts) and isinstance(stmts[-1], ast.Return):
                lines.append(f"if {self.scalar(st.test.left, env)} = 0 then {self.result(st.body[0].value, env)} else "
                             f"{self.result(stmts[-1].value, env)}")
                break
            elif isinstance(st, ast.Return) and last and st.value is not None:
                lines.append(self.result(st.value, env))
            else:
                raise Untranslatable("statement " + ast.unparse(st)[:80])
        else:
            if not stmts or not isinstance(stmts[-1], ast.Return):
                raise Untranslatable("no final return")
        params = [x.arg for x in a.args]
        doc = f"/-- `{self.file}`: `{self.py}({', '.join(params)})`" + "".join(f"; requires `{p_}`" for p_ in self.pre) + " -/\n"
        return doc + f"def {lean_name(self.py)} {' '.join(binders)} : {self.rty} :=\n  " + "\n  ".join(lines) + "\n", params


def translate_folds(read):
    trees, failed, done = {}, {}, {}
    for f in sorted({b[0] for b in FOLDS}):
        trees[f] = ast.parse(read(f))
    out = ["/- GENERATED by harness/translate.py from genlm/grammar/{chart,lm}.py — do not edit -/",
           "namespace Genlm.Gen.Fold", "set_option linter.unusedVariables false", "",
           "variable {τ K : Type} [Add K] [Mul K] [Div K] [Zero K] [One K] [DecidableEq K]", ""]
    for spec in FOLDS:
        try:
            txt, params = Fold(spec, trees, done).translate()
            done[spec[1]] = params
            out += [txt]
        except Exception as e:   # fail closed
            failed[spec[1]] = str(e) if isinstance(e, Untranslatable) else f"internal: {e!r}"
            out += [f"-- `{spec[0]}`: `{spec[1]}` is outside the translated fragment: {str(e)[:200]}".replace("\n", " "), ""]
    out.append("end Genlm.Gen.Fold")
    return "\n".join(out) + "\n", failed


def _write_if_changed(path, txt):
    os.makedirs(os.path.dirname(path), exist_ok=True)
    if not os.path.exists(path) or open(path, encoding="utf-8").read() != txt:
        open(path, "w", encoding="utf-8").write(txt)


def run(prop=None):
    gen = os.environ.get("VERIF_GEN_OUT") or os.path.join(common.LEAN, "GenlmModel", "Generated")   # VERIF_GEN_OUT: dry run (development)
    log, ok = [], True
    try:
        src = open(os.path.join(common.REPO, "genlm", "grammar", "semiring.py"), encoding="utf-8").read()
        _write_if_changed(os.path.join(gen, "Semiring.lean"), translate_semiring(src))
        log.append("semiring.py translated")
    except Untranslatable as e:
        ok = False
        log.append(f"semiring.py: untranslatable: {e}")
    try:
        parts = ["/- GENERATED by harness/translate.py from genlm/grammar/parse/earley*.py — do not edit -/\nnamespace Genlm.Gen\n"]
        for f, ns in (("earley.py", "Earley"), ("earley_rescaled.py", "EarleyRescaled")):
            parts.append(translate_earley(open(os.path.join(common.REPO, "genlm", "grammar", "parse", f), encoding="utf-8").read(), ns))
        parts.append("end Genlm.Gen\n")
        _write_if_changed(os.path.join(gen, "Earley.lean"), "\n".join(parts))
        log.append("earley priorities translated")
    except Untranslatable as e:
        ok = False
        log.append(f"earley: untranslatable: {e}")
    try:
        base = os.path.join(common.REPO, "genlm", "grammar")
        txt, failed = translate_builders(lambda f: open(os.path.join(base, f), encoding="utf-8").read())
        _write_if_changed(os.path.join(gen, "Builders.lean"), txt)
        # a builder that left the fragment is a broken tie of the properties whose models it regenerates (only of those)
        mine = {b[1]: why for b in BUILDERS for why in [failed.get(b[1])] if why and (prop is None or prop in b[2])}
        log.append(f"builders: {len(BUILDERS) - len(failed)}/{len(BUILDERS)} translated")
        for nm, why in mine.items():
            ok = False
            log.append(f"{nm}: untranslatable: {why}")
    except (Untranslatable, SyntaxError, OSError) as e:
        ok = False
        log.append(f"builders: untranslatable: {e}")
    try:
        base = os.path.join(common.REPO, "genlm", "grammar")
        txt, failed = translate_folds(lambda f: open(os.path.join(base, f), encoding="utf-8").read())
        _write_if_changed(os.path.join(gen, "Folds.lean"), txt)
        mine = {b[1]: why for b in FOLDS for why in [failed.get(b[1])] if why and (prop is None or prop in b[2])}
        log.append(f"folds: {len(FOLDS) - len(failed)}/{len(FOLDS)} translated")
        for nm, why in mine.items():
            ok = False
            log.append(f"{nm}: untranslatable: {why}")
    except (Untranslatable, SyntaxError, OSError) as e:
        ok = False
        log.append(f"folds: untranslatable: {e}")
    return {"ok": ok, "log": "; ".join(log)}


if __name__ == "__main__":
    print(run())
