#!/bin/bash
# validate_mutant_wt.sh <id> [extra checks…] — like validate_mutant.sh but runs everything against the scratch worktree /tmp/mut/<id>
# (GENLM_REPO/PYTHONPATH), never touching /repo, so several can run in parallel. Not for patches that change translated sources
# (semiring.py, parse/earley*.py: the Generated/*.lean files are shared) — use validate_mutant.sh for those.
cd "$(dirname "$0")/.."
id=$1; shift
prop=${id%%_*}
checks="$prop $@"
src=/tmp/mut/${id}_out; wt=/tmp/mut/$id; out=/tmp/mut/${id}_scratch
d=seeded/$id
[ -f $src/patch.diff ] || src=$PWD/seeded/$id   # re-run of a stored change
[ -f $src/patch.diff ] || { echo "$id: no patch"; exit 2; }
[ -d $wt ] || git -C /repo worktree add -q $wt HEAD
# (whether the translator output changes is decided by validate_auto.sh)
mkdir -p $d $out; [ "$src" = "$PWD/$d" ] || { cp $src/patch.diff $src/demo.py $d/; cp $src/notes.md $d/ 2>/dev/null; }
[ -d /tmp/mut/_clean ] || git -C /repo worktree add -q /tmp/mut/_clean HEAD
git -C /tmp/mut/_clean checkout -q --detach $(git -C /repo rev-parse HEAD) 2>/dev/null
git -C $wt checkout -q -- . && git -C $wt checkout -q --detach $(git -C /repo rev-parse HEAD) && git -C $wt apply $PWD/$d/patch.diff || { echo "$id: patch does not apply"; exit 2; }
find $wt -name __pycache__ -prune -exec rm -rf {} + 2>/dev/null
(cd /tmp/mut/_clean && PYTHONDONTWRITEBYTECODE=1 PYTHONPATH=/tmp/mut/_clean timeout 900 /venv/bin/python $OLDPWD/$d/demo.py >/dev/null 2>&1); clean=$?
tests=$(cd $wt && PYTHONPATH=$wt timeout 1200 /venv/bin/python -m pytest -q -p no:cacheprovider --timeout=900 2>&1 | tail -1)
(cd $wt && PYTHONPATH=$wt timeout 900 /venv/bin/python $OLDPWD/$d/demo.py >/dev/null 2>&1); mutated=$?
res=""
for c in $checks; do
  o=$(GENLM_REPO=$wt PYTHONPATH=$wt VERIF_OUT=$out timeout 2400 /venv/bin/python harness/check.py $c 2>/dev/null); rc=$?
  v=$(echo "$o" | grep VIOLATION | head -1 | sed 's/VIOLATION property=//')
  res="$res | $c rc=$rc ${v}"
  [ $rc -eq 1 ] && cp $out/replay/${c}_quick_0.json $d/replay_$c.json 2>/dev/null
done
echo "$id: demo clean=$clean mutated=$mutated; tests: $tests $res"
python3 - "$d" "$id" "$prop" "$clean" "$mutated" "$tests" "$res" <<'PY'
import json, sys, os
d, id_, prop, clean, mutated, tests, res = sys.argv[1:8]
notes = open(os.path.join(d, "notes.md")).read() if os.path.exists(os.path.join(d, "notes.md")) else ""
json.dump({"id": id_, "property": prop, "origin": "independent sub-agent given only the property text and a scratch worktree",
           "needs_to_manifest": notes[:1500], "confirmed": {"demo_on_unchanged_tree_rc": int(clean), "demo_on_mutated_tree_rc": int(mutated), "test_suite": tests.strip()},
           "checks_run": res.strip(" |") + " (run against a scratch worktree holding the patch)"}, open(os.path.join(d, "meta.json"), "w"), indent=1)
PY
rm -rf $out
[ -n "$KEEP_WT" ] || git -C /repo worktree remove --force $wt 2>/dev/null
