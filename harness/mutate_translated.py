"""Development tool (not run by any check): AST mutations of the functions that harness/translate.py regenerates.

For every translated function (BUILDERS + FOLDS, or the names given on the command line) each single-node mutation of its
body — an operator / comparison flipped, two call arguments swapped, a name replaced by another name of the same function, a small
constant changed, `.I` <-> `.F`, `.src`-like attribute swaps, a statement deleted — is applied to the module source, the
translator is re-run on the mutated text, and the regenerated definition is compared with the one of the unchanged source.
Prints `changed/total` per function and lists the survivors (mutations that leave the generated text as it was: they must
be semantic no-ops, or the tie has a hole).   usage: GENLM_REPO=… python harness/mutate_translated.py [python names…]"""
import ast
import copy
import os
import sys
import warnings

sys.path.insert(0, os.path.dirname(os.path.dirname(os.path.abspath(__file__))))
warnings.simplefilter("ignore")
from harness import common, translate  # noqa: E402

BASE = os.path.join(common.REPO, "genlm", "grammar")
SWAP_ATTR = {"I": "F", "F": "I", "head": "w", "w": "head", "body": "head", "start": "stop", "stop": "start", "one": "zero", "S": "V"}
CMP = {ast.Eq: ast.NotEq, ast.NotEq: ast.Eq, ast.In: ast.NotIn, ast.NotIn: ast.In, ast.Is: ast.IsNot, ast.IsNot: ast.Is}
BIN = {ast.Add: ast.Sub, ast.Mult: ast.Add, ast.Sub: ast.Add, ast.Div: ast.Mult, ast.MatMult: ast.Mult, ast.Pow: ast.Mult}


def find(tree, py):
    body = tree.body
    for part in py.split("."):
        hit = [n for n in body if isinstance(n, (ast.ClassDef, ast.FunctionDef)) and n.name == part]
        body = hit[0].body
    return hit[0]


def mutants(fn):
    """yield (description, mutate(fn_copy)) pairs; nodes are addressed by their index in ast.walk order"""
    nodes = list(ast.walk(fn))
    names = sorted({n.id for n in nodes if isinstance(n, ast.Name)})
    for k, n in enumerate(nodes):
        if isinstance(n, ast.Compare) and type(n.ops[0]) in CMP:
            yield f"{k}: comparison flipped in `{ast.unparse(n)}`", k, lambda m: setattr(m, "ops", [CMP[type(m.ops[0])]()] + m.ops[1:])
        if isinstance(n, ast.BinOp) and type(n.op) in BIN:
            yield f"{k}: operator changed in `{ast.unparse(n)}`", k, lambda m: setattr(m, "op", BIN[type(m.op)]())
        if isinstance(n, ast.BinOp):
            yield f"{k}: operands swapped in `{ast.unparse(n)}`", k, lambda m: (lambda a, b: (setattr(m, "left", b), setattr(m, "right", a)))(m.left, m.right)
        if isinstance(n, ast.Call) and len(n.args) >= 2:
            for i in range(len(n.args) - 1):
                yield f"{k}: arguments {i},{i + 1} swapped in `{ast.unparse(n)}`", k, (lambda i: lambda m: m.args.__setitem__(slice(i, i + 2), [m.args[i + 1], m.args[i]]))(i)
        if isinstance(n, ast.Call) and n.args:
            yield f"{k}: last argument dropped in `{ast.unparse(n)}`", k, lambda m: m.args.pop()
        if isinstance(n, ast.Name) and isinstance(n.ctx, ast.Load):
            for other in names:
                if other != n.id:
                    yield f"{k}: name `{n.id}` -> `{other}`", k, (lambda o: lambda m: setattr(m, "id", o))(other)
        if isinstance(n, ast.Attribute) and n.attr in SWAP_ATTR:
            yield f"{k}: attribute `.{n.attr}` -> `.{SWAP_ATTR[n.attr]}` in `{ast.unparse(n)}`", k, lambda m: setattr(m, "attr", SWAP_ATTR[m.attr])
        if isinstance(n, ast.Constant) and type(n.value) is int:
            yield f"{k}: constant {n.value} -> {n.value + 1}", k, lambda m: setattr(m, "value", m.value + 1)
        if isinstance(n, ast.Constant) and isinstance(n.value, bool):
            yield f"{k}: constant {n.value} -> {not n.value}", k, lambda m: setattr(m, "value", not m.value)
        if isinstance(n, ast.Constant) and n.value in ("right", "left"):
            yield f"{k}: constant {n.value!r} changed", k, lambda m: setattr(m, "value", "left" if m.value == "right" else "right")
        if isinstance(n, ast.Tuple) and len(n.elts) == 2 and isinstance(n.ctx, ast.Load):
            yield f"{k}: pair swapped `{ast.unparse(n)}`", k, lambda m: m.elts.reverse()
        if isinstance(n, ast.Slice):
            yield f"{k}: slice bounds exchanged `{ast.unparse(n)}`", k, lambda m: (lambda a, b: (setattr(m, "lower", b), setattr(m, "upper", a)))(m.lower, m.upper)
        for field in ("body", "orelse"):
            blk = getattr(n, field, None)
            if isinstance(blk, list) and len(blk) >= 2 and all(isinstance(x, ast.stmt) for x in blk):
                for i, st in enumerate(blk):
                    if not (isinstance(st, ast.Expr) and isinstance(st.value, ast.Constant)):
                        yield f"{k}: statement deleted `{ast.unparse(st).splitlines()[0][:60]}`", k, (lambda f, i: lambda m: getattr(m, f).pop(i))(field, i)
        if isinstance(n, ast.If) and n.orelse:
            yield f"{k}: branches exchanged `if {ast.unparse(n.test)}`", k, lambda m: (lambda a, b: (setattr(m, "body", b), setattr(m, "orelse", a)))(m.body, m.orelse)


def defs(txt):
    out = {}
    for blk in txt.split("\n\n"):
        for line in blk.split("\n"):
            if line.startswith("def "):
                out[line.split()[1]] = blk
    return out


def generate(sources):
    rd = lambda f: sources[f]  # noqa: E731
    b, fb = translate.translate_builders(rd)
    f, ff = translate.translate_folds(rd)
    return {**defs(b), **defs(f)}


def main():
    specs = [(s[0], s[1], (s[5] if len(s) > 5 else {}).get("name") or translate.lean_name(s[1])) for s in translate.BUILDERS] + \
            [(s[0], s[1], translate.lean_name(s[1])) for s in translate.FOLDS]
    extra = [("wfsa/base.py", "WFSA.spawn", None), ("cfg.py", "CFG.spawn", None)]
    want = sys.argv[1:]
    files = sorted({s[0] for s in specs})
    clean_src = {f: open(os.path.join(BASE, f), encoding="utf-8").read() for f in files}
    clean = generate(clean_src)
    tot = chg = 0
    for file, py, lean in specs + [e for e in extra if e[1] in want]:
        if want and py not in want:
            continue
        tree = ast.parse(clean_src[file])
        fn = find(tree, py)
        n_all = n_chg = 0
        surv = []
        for desc, k, mut in mutants(fn):
            t2 = copy.deepcopy(tree)
            node = list(ast.walk(find(t2, py)))[k]
            try:
                mut(node)
                src2 = ast.unparse(ast.fix_missing_locations(t2))
                ast.parse(src2)
            except Exception:
                continue
            if src2 == ast.unparse(tree):
                continue
            now = generate({**clean_src, file: src2})
            n_all += 1
            if (now != clean) if lean is None else (now.get(lean) != clean.get(lean)):
                n_chg += 1
            else:
                surv.append(desc)
        tot, chg = tot + n_all, chg + n_chg
        print(f"{py}: {n_chg}/{n_all} mutations change the regenerated definition")
        for d in surv:
            print("    survivor:", d)
    print(f"TOTAL {chg}/{tot}")


if __name__ == "__main__":
    main()
