"""Runs a property module's `impl(case)` on the real library, one case per input line.
Started by check.py with a given PYTHONHASHSEED; prints one JSON line per case (flushed), so
that the parent can detect a hang, kill this process and restart after the stuck case."""
import json
import os
import sys
import traceback
import warnings

sys.path.insert(0, os.path.dirname(os.path.dirname(os.path.abspath(__file__))))
warnings.filterwarnings("ignore")


def classify(e):
    n = type(e).__name__
    if isinstance(e, AssertionError):
        return "Assertion"
    if isinstance(e, ZeroDivisionError):
        return "ZeroDivision"
    if isinstance(e, RecursionError):
        return "Recursion"
    return n


def main():
    prop = sys.argv[1]
    import importlib
    mod = importlib.import_module(f"harness.props.{prop.lower()}")
    from genlm.grammar import cfg as _cfg
    out = sys.stdout
    for line in sys.stdin:
        line = line.strip()
        if not line:
            continue
        case = json.loads(line)
        _cfg._gen_nt.i = 0
        from harness import common as _common
        _common.TOKEN_WRAP = case.get("token_type")
        try:
            res = mod.impl(case)
        except BaseException as e:  # noqa
            if isinstance(e, (KeyboardInterrupt, SystemExit)):
                raise
            res = {"exc": classify(e), "msg": str(e)[:300], "tb": traceback.format_exc()[-800:]}
        out.write(json.dumps({"id": case["id"], "res": res}, ensure_ascii=False) + "\n")
        out.flush()


if __name__ == "__main__":
    main()
