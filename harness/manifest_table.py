"""Per-property claims for MANIFEST.json (kept next to the checks so they stay in step)."""

TB = ("Trusted: Lean 4.33 kernel; axioms propext/Classical.choice/Quot.sound only (audited per theorem on every run); the correspondence "
      "harness (generators, canonicalisation, worker) as the sampled link between model and /repo; the Lean compiler for the native driver. ")


def fill(check):
    check("C01", "Lean 4 proof of a verified decision procedure for viable prefixes (Horn-clause least fixpoint) + differential correspondence of BoolCFGLM.p_next (both back ends) against it",
          "nextSet_spec/viable_spec/addEOS_derives: for every grammar and context the oracle returns exactly the tokens whose extension can be completed; the real masks (earley and cky back ends, "
          "several hash seeds) are compared with it on seeded grammars of all shape classes; thorough adds an exhaustive family of tiny grammars. Any difference is a violation with the input as replay.",
          TB + "Modelled, not verified: the Earley/CKY mask computation itself (decided per input against the verified oracle).", "DESIGN.md 7 C01")
    check("C02", "Lean 4 proof (Earley model incl. its priority-queue agenda, incremental CKY and _parse_chart models all equal the stratified derivation sum WN; memo table = WN; priority order on translator-generated expressions) + differential correspondence: values of all parsers against the proved WN oracle and the real Earley / CKY charts against the models",
          "earleyQ_correct (any pop among maximal-priority items), incCky_call, cfgParse_eq_WN, cky_correct, WN_perm, WN_rename in every commutative semiring; the models are tied to the code by comparing the real parsers' charts (complete and incomplete Earley items, CKY columns) "
          "and values with them under several hash seeds, rule permutations, renamings and randomly broken agenda ties.",
          TB + "Not modelled: the preprocessing inside Earley.__init__ as one pipeline (its stages are C06/C07), interning of rule suffixes, floating point, CPython dict/set semantics.", "DESIGN.md 7 C02")
    check("C03", "Lean 4 proof (prefix transducer relates each string to each prefix exactly once) + correspondence of prefix_weight / prefix_grammar / derivative against sums of the proved WN oracle",
          "prefix_transducer_unique for every alphabet and string pair; the weighted statements are decided by comparing the real prefix weights, prefix grammars and derivative grammars with Σ WN over all "
          "strings of finite-language grammars (exact) and deep truncations for cyclic ones; mirror models of prefix_transducer and derivative compared structurally.",
          TB + "The composition step is C09's; infinite languages are compared through convergent truncations with a tolerance.", "DESIGN.md 7 C03")
    check("C04", "Lean 4 proof (chain rule / normalisation algebra over any field; strict agenda priority of the rescaled parser on generated expressions) + correspondence of the three language models against WN-based prefix sums",
          "chain_rule_lm, normalize_sums_to_one, lmCall_chain_rule; the real p_next distributions, sequence probabilities and logp of EarleyLM, rescaled EarleyLM and CKYLM are compared with the factorisation computed from the proved WN oracle, "
          "with each other, and on long contexts for the rescaled variant.",
          TB + "Modelled, not verified: the Earley next-token recursion and the CKY outside pass (compared per input).", "DESIGN.md 7 C04")
    check("C05", "Lean 4 proof (memo-table discipline is transparent for every operation sequence and every pure column function) + differential histories on real parser / LM objects vs fresh objects, with aliasing snapshots",
          "history_independent over arbitrary chart/clear/seed sequences; the part a pure model cannot exhibit (Python aliasing, in-place mutation of cached columns, grammar mutation) is checked by running seeded query histories "
          "on one object against a fresh object per query, with deep snapshots of cached columns and of the grammar before/after.",
          TB + "CPython aliasing semantics are observed, not modelled.", "DESIGN.md 7 C05")
    check("C06", "Lean 4 proofs about mirror models (trim/cotrim/separate_start/rename level identities, unfold cofinality) + stage-wise structural correspondence of every transformation + WN of the real outputs against WN of the input",
          "Each transformation's real output grammar is sent to the proved WN oracle and compared with the input grammar's WN on sampled strings (every semiring offered); the mirror models are compared rule-for-rule with the real code, "
          "stage by stage through the cnf pipeline. Theorems: trim_preserves, cotrim_preserves, separateStart_preserves, unfold_preserves, WN_rename, WN_perm.",
          TB + "nullaryremove/unaryremove/unarycycleremove/binarize/separate_terminals semantic preservation is decided by the oracle comparison (proofs relative to the closure inputs are future work); null weights and unary closures are taken from the implementation as model inputs.", "DESIGN.md 7 C06")
    check("C07", "Lean 4 proofs of the structural postconditions of the mirror models (incl. the whole cnf pipeline) + verified-predicate evaluation on the real outputs + structural correspondence",
          "binarize_arity, separateStart_off_rhs, separateTerminals_shape, pushNull_no_nullary, unaryRemove_no_unary, trim_useful, trim_empty, cnf_shape for every input grammar; the decidable predicates are evaluated by the driver on the grammars the real code produced.",
          TB + "unarycycleremove's postcondition is decided per output by the predicate noUnaryCycle (reachability by the verified fixpoint engine), not by a theorem about a model.", "DESIGN.md 7 C07")
    check("C08", "Lean 4 proof (Kleene iterates ZN: table = specification, monotone chain, forgetful derivation sum, naive evaluator = ZN, Expectation lifting) + correspondence of agenda / naive_bottom_up / treesum / expected_length",
          "ZNtab_spec, ZN_mono_le, ZN_forget, bottom_up_step_is_ZN, expectation_lifting; the real evaluators are compared with ZN (exact when stationary, deep truncation otherwise) under 3–8 hash seeds.",
          TB + "The agenda algorithm itself (semi-naive updates, tolerance rule) is modelled only through its result; convergence is sampled.", "DESIGN.md 7 C08")
    check("C09", "Lean 4 proof of the weighted Bar-Hillel construction as the code performs it (compose_eps: ε on either tape, any grammar; exact identity without nullary rules / input ε; pruning to supported items irrelevant; acceptor and string products) + rule-for-rule structural correspondence of the real composed grammar with the model + value comparison against Σ_x WN·TPN",
          "The real composed grammars are evaluated by the proved WN oracle and compared with Σ_x WN(G,x)·TPN(T,x,y) from the Lean specifications for transducers with ε on either tape, ε:ε arcs, cycles, dead states, both argument orders, acceptors and strings.",
          TB + "General ε case proved as two-sided level-wise bounds (same limit), not as a graded identity; truncate_length decided per input.", "DESIGN.md 7 C09")
    check("C10", "Lean 4 proof (compose_graded_TPk: every pair of matching paths contributes exactly once through the ε-filter, both association branches; T, project, diag, from_string, from_pairs specs) + structural correspondence of the real composed machine with the model + value comparison against TPN",
          "f@g, f(x,y), cross-sections, transposition, projection and the constructors are compared with Σ_y TPN(f,x,y)·TPN(g,y,z) computed by the Lean specification on ε-acyclic machines (exact) and deep truncations otherwise.",
          TB + "The model keeps all state pairs; the real machine is compared with its reachable part. FST.__call__ is related to TPN by theorem only for ε-free machines (evalN_epsfree), otherwise per input.", "DESIGN.md 7 C10")
    check("C11", "Lean 4 proof (forward algorithm = sum over accepting paths on ε-free machines; DP table = path-sum specification with ε arcs and cycles) + correspondence of __call__, epsremove, total_weight",
          "forward_correct, PNtab_spec, Qk_epsfree_length; m(x), m.epsremove (no ε arcs, same weights as decided by the oracle on the real output) and total_weight are compared with the path-sum oracle over Float/Real/Boolean/MaxTimes.",
          TB + "ε-cyclic machines: deep IEEE truncation with geometric tail.", "DESIGN.md 7 C11")
    check("C12", "Lean 4 proof (union, concatenation, Kleene plus, reverse, injective renaming, lift, from_string, zero as exact-length path identities in every semiring) + language-level oracle on nested expressions + structural correspondence",
          "union_Pk, concat_Pk, kleenePlus_Pk, reverse_Pk, mapStates_Pk, lift_spec, fromString_spec, zero_spec; real nested expressions are evaluated and compared with the language-level recursion on operand weights from the proved oracle.",
          TB, "DESIGN.md 7 C12")
    check("C13", "Lean 4 proof (weighted subset construction: deterministic and weight-preserving whenever it terminates, never divides by zero for positive weights; min_det pipeline; push preserves / is stochastic; trim keeps exactly the useful states) + correspondence of the real results against the path-sum oracle, predicates on the outputs, structural models of push/trim/trim_vals",
          "String weights of the real results are compared with the proved path-sum oracle on all short strings; determinism, ε-freeness, stochasticity of pushed machines and usefulness of kept states are decided on the real outputs.",
          TB, "DESIGN.md 7 C13")
    check("C14", "Lean 4 proof of certificate checkers (equivalence certificates, separating words, Hankel-minor lower bounds) over exact arithmetic + comparison of the float implementation with the certified verdicts",
          "equivCert_sound, counterexample_sound, rankLower_sound: every generated pair gets a machine-checked verdict (equivalent on ALL words / a separating word; minimal dimension); counterexample(), ==, hash, min.dim, min(x) are compared with it; termination by time-out.",
          TB + "The certificate search (harness/qlinalg.py) is unverified but every certificate is re-checked; numpy/float behaviour is modelled, not verified.", "DESIGN.md 7 C14")
    check("C15", "Lean 4 proof (block solvers satisfy x = xA + b / x = Ax + b; Lehmann closure equations; exact SCC checker) + correspondence of closures, solvers and blocks",
          "solveLeft_eq, solveRight_eq, lehmann_closed, sccCheck_iff, closureScc_correct; the real closures and solutions are compared with the path-sum oracle, the real blocks are decided by the verified checker, the mirror models run on the real blocks.",
          TB + "Tarjan's algorithm is checked per run by the verified checker, not proved.", "DESIGN.md 7 C15")
    check("C16", "Lean 4 proof of all closed-semiring laws about definitions regenerated from semiring.py on every run (translator) + execution of the generated operations and of every law on the real classes",
          "151 theorems (all eight weight types incl. Entropy's identity shortcuts and Log on EReal) about Generated/Semiring.lean; a source change that breaks a law breaks the proof, and the law is then evaluated on the real classes over value grids to exhibit the failing triple.",
          TB + "The translator (harness/translate.py) is trusted and validated per run by executing the generated operations against the classes. 'Floats within rounding error' is sampled (Log: 1e-9).", "DESIGN.md 7 C16")
    check("C17", "Lean 4 proof (toCfgRight/Left_spec, toBytes_Pk, cfgToBytes_WN: weight of a byte string = total weight of its decodings) + structural models + correspondence against WN / path-sum oracles with UTF-8 decoding on real outputs, merged conversions included",
          "Real converted grammars and byte automata are evaluated by the proved oracles on all byte strings up to a bound and compared with the symbol-level weights through Lean's UTF-8 encoder; merged conversions included.",
          TB, "DESIGN.md 7 C17")
    check("C18", "Lean 4 proof (FSM→WFSA step: normalised, support = FSM acceptance, sub-probability; reference matcher = Mathlib rmatch) + structural model of the FSM→WFSA step on the FSM interegular actually produced + acceptance of all short strings against the verified matcher",
          "Regex ASTs are printed both in the library's syntax and as RegularExpression terms; acceptance of all strings up to a bound is compared; per-state outgoing mass is summed exactly.",
          TB + "interegular (third party) is validated per run through the end-to-end oracle.", "DESIGN.md 7 C18")
    check("C19", "Lean 4 proof of the substitution theorem (with %ignore) at derivation level + correspondence of char_cfg / byte_cfg against substitution semantics computed with the verified derivation procedure and the verified regex matcher",
          "Generated Lark grammars; acceptance of candidate strings/byte strings compared; name disjointness checked on the real output.",
          TB + "lark (third party) is trusted for loading the grammar and cross-checked only end-to-end.", "DESIGN.md 7 C19")
    check("C20", "Lean 4 proof (local normalisation: head sums one, proportionality; EOS wrapping) + correspondence on real outputs through the WN/ZN oracles + structural models",
          "ln_heads_sum_one, ln_proportional, addEOS_spec; per-head sums, WN(ln(G))·Z = WN(G), total weight one, and the EOS identities are decided on the real outputs.",
          TB + "Z is taken from the implementation's agenda() (its correctness is C08).", "DESIGN.md 7 C20")
