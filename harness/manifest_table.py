"""Per-property claims for MANIFEST.json (kept next to the checks so they stay in step)."""

TB = ("Trusted: Lean 4.33 kernel; axioms propext/Classical.choice/Quot.sound only (audited per run); the correspondence "
      "harness (generators, canonicalisation, worker) as the sampled link between model and /repo; Lean compiler for the native driver. ")


def fill(check):
    check("C02", "Lean 4 proof (CKY recurrence = stratified derivation sum WN; table WNtab = WN; Earley priority order) + differential correspondence of all parsers against the proved WN oracle",
          "Theorems over every commutative semiring, grammar and string for the CKY leg and the specification table; the Earley legs are decided by the proved strict agenda-priority order "
          "(translator-tied to the source expressions) plus sampled agreement of the real parsers with the proved oracle under several hash seeds, rule permutations, renamings and randomly broken agenda ties.",
          TB + "Modelled, not verified: completeness of the Earley item system; floating point; CPython dict/set semantics.", "DESIGN.md section 7 C02")
