"""setup self-test: the driver answers, the manifest validates structurally."""
import json
import os
import sys

sys.path.insert(0, os.path.dirname(os.path.dirname(os.path.abspath(__file__))))
from harness import common

r = common.lean_batch([{"op": "wn", "R": "Float", "cfg": {"S": "S", "V": ["a"], "rules": [["1/2", "S", ["a", "S"]], ["1/2", "S", []]]}, "n": 8, "xs": [[], ["a"]]}])
assert r[0]["vals"] == ["1/2", "1/4"], r
m = json.load(open(os.path.join(common.VERIF, "MANIFEST.json")))
assert m["version"] == 1 and m["checks"]
print("selftest ok")
