#!/bin/bash
# validate_batch.sh <id>… — validate_mutant.sh for each id (source /tmp/mut/<id>_out, property = id prefix), sequentially; removes the scratch worktree
cd "$(dirname "$0")/.."
for id in "$@"; do
  prop=${id%%_*}
  if [ ! -f /tmp/mut/${id}_out/patch.diff ]; then echo "$id: no patch"; continue; fi
  bash harness/validate_mutant.sh /tmp/mut/${id}_out $id $prop 2>&1 | tail -1
  git -C /repo worktree remove --force /tmp/mut/$id 2>/dev/null
done
