#!/bin/bash
# validate_auto.sh <id> — worktree mode unless the patch touches translated sources (then /repo mode under a lock)
cd "$(dirname "$0")/.."
id=$1
src=/tmp/mut/${id}_out; [ -f $src/patch.diff ] || src=seeded/$id
if grep -q 'semiring.py\|parse/earley' $src/patch.diff; then
  flock /tmp/mut/.repo.lock bash harness/validate_batch.sh $id
else
  bash harness/validate_mutant_wt.sh $id
fi
