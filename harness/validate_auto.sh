#!/bin/bash
# validate_auto.sh <id> — worktree mode unless the patch changes what the translator generates (then /repo mode under a lock)
cd "$(dirname "$0")/.."
id=$1
src=/tmp/mut/${id}_out; [ -f $src/patch.diff ] || src=$PWD/seeded/$id
wt=/tmp/mut/$id
[ -d $wt ] || git -C /repo worktree add -q $wt HEAD
git -C $wt checkout -q -- . && git -C $wt checkout -q --detach $(git -C /repo rev-parse HEAD) && git -C $wt apply $src/patch.diff || { echo "$id: patch does not apply"; exit 2; }
tmp=$(mktemp -d)
GENLM_REPO=$wt VERIF_GEN_OUT=$tmp /venv/bin/python -c "from harness import translate; translate.run()" >/dev/null 2>&1
if diff -rq $tmp lean/GenlmModel/Generated >/dev/null 2>&1; then
  rm -rf $tmp; bash harness/validate_mutant_wt.sh $id
else
  # the translator generates other definitions from this tree: give the run its own copy of the lake project (never touch /repo)
  rm -rf $tmp /tmp/mut/${id}_lean; cp -r lean /tmp/mut/${id}_lean
  VERIF_LEAN=/tmp/mut/${id}_lean bash harness/validate_mutant_wt.sh $id
  rm -rf /tmp/mut/${id}_lean
fi
