"""Writes MANIFEST.json from the table below (single source of truth for the interface)."""
import json
import os

VERIF = os.path.dirname(os.path.dirname(os.path.abspath(__file__)))
BASELINE = "cd /repo && /venv/bin/python -m pytest -ra -q -p no:cacheprovider --timeout=900 --continue-on-collection-errors"

# property -> (technique, level text, level note, design ref)
CHECKS = {}


def check(pid, technique, text, note, ref):
    CHECKS[pid] = dict(technique=technique, text=text, note=note, ref=ref)


from harness.manifest_table import fill  # noqa: E402
fill(check)

NOT_BUILT = {}


def main():
    props = [json.loads(l)["id"] for l in open(os.path.join(VERIF, "properties.jsonl"))]
    checks, na = [], []
    for pid in props:
        modp = os.path.join(VERIF, "harness", "props", pid.lower() + ".py")
        if pid in CHECKS and os.path.exists(modp):
            c = CHECKS[pid]
            checks.append({
                "property_id": pid,
                "quick_cmd": f"/venv/bin/python harness/check.py {pid} --tier quick",
                "thorough_cmd": f"/venv/bin/python harness/check.py {pid} --tier thorough",
                "evidence_file": f"evidence/{pid}.json",
                "replay_cmd_template": f"/venv/bin/python harness/check.py {pid} --replay {{path}}",
                "engine": "lean4-proof+correspondence",
                "level_claimed": {"category": "proof", "text": c["text"], "design_ref": c["ref"]},
                "level_note": c["note"],
                "technique": c["technique"],
            })
        else:
            na.append({"property_id": pid, "reason": "check not built yet in this round (work in progress; the design in DESIGN.md section 7 applies)"})
    m = {
        "version": 1,
        "setup_cmd": "cd lean && lake build GenlmModel driver && cd .. && /venv/bin/python harness/selftest.py",
        "hooks": {"guard": "GENLM_GRAMMAR_VERIF", "enable": "no source hooks: the harness observes public attributes only and sets GENLM_GRAMMAR_VERIF=1 in the worker environment (unused by /repo)",
                  "baseline_off_cmd": BASELINE, "source_commits": [], "add_only": True},
        "engines": [{"name": "lean4-proof+correspondence", "path": "harness/check.py", "serves_properties": [c["property_id"] for c in checks],
                     "kind_free_text": "Lean 4 theorems about executable models/specifications (lean/GenlmModel), translator for arithmetic and for the builder functions (harness/translate.py -> lean/GenlmModel/Generated, re-proved equal to the hand models by Proofs/GenLink), "
                                       "differential correspondence between the real library and the native Lean driver (lean/Main.lean)"}],
        "checks": checks,
        "not_applicable": na,
        "notes": "All checks: exit 0 held / 1 VIOLATION line / 2 infrastructure. VERIF_SEED and VERIF_TIER honoured. See DESIGN.md.",
    }
    json.dump(m, open(os.path.join(VERIF, "MANIFEST.json"), "w"), indent=1)
    print(f"{len(checks)} checks, {len(na)} not_applicable")


if __name__ == "__main__":
    main()
