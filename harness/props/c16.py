"""C16 — shipped weight types obey the closed-semiring laws.

Proof: the laws are theorems about the definitions GENERATED from semiring.py on every run
(`Proofs/Semiring.lean` over `Generated/Semiring.lean`).  Correspondence: the generated operations,
executed by the driver, against the real classes on value grids (validates the translator), and —
as the failing-input search, run pre-emptively — every law evaluated on the real classes."""
import hashlib
import itertools
import json
import math
from fractions import Fraction

from harness import common

TYPES = ["Boolean", "Real", "Float", "MaxPlus", "MaxTimes", "Expectation", "Entropy", "Log"]
GRID = [Fraction(0), Fraction(1), Fraction(1, 2), Fraction(1, 4), Fraction(3, 4), Fraction(2), Fraction(-1, 2)]
GRID3 = [Fraction(1, 3), Fraction(2, 7), Fraction(5, 3)]


def _mk(ty, v):
    from genlm.grammar import semiring as S
    if ty == "Boolean":
        return {"zero": S.Boolean.zero, "one": S.Boolean.one}.get(v.get("kind"), None) or S.Boolean(v["score"])
    if ty == "Float":
        return Fraction(v["score"])
    if ty in ("Real", "MaxTimes"):
        k = v.get("kind")
        if k in ("zero", "one"):
            return getattr(getattr(S, ty), k)
        return getattr(S, ty)(Fraction(v["score"]))
    if ty == "MaxPlus":
        k = v.get("kind")
        if k in ("zero", "one"):
            return getattr(S.MaxPlus, k)
        return S.MaxPlus(float("-inf") if v["score"] == "-inf" else Fraction(v["score"]))
    if ty == "Log":
        k = v.get("kind")
        if k in ("zero", "one"):
            return getattr(S.Log, k)
        return S.Log(float("-inf") if v["score"] == "-inf" else float(Fraction(v["score"])))
    if ty in ("Expectation", "Entropy"):
        k = v.get("kind")
        if k in ("zero", "one"):
            return getattr(getattr(S, ty), k)
        return getattr(S, ty)(float(Fraction(v["score"][0])), float(Fraction(v["score"][1])))
    raise ValueError(ty)


def _enc(ty, x):
    from genlm.grammar import semiring as S
    if ty == "Boolean":
        return bool(x.score)
    if ty == "Float":
        return common.frac_str(x)
    if ty in ("Expectation", "Entropy"):
        tag = "fresh"
        if ty == "Entropy":
            tag = "zero" if x is S.Entropy.zero else "one" if x is S.Entropy.one else "fresh"
        return {"tag": tag, "score": [common.frac_str(x.score[0]), common.frac_str(x.score[1])]}
    s = x.score
    if isinstance(s, float) and math.isinf(s):
        return "-inf" if s < 0 else "inf"
    if ty == "Log":
        return {"float": float(s)}
    return common.frac_str(s)


def _ops(ty):
    from genlm.grammar import semiring as S
    if ty == "Float":
        return (lambda a, b: a + b), (lambda a, b: a * b), (lambda a: S.Float.star(a)), Fraction(S.Float.zero), Fraction(S.Float.one)
    C = getattr(S, ty)
    return (lambda a, b: a + b), (lambda a, b: a * b), (lambda a: a.star()), C.zero, C.one


def in_star_domain(ty, v):
    if ty == "Boolean":
        return True
    k = v.get("kind")
    if ty in ("Real", "Float"):
        s = Fraction(1) if k == "one" else Fraction(0) if k == "zero" else Fraction(v["score"])
        return s != 1
    if ty == "MaxTimes":
        s = Fraction(1) if k == "one" else Fraction(0) if k == "zero" else Fraction(v["score"])
        return 0 <= s <= 1
    if ty == "MaxPlus":
        if k == "zero" or v.get("score") == "-inf":
            return True
        s = Fraction(0) if k == "one" else Fraction(v["score"])
        return s <= 0
    if ty == "Log":
        if k == "zero" or v.get("score") == "-inf":
            return True
        s = Fraction(0) if k == "one" else Fraction(v["score"])
        return s < 0
    if ty in ("Expectation", "Entropy"):
        p = Fraction(1) if k == "one" else Fraction(0) if k == "zero" else Fraction(v["score"][0])
        return p != 1
    return False


def impl(case):
    ty = case["type"]
    add, mul, star, zero, one = _ops(ty)
    out = []
    for tr in case["triples"]:
        try:
            a, b, c = (_mk(ty, v) for v in tr)
            r = {"add": _enc(ty, add(a, b)), "mul": _enc(ty, mul(a, b))}
            laws = {
                "add_assoc": (add(add(a, b), c), add(a, add(b, c))),
                "add_comm": (add(a, b), add(b, a)),
                "zero_add": (add(zero, a), a), "add_zero": (add(a, zero), a),
                "mul_assoc": (mul(mul(a, b), c), mul(a, mul(b, c))),
                "mul_comm": (mul(a, b), mul(b, a)),
                "one_mul": (mul(one, a), a), "mul_one": (mul(a, one), a),
                "left_distrib": (mul(a, add(b, c)), add(mul(a, b), mul(a, c))),
                "right_distrib": (mul(add(a, b), c), add(mul(a, c), mul(b, c))),
                "zero_mul": (mul(zero, a), zero), "mul_zero": (mul(a, zero), zero),
            }
            if in_star_domain(ty, tr[0]):
                s = star(a)
                r["star"] = _enc(ty, s)
                laws["star_left"] = (s, add(one, mul(a, s)))
                laws["star_right"] = (s, add(one, mul(s, a)))
            # accumulation `acc = a; acc += b` is pure: acc is a + b, and neither `a` nor the shared constants change
            before = (_enc(ty, a), _enc(ty, zero), _enc(ty, one))
            acc = a
            acc += b
            acc2 = one
            acc2 += mul(a, b)
            laws["iadd_value"] = (acc, add(a, b))
            laws["iadd_from_one"] = (acc2, add(one, mul(a, b)))
            r["iadd_pure"] = before == (_enc(ty, a), _enc(ty, zero), _enc(ty, one))
            r["laws"] = {k: [_enc(ty, l), _enc(ty, rr)] for k, (l, rr) in laws.items()}
            out.append(r)
        except Exception as e:  # noqa
            out.append({"exc": type(e).__name__, "msg": str(e)[:200]})
    return {"results": out}


def values(ty, rng, n):
    """operand descriptors: constants (the objects themselves), fresh equal values, grid, random"""
    vs = []
    if ty == "Boolean":
        return [{"kind": "zero"}, {"kind": "one"}, {"kind": "fresh", "score": True}, {"kind": "fresh", "score": False}]
    if ty in ("Expectation", "Entropy"):
        dy = [Fraction(0), Fraction(1), Fraction(1, 2), Fraction(1, 4), Fraction(3, 4), Fraction(2), Fraction(-1, 2), Fraction(3, 8)]
        vs = [{"kind": "zero"}, {"kind": "one"}, {"kind": "fresh", "score": ["0", "0"]}, {"kind": "fresh", "score": ["1", "0"]}]
        for _ in range(n):
            vs.append({"kind": "fresh", "score": [common.frac_str(rng.choice(dy)), common.frac_str(rng.choice(dy))]})
        return vs
    # MaxPlus/Log constants are floats (0.0, -inf): exact only on dyadic scores
    grid = list(GRID) + ([] if ty in ("Log", "MaxPlus") else GRID3)
    if ty == "MaxTimes":
        grid = [g for g in grid if g >= 0]
    vs = [{"kind": "zero"}, {"kind": "one"}] if ty != "Float" else []
    vs += [{"kind": "fresh", "score": common.frac_str(g)} for g in grid]
    if ty == "Log":
        vs += [{"kind": "fresh", "score": x} for x in ("-800", "-1000", "-745", "-30")]   # differences beyond the exp overflow threshold
        # gaps of 16–20 nats: the smaller operand is below 1e-7 of the larger one but far above float64 resolution (e^-36)
        vs += [{"kind": "fresh", "score": x} for x in ("-16", "-17", "-16", "-20")]
    if ty in ("MaxPlus", "Log"):
        vs.append({"kind": "fresh", "score": "-inf"})
        vs += [{"kind": "fresh", "score": common.frac_str(-g)} for g in GRID if g > 0]
    for _ in range(n):
        q = Fraction(rng.randint(-8, 12), rng.choice([1, 2, 4, 8] if ty == "MaxPlus" else [1, 2, 3, 4, 5, 8]))
        if ty == "MaxTimes":
            q = abs(q)
        if ty == "Log":
            q = Fraction(rng.randint(-40, 8), 8)
        vs.append({"kind": "fresh", "score": common.frac_str(q)})
    return vs


def to_lean(ty, v):
    k = v.get("kind")
    if ty == "Boolean":
        return {"zero": False, "one": True}.get(k, v.get("score"))
    if ty in ("Expectation", "Entropy"):
        sc = {"zero": ["0", "0"], "one": ["1", "0"]}.get(k, v.get("score"))
        return {"tag": k if ty == "Entropy" else "fresh", "score": sc}
    if k == "zero":
        return {"Real": "0", "Float": "0", "MaxTimes": "0", "MaxPlus": "-inf", "Log": "-inf"}[ty]
    if k == "one":
        return {"Real": "1", "Float": "1", "MaxTimes": "1", "MaxPlus": "0", "Log": "0"}[ty]
    return v["score"]


def same(ty, a, b):
    """equality of two encoded values (exact, except Log: 1e-9)"""
    if ty == "Log":
        fa = _f(a)
        fb = _f(b)
        if math.isnan(fa) or math.isnan(fb):
            return False
        if math.isinf(fa) or math.isinf(fb):
            return fa == fb
        return abs(fa - fb) <= 1e-9 * max(1.0, abs(fa), abs(fb))
    if isinstance(a, list):
        a = {"score": a}
    if isinstance(b, list):
        b = {"score": b}
    if isinstance(a, dict) and "score" in a:
        # Expectation/Entropy carry floats (their constants are floats): exact where possible, else 1e-12 relative
        return all(common.close(Fraction(x), Fraction(y), 1e-12, 1e-15) for x, y in zip(a["score"], b["score"]))
    if isinstance(a, bool) or isinstance(b, bool):
        return a == b
    if a in ("-inf", "inf") or b in ("-inf", "inf"):
        return a == b
    return Fraction(a) == Fraction(b)


def _f(x):
    if isinstance(x, dict) and "float" in x:
        return x["float"]
    if isinstance(x, dict) and "bits" in x:
        return common.dec_float(x)
    if x in ("-inf", "inf"):
        return float(x)
    return float(Fraction(x))


def run(ctx):
    rng, tier = ctx["rng"], ctx["tier"]
    per = int((250 if tier == "quick" else 6000) * ctx.get("mult", 1))
    cases = []
    for ty in TYPES:
        vs = values(ty, rng, 12 if tier == "quick" else 40)
        if ty == "Boolean" or (tier == "thorough" and len(vs) ** 3 <= 20000):
            triples = [list(t) for t in itertools.product(vs, repeat=3)]
        else:
            const = [v for v in vs if v.get("kind") in ("zero", "one")] + vs[:4]
            triples = [list(t) for t in itertools.product(const, repeat=3)]
            triples += [[rng.choice(vs), rng.choice(vs), rng.choice(vs)] for _ in range(per)]
        for k in range(0, len(triples), 200):
            cases.append({"type": ty, "triples": triples[k:k + 200]})
    if ctx.get("replay"):
        cases = [f["case"] for f in ctx["replay"]["failing"] if "case" in f]
    for i, c in enumerate(cases):
        c["id"] = i
    impl_res = ctx["run_impl"](cases, [0], 120)[0]
    ops, idx = [], []
    for c in cases:
        ty = c["type"]
        for t, tr in enumerate(c["triples"]):
            a, b = to_lean(ty, tr[0]), to_lean(ty, tr[1])
            ops.append({"op": "semiring", "type": ty, "f": "add", "a": a, "b": b}); idx.append((c["id"], t, "add"))
            ops.append({"op": "semiring", "type": ty, "f": "mul", "a": a, "b": b}); idx.append((c["id"], t, "mul"))
            if in_star_domain(ty, tr[0]):
                ops.append({"op": "semiring", "type": ty, "f": "star", "a": a}); idx.append((c["id"], t, "star"))
    lean = ctx["lean"](ops)
    by = {}
    for key, r in zip(idx, lean):
        by[key] = r
    semantic, structural, samples = [], [], []
    evaluations = traces = 0
    nontrivial = set()
    stats = {ty: {"triples": 0, "law_evals": 0, "star_in_domain": 0, "constants_as_objects": 0} for ty in TYPES}
    for c in cases:
        ty = c["type"]
        res = impl_res.get(c["id"])
        if res is None or "exc" in res:
            semantic.append({"signature": f"C16:worker:{ty}", "op": "worker", "impl": res, "case": c})
            continue
        for t, (tr, r) in enumerate(zip(c["triples"], res["results"])):
            stats[ty]["triples"] += 1
            stats[ty]["constants_as_objects"] += sum(1 for v in tr if v.get("kind") in ("zero", "one"))
            if "exc" in r:
                semantic.append(_viol(ty, "exception", tr, r))
                continue
            nontrivial.add(hashlib.sha1(json.dumps([ty, tr], sort_keys=True).encode()).hexdigest())
            if r.get("iadd_pure") is False:
                semantic.append(_viol(ty, "iadd_pure", tr, {"what": "`acc = a; acc += b` or `acc = one; acc += a*b` changed a, zero or one"}))
            for law, (l, rr) in r["laws"].items():
                evaluations += 1
                stats[ty]["law_evals"] += 1
                if not same(ty, l, rr):
                    semantic.append(_viol(ty, law, tr, {"lhs": l, "rhs": rr}))
                else:
                    traces += 1
            for f in ("add", "mul", "star"):
                if f not in r:
                    continue
                if f == "star":
                    stats[ty]["star_in_domain"] += 1
                L = by.get((c["id"], t, f))
                evaluations += 1
                if L is None or (isinstance(L, dict) and "error" in L):
                    raise common.DriverError(str(L))
                ok = same(ty, L if not (isinstance(L, dict) and "bits" in L) else L, r[f])
                if ok and ty == "Entropy" and L.get("tag") != r[f].get("tag"):
                    ok = False
                if not ok:
                    structural.append({"op": f"{ty}.{f}", "what": f"generated {L} vs class {r[f]}", "operands": tr})
                else:
                    traces += 1
            if len(samples) < 5 and ty in ("Expectation", "Entropy") and "star" in r and t % 37 == 5:
                samples.append({"type": ty, "operands": tr, "class_results": {k: r[k] for k in ("add", "mul", "star")}})
    return {
        "evaluations": evaluations, "distinct_nontrivial": len(nontrivial),
        "rule": "per weight type: all triples over {the zero and one constant OBJECTS, freshly built equal values, a few grid values} plus seeded random triples "
                "(exact rationals; dyadic for Expectation/Entropy whose constants are floats; floats with 1e-9 for Log); thorough: full grids; "
                "distinct = distinct (type, triple)",
        "samples": samples, "traces": traces, "semantic": semantic, "structural": structural,
        "extra": {"per_type": stats, "cases": len(cases)},
        "assumptions": ["'floats within rounding error' is sampled, not proved: Log is compared with relative tolerance 1e-9",
                        "Float.__add__/__mul__ are Python's own + and * on numbers (the class defines only star, zero, one)"],
    }


def _viol(ty, law, tr, got):
    sig = hashlib.sha1(json.dumps([ty, law, tr], sort_keys=True).encode()).hexdigest()[:16]
    return {"signature": f"C16:{ty}.{law}:{sig}", "op": f"{ty}.{law}", "operands": tr, "impl": got, "case": {"type": ty, "triples": [tr]}}
