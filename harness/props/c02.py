"""C02 — every parser returns the derivation-sum weight of a string.

Oracle: the Lean specification `WN G n S x` (stratified derivation sum), evaluated by the native
driver through the proved table `WNtab` — exactly (ℚ / Bool / max-times) when the table becomes
stationary, otherwise a deep IEEE truncation compared with a tolerance."""
import json
import hashlib
import random

from harness import common, gen

PARSERS = ["cfg", "earley", "rescaled", "cky"]


class _Jitter:
    """LocatorMaxHeap whose integer priorities get a jitter in (0, 1/2): order between different
    priorities is untouched, ties are broken at random."""
    base = None
    rng = random.Random(0)


def _install_jitter(seed):
    from arsenal.datastructures.heap import LocatorMaxHeap
    from genlm.grammar.parse import earley, earley_rescaled
    rng = random.Random(seed)

    class JitterHeap(LocatorMaxHeap):
        def __setitem__(self, k, v):
            super().__setitem__(k, v + rng.random() * 0.49)
    earley.LocatorMaxHeap = JitterHeap
    earley_rescaled.LocatorMaxHeap = JitterHeap


def _uninstall_jitter():
    from arsenal.datastructures.heap import LocatorMaxHeap
    from genlm.grammar.parse import earley, earley_rescaled
    earley.LocatorMaxHeap = LocatorMaxHeap
    earley_rescaled.LocatorMaxHeap = LocatorMaxHeap


def _safe(f, R):
    try:
        return common.enc_w(f(), R)
    except Exception as e:  # noqa
        return {"exc": type(e).__name__, "msg": str(e)[:200]}


def impl(case):
    from genlm.grammar.parse import earley, earley_rescaled
    from genlm.grammar.parse.cky import IncrementalCKY
    R = case["R"]
    g = common.mk_cfg(case["cfg"], R)
    out = {"vals": {}}
    if case.get("jitter") is not None:
        _install_jitter(case["jitter"])
    try:
        xs = [tuple(common.dec_sym(s) for s in x) for x in case["xs"]]
        out["vals"]["cfg"] = [_safe(lambda: g(x), R) for x in xs]
        try:
            E = earley.Earley(g)
            out["vals"]["earley"] = [_safe(lambda: E(x), R) for x in xs]
            # structural: the chart columns of the real Earley parser on its own preprocessed grammar (mirror model Model/Earley.lean)
            ear = {"cfg": common.enc_cfg(E.cfg, R), "order": [[common.enc_sym(X), int(n)] for X, n in E.order.items()], "items": []}
            for x in [t for t in xs if len(t) >= 1][:2]:
                cols = E.chart(x)
                ear["items"].append({"x": [common.enc_sym(t) for t in x],
                                     "cols": [{"c": [[int(I), common.enc_sym(X), common.enc_w(w, R)] for (I, X), w in col.c_chart.items()],
                                               "i": [[int(I), common.enc_sym(X), [common.enc_sym(y) for y in E.intern_Ys[int(Ys)]], common.enc_w(w, R)] for (I, X, Ys), w in col.i_chart.items()]}
                                              for col in cols]})
            out["earley_struct"] = ear
        except Exception as e:  # noqa
            out["vals"]["earley"] = [{"exc": type(e).__name__, "msg": "ctor " + str(e)[:200]}] * len(xs)
        if R == "Float":
            try:
                E2 = earley_rescaled.Earley(g)
                out["vals"]["rescaled"] = [_safe(lambda: E2(x), R) for x in xs]
            except Exception as e:  # noqa
                out["vals"]["rescaled"] = [{"exc": type(e).__name__, "msg": "ctor " + str(e)[:200]}] * len(xs)
        try:
            C = IncrementalCKY(g.cnf)
            out["vals"]["cky"] = [_safe(lambda: C(x), R) for x in xs]
            # structural: the chart columns and the outside pass of the real incremental parser (mirror model Model/IncCky.lean)
            inc = {"cfg": common.enc_cfg(C.cfg, R), "items": []}
            for x in xs[:3]:
                cols = C.chart(x)
                inc["items"].append({"x": [common.enc_sym(t) for t in x],
                                     "chart": [[[int(i), common.enc_sym(X), common.enc_w(w, R)] for i, ch in col.items() for X, w in ch.items()] for col in cols],
                                     "p_next": [[common.enc_sym(t), common.enc_w(w, R)] for t, w in C.p_next(x).items()]})
            out["inccky"] = inc
        except Exception as e:  # noqa
            out["vals"]["cky"] = [{"exc": type(e).__name__, "msg": "ctor " + str(e)[:200]}] * len(xs)
        # rule permutation + injective renaming of the nonterminals: same values
        prng = random.Random(case.get("perm", 0))
        desc = case["cfg"]
        rules = list(desc["rules"])
        prng.shuffle(rules)
        ren = lambda s: s if s in desc["V"] else f"R_{s}_x"  # noqa
        d2 = {"S": ren(desc["S"]), "V": desc["V"], "rules": [[w, ren(h), [ren(y) for y in b]] for w, h, b in rules]}
        g2 = common.mk_cfg(d2, R)
        out["vals"]["perm_cfg"] = [_safe(lambda: g2(x), R) for x in xs]
        try:
            E3 = earley.Earley(g2)
            out["vals"]["perm_earley"] = [_safe(lambda: E3(x), R) for x in xs]
        except Exception as e:  # noqa
            out["vals"]["perm_earley"] = [{"exc": type(e).__name__, "msg": "ctor " + str(e)[:200]}] * len(xs)
        if case.get("mat_n") is not None:
            try:
                m = g.materialize(case["mat_n"])
                out["mat"] = [[[common.enc_sym(s) for s in k], common.enc_w(v, R)] for k, v in m.items()]
            except Exception as e:  # noqa
                out["mat"] = {"exc": type(e).__name__, "msg": str(e)[:200]}
    finally:
        _uninstall_jitter()
    return out


def _case(rng, i, tier):
    R = rng.choice(["Float", "Float", "Float", "Real", "Boolean", "MaxTimes"])
    desc, shape = gen.gen_cfg(rng, maxrules=7 if tier == "quick" else 9)
    if R == "Boolean":
        desc = gen.to_bool(desc)
    if R == "MaxTimes":
        desc = {**desc, "rules": [[w if common.num(w) <= 1 else "1", h, b] for w, h, b in desc["rules"]]}
    maxlen = 4 if tier == "quick" else 5
    xs = gen.gen_strings(rng, desc, k=5, maxlen=maxlen)
    mat_n = None
    if rng.random() < 0.35 and len(desc["rules"]) <= 8:
        mat_n = rng.choice([0, 1, 2, 2])
        for s in gen.all_strings(desc["V"], mat_n):
            if s not in xs:
                xs.append(s)
    if R == "Float" and rng.random() < 0.12 and desc["rules"]:
        # weights of both signs: one rule replaced by three copies w, -w, w (same total): the partial sum of a chart entry is
        # EXACTLY zero after the second copy and then receives a further contribution
        k = rng.randrange(len(desc["rules"]))
        w, h, b = desc["rules"][k]
        if common.num(w) != 0:
            neg = common.frac_str(-common.num(w))
            desc = {**desc, "rules": desc["rules"][:k] + [[w, h, list(b)], [neg, h, list(b)], [w, h, list(b)]] + desc["rules"][k + 1:]}
            shape += "+signed_triple"
    tt = None
    if rng.random() < 0.12:
        desc, (xs,), _ = gen.intify_terms(desc, xs, offset=rng.choice([0, 0, -len(desc["V"])]))
        tt = rng.choice([None, "float"])
        shape += "+int_tokens" + ("+" + tt if tt else "")
    return {"id": i, "shape": shape, "R": R, "cfg": desc, "xs": xs, "mat_n": mat_n, "token_type": tt,
            "perm": rng.randrange(1 << 30), "jitter": rng.randrange(1 << 30) if rng.random() < 0.7 else None}


def corpus():
    """minimised past failures (DESIGN section 8), run first"""
    f4 = {"S": "S", "V": ["a", "b"], "rules": [["1/2", "N1", ["b"]], ["3/10", "N1", ["a", "b"]], ["1/5", "N1", ["b", "N1"]],
                                                 ["1/10", "S", ["N1", "N1"]], ["1/4", "N1", ["S", "a"]], ["3/10", "S", ["a"]],
                                                 ["1/5", "N1", ["a"]], ["1/10", "N1", ["b", "N1"]]]}
    f2 = {"S": "S", "V": ["a"], "rules": [["1", "S", ["a", "S"]], ["1", "S", []]]}
    f2b = {"S": "S", "V": ["a"], "rules": [["1", "S", ["a", "S"]], ["1", "S", ["a"]]]}
    f3 = {"S": "S", "V": ["a"], "rules": [["1/2", "S", ["a", "S"]], ["1/2", "S", []]]}
    out = [
        {"shape": "corpus_F4", "R": "Float", "cfg": f4, "xs": [["a", "a", "b"], ["a"], ["b", "b"]], "mat_n": None, "perm": 1, "jitter": None},
        {"shape": "corpus_F2", "R": "Boolean", "cfg": gen.to_bool(f2), "xs": [[], ["a"]], "mat_n": 1, "perm": 1, "jitter": None},
        {"shape": "corpus_F2", "R": "Real", "cfg": f2b, "xs": [[], ["a"]], "mat_n": None, "perm": 1, "jitter": None},
        {"shape": "corpus_F3", "R": "Float", "cfg": f3, "xs": [[], ["a"]], "mat_n": 0, "perm": 1, "jitter": 5},
    ]
    return out


def _lean_R(R):
    return {"Float": "Float", "Real": "Real", "Boolean": "Boolean", "MaxTimes": "MaxTimes"}[R]


def run(ctx):
    rng, tier = ctx["rng"], ctx["tier"]
    n = int((90 if tier == "quick" else 1500) * ctx.get("mult", 1))
    hashseeds = [0, 1] if tier == "quick" else [0, 1, 2, 3, 4, 5, 6, 7]
    if ctx.get("replay"):
        cases = [f["case"] for f in ctx["replay"]["failing"] if "case" in f]
    else:
        cases = corpus() + [_case(rng, i, tier) for i in range(n)]
    for i, c in enumerate(cases):
        c["id"] = i
    # Lean oracle, phase 1: exact
    ops = [{"op": "wn", "R": _lean_R(c["R"]), "cfg": c["cfg"], "n": 40 if c["R"] in ("Float", "Real") else 400, "xs": c["xs"]} for c in cases]
    lean = ctx["lean"](ops)
    deep = [i for i, r in enumerate(lean) if not r.get("stable")]
    if deep:
        ops2 = [{"op": "wn", "R": "F64", "cfg": cases[i]["cfg"], "n": 64, "xs": cases[i]["xs"]} for i in deep]
        for i, r in zip(deep, ctx["lean"](ops2)):
            lean[i] = dict(r, deep=True)
    impl = ctx["run_impl"](cases, hashseeds, 60)
    semantic, samples = [], []
    structural = []
    # structural correspondence of the incremental CKY model on the real (renumbered, normal-form) grammar
    iops, iidx = [], []
    for c in cases:
        r0 = impl[hashseeds[0]].get(c["id"]) or {}
        inc = r0.get("inccky")
        if inc:
            for it in inc["items"]:
                iops.append({"op": "inccky", "R": _lean_R(c["R"]), "cfg": inc["cfg"], "prefix": it["x"]})
                iidx.append((c, it))
    for (c, it), r in zip(iidx, ctx["lean"](iops)):
        if "error" in r:
            raise common.DriverError(r["error"])

        def canon(entries, arity):
            d = {}
            for e in entries:
                k = json.dumps(e[:arity])
                v = e[arity]
                if isinstance(v, bool):
                    d[k] = d.get(k, False) or v
                elif c["R"] == "MaxTimes":
                    d[k] = max(d.get(k, 0), common.num(v))
                else:
                    d[k] = d.get(k, 0) + common.num(v)
            return {k: v for k, v in d.items() if v not in (0, False)}
        ok, why = True, ""
        if len(r["chart"]) != len(it["chart"]):
            ok, why = False, "number of columns differs"
        else:
            for k, (mc, ic) in enumerate(zip(r["chart"], it["chart"])):
                a, b = canon(mc, 2), canon(ic, 2)
                if set(a) != set(b) or any(not common.close(a[q], b[q], 1e-9, 1e-12) for q in a):
                    ok, why = False, f"column {k}: model {sorted(a.items())[:4]} impl {sorted(b.items())[:4]}"
                    break
        if ok:
            a, b = canon(r["p_next"], 1), canon(it["p_next"], 1)
            if set(a) != set(b) or any(not common.close(a[q], b[q], 1e-9, 1e-12) for q in a):
                ok, why = False, f"next-token weights: model {sorted(a.items())[:4]} impl {sorted(b.items())[:4]}"
        if not ok:
            structural.append({"op": "IncrementalCKY", "what": why, "cfg": (impl[hashseeds[0]][c["id"]]["inccky"]["cfg"]), "x": it["x"], "case_id": c["id"]})
    evaluations = 0
    nontrivial = set()
    shapes = {}
    stats = {"exact": 0, "deep": 0, "unconverged": 0, "nonzero": 0, "zero": 0, "materialize": 0, "exceptions": {}}
    # structural correspondence of the Earley model (charts of complete and incomplete items)
    eops, eidx = [], []
    for c in cases:
        r0 = impl[hashseeds[0]].get(c["id"]) or {}
        ear = r0.get("earley_struct")
        if ear:
            for it in ear["items"]:
                eops.append({"op": "earley", "R": _lean_R(c["R"]), "cfg": ear["cfg"], "order": ear["order"], "x": it["x"]})
                eidx.append((c, it, ear))
    for (c, it, ear), r in zip(eidx, ctx["lean"](eops)):
        if "error" in r:
            raise common.DriverError(r["error"])

        def canon(entries, arity):
            d = {}
            for e in entries:
                k = json.dumps(e[:arity])
                v = e[arity]
                if isinstance(v, bool):
                    d[k] = d.get(k, False) or v
                elif c["R"] == "MaxTimes":
                    d[k] = max(d.get(k, 0), common.num(v))
                else:
                    d[k] = d.get(k, 0) + common.num(v)
            return {k: v for k, v in d.items() if v not in (0, False)}
        ok, why = True, ""
        if len(r["cols"]) != len(it["cols"]):
            ok, why = False, "number of columns differs"
        else:
            for k, (mc, ic) in enumerate(zip(r["cols"], it["cols"])):
                for part, ar in (("c", 2), ("i", 3)):
                    a, b = canon(mc[part], ar), canon(ic[part], ar)
                    if set(a) != set(b) or any(not common.close(a[q], b[q], 1e-9, 1e-12) for q in a):
                        ok, why = False, f"column {k} {part}_chart: only-model {sorted(set(a) - set(b))[:3]} only-impl {sorted(set(b) - set(a))[:3]}"
                        break
                if not ok:
                    break
        if not ok:
            structural.append({"op": "Earley", "what": why, "cfg": ear["cfg"], "order": ear["order"], "x": it["x"], "case_id": c["id"]})
    stats_struct = {"inccky_items": len(iops), "earley_items": len(eops)}
    for c, L in zip(cases, lean):
        if "error" in L:
            raise common.DriverError(L["error"])
        shapes[c["shape"]] = shapes.get(c["shape"], 0) + 1
        oracle = [_dec(v) for v in L["vals"]]
        half = [_dec(v) for v in L["half"]]
        isdeep = bool(L.get("deep"))
        stats["deep" if isdeep else "exact"] += 1
        conv = [(not isdeep) or common.close(o, h, 1e-12, 1e-15) for o, h in zip(oracle, half)]
        nz = sum(1 for o in oracle if o not in (0, False))
        stats["nonzero"] += nz
        stats["zero"] += len(oracle) - nz
        if nz and nz < len(oracle):
            nontrivial.add(hashlib.sha1(json.dumps([c["cfg"], c["xs"], c["R"]], sort_keys=True).encode()).hexdigest())
        for hs in hashseeds:
            res = impl[hs].get(c["id"])
            if res is None or "exc" in res:
                semantic.append(_viol(c, hs, "worker", None, None, res))
                continue
            for parser, vals in res["vals"].items():
                for x, v, o, cv in zip(c["xs"], vals, oracle, conv):
                    evaluations += 1
                    if isinstance(v, dict):
                        stats["exceptions"][v["exc"]] = stats["exceptions"].get(v["exc"], 0) + 1
                        semantic.append(_viol(c, hs, parser, x, o, v))
                        continue
                    iv = common.num(v)
                    if not cv:
                        stats["unconverged"] += 1
                        ok = isinstance(iv, bool) or float(iv) >= float(o) * (1 - 1e-7) - 1e-10
                    else:
                        ok = common.close(iv, o, 1e-7 if isdeep else 1e-9, 1e-10)
                    if not ok:
                        semantic.append(_viol(c, hs, parser, x, o, v))
            if c.get("mat_n") is not None:
                stats["materialize"] += 1
                m = res.get("mat")
                if isinstance(m, dict):
                    semantic.append(_viol(c, hs, "materialize", None, None, m))
                else:
                    got = {json.dumps(k): common.num(v) for k, v in m}
                    for x, o, cv in zip(c["xs"], oracle, conv):
                        if len(x) > c["mat_n"] or not cv:
                            continue
                        evaluations += 1
                        g = got.pop(json.dumps(x), 0)
                        if not common.close(g, o, 1e-7, 1e-10):
                            semantic.append(_viol(c, hs, "materialize", x, o, common.frac_str(g) if not isinstance(g, bool) else g))
                    for k, g in got.items():
                        if g not in (0, False) and len(json.loads(k)) > c["mat_n"]:
                            semantic.append(_viol(c, hs, "materialize", json.loads(k), "absent (too long)", str(g)))
        if len(samples) < 4 and nz:
            samples.append({"cfg": c["cfg"], "R": c["R"], "xs": c["xs"][:4], "oracle_WN": [str(o) for o in oracle[:4]],
                            "impl": {k: v[:4] for k, v in (impl[hashseeds[0]].get(c["id"]) or {}).get("vals", {}).items()}})
    return {
        "evaluations": evaluations, "distinct_nontrivial": len(nontrivial),
        "rule": "seeded random grammars from named shape classes x semiring x strings (sampled derivations, corruptions, random); "
                "non-trivial = distinct (grammar, strings) with at least one string of non-zero and one of zero derivation sum",
        "samples": samples, "traces": evaluations - len(semantic), "semantic": semantic, "structural": structural,
        "extra": {"shape_histogram": shapes, "hashseeds": hashseeds, "oracle_stats": stats, "cases": len(cases), "structural_models": stats_struct},
        "assumptions": ["deep (IEEE, n=64) truncations of WN are compared with rtol 1e-7 and only where WN_64 and WN_32 agree to 1e-12"],
    }


def _dec(v):
    if isinstance(v, dict) and "bits" in v:
        import struct
        return struct.unpack("<d", struct.pack("<Q", v["bits"]))[0]
    return common.num(v)


def _viol(c, hs, parser, x, oracle, got):
    sig = hashlib.sha1(json.dumps([parser, c["cfg"], x, c["R"]], sort_keys=True).encode()).hexdigest()[:16]
    return {"signature": f"C02:{parser}:{sig}", "op": parser, "x": x, "oracle_WN": str(oracle), "impl": got,
            "hashseed": hs, "case": c}
