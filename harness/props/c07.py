"""C07 — normal forms satisfy their structural postconditions."""
from harness.props.cfg_transforms import impl, run_common  # noqa: F401


def run(ctx):
    return run_common(ctx, "C07")
