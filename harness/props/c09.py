"""C09 — grammar∘transducer composition is relational composition.

Oracle: Σ_x WN(G, x) · TPN(T, x, y) from the two Lean specifications, on finite-language grammars
(all strings of length ≤ 4 enumerated: exact finite sum) composed with transducers having ε on either
tape, ε:ε arcs, cycles, dead states, several initial/final states; acceptors and strings give the
pointwise product.  Both the implementation's own evaluation `(cfg @ fst)(y)` and the proved WN oracle
applied to the REAL composed grammar are compared with it."""
import hashlib
import json

from harness import common, gen, oracles
from harness.props import cfg_transforms as T


def impl(case):
    R = case["R"]
    g = common.mk_cfg(case["cfg"], R)
    f = common.mk_fst(case["fst"], R)
    out = {}
    tup = lambda s: tuple(common.dec_sym(t) for t in s)  # noqa

    def safe(fn):
        try:
            return common.enc_w(fn(), R)
        except Exception as e:  # noqa
            return {"exc": type(e).__name__, "msg": str(e)[:200]}
    try:
        C = g @ f
        out["compose"] = common.enc_cfg(C, R)
        out["vals"] = [safe(lambda: C(tup(y))) for y in case["ys"]]
    except Exception as e:  # noqa
        out["compose"] = {"exc": type(e).__name__, "msg": str(e)[:200]}
    try:
        C2 = f.T @ common.mk_cfg(case["cfg"], R)     # fst @ cfg = cfg @ fst.T, so (f.T @ cfg) = cfg @ f
        out["vals_rev"] = [safe(lambda: C2(tup(y))) for y in case["ys"]]
    except Exception as e:  # noqa
        out["vals_rev"] = {"exc": type(e).__name__, "msg": str(e)[:200]}
    # the transpose is a NEW machine: extend it, then compose it (fst @ cfg goes through ITS transpose) — the result must be
    # that of a machine with the same arcs built from scratch
    try:
        dec = common.mk_fst(case["fst"], R).T
        one = common.semiring(R).one
        arcs0 = case["fst"]["arcs"]
        a0 = (common.dec_sym(arcs0[0][2]), common.dec_sym(arcs0[0][1])) if arcs0 else ("", "")
        q0 = next((q for q, _ in dec.I), None)
        if q0 is not None:
            dec.add_arc(q0, a0, "__zz__", one)
            dec.add_F("__zz__", one)
            fresh = common.mk_fst(common.enc_fst(dec, R), R)
            Ce, Cf = dec @ common.mk_cfg(case["cfg"], R), fresh @ common.mk_cfg(case["cfg"], R)
            out["edited_T"] = [[safe(lambda: Ce(tup(y))), safe(lambda: Cf(tup(y)))] for y in case["ys"][:8]]
    except Exception as e:  # noqa
        out["edited_T"] = {"exc": type(e).__name__, "msg": str(e)[:200]}
    # acceptor / string composition: pointwise product
    a = common.mk_wfsa(case["acc"], R, "field" if R == "Float" else "base")
    try:
        Ca = common.mk_cfg(case["cfg"], R) @ a
        out["acc_vals"] = [safe(lambda: Ca(tup(x))) for x in case["xs"]]
        out["acc_cfg"] = common.enc_cfg(Ca, R)
    except Exception as e:  # noqa
        out["acc_vals"] = {"exc": type(e).__name__, "msg": str(e)[:200]}
    out["str_treesum"] = [safe(lambda: (common.mk_cfg(case["cfg"], R) @ tup(x)).treesum()) for x in case["xs"][:6]]
    try:
        Tn = common.mk_cfg(case["cfg"], R).truncate_length(case["trunc"])
        out["trunc_vals"] = [safe(lambda: Tn(tup(x))) for x in case["xs"]]
    except Exception as e:  # noqa
        out["trunc_vals"] = {"exc": type(e).__name__, "msg": str(e)[:200]}
    return out


def make_case(rng, i, tier):
    R = rng.choice(["Float", "Float", "Float", "Real", "Boolean", "MaxTimes"])
    A, B = ["a", "b"], ["x", "y"]
    g = gen.gen_finite_cfg(rng, terms=A)
    f, sf = gen.gen_fst(rng, in_syms=A, out_syms=B, nstates=rng.choice([1, 2, 2, 3]))
    acc, sa = gen.gen_wfsa(rng, nstates=rng.choice([1, 2, 3]), nsyms=2, allow_eps=True)
    if R == "Boolean":
        g, f, acc = gen.to_bool(g), gen.fst_to_bool(f), gen.wfsa_to_bool(acc)
    if R == "MaxTimes":
        cap = lambda w: w if common.num(w) <= 1 else "1"  # noqa
        g = {**g, "rules": [[cap(w), h, b] for w, h, b in g["rules"]]}
        f = {**f, "start": [[q, cap(w)] for q, w in f["start"]], "stop": [[q, cap(w)] for q, w in f["stop"]], "arcs": [e[:4] + [cap(e[4])] for e in f["arcs"]]}
        acc = {**acc, "start": [[q, cap(w)] for q, w in acc["start"]], "stop": [[q, cap(w)] for q, w in acc["stop"]], "arcs": [e[:3] + [cap(e[3])] for e in acc["arcs"]]}
    xs = gen.all_strings(A, 4)
    ys = gen.all_strings(B, 2) + [[rng.choice(B) for _ in range(3)] for _ in range(2)]
    return {"id": i, "R": R, "cfg": g, "fst": f, "acc": acc, "shapes": [sf, sa], "xs": xs, "ys": ys, "trunc": rng.choice([0, 1, 2, 3])}


def run(ctx):
    rng, tier = ctx["rng"], ctx["tier"]
    n = int((70 if tier == "quick" else 1500) * ctx.get("mult", 1))
    hashseeds = [0, 1] if tier == "quick" else [0, 1, 2, 3]
    if ctx.get("replay"):
        cases = [f["case"] for f in ctx["replay"]["failing"] if "case" in f]
    else:
        cases = [make_case(rng, i, tier) for i in range(n)]
    for i, c in enumerate(cases):
        c["id"] = i
    impl_res = ctx["run_impl"](cases, hashseeds, 120)
    gw = T.eval_wn(ctx, [(c["cfg"], c["R"], c["xs"]) for c in cases])
    tw = oracles.tpn_eval(ctx, [(c["fst"], c["R"], [[x, y] for y in c["ys"] for x in c["xs"]]) for c in cases])
    aw = oracles.pn_eval(ctx, [(c["acc"], c["R"], c["xs"]) for c in cases])
    # proved WN oracle on the REAL composed grammars
    items, idx = [], []
    for k, c in enumerate(cases):
        r0 = impl_res[hashseeds[0]].get(c["id"]) or {}
        if isinstance(r0.get("compose"), dict) and "rules" in r0["compose"]:
            items.append((r0["compose"], c["R"], c["ys"]))
            idx.append(k)
    cw = dict(zip(idx, T.eval_wn(ctx, items)))
    semantic, samples = [], []
    structural = []
    # structural: the mirror model of the weighted Bar-Hillel construction (Model/Compose.lean, `compose_eps` …) vs the real grammar
    from harness.props.c10 import canon_fst

    def accum_fst(d, R):
        """the transducer Python actually builds: add_I / add_F / add_arc accumulate repeated keys with the semiring's +"""
        c = canon_fst(d, R)
        w = lambda v: v if isinstance(v, bool) else common.frac_str(v)  # noqa
        return {"start": [[json.loads(k), w(v)] for k, v in c["start"].items()], "stop": [[json.loads(k), w(v)] for k, v in c["stop"].items()],
                "arcs": [json.loads(k) + [w(v)] for k, v in c["arcs"].items()]}
    cops = [{"op": "compose_cfg", "R": cases[k]["R"], "cfg": cases[k]["cfg"], "fst": accum_fst(cases[k]["fst"], cases[k]["R"])} for k in idx]
    for k, r in zip(idx, ctx["lean"](cops)):
        if "error" in r:
            raise common.DriverError(r["error"])
        got = impl_res[hashseeds[0]][cases[k]["id"]]["compose"]
        ok, why = T.same_rules(r, got)
        if ok and (r["S"] != got["S"] or sorted(map(common.symkey, r["V"])) != sorted(map(common.symkey, got["V"]))):
            ok, why = False, "start symbol / vocabulary differ"
        if not ok:
            structural.append({"op": "cfg@fst", "what": why, "model_rules": len(r["rules"]), "impl_rules": len(got["rules"]), "cfg": cases[k]["cfg"], "fst": cases[k]["fst"]})
    evaluations = traces = 0
    nontrivial = set()
    shapes = {}
    stats = {"unconverged": 0, "composed_rules": 0, "wn_of_real_output_checked": 0}
    for k, c in enumerate(cases):
        R = c["R"]
        add = (lambda a, b: a or b) if R == "Boolean" else (max if R == "MaxTimes" else (lambda a, b: a + b))
        mul = (lambda a, b: a and b) if R == "Boolean" else (lambda a, b: a * b)
        zero = False if R == "Boolean" else 0
        tol = 1e-7 if R in ("Float", "Real") else 1e-9
        for s_ in c["shapes"]:
            shapes[s_] = shapes.get(s_, 0) + 1
        gv, gc, _ = gw[k]
        tv, tc, _ = tw[k]
        av, ac, _ = aw[k]
        nx = len(c["xs"])
        oracle, oconv = [], []
        for yi, y in enumerate(c["ys"]):
            o, ok = zero, True
            for xi in range(nx):
                o = add(o, mul(gv[xi], tv[yi * nx + xi]))
                ok = ok and gc[xi] and tc[yi * nx + xi]
            oracle.append(o)
            oconv.append(ok)
        if any(o not in (0, False) for o in oracle) and any(o in (0, False) for o in oracle):
            nontrivial.add(hashlib.sha1(json.dumps([c["cfg"], c["fst"], R], sort_keys=True).encode()).hexdigest())
        for hs in hashseeds:
            res = impl_res[hs].get(c["id"])
            if res is None or "exc" in res:
                semantic.append(_viol(c, hs, "worker", None, res))
                continue
            if isinstance(res.get("compose"), dict) and "exc" in res["compose"]:
                semantic.append(_viol(c, hs, "compose", None, res["compose"]))
            else:
                if hs == hashseeds[0]:
                    stats["composed_rules"] += len(res["compose"]["rules"])
                et = res.get("edited_T")
                if isinstance(et, dict):
                    semantic.append(_viol(c, hs, "edited_T", None, et))
                elif et:
                    for y, (a_, b_) in zip(c["ys"][:8], et):
                        evaluations += 1
                        if isinstance(a_, dict) or isinstance(b_, dict):
                            if not (isinstance(a_, dict) and isinstance(b_, dict)):
                                semantic.append(_viol(c, hs, "edited_T", y, {"edited_transpose_composed": a_, "same_arcs_built_from_scratch": b_}))
                        elif not common.close(common.num(a_), common.num(b_), tol, 1e-10):
                            semantic.append(_viol(c, hs, "edited_T", y, {"edited_transpose_composed": a_, "same_arcs_built_from_scratch": b_}))
                        else:
                            traces += 1
                for name in ("vals", "vals_rev"):
                    vs = res.get(name)
                    if isinstance(vs, dict):
                        semantic.append(_viol(c, hs, name, None, vs))
                        continue
                    for y, v, o, ok in zip(c["ys"], vs, oracle, oconv):
                        evaluations += 1
                        if isinstance(v, dict):
                            semantic.append(_viol(c, hs, name, y, v))
                        elif not ok:
                            stats["unconverged"] += 1
                        elif not common.close(common.num(v), o, tol, 1e-10):
                            semantic.append(_viol(c, hs, name, y, {"impl": v, "sum_x_G(x)T(x,y)": str(o)}))
                        else:
                            traces += 1
                if hs == hashseeds[0] and k in cw:
                    wv, wc, _ = cw[k]
                    for y, v, wok, o, ok in zip(c["ys"], wv, wc, oracle, oconv):
                        evaluations += 1
                        stats["wn_of_real_output_checked"] += 1
                        if ok and wok and not common.close(v, o, tol, 1e-10):
                            semantic.append(_viol(c, hs, "compose_grammar", y, {"WN_of_real_output": str(v), "sum_x_G(x)T(x,y)": str(o)}))
                        else:
                            traces += 1
            vs = res.get("acc_vals")
            if isinstance(vs, dict):
                semantic.append(_viol(c, hs, "acceptor", None, vs))
            else:
                for x, v, a, g_, ok in zip(c["xs"], vs, av, gv, [p and q for p, q in zip(ac, gc)]):
                    evaluations += 1
                    if isinstance(v, dict):
                        semantic.append(_viol(c, hs, "acceptor", x, v))
                    elif ok and not common.close(common.num(v), mul(g_, a), tol, 1e-10):
                        semantic.append(_viol(c, hs, "acceptor", x, {"impl": v, "G(x)*A(x)": str(mul(g_, a))}))
                    else:
                        traces += 1
            for x, v, g_ in zip(c["xs"][:6], res["str_treesum"], gv):
                evaluations += 1
                if isinstance(v, dict) or not common.close(common.num(v), g_, tol, 1e-10):
                    semantic.append(_viol(c, hs, "string_treesum", x, {"impl": v, "G(x)": str(g_)}))
                else:
                    traces += 1
            vs = res.get("trunc_vals")
            if isinstance(vs, dict):
                semantic.append(_viol(c, hs, "truncate_length", None, vs))
            else:
                for x, v, g_ in zip(c["xs"], vs, gv):
                    want = g_ if len(x) <= c["trunc"] else zero
                    evaluations += 1
                    if isinstance(v, dict) or not common.close(common.num(v), want, tol, 1e-10):
                        semantic.append(_viol(c, hs, "truncate_length", x, {"impl": v, "expected": str(want), "bound": c["trunc"]}))
                    else:
                        traces += 1
        if len(samples) < 3 and any(o not in (0, False) for o in oracle):
            samples.append({"cfg": c["cfg"], "fst": c["fst"], "R": R, "ys": c["ys"][:4], "oracle": [str(o) for o in oracle[:4]],
                            "impl": ((impl_res[hashseeds[0]].get(c["id"]) or {}).get("vals") or [])[:4]})
    return {
        "evaluations": evaluations, "distinct_nontrivial": len(nontrivial),
        "rule": "seeded finite-language grammars (strings ≤ 4, nullary/unary/duplicate rules) x transducers (ε on either tape, ε:ε arcs, cycles, dead states, several initial/final states) / acceptors / strings / "
                "length bounds x all output strings ≤ 2 plus longer ones x semiring; non-trivial = distinct (grammar, transducer) with some related and some unrelated output",
        "samples": samples, "traces": traces + len(cops) - len(structural), "semantic": semantic, "structural": structural,
        "extra": {"shape_histogram": shapes, "hashseeds": hashseeds, "stats": stats, "cases": len(cases), "structural_compositions": len(cops)},
        "assumptions": ["grammars are finite-language so that Σ_x is an exact finite sum; transducers with ε:ε cycles use a deep IEEE truncation of TPN"],
    }


def _viol(c, hs, name, q, got):
    sig = hashlib.sha1(json.dumps([name, c["cfg"], c["fst"], q, c["R"]], sort_keys=True).encode()).hexdigest()[:16]
    return {"signature": f"C09:{name}:{sig}", "op": name, "query": q, "impl": got, "hashseed": hs, "case": c}
