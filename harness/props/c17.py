"""C17 — automaton→grammar and byte-level conversions preserve weights.

Oracle: `PN`/`WN` (Lean) on the symbol level and UTF-8: the weight of a byte string must be the total
weight of the symbol strings whose encoding it is (0 for truncated / mixed encodings).  The proved WN /
PN oracles are applied to the REAL converted grammars / machines.  Structural: the mirror models
`toCfgRight`, `toCfgLeft`, `toBytes`, `cfgToBytes` (theorems toCfgRight_spec, toCfgLeft_spec,
toBytes_Pk, …; their hypotheses — state names disjoint from the alphabet and the start symbol,
distinct arcs, non-empty encodings — are established by the repaired code and evaluated here)."""
import hashlib
import itertools
import json

from harness import common, gen, oracles
from harness.props import cfg_transforms as T

ALPH = ["a", "é", "€", "😀", "b", "ü", "→", "≤", "む", "←", "\x00"]   # U+0000 encodes to the byte 0 — the one FALSY byte   # → ← ≤ € share the lead byte E2 (→ ← also the 2nd byte); € and む share the 2nd byte     # 1, 2, 3, 4, 1, 2 bytes; é and ü share the first byte


def _bytes_of(x):
    return [b for s in x for b in s.encode("utf-8")]


def decodings(bs, syms):
    """all symbol strings over `syms` whose UTF-8 encoding is exactly the byte list `bs`"""
    encs = [(s, list(s.encode("utf-8"))) for s in syms if s != ""]
    out = []

    def go(pos, acc):
        if pos == len(bs):
            out.append(list(acc))
            return
        for s, e in encs:
            if bs[pos:pos + len(e)] == e:
                acc.append(s)
                go(pos + len(e), acc)
                acc.pop()
    go(0, [])
    return out


def impl(case):
    from genlm.grammar import cfg as _cfg
    R = "Float"
    out = {}
    tup = lambda s: tuple(common.dec_sym(t) for t in s)  # noqa

    def safe(fn):
        try:
            return common.enc_w(fn(), R)
        except Exception as e:  # noqa
            return {"exc": type(e).__name__, "msg": str(e)[:200]}

    def mk():
        if case.get("from_string") is not None:
            from genlm.grammar.wfsa import base
            return base.WFSA.from_string("".join(case["from_string"]), common.semiring(R))
        return common.mk_wfsa(case["wfsa"], R, case["cls"])
    for rec in ("right", "left"):
        try:
            _cfg._gen_nt.i = 40
            G = mk().to_cfg(recursion=rec)
            out["cfg_" + rec] = common.enc_cfg(G, R)
            out["cfg_vals_" + rec] = [safe(lambda: G(tup(x))) for x in case["xs"]]
        except Exception as e:  # noqa
            out["cfg_" + rec] = {"exc": type(e).__name__, "msg": str(e)[:200]}
    try:
        B = mk().to_bytes()
        out["bytes"] = common.enc_wfsa(B, R)
        out["bytes_vals"] = [safe(lambda: B(tuple(bs))) for bs in case["bss"]]
        _cfg._gen_nt.i = 40
        BG = B.to_cfg()
        out["bytes_cfg_vals"] = [safe(lambda: BG(tuple(bs))) for bs in case["bss"][:10]]
    except Exception as e:  # noqa
        out["bytes"] = {"exc": type(e).__name__, "msg": str(e)[:200]}
    # grammar to bytes
    try:
        g = common.mk_cfg(case["cfg"], R)
        gb = g.to_bytes()
        out["gbytes"] = common.enc_cfg(gb, R)
        out["gbytes_vals"] = [safe(lambda: gb(tuple(bs))) for bs in case["gbss"]]
    except Exception as e:  # noqa
        out["gbytes"] = {"exc": type(e).__name__, "msg": str(e)[:200]}
    # two converted automata merged into one grammar (as LarkStuff does): S -> S1 S2
    try:
        from genlm.grammar.cfg import CFG
        A1 = common.mk_wfsa(case["wfsa"], R, case["cls"]).rename(lambda q: ("t1", q))
        A2 = common.mk_wfsa(case["wfsa2"], R, case["cls"]).rename(lambda q: ("t2", q))
        G1 = A1.to_bytes().to_cfg(S="S1")
        G2 = A2.to_bytes().to_cfg(S="S2")
        M = CFG(R=common.semiring(R), S="S", V=set(G1.V) | set(G2.V))
        M.add(1.0, "S", "S1", "S2")
        for r in list(G1) + list(G2):
            M.add(r.w, r.head, *r.body)
        out["merged_disjoint"] = len(M.N & M.V) == 0
        out["merged_vals"] = [safe(lambda: M(tuple(bs))) for bs in case["mbss"]]
    except Exception as e:  # noqa
        out["merged_vals"] = {"exc": type(e).__name__, "msg": str(e)[:200]}
    return out


def make_case(rng, i, tier):
    syms = rng.sample(ALPH, rng.choice([2, 3, 3]))
    a, shape = gen.gen_wfsa(rng, nstates=rng.choice([1, 2, 3]), shape=rng.choice(["plain", "multi_init_final", "eps", "eps_cycle", "parallel", "named_like_symbols", "acyclic", "init_is_final"]))
    a2, _ = gen.gen_wfsa(rng, nstates=rng.choice([1, 2]), shape=rng.choice(["plain", "acyclic", "init_is_final"]))

    def relabel(d):
        m = {s: syms[k % len(syms)] for k, s in enumerate(d["syms"])}
        st = lambda q: m.get(q, q) if shape == "named_like_symbols" else q  # noqa
        return {"start": [[st(q), w] for q, w in d["start"]], "stop": [[st(q), w] for q, w in d["stop"]],
                "arcs": [[st(i_), m.get(s, s), st(j_), w] for i_, s, j_, w in d["arcs"]], "syms": sorted(set(m.values()))}
    a, a2 = relabel(a), relabel(a2)
    fs = None
    if rng.random() < 0.2:
        fs = [rng.choice(syms) for _ in range(rng.randint(1, 3))]
    xs = gen.all_strings(a["syms"], 2) + [[rng.choice(a["syms"]) for _ in range(3)] for _ in range(3)]
    if fs is not None:
        xs = [fs, fs[:-1], fs + fs[:1], []] + xs[:6]
    enc = {json.dumps(_bytes_of(x)) for x in xs}
    bss = [json.loads(e) for e in enc]
    extra = []
    for bs in bss:
        if len(bs) > 1:
            extra.append(bs[:-1])                # truncated multi-byte character
            extra.append(bs[1:])
    allb = sorted({b for bs in bss for b in bs})
    for _ in range(6):
        extra.append([rng.choice(allb) for _ in range(rng.randint(1, 4))] if allb else [])
    seen, bl = set(), []
    for bs in bss + extra:
        if json.dumps(bs) not in seen:
            seen.add(json.dumps(bs))
            bl.append(bs)
    # grammar with multi-byte and multi-character terminals
    gterms = rng.sample(["a", "é", "€", "ab", "é€", "😀"], 3)
    g = gen.gen_finite_cfg(rng, terms=gterms)
    if rng.random() < 0.3:
        # a nonterminal whose only rule has weight ZERO (`CFG.add` drops it: the symbol is then neither in V nor in N) used in
        # the body of a live head: the rule contributes nothing, its name must not be read as a terminal
        tz = rng.choice(gterms)     # the same terminal in both rules: the byte vocabulary is collected from the rules that survive `add`
        g["rules"].append(["0", "Yz", [tz]])
        g["rules"].append([common.frac_str(rng.choice(gen.SMALL)), rng.choice(["S", "N1"]), ["Yz", tz]])
    if rng.random() < 0.4:
        # two rules of one head that flatten to the same byte body (multi-character terminal vs its characters)
        gterms = sorted(set(gterms) | {"a", "b", "ab"})
        g["V"] = sorted(set(g["V"]) | {"a", "b", "ab"})
        h = rng.choice(["S", "N1"])
        g["rules"] += [[common.frac_str(rng.choice(gen.SMALL)), h, ["ab"]], [common.frac_str(rng.choice(gen.SMALL)), h, ["a", "b"]]]
    gx = gen.all_strings(gterms, 2)
    gb = {json.dumps(_bytes_of(x)) for x in gx[:40]}
    gbss = [json.loads(e) for e in gb][:25]
    gbss += [bs[:-1] for bs in gbss[:6] if len(bs) > 1]
    if any(r[1] == "Yz" for r in g["rules"]):
        gbss += [_bytes_of(["Yz", t]) for t in gterms] + [_bytes_of(["Yz"])]      # the NAME of the dead nonterminal spelled in bytes
    # merged: all concatenations of short encodings of both
    x1 = gen.all_strings(a["syms"], 2)
    x2 = gen.all_strings(a2["syms"], 1)
    mb = {json.dumps(_bytes_of(u) + _bytes_of(v)) for u in x1 for v in x2}
    mbss = [json.loads(e) for e in sorted(mb)][:30]
    mbss += [_bytes_of(v) + _bytes_of(u) for u in x1[:3] for v in x2[:2]]
    return {"id": i, "shape": shape, "cls": rng.choice(["field", "base"]), "wfsa": a, "wfsa2": a2, "from_string": fs, "xs": xs, "bss": bl,
            "cfg": g, "gterms": gterms, "gbss": gbss, "mbss": mbss}


def corpus():
    a = {"start": [[0, "1"]], "stop": [[1, "1"]], "arcs": [[0, "é", 1, "1/2"]], "syms": ["é"]}
    b = {"start": [[0, "1"]], "stop": [[1, "1"]], "arcs": [[0, "ü", 1, "1/2"]], "syms": ["ü"]}
    g = {"S": "S", "V": ["é"], "rules": [["1", "S", ["é"]]]}
    e, u = _bytes_of(["é"]), _bytes_of(["ü"])
    return [{"shape": "corpus_F11", "cls": "field", "wfsa": a, "wfsa2": b, "from_string": None, "xs": [["é"], []], "bss": [e, e[:1]], "cfg": g, "gterms": ["é"],
             "gbss": [e, e[:1]], "mbss": [e + u, u + e, e + e, u + u, [e[0], u[1], e[0], e[1]]]},
            {"shape": "corpus_F10", "cls": "base", "wfsa": a, "wfsa2": b, "from_string": ["a", "b"], "xs": [["a", "b"], ["a"], []], "bss": [[97, 98], [97]], "cfg": g, "gterms": ["é"],
             "gbss": [e], "mbss": [e + u]}]


def _rename_for_to_cfg(desc, S):
    """the renaming loop of the repaired `to_cfg`: wrap states in 1-tuples while they collide with the
    alphabet or the start symbol (trusted harness replica; the model receives the renamed machine)"""
    d = desc
    for _ in range(6):
        states = {common.symkey(q) for q in gen.wfsa_states(d)}
        V = {common.symkey(a[1]) for a in d["arcs"] if a[1] != ""}
        if common.symkey(S) not in states and not (V & states):
            return d
        d = {"start": [[[q], w] for q, w in d["start"]], "stop": [[[q], w] for q, w in d["stop"]], "arcs": [[[i], a, [j], w] for i, a, j, w in d["arcs"]]}
    return d


def _renumber_chains(desc):
    """chain states are generated names ("_bytes", i, a, j, n) with a per-call counter n; the model numbers
    the positions inside each chain 0, 1, …: renumber n by rank within its (i, a, j) group"""
    groups = {}
    for q in gen.wfsa_states(desc):
        if isinstance(q, list) and len(q) == 5 and q[0] == "_bytes":
            groups.setdefault(json.dumps(q[1:4]), []).append(q[4])
    rank = {g: {n: r for r, n in enumerate(sorted(ns))} for g, ns in groups.items()}

    def f(q):
        if isinstance(q, list) and len(q) == 5 and q[0] == "_bytes":
            return q[:4] + [rank[json.dumps(q[1:4])][q[4]]]
        return q
    return {"start": [[f(q), w] for q, w in desc["start"]], "stop": [[f(q), w] for q, w in desc["stop"]],
            "arcs": [[f(i), a, f(j), w] for i, a, j, w in desc["arcs"]]}


def run(ctx):
    rng, tier = ctx["rng"], ctx["tier"]
    n = int((80 if tier == "quick" else 1500) * ctx.get("mult", 1))
    hashseeds = [0, 1] if tier == "quick" else [0, 1, 2, 3]
    if ctx.get("replay"):
        cases = [f["case"] for f in ctx["replay"]["failing"] if "case" in f]
    else:
        cases = corpus() + [make_case(rng, i, tier) for i in range(n)]
    for i, c in enumerate(cases):
        c["id"] = i

    def src(c):
        if c.get("from_string") is not None:
            s = c["from_string"]
            pre = ["".join(s[:k]) for k in range(len(s) + 1)]
            return {"start": [[pre[0], "1"]], "stop": [[pre[-1], "1"]], "arcs": [[pre[k], s[k], pre[k + 1], "1"] for k in range(len(s))]}
        return c["wfsa"]
    impl_res = ctx["run_impl"](cases, hashseeds, 120)
    # symbol-level oracle on all candidate symbol strings (≤ 3 symbols)
    def syms_of(d):
        return sorted({a[1] for a in d["arcs"] if a[1] != ""})
    cand = {}
    for c in cases:
        need = {json.dumps(x) for bs in c["bss"] for x in decodings(bs, syms_of(src(c)))}
        for bs in c["mbss"]:
            for cut in range(len(bs) + 1):
                need |= {json.dumps(x) for x in decodings(bs[:cut], syms_of(src(c)))}
        cand[c["id"]] = [json.loads(x) for x in sorted(need)] or [[]]
    cand2 = {}
    for c in cases:
        need = set()
        for bs in c["mbss"]:
            for cut in range(len(bs) + 1):
                need |= {json.dumps(x) for x in decodings(bs[cut:], syms_of(c["wfsa2"]))}
        cand2[c["id"]] = [json.loads(x) for x in sorted(need)] or [[]]
    sw = oracles.pn_eval(ctx, [(src(c), "Float", cand[c["id"]] + c["xs"]) for c in cases])
    sw2 = oracles.pn_eval(ctx, [(c["wfsa2"], "Float", cand2[c["id"]]) for c in cases])
    gcand = {c["id"]: [json.loads(x) for x in sorted({json.dumps(x) for bs in c["gbss"] for x in decodings(bs, c["gterms"])})] or [[]] for c in cases}
    gw = T.eval_wn(ctx, [(c["cfg"], "Float", gcand[c["id"]]) for c in cases])
    # oracles on the REAL outputs
    items_w, idx_w, items_g, idx_g = [], [], [], []
    sops, sidx = [], []
    for k, c in enumerate(cases):
        r0 = impl_res[hashseeds[0]].get(c["id"]) or {}
        if isinstance(r0.get("bytes"), dict) and "arcs" in r0["bytes"]:
            items_w.append((r0["bytes"], "Float", c["bss"])); idx_w.append(k)
            sops.append({"op": "wfsa_op2", "R": "Float", "name": "to_bytes", "a": common.accum_wfsa(src(c))}); sidx.append((k, "bytes"))
        for rec in ("right", "left"):
            G = r0.get("cfg_" + rec)
            if isinstance(G, dict) and "rules" in G:
                items_g.append((G, "Float", c["xs"])); idx_g.append((k, rec))
                sops.append({"op": "wfsa_op2", "R": "Float", "name": "to_cfg_" + rec, "a": _rename_for_to_cfg(src(c), G["S"]), "S": G["S"]}); sidx.append((k, "cfg_" + rec))
        if isinstance(r0.get("gbytes"), dict) and "rules" in r0["gbytes"]:
            items_g.append((r0["gbytes"], "Float", c["gbss"])); idx_g.append((k, "gbytes"))
            sops.append({"op": "transform", "R": "Float", "name": "to_bytes", "cfg": c["cfg"]}); sidx.append((k, "gbytes"))
    bw = dict(zip(idx_w, oracles.pn_eval(ctx, items_w)))
    gow = dict(zip(idx_g, T.eval_wn(ctx, items_g)))
    semantic, structural, samples = [], [], []
    evaluations = traces = 0
    nontrivial = set()
    shapes = {}
    stats = {"state_alphabet_collisions": 0, "multibyte_arcs": 0, "structural": 0, "truncated_encodings_checked": 0}
    for (k, name), r in zip(sidx, ctx["lean"](sops)):
        if "error" in r:
            raise common.DriverError(r["error"])
        c = cases[k]
        got = impl_res[hashseeds[0]][c["id"]][name]
        stats["structural"] += 1
        evaluations += 1
        if name == "bytes":
            ok, why = common.same_wfsa(r, _renumber_chains(got))
        elif name == "gbytes":
            ok, why = T.same_rules(r["cfg"], got)
            if ok and sorted(map(common.symkey, r["cfg"]["V"])) != sorted(map(common.symkey, got["V"])):
                ok, why = False, "byte vocabulary differs"
        else:
            ok, why = T.same_rules(r, got)
            if ok and sorted(map(common.symkey, r["V"])) != sorted(map(common.symkey, got["V"])):
                ok, why = False, "vocabulary differs"
        if not ok:
            structural.append({"op": name, "what": why, "model": r, "impl": got, "input": src(c)})
        else:
            traces += 1
    for k, c in enumerate(cases):
        shapes[c["shape"]] = shapes.get(c["shape"], 0) + 1
        vals, conv, _ = sw[k]
        ncand = len(cand[c["id"]])
        cv = dict(zip(map(json.dumps, cand[c["id"]]), zip(vals[:ncand], conv[:ncand])))
        xv, xc = vals[ncand:], conv[ncand:]
        st = {common.symkey(q) for q in gen.wfsa_states(src(c))}
        stats["state_alphabet_collisions"] += bool(st & {common.symkey(a[1]) for a in src(c)["arcs"]})
        stats["multibyte_arcs"] += sum(1 for a in src(c)["arcs"] if len(a[1].encode()) > 1)

        def byte_oracle(bs, table, cands):
            o, ok = 0, True
            for x in cands:
                if _bytes_of(x) == bs:
                    v, cvg = table[json.dumps(x)]
                    o += v
                    ok = ok and cvg
            return o, ok
        if any(v != 0 for v in xv):
            nontrivial.add(hashlib.sha1(json.dumps([src(c), c["cfg"]], sort_keys=True).encode()).hexdigest())
        for hs in hashseeds:
            res = impl_res[hs].get(c["id"])
            if res is None or "exc" in res:
                semantic.append(_viol(c, hs, "worker", None, res))
                continue
            for rec in ("right", "left"):
                G = res.get("cfg_" + rec)
                if isinstance(G, dict) and "exc" in G:
                    semantic.append(_viol(c, hs, "to_cfg_" + rec, None, G))
                    continue
                for x, v, o, ok in zip(c["xs"], res["cfg_vals_" + rec], xv, xc):
                    evaluations += 1
                    if isinstance(v, dict):
                        semantic.append(_viol(c, hs, "to_cfg_" + rec, x, v))
                    elif ok and not common.close(common.num(v), o, 1e-7, 1e-10):
                        semantic.append(_viol(c, hs, "to_cfg_" + rec, x, {"impl": v, "automaton_weight": str(o)}))
                    else:
                        traces += 1
                if hs == hashseeds[0] and (k, rec) in gow:
                    ov, oc, _ = gow[(k, rec)]
                    for x, v, vc, o, ok in zip(c["xs"], ov, oc, xv, xc):
                        evaluations += 1
                        if ok and vc and not common.close(v, o, 1e-7, 1e-10):
                            semantic.append(_viol(c, hs, "to_cfg_" + rec, x, {"WN_of_real_grammar": str(v), "automaton_weight": str(o)}))
                        else:
                            traces += 1
            B = res.get("bytes")
            if isinstance(B, dict) and "exc" in B:
                semantic.append(_viol(c, hs, "to_bytes", None, B))
            else:
                for bi, bs in enumerate(c["bss"]):
                    o, ok = byte_oracle(bs, cv, cand[c["id"]])
                    try:
                        bytes(bs).decode("utf-8")
                    except Exception:  # noqa
                        stats["truncated_encodings_checked"] += 1
                    for name, vs in (("to_bytes", res["bytes_vals"]), ("to_bytes.to_cfg", res["bytes_cfg_vals"])):
                        if bi >= len(vs):
                            continue
                        v = vs[bi]
                        evaluations += 1
                        if isinstance(v, dict):
                            semantic.append(_viol(c, hs, name, bs, v))
                        elif ok and not common.close(common.num(v), o, 1e-7, 1e-10):
                            semantic.append(_viol(c, hs, name, bs, {"impl": v, "total_weight_of_encoded_strings": str(o)}))
                        else:
                            traces += 1
                    if hs == hashseeds[0] and k in bw:
                        v, vc = bw[k][0][bi], bw[k][1][bi]
                        evaluations += 1
                        if ok and vc and not common.close(v, o, 1e-7, 1e-10):
                            semantic.append(_viol(c, hs, "to_bytes", bs, {"PN_of_real_byte_machine": str(v), "total_weight_of_encoded_strings": str(o)}))
                        else:
                            traces += 1
            GB = res.get("gbytes")
            if isinstance(GB, dict) and "exc" in GB:
                semantic.append(_viol(c, hs, "cfg.to_bytes", None, GB))
            else:
                gv, gc, _ = gw[k]
                gt = dict(zip(map(json.dumps, gcand[c["id"]]), zip(gv, gc)))
                for bs, v in zip(c["gbss"], res["gbytes_vals"]):
                    o, ok = byte_oracle(bs, gt, gcand[c["id"]])
                    evaluations += 1
                    if isinstance(v, dict):
                        semantic.append(_viol(c, hs, "cfg.to_bytes", bs, v))
                    elif ok and not common.close(common.num(v), o, 1e-7, 1e-10):
                        semantic.append(_viol(c, hs, "cfg.to_bytes", bs, {"impl": v, "total_weight_of_encoded_strings": str(o)}))
                    else:
                        traces += 1
            mv = res.get("merged_vals")
            if isinstance(mv, dict):
                semantic.append(_viol(c, hs, "merged", None, mv))
            elif c.get("from_string") is None:
                if not res.get("merged_disjoint", True):
                    semantic.append(_viol(c, hs, "merged", None, "terminal and nonterminal names collide"))
                v2, c2, _ = sw2[k]
                t2 = dict(zip(map(json.dumps, cand2[c["id"]]), zip(v2, c2)))
                c1 = cand[c["id"]]
                for bs, v in zip(c["mbss"], mv):
                    o, ok = 0, True
                    for cut in range(len(bs) + 1):
                        o1, k1 = byte_oracle(bs[:cut], cv, c1)
                        o2, k2 = byte_oracle(bs[cut:], t2, cand2[c["id"]])
                        o += o1 * o2
                        ok = ok and k1 and k2
                    evaluations += 1
                    if isinstance(v, dict):
                        semantic.append(_viol(c, hs, "merged", bs, v))
                    elif ok and not common.close(common.num(v), o, 1e-7, 1e-10):
                        semantic.append(_viol(c, hs, "merged", bs, {"impl": v, "product_over_splits": str(o)}))
                    else:
                        traces += 1
        if len(samples) < 3 and any(v != 0 for v in xv):
            samples.append({"wfsa": src(c), "xs": c["xs"][:3], "byte_strings": c["bss"][:4], "impl_bytes_vals": ((impl_res[hashseeds[0]].get(c["id"]) or {}).get("bytes_vals") or [])[:4]})
    return {
        "evaluations": evaluations, "distinct_nontrivial": len(nontrivial),
        "rule": "seeded automata over alphabets mixing 1-, 2-, 3- and 4-byte characters (shared first bytes), ε arcs, state names equal to symbols, from_string constructions; grammars with "
                "multi-byte and multi-character terminals; two converted automata merged into one grammar; byte strings = encodings, truncated encodings, byte mixes, random; "
                "non-trivial = distinct inputs with a non-zero weight",
        "samples": samples, "traces": traces, "semantic": semantic, "structural": structural,
        "extra": {"shape_histogram": shapes, "hashseeds": hashseeds, "stats": stats, "cases": len(cases)},
        "assumptions": ["for every byte string ALL its decodings over the machine's alphabet are computed (harness DP) and their weights summed",
                        "Python's str.encode is the UTF-8 reference of the semantic oracle; the structural model uses Lean's String.toUTF8"],
    }


def _viol(c, hs, name, q, got):
    sig = hashlib.sha1(json.dumps([name, c["wfsa"], c.get("from_string"), c["cfg"], q], sort_keys=True).encode()).hexdigest()[:16]
    return {"signature": f"C17:{name}:{sig}", "op": name, "query": q, "impl": got, "hashseed": hs, "case": c}
