"""C01 — the next-token mask is exactly the set of viable continuations.

Oracle: the verified decision procedure `nextSet` (Model/Mask.lean, `nextSet_spec`): for the grammar
with EOS appended, t is offered iff context ++ [t] can be completed to a sentence.  Any difference
between `BoolCFGLM(cfg, alg).p_next(ctx).keys()` and the oracle is a violation with (cfg, ctx, alg,
hash seed) as replay."""
import hashlib
import json

from harness import common, gen

EOS = "▪"


def impl(case):
    from genlm.grammar.cfglm import BoolCFGLM
    R = case["R"]
    out = {}
    for alg in case["algs"]:
        try:
            lm = BoolCFGLM(common.mk_cfg(case["cfg"], R), alg=alg)
        except Exception as e:  # noqa
            out[alg] = {"exc": type(e).__name__, "msg": "ctor: " + str(e)[:200]}
            continue
        res = []
        for ctx in case["ctxs"]:
            try:
                p = lm.p_next(tuple(common.dec_sym(t) for t in ctx))
                res.append(sorted((common.enc_sym(k) for k, v in p.items() if v != 0), key=common.symkey))
            except Exception as e:  # noqa
                res.append({"exc": type(e).__name__, "msg": str(e)[:200]})
        out[alg] = res
    return out


def make_case(rng, i, tier):
    R = rng.choice(["Float", "Float", "Boolean"])
    u = rng.random()
    # (nullable_run: a token behind a RUN of nullable nonterminals at the front of a body of length ≥ 3 — binarisation folds the
    #  run into a fresh nonterminal that must be nullable too)
    force = "lc_unary_cycle" if u < 0.12 else "nullable_run" if u < 0.24 else None
    desc, shape = gen.gen_cfg(rng, shape=force, maxrules=(2 if force == "lc_unary_cycle" else 5) if tier == "quick" else 7, convergent=False, nnt=1 if force else rng.choice([1, 2, 2, 3]))
    if R == "Boolean":
        desc = gen.to_bool(desc)
    elif rng.random() < 0.15:  # a rule with non-positive weight is dropped by the Boolean mapping
        r = rng.choice(desc["rules"])
        r[0] = "-1/2"
    V = desc["V"]
    ctxs = [[]]
    for _ in range(5):
        s = gen.sample_string(rng, desc, maxlen=5)
        if s is not None:
            ctxs.append(s)                        # complete sentence
            k = rng.randint(0, len(s))
            ctxs.append(s[:k])                    # viable prefix
            if s:
                t = list(s)
                t[rng.randrange(len(t))] = rng.choice(V)
                ctxs.append(t[: rng.randint(1, len(t))])   # one-token corruption
            ctxs.append(s + [EOS])
    for _ in range(3):
        ctxs.append([rng.choice(V) for _ in range(rng.randint(1, 4))])
    ctxs.append([EOS])
    seen, cs = set(), []
    for c in ctxs:
        if tuple(c) not in seen and len(c) <= (5 if tier == "quick" else 6):
            seen.add(tuple(c))
            cs.append(c)
    if force:
        # an error in the predictor shows one token after its cause: all short contexts, one LM object for all of them
        allc = gen.all_strings(V, 4)
        rng.shuffle(allc)
        cs = cs[:6] + [c for c in allc if tuple(c) not in seen][:40]
        return {"id": i, "shape": shape, "R": R, "cfg": desc, "ctxs": cs, "algs": ["earley", "cky"]}
    return {"id": i, "shape": shape, "R": R, "cfg": desc, "ctxs": cs[:10], "algs": ["earley", "cky"]}


def tiny_grammars(maxn):
    """exhaustive family: ≤ 2 nonterminals, ≤ 3 rules, bodies ≤ 2 over ≤ 2 terminals (thorough tier)"""
    import itertools
    syms = ["S", "A", "a", "b"]
    bodies = [[]] + [[x] for x in syms] + [[x, y] for x in syms for y in syms]
    rules = [(h, b) for h in ("S", "A") for b in bodies]
    out = []
    for k in (1, 2, 3):
        for combo in itertools.combinations(range(len(rules)), k):
            out.append([rules[i] for i in combo])
    return out


def corpus():
    g = {"S": "S", "V": ["a", "b"], "rules": [["1", "S", ["a", "S", "b"]], ["1", "S", []], ["1", "S", ["S", "S"]], ["1", "S", ["A"]], ["1", "A", ["S"]]]}
    # indirect left-corner cycle with a unary way back (seeded change C01_n2: memoised left-corner closure), both rule orders
    lc = [["1", "S", ["B", "x", "D", "z"]], ["1", "B", ["D", "a"]], ["1", "B", ["t"]], ["1", "B", ["u"]], ["1", "B", ["v"]], ["1", "B", ["w"]],
          ["1", "D", ["B"]], ["1", "D", ["c", "D", "b"]]]
    lcc = [[], ["t"], ["t", "x"], ["t", "x", "w"], ["t", "x", "w", "z"], ["t", "x", "w", "a"], ["t", "x", "c"], ["t", "x", "c", "u", "b"], ["t", "a", "x", "v"], ["t", "x", "w", "z", EOS]]
    out = [{"shape": "corpus_F1", "R": "Float", "cfg": g, "ctxs": [[], ["a"], ["b"], ["a", "b"], ["a", "b", EOS]], "algs": ["earley", "cky"]}]
    for rules in (lc, lc[::-1]):
        out.append({"shape": "corpus_lc_unary_cycle", "R": "Boolean", "cfg": gen.to_bool({"S": "S", "V": ["a", "b", "c", "t", "u", "v", "w", "x", "z"], "rules": rules}),
                    "ctxs": lcc, "algs": ["earley", "cky"]})
    return out


def run(ctx):
    rng, tier = ctx["rng"], ctx["tier"]
    n = int((60 if tier == "quick" else 1200) * ctx.get("mult", 1))
    hashseeds = [0, 1] if tier == "quick" else [0, 1, 2, 3]
    if ctx.get("replay"):
        cases = [f["case"] for f in ctx["replay"]["failing"] if "case" in f]
    else:
        cases = corpus() + [make_case(rng, i, tier) for i in range(n)]
        if tier == "thorough":
            tg = tiny_grammars(3)
            rng.shuffle(tg)
            allctx = [c for c in gen.all_strings(["a", "b"], 3)]
            for rs in tg[:1500]:
                cases.append({"shape": "tiny_exhaustive", "R": "Boolean", "cfg": {"S": "S", "V": ["a", "b"], "rules": [[True, h, list(b)] for h, b in rs]},
                              "ctxs": allctx, "algs": ["earley", "cky"]})
    for i, c in enumerate(cases):
        c["id"] = i

    def positive(desc):
        return {"S": desc["S"], "V": desc["V"], "rules": [[True, h, b] for w, h, b in desc["rules"] if (w is True) or (not isinstance(w, bool) and common.num(w) > 0)]}
    ops = [{"op": "mask", "R": "Boolean", "eos": EOS, "cfg": positive(c["cfg"]), "ctxs": c["ctxs"]} for c in cases]
    lean = ctx["lean"](ops)
    impl_res = ctx["run_impl"](cases, hashseeds, 120)
    semantic, samples = [], []
    evaluations = traces = 0
    nontrivial = set()
    shapes = {}
    stats = {"viable_contexts": 0, "nonviable_contexts": 0, "empty_masks": 0, "eos_offered": 0, "mask_sizes": {}}
    for c, L in zip(cases, lean):
        if "error" in L:
            raise common.DriverError(L["error"])
        shapes[c["shape"]] = shapes.get(c["shape"], 0) + 1
        oracle = [sorted(m, key=common.symkey) for m in L["masks"]]
        for m, v in zip(oracle, L["viable"]):
            stats["viable_contexts" if v else "nonviable_contexts"] += 1
            stats["empty_masks"] += (not m)
            stats["eos_offered"] += (EOS in m)
            stats["mask_sizes"][str(len(m))] = stats["mask_sizes"].get(str(len(m)), 0) + 1
        if any(oracle) and not all(oracle):
            nontrivial.add(hashlib.sha1(json.dumps([c["cfg"], c["ctxs"]], sort_keys=True).encode()).hexdigest())
        for hs in hashseeds:
            res = impl_res[hs].get(c["id"])
            if res is None or "exc" in res:
                semantic.append(_viol(c, hs, "worker", None, None, res))
                continue
            for alg in c["algs"]:
                r = res.get(alg)
                if isinstance(r, dict):
                    semantic.append(_viol(c, hs, alg, None, None, r))
                    continue
                for cx, got, want in zip(c["ctxs"], r, oracle):
                    evaluations += 1
                    if isinstance(got, dict) or got != want:
                        semantic.append(_viol(c, hs, alg, cx, want, got))
                    else:
                        traces += 1
        if len(samples) < 4 and any(oracle):
            samples.append({"cfg": c["cfg"], "contexts": c["ctxs"][:5], "oracle_masks": oracle[:5],
                            "impl": {a: (impl_res[hashseeds[0]].get(c["id"]) or {}).get(a, [])[:5] if isinstance((impl_res[hashseeds[0]].get(c["id"]) or {}).get(a), list) else None for a in c["algs"]}})
    return {
        "evaluations": evaluations, "distinct_nontrivial": len(nontrivial),
        "rule": "seeded random grammars (all shape classes, not necessarily convergent) x contexts (sentences, viable prefixes, one-token corruptions, "
                "random strings, contexts containing EOS) x both back ends x hash seeds; thorough adds an exhaustive family of tiny grammars with all "
                "contexts of length ≤ 3; non-trivial = distinct (grammar, contexts) with at least one empty and one non-empty mask",
        "samples": samples, "traces": traces, "semantic": semantic, "structural": [],
        "extra": {"shape_histogram": shapes, "hashseeds": hashseeds, "oracle_stats": stats, "cases": len(cases)},
        "assumptions": ["rules with non-positive weight are removed by the harness before the oracle is asked, mirroring BoolCFGLM's `x > 0` mapping"],
    }


def _viol(c, hs, alg, cx, want, got):
    sig = hashlib.sha1(json.dumps([alg, c["cfg"], cx], sort_keys=True).encode()).hexdigest()[:16]
    return {"signature": f"C01:{alg}:{sig}", "op": alg, "context": cx, "oracle_mask": want, "impl": got, "hashseed": hs, "case": c}
