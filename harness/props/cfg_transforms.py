"""Shared machinery of C06 (transformations preserve the weighted language) and
C07 (structural postconditions).

For every generated grammar G and every transformation T offered as equivalence-preserving:
  semantic (C06):   WN(T_impl(G)) = WN(G) on sampled strings — both sides evaluated by the Lean
                    specification `WN` (the real output grammar is sent to the driver);
  shape (C07):      the postcondition predicates, decided by the Lean driver on the real output;
  structural:       T_model(G) = T_impl(G) as weighted rule multisets (mirror models of
                    Model/Transform.lean; fresh names aligned through the `_gen_nt` counter), stage by
                    stage for the `cnf` pipeline (each stage on the real input of that stage).

`unarycycleremove` (Model/UCycle.lean) is tied in twice, on the raw grammar and on the real output of
`nullaryremove()` (the input it gets inside the Earley parsers), for `trim=False` and `trim=True`, under every hash seed:
  unarycycleremove       the model is given what the real call read off its `WeightedGraph` (the graph returned by
                         `_unary_graph()` inside that very call is intercepted): `A = G.E`, `G.Blocks` (node sets in iteration
                         order + closure matrices).  The model then only copies weights, so the rule multisets must be EQUAL
                         (no summing of parallel rules, no tolerance, floats included);
  unarycycleremove_full  only the ORDER of the blocks is taken from the code.  The model builds `_unary_graph()` itself
                         (compared with the real `N` and `E`), checks with the verified `sccCheck` that the real blocks are its
                         strongly connected components sources first, computes the closures with its `_closure` and the rules;
                         compared with tolerance where the real arithmetic is floating point.  The driver also evaluates the
                         hypotheses of `ucycle_no_unary_cycle_graph` / `hasUnaryCycle_graph` on the case.
  tarjan                 the proved model `tarjan` of `scc_decomposition` (Model/Tarjan.lean, `tarjan_correct`) is run on the iteration
                         orders of `G.N` / `G.incoming[v]` of every intercepted graph (recorded when `_unary_graph()` returns, i.e. before
                         the call computes `blocks`) and must emit the real blocks: same components, same order.
  has_unary_cycle        the real method on the input and on both outputs vs the mirror model `hasUnaryCycle` on the real
                         blocks, and vs the specification predicate `noUnaryCycle` (they may differ only where a key of the
                         graph cancelled to zero, which the driver reports).
"""
import hashlib
import json
import random
import struct

from harness import common, gen

STAGES = ["separate_terminals", "binarize", "separate_start", "push_null", "trim", "cotrim", "unaryremove", "unfold",
          "unarycycleremove", "unarycycleremove_full", "ucycle_pred"]
UCYCLE = ("unarycycleremove", "unarycycleremove_full", "ucycle_pred", "tarjan")
PUBLIC = ["trim", "cotrim", "binarize", "separate_start", "separate_terminals", "nullaryremove", "nullaryremove_nb",
          "nullaryremove_nt", "unaryremove", "unarycycleremove", "unarycycleremove_nt", "cnf", "rename", "rename0", "renumber", "unfold", "unfold_unaryremove", "unfold_unarycycleremove", "unfold_trim",
          "rename_unaryremove", "nullaryremove_unfold0", "separate_start_nullaryremove", "binarize_unarycycleremove"]


def _enc_chart1(ch, R):
    return [[common.enc_sym(k), common.enc_w(v, R)] for k, v in ch.items()]


def _enc_chart2(ch, R):
    return [[common.enc_sym(k[0]), common.enc_sym(k[1]), common.enc_w(v, R)] for k, v in ch.items()]


def _spy_unary_graph(g, f):
    """run f() with `g._unary_graph` intercepted; returns (result, [graphs the call built])"""
    seen = []
    orig = g._unary_graph

    def spy():
        G = orig()
        seen.append(G)
        # the iteration orders Tarjan is going to see in this very call (the graph is fresh: `blocks` has not run yet)
        G._tj_orders = common.tarjan_observe(G)
        return G
    g._unary_graph = spy  # instance attribute shadows the method during this call only
    try:
        return f(), seen
    finally:
        del g._unary_graph


def _enc_nodes(xs):
    return [common.enc_sym(x) for x in xs]


def ucycle_steps(steps, inp, R, where):
    """`inp.unarycycleremove(trim=…)` and `has_unary_cycle()` with everything the calls read off their WeightedGraph"""
    from genlm.grammar import cfg as _cfg
    inj = common.enc_cfg(inp, R)
    try:
        huc, seen = _spy_unary_graph(inp, lambda: inp.has_unary_cycle())
        huc_bl = [_enc_nodes(b) for b in seen[0].blocks]
    except Exception as e:  # noqa
        steps.append({"name": "has_unary_cycle", "where": where, "input": inj, "exc": type(e).__name__, "msg": str(e)[:200]})
        return
    steps.append({"name": "ucycle_pred", "where": where, "input": inj, "params": {"bl": huc_bl}, "has_unary_cycle": bool(huc),
                  "of": "input"})
    steps.append({"name": "tarjan", "where": where, "of": "has_unary_cycle(input)", "orders": seen[0]._tj_orders, "blocks": huc_bl})
    for trim in (False, True):
        c0 = _cfg._gen_nt.i
        try:
            out, seen = _spy_unary_graph(inp, lambda: inp.unarycycleremove(trim=trim))
            [G] = seen
            # read AFTER the call: `blocks` / `Blocks` are cached properties, these are the objects the call used
            blocks = [[_enc_nodes(nodes), _enc_chart2(W, R)] for nodes, W in G.Blocks]
            graph = {"N": _enc_nodes(G.N), "E": _enc_chart2(G.E, R)}
            outj = common.enc_cfg(out, R)
            ohuc, oseen = _spy_unary_graph(out, lambda: out.has_unary_cycle())
            obl = [_enc_nodes(b) for b in oseen[0].blocks]
        except Exception as e:  # noqa
            steps.append({"name": "unarycycleremove", "where": where, "input": inj, "params": {"trim": trim}, "ctr0": c0,
                          "exc": type(e).__name__, "msg": str(e)[:200]})
            continue
        c1 = _cfg._gen_nt.i
        steps.append({"name": "unarycycleremove", "where": where, "input": inj, "ctr0": c0, "output": outj, "ctr1": c1,
                      "params": {"A": graph["E"], "blocks": blocks, "trim": trim}})
        steps.append({"name": "unarycycleremove_full", "where": where, "input": inj, "ctr0": c0, "output": outj, "ctr1": c1,
                      "params": {"bl": [b[0] for b in blocks], "trim": trim}, "graph": graph})
        steps.append({"name": "ucycle_pred", "where": where, "input": outj, "params": {"bl": obl}, "has_unary_cycle": bool(ohuc),
                      "of": f"unarycycleremove(trim={trim})"})
        steps.append({"name": "tarjan", "where": where, "of": f"unarycycleremove(trim={trim})", "orders": G._tj_orders,
                      "blocks": [b[0] for b in blocks]})
        steps.append({"name": "tarjan", "where": where, "of": f"has_unary_cycle(unarycycleremove(trim={trim}))", "orders": oseen[0]._tj_orders,
                      "blocks": obl})


def impl(case):
    from genlm.grammar import cfg as _cfg
    R = case["R"]
    g = common.mk_cfg(case["cfg"], R)
    snap0 = common.enc_cfg(g, R)
    steps, outs = [], {}

    _cfg._gen_nt.i = 17  # any start value (the model receives the current value at each step); never reset
    # between stages: fresh names must stay fresh along a pipeline

    def step(name, inp, f, params=None):
        c0 = _cfg._gen_nt.i
        try:
            out = f()
            steps.append({"name": name, "input": common.enc_cfg(inp, R), "params": params or {}, "ctr0": c0,
                          "output": common.enc_cfg(out, R), "ctr1": _cfg._gen_nt.i})
            return out
        except Exception as e:  # noqa
            steps.append({"name": name, "input": common.enc_cfg(inp, R), "params": params or {}, "ctr0": c0,
                          "exc": type(e).__name__, "msg": str(e)[:200]})
            return None

    def public(name, f):
        try:
            out = f()
            outs[name] = common.enc_cfg(out, R)
        except Exception as e:  # noqa
            outs[name] = {"exc": type(e).__name__, "msg": str(e)[:200]}

    # ---- the cnf pipeline, stage by stage on the real intermediate grammars
    s1 = step("separate_terminals", g, lambda: g.separate_terminals())
    if s1 is not None:
        s2 = step("binarize", s1, lambda: s1.binarize())
        if s2 is not None:
            s3 = step("separate_start", s2, lambda: s2.separate_start())
            if s3 is not None:
                try:
                    nw = s3.null_weight()
                    nwj = _enc_chart1(nw, R)
                    s4 = step("push_null", s3, lambda: s3._push_null_weights(nw), {"null_weight": nwj})
                except Exception as e:  # noqa
                    steps.append({"name": "null_weight", "input": common.enc_cfg(s3, R), "exc": type(e).__name__, "msg": str(e)[:200]})
                    s4 = None
                if s4 is not None:
                    s5 = step("trim", s4, lambda: s4.trim())
                    if s5 is not None:
                        try:
                            W = s5._unary_graph().closure_scc_based()
                            Wj = _enc_chart2(W, R)
                            s6 = step("unaryremove", s5, lambda: s5.unaryremove(), {"W": Wj})
                            if s6 is not None:
                                step("trim", s6, lambda: s6.trim())
                        except Exception as e:  # noqa
                            steps.append({"name": "unary_closure", "input": common.enc_cfg(s5, R), "exc": type(e).__name__, "msg": str(e)[:200]})
    # ---- stages on the raw grammar
    g2 = common.mk_cfg(case["cfg"], R)
    step("binarize", g2, lambda: g2.binarize())
    step("separate_start", g2, lambda: g2.separate_start())
    step("trim", g2, lambda: g2.trim())
    step("cotrim", g2, lambda: g2.cotrim())
    try:
        W = g2._unary_graph().closure_scc_based()
        step("unaryremove", g2, lambda: g2.unaryremove(), {"W": _enc_chart2(W, R)})
    except Exception as e:  # noqa
        steps.append({"name": "unary_closure", "input": common.enc_cfg(g2, R), "exc": type(e).__name__, "msg": str(e)[:200]})
    for (i, k) in case.get("unfold", []):
        step("unfold", g2, lambda: g2.unfold(i, k), {"i": i, "k": k})
    # ---- unary-cycle removal: on the raw grammar, and where the Earley parsers apply it
    ucycle_steps(steps, g2, R, "raw")
    try:
        g4 = common.mk_cfg(case["cfg"], R).nullaryremove(binarize=True)
    except Exception:  # noqa  (reported by the public `nullaryremove` below)
        g4 = None
    if g4 is not None:
        ucycle_steps(steps, g4, R, "nullaryremove")
    # ---- public transformations (semantic + shape checks)
    mk = lambda: common.mk_cfg(case["cfg"], R)  # noqa: fresh object each time (caches)
    public("trim", lambda: mk().trim())
    public("cotrim", lambda: mk().cotrim())
    public("binarize", lambda: mk().binarize())
    public("separate_start", lambda: mk().separate_start())
    public("separate_terminals", lambda: mk().separate_terminals())
    public("nullaryremove", lambda: mk().nullaryremove())
    public("nullaryremove_nb", lambda: mk().nullaryremove(binarize=False))
    public("nullaryremove_nt", lambda: mk().nullaryremove(trim=False))
    public("unaryremove", lambda: mk().unaryremove())
    public("unarycycleremove", lambda: mk().unarycycleremove())
    public("unarycycleremove_nt", lambda: mk().unarycycleremove(trim=False))
    public("cnf", lambda: mk().cnf)
    public("rename", lambda: mk().rename(lambda x: ("r", x)))
    public("renumber", lambda: mk().renumber())
    if all(isinstance(v, str) for v in case["cfg"]["V"]):
        # rename to 0-based indices in order of first use: the START symbol becomes 0, a falsy name
        def rename0():
            names = {}
            return mk().rename(lambda x: names.setdefault(x, len(names)))
        public("rename0", rename0)
    for (i, k) in case.get("unfold", [])[:1]:
        public("unfold", lambda: mk().unfold(i, k))
        # the OUTPUT of one transformation fed into another one (data only the library itself produces)
        public("unfold_unaryremove", lambda: mk().unfold(i, k).unaryremove())
        public("unfold_unarycycleremove", lambda: mk().unfold(i, k).unarycycleremove())
        public("unfold_trim", lambda: mk().unfold(i, k).trim())
    public("rename_unaryremove", lambda: mk().rename(lambda x: ("r", x)).unaryremove())
    public("nullaryremove_unfold0", lambda: (lambda h: h.unfold(0, 0) if len(h.rules) and len(h.rules[0].body) and not h.is_terminal(h.rules[0].body[0]) else h)(mk().nullaryremove()))
    public("separate_start_nullaryremove", lambda: mk().separate_start().nullaryremove())
    public("binarize_unarycycleremove", lambda: mk().binarize().unarycycleremove())
    # purity: the input grammar object is unchanged by all of the above (C05 reports it too)
    g3 = mk()
    for f in (lambda: g3.trim(), lambda: g3.cnf, lambda: g3.nullaryremove(), lambda: g3.unaryremove(), lambda: g3.binarize(),
              lambda: g3.unarycycleremove(), lambda: g3.separate_terminals()):
        try:
            f()
        except Exception:  # noqa
            pass
    pure = common.enc_cfg(g3, R) == snap0
    # a three-step sequence: trim, re-weight so that some rules get the weight zero (`CFG.add` drops them), trim again —
    # only the postcondition is checked (the language changes with the dropped rules)
    shape_only = {}
    try:
        t = mk().trim()
        ws = sorted({repr(r.w) for r in t.rules})
        if ws:
            victim = ws[len(ws) // 2]
            zero = t.R.zero
            m = t.map_values(lambda w: zero if repr(w) == victim else w, t.R)
            shape_only["trim_mapvalues_trim"] = common.enc_cfg(m.trim(), R)
            shape_only["trim_mapvalues_cotrim_trim"] = common.enc_cfg(t.cotrim().map_values(lambda w: zero if repr(w) == victim else w, t.R).cotrim().trim(), R)
        # cotrim (or the bottom-up-only trim) first, then the full trim, on ONE object
        g5 = mk(); g5.cotrim(); shape_only["cotrim_then_trim"] = common.enc_cfg(g5.trim(), R)
        g6 = mk(); g6.trim(bottomup_only=True); shape_only["buonly_then_trim"] = common.enc_cfg(g6.trim(), R)
    except Exception as e:  # noqa
        shape_only["trim_mapvalues_trim"] = {"exc": type(e).__name__, "msg": str(e)[:200]}
    return {"steps": steps, "public": outs, "pure": pure, "shape_only": shape_only}


def make_case(rng, i, tier):
    R = rng.choice(["Float", "Float", "Float", "Real", "Boolean", "MaxTimes"])
    desc, shape = gen.gen_cfg(rng, maxrules=6 if tier == "quick" else 8, shape="unary_scc_chord" if rng.random() < 0.2 else None)
    if R == "Boolean":
        desc = gen.to_bool(desc)
    if R == "MaxTimes":
        desc = {**desc, "rules": [[w if common.num(w) <= 1 else "1", h, b] for w, h, b in desc["rules"]]}
    xs = gen.gen_strings(rng, desc, k=4, maxlen=3 if tier == "quick" else 4)
    unf = []
    V = set(desc["V"])
    cands = [(ri, k) for ri, (_, _, b) in enumerate(desc["rules"]) for k, y in enumerate(b) if y not in V]
    rng.shuffle(cands)
    unf = cands[:2]
    if rng.random() < 0.12:
        # integer token ids (0 is falsy), handed to the library as ints, numpy integers or floats
        desc, (xs,), _ = gen.intify_terms(desc, xs, offset=rng.choice([0, 0, -len(desc["V"])]))
        tt = rng.choice([None, "float"])
        return {"id": i, "shape": shape + "+int_tokens" + ("+" + tt if tt else ""), "R": R, "cfg": desc, "xs": xs, "unfold": unf, "token_type": tt}
    return {"id": i, "shape": shape, "R": R, "cfg": desc, "xs": xs, "unfold": unf}


def corpus():
    f5a = {"S": "S", "V": ["a"], "rules": [["1", "S", ["A", "B"]], ["1", "A", ["a"]], ["1/2", "B", ["B"]]]}
    f5b = {"S": "S", "V": ["a", "c"], "rules": [["1", "S", ["A", "B"]], ["1", "S", ["c"]], ["1", "A", ["a"]], ["1/2", "B", ["B"]]]}
    # F16: unary rules whose weights cancel — `_unary_graph` must DROP the key (`A[i,j] += w` reaching zero), not keep the stale
    # weight: `Gstale` of Proofs/UCycle.lean, and the same next to a genuine cycle
    k1 = {"S": "S", "V": ["a"], "rules": [["1/2", "S", ["S"]], ["-1/2", "S", ["S"]], ["1", "S", ["a"]]]}
    k2 = {"S": "S", "V": ["a", "b"], "rules": [["1/4", "S", ["A"]], ["1/4", "A", ["S"]], ["1/8", "A", ["A"]], ["-1/8", "A", ["A"]],
                                               ["1/2", "A", ["a"]], ["1/2", "S", ["b"]], ["1/4", "B", ["B"]], ["1/4", "S", ["B", "a"]],
                                               ["-1/4", "B", ["B"]], ["1/2", "B", ["b"]]]}
    return [{"shape": "corpus_F5", "R": "Float", "cfg": f5a, "xs": [[], ["a"]], "unfold": []},
            {"shape": "corpus_F5", "R": "Float", "cfg": f5b, "xs": [["c"], ["a"]], "unfold": []},
            {"shape": "corpus_cancel", "R": "Float", "cfg": k1, "xs": [[], ["a"], ["a", "a"]], "unfold": []},
            {"shape": "corpus_cancel", "R": "Real", "cfg": k2, "xs": [["a"], ["b"], ["b", "a"], ["a", "a"]], "unfold": []}]


def cancel_cases(seed, tier, k):
    """generated grammars with a cancelling pair of unary self-loops X -> X (w), X -> X (-w) added (own random stream: the
    main stream of cases is unchanged).  Only self-loops: a cancelled edge X -> Y inside a cycle of unary rules makes
    `unarycycleremove` keep that cycle (weights cancelling), which `noUnaryCycle` rightly flags — see Gcancel in Proofs/UCycle.lean."""
    rng = random.Random(("cancel", seed, tier).__repr__())
    out = []
    for i in range(k):
        c = make_case(rng, i, tier)
        if c["R"] not in ("Float", "Real"):
            c["R"] = "Float"
            c["cfg"], _ = gen.gen_cfg(rng, shape=c["shape"], maxrules=6)
            c["xs"] = gen.gen_strings(rng, c["cfg"], k=4, maxlen=3)
        heads = sorted({h for _, h, _ in c["cfg"]["rules"]}) or ["S"]
        X = rng.choice(heads)
        w = rng.choice(gen.SMALL)
        rules = list(c["cfg"]["rules"])
        for ww in (w, -w):
            rules.insert(rng.randint(0, len(rules)), [common.frac_str(ww), X, [X]])
        c["cfg"] = {**c["cfg"], "rules": rules}
        c["unfold"] = []   # (rule index, position) pairs of make_case refer to the rule list before the insertions
        c["shape"] = "cancel_" + c["shape"]
        out.append(c)
    return out


def _dec(v):
    if isinstance(v, dict) and "bits" in v:
        return struct.unpack("<d", struct.pack("<Q", v["bits"]))[0]
    return common.num(v)


def same_rules(a, b, tol=1e-9):
    ca, cb = dict(common.canon_rules(a)), dict(common.canon_rules(b))
    if set(ca) != set(cb):
        return False, f"rule sets differ: only-model {sorted(set(ca) - set(cb))[:3]} only-impl {sorted(set(cb) - set(ca))[:3]}"
    for k in ca:
        if not common.close(ca[k], cb[k], tol, 1e-12):
            return False, f"weight of {k}: model {ca[k]} impl {cb[k]}"
    return True, ""


def same_rules_exact(a, b):
    """EQUAL rule multisets: parallel rules are not summed, weights are compared exactly"""
    def ms(d):
        return sorted((common.symkey(h), common.symkey(bd), str(common.num(w))) for w, h, bd in d["rules"])
    ma, mb = ms(a), ms(b)
    if ma == mb:
        return True, ""
    from collections import Counter
    ca, cb = Counter(ma), Counter(mb)
    return False, f"rule multisets differ: only-model {sorted((ca - cb).elements())[:3]} only-impl {sorted((cb - ca).elements())[:3]}"


def _edge_chart(triples):
    """items of a chart `E` (one entry per key on both sides: the driver sends the accumulated values `E[i,j]`)"""
    acc = {}
    for i, j, w in triples:
        k = (common.symkey(i), common.symkey(j))
        assert k not in acc, "duplicate key in a chart"
        acc[k] = common.num(w)
    return acc


def compare_ucycle(st, r, stats):
    """model vs code for one of the unary-cycle steps; returns (ok, why)"""
    name = st["name"]
    if name == "ucycle_pred":
        stats["has_unary_cycle_checks"] += 1
        if bool(r["has_unary_cycle"]) != st["has_unary_cycle"]:
            return False, f"has_unary_cycle of {st['of']}: model {r['has_unary_cycle']} impl {st['has_unary_cycle']}"
        if not r["scc_ok"]:
            return False, f"has_unary_cycle of {st['of']}: the blocks of the real _unary_graph() are not the SCCs (sources first) of the model's"
        if r["scc_rules_ok"]:
            # hypothesis of `hasUnaryCycle_graph` holds: the specification predicate must agree as well
            if st["has_unary_cycle"] == bool(r["no_unary_cycle"]):
                return False, f"has_unary_cycle of {st['of']} = {st['has_unary_cycle']} but noUnaryCycle = {r['no_unary_cycle']}"
        else:
            stats["ucycle_cancelled_keys"] += 1
        return True, ""
    if name == "unarycycleremove":
        stats["ucycle_exact"] += 1
        return same_rules_exact(r["cfg"], st["output"])
    # unarycycleremove_full
    stats["ucycle_full"] += 1
    g = st["graph"]
    if sorted(map(common.symkey, r["nodes"])) != sorted(map(common.symkey, g["N"])):
        return False, f"_unary_graph().N: model {r['nodes']} impl {g['N']}"
    em, ei = _edge_chart(r["edges"]), _edge_chart(g["E"])   # stored keys (a stored value is never zero on either side)
    if set(em) != set(ei):
        return False, f"_unary_graph().E keys: only-model {sorted(set(em) - set(ei))[:3]} only-impl {sorted(set(ei) - set(em))[:3]}"
    for k in em:
        if not common.close(em[k], ei[k], 1e-12, 0):
            return False, f"_unary_graph().E[{k}]: model {em[k]} impl {ei[k]}"
    if not r["scc_ok"]:
        return False, "the blocks of the real _unary_graph() are not the SCCs (sources first) of the model's graph"
    if r["divergent"]:
        stats["ucycle_divergent"] += 1   # star undefined at a pivot in exact arithmetic: nothing to compare
        return True, ""
    if not r["arcs_complete"]:
        stats["ucycle_cancelled_keys"] += 1
    elif not r["out_no_unary_cycle"]:
        return False, "hypotheses of ucycle_no_unary_cycle_graph hold but the model's output has a unary cycle"
    return same_rules(r["cfg"], st["output"])


def wn_ops(cfg, R, xs):
    n = 40 if R in ("Float", "Real") else 400
    return {"op": "wn", "R": R if R != "Real" else "Real", "cfg": cfg, "n": n, "xs": xs}


def eval_wn(ctx, items):
    """items: list of (cfg desc, R, xs) -> list of (vals, converged flags)"""
    ops = [wn_ops(c, R, xs) for c, R, xs in items]
    res = ctx["lean"](ops)
    deep = [i for i, r in enumerate(res) if "error" not in r and not r.get("stable")]
    if deep:
        ops2 = [{"op": "wn", "R": "F64", "cfg": items[i][0], "n": 64, "xs": items[i][2]} for i in deep]
        for i, r in zip(deep, ctx["lean"](ops2)):
            res[i] = dict(r, deep=True)
    out = []
    for r in res:
        if "error" in r:
            raise common.DriverError(r["error"])
        vals = [_dec(v) for v in r["vals"]]
        half = [_dec(v) for v in r["half"]]
        isdeep = bool(r.get("deep"))
        conv = [(not isdeep) or common.close(o, h, 1e-12, 1e-15) for o, h in zip(vals, half)]
        out.append((vals, conv, isdeep))
    return out


SHAPE_EXPECT = {
    # public name -> list of predicates (as returned by the driver's `shape` op) that must hold
    "cnf": ["in_cnf", "start_off_rhs"],
    "nullaryremove": ["no_nullary_except_start"],
    "nullaryremove_nb": ["no_nullary_except_start"],
    "nullaryremove_nt": ["no_nullary_except_start"],
    "unaryremove": ["no_unary"],
    "unarycycleremove": ["no_unary_cycle"],
    "unarycycleremove_nt": ["no_unary_cycle"],
    "binarize": ["arity_le_2"],
    "separate_start": ["start_off_rhs"],
    "separate_terminals": ["terminals_separated"],
    "trim": ["trim_useful"],
    "trim_mapvalues_trim": ["trim_useful"],
    "cotrim_then_trim": ["trim_useful"],
    "buonly_then_trim": ["trim_useful"],
    "trim_mapvalues_cotrim_trim": ["trim_useful"],
}


def run_common(ctx, which):
    rng, tier = ctx["rng"], ctx["tier"]
    n = int((40 if tier == "quick" else 700) * ctx.get("mult", 1))
    hashseeds = [0, 1] if tier == "quick" else [0, 1, 2, 3]
    if ctx.get("replay"):
        cases = [f["case"] for f in ctx["replay"]["failing"] if "case" in f]
    else:
        cases = corpus() + cancel_cases(ctx.get("seed", 0), tier, 4 if tier == "quick" else 40) + [make_case(rng, i, tier) for i in range(n)]
    for i, c in enumerate(cases):
        c["id"] = i
    impl_res = ctx["run_impl"](cases, hashseeds, 90)
    semantic, structural, samples = [], [], []
    evaluations = traces = 0
    nontrivial = set()
    shapes, tcount = {}, {}
    stats = {"structural_steps": 0, "semantic_pairs": 0, "shape_checks": 0, "unconverged": 0, "impl_exceptions": {}, "hashseed_disagreements": 0,
             "ucycle_exact": 0, "ucycle_full": 0, "has_unary_cycle_checks": 0, "ucycle_cancelled_keys": 0, "ucycle_divergent": 0,
             "tarjan_runs": 0, "tarjan_multi_node_blocks": 0}
    # ---- collect driver work
    base_items, pub_items, pub_index, step_ops, step_index, shape_ops, shape_index = [], [], [], [], [], [], []
    tj_ops, tj_index = [], []
    for c in cases:
        shapes[c["shape"]] = shapes.get(c["shape"], 0) + 1
        base_items.append((c["cfg"], c["R"], c["xs"]))
        res0 = impl_res[hashseeds[0]].get(c["id"])
        if res0 is None or "exc" in res0:
            semantic.append(_viol(which, c, "worker", None, res0))
            continue
        # hash-seed independence of the public results (as rule multisets, fresh names included)
        for hs in hashseeds[1:]:
            r2 = impl_res[hs].get(c["id"])
            if r2 is None or "exc" in r2:
                semantic.append(_viol(which, c, "worker", None, r2, hs))
                continue
            for name, out in res0["public"].items():
                o2 = r2["public"].get(name)
                if ("exc" in out) != ("exc" in (o2 or {})):
                    stats["hashseed_disagreements"] += 1
        if not res0.get("pure", True):
            semantic.append(_viol(which, c, "purity", None, "input grammar mutated by a transformation"))
        for name, out in res0["public"].items():
            tcount[name] = tcount.get(name, 0) + 1
            if "exc" in out:
                stats["impl_exceptions"][out["exc"]] = stats["impl_exceptions"].get(out["exc"], 0) + 1
                semantic.append(_viol(which, c, name, None, out))
                continue
            pub_items.append((out, c["R"], c["xs"]))
            pub_index.append((c, name, out))
            if name in SHAPE_EXPECT:
                shape_ops.append({"op": "shape", "R": c["R"], "cfg": out, "orig": c["cfg"]})
                shape_index.append((c, name, out))
        for name, out in (res0.get("shape_only") or {}).items():
            if "exc" in out:
                semantic.append(_viol(which, c, name, None, out))
                continue
            shape_ops.append({"op": "shape", "R": c["R"], "cfg": out, "orig": c["cfg"] if name in ("cotrim_then_trim", "buonly_then_trim") else out})
            shape_index.append((c, name, out))
        allsteps = [(hashseeds[0], st) for st in res0["steps"]]
        # the unary-cycle steps depend on set iteration order (order of the blocks, of the nodes in a block): every hash seed
        for hs in hashseeds[1:]:
            r2 = impl_res[hs].get(c["id"])
            if r2 is not None and "exc" not in r2:
                allsteps += [(hs, st) for st in r2["steps"] if st["name"] in UCYCLE]
        for hs, st in allsteps:
            if "exc" in st:
                semantic.append(_viol(which, c, "stage:" + st["name"], None, {"exc": st["exc"], "msg": st.get("msg")}, hs))
                continue
            if st["name"] == "tarjan":
                tj_ops.append(common.tarjan_op(st["orders"]))
                tj_index.append((c, hs, st))
                continue
            if st["name"] not in STAGES:
                continue
            if st["name"] == "ucycle_pred":
                op = {"op": "ucycle_pred", "R": c["R"], "cfg": st["input"]}
            else:
                op = {"op": "transform", "R": c["R"], "name": st["name"], "cfg": st["input"], "ctr": st["ctr0"]}
            op.update(st["params"])
            step_ops.append(op)
            step_index.append((c, dict(st, hashseed=hs)))
    base = eval_wn(ctx, base_items)
    base_by_id = {c["id"]: b for c, b in zip(cases, base)}
    # ---- semantic: WN of the real output vs WN of the input
    if which == "C06":
        pub = eval_wn(ctx, pub_items)
        for (c, name, out), (vals, conv, isdeep) in zip(pub_index, pub):
            bvals, bconv, bdeep = base_by_id[c["id"]]
            for x, v, cv, o, ocv in zip(c["xs"], vals, conv, bvals, bconv):
                evaluations += 1
                stats["semantic_pairs"] += 1
                if not (cv and ocv):
                    stats["unconverged"] += 1
                    continue
                if not common.close(v, o, 1e-7 if (isdeep or bdeep or c["R"] in ("Float", "Real")) else 1e-9, 1e-10):
                    semantic.append(_viol(which, c, name, x, {"WN_of_output": str(v), "WN_of_input": str(o), "output": out}))
                else:
                    traces += 1
            nz = sum(1 for o in bvals if o not in (0, False))
            if nz and nz < len(bvals):
                nontrivial.add(hashlib.sha1(json.dumps([c["cfg"], c["R"], name], sort_keys=True).encode()).hexdigest())
    # ---- shape predicates on the real outputs (C07)
    if which == "C07":
        for (c, name, out), r in zip(shape_index, ctx["lean"](shape_ops)):
            if "error" in r:
                raise common.DriverError(r["error"])
            for pred in SHAPE_EXPECT[name]:
                evaluations += 1
                stats["shape_checks"] += 1
                if not r.get(pred, False):
                    semantic.append(_viol(which, c, name, None, {"postcondition": pred, "output": out, "details": r}))
                else:
                    traces += 1
            if name in ("trim", "cotrim_then_trim", "buonly_then_trim") and not r.get("orig_start_generating", True):
                evaluations += 1
                if out["rules"]:
                    semantic.append(_viol(which, c, name, None, {"postcondition": "empty language trims to the empty rule set", "output": out}))
            nontrivial.add(hashlib.sha1(json.dumps([c["cfg"], c["R"], name], sort_keys=True).encode()).hexdigest())
    # ---- structural: the proved model of `scc_decomposition` on the iteration orders observed inside the real calls
    for (c, hs, st), m in zip(tj_index, ctx["lean"](tj_ops)):
        evaluations += 1
        stats["tarjan_runs"] += 1
        ok, why = common.tarjan_same(m, st["blocks"])
        if ok:
            traces += 1
            stats["tarjan_multi_node_blocks"] += sum(1 for b in st["blocks"] if len(b) > 1)
        else:
            structural.append({"op": "scc_decomposition", "what": f"_unary_graph().blocks in {st['of']} ({st['where']}): {why}", "orders": st["orders"],
                               "model": m.get("blocks"), "impl": st["blocks"], "case_id": c["id"], "hashseed": hs, "case": c})
    # ---- structural correspondence of the mirror models
    tcount_uc = {}
    for (c, st), r in zip(step_index, ctx["lean"](step_ops)):
        stats["structural_steps"] += 1
        evaluations += 1
        if "error" in r:
            raise common.DriverError(r["error"])
        if "exc" in r:
            structural.append({"op": st["name"], "what": f"model raised {r['exc']}", "input": st["input"], "case_id": c["id"]})
            continue
        if st["name"] in UCYCLE:
            ok, why = compare_ucycle(st, r, stats)
            if st["name"] == "ucycle_pred":
                if ok:
                    traces += 1
                else:
                    structural.append({"op": "has_unary_cycle", "what": why, "input": st["input"], "params": st["params"],
                                       "model": r, "impl": st["has_unary_cycle"], "case_id": c["id"], "hashseed": st["hashseed"]})
                continue
            if ok:
                tcount_uc[st["where"]] = tcount_uc.get(st["where"], 0) + 1
        else:
            ok, why = same_rules(r["cfg"], st["output"])
        if ok and (r["cfg"]["S"] != st["output"]["S"] or r["ctr"] != st["ctr1"]):
            ok, why = False, f"start/counter differ: model {r['cfg']['S']}/{r['ctr']} impl {st['output']['S']}/{st['ctr1']}"
        if ok and sorted(map(common.symkey, r["cfg"]["V"])) != sorted(map(common.symkey, st["output"]["V"])):
            ok, why = False, "vocabulary differs"
        if not ok:
            structural.append({"op": st["name"], "what": why, "input": st["input"], "params": st["params"], "model": r["cfg"], "impl": st["output"],
                               "case_id": c["id"], "hashseed": st.get("hashseed", 0), "where": st.get("where")})
        else:
            traces += 1
            if st["name"] == "unarycycleremove" and not st["params"]["trim"] and st["hashseed"] == hashseeds[0] and (
                    any(len(b[0]) > 1 for b in st["params"]["blocks"]) or any(i == j for i, j, _ in st["params"]["A"])):
                stats["ucycle_cyclic_inputs"] = stats.get("ucycle_cyclic_inputs", 0) + 1
                if not any(x.get("transformation") == "unarycycleremove" for x in samples):
                    samples.append({"transformation": "unarycycleremove", "input": st["input"], "blocks": st["params"]["blocks"],
                                    "impl_output": st["output"], "model_agrees": True})
            if len(samples) < 3 and st["name"] in ("push_null", "binarize", "unaryremove") and st["output"]["rules"]:
                samples.append({"transformation": st["name"], "input": st["input"], "impl_output": st["output"], "model_agrees": True})
    return {
        "evaluations": evaluations, "distinct_nontrivial": len(nontrivial),
        "rule": "seeded random grammars from named shape classes x semiring x transformation; C06: non-trivial = distinct (grammar, transformation) whose "
                "sampled strings include non-zero and zero derivation sums; C07: distinct (grammar, transformation) pairs whose output was inspected",
        "samples": samples, "traces": traces, "semantic": semantic, "structural": structural,
        "extra": {"shape_histogram": shapes, "transformations": tcount, "hashseeds": hashseeds, "stats": stats, "cases": len(cases),
                  "unarycycleremove_compared": tcount_uc},
        "assumptions": ["null weights and unary closures are taken from the implementation as inputs of the mirror models (relative statements); "
                        "their own correctness is C08/C15",
                        "unarycycleremove is compared both with the graph/blocks/closures observed in the real call and with everything but the "
                        "ORDER of the blocks computed by the model (the order is validated by the verified SCC checker)"],
    }


def _viol(which, c, name, x, got, hs=0):
    sig = hashlib.sha1(json.dumps([name, c["cfg"], x, c["R"]], sort_keys=True).encode()).hexdigest()[:16]
    return {"signature": f"{which}:{name}:{sig}", "op": name, "x": x, "impl": got, "hashseed": hs, "case": c}
