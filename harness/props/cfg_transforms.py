"""Shared machinery of C06 (transformations preserve the weighted language) and
C07 (structural postconditions).

For every generated grammar G and every transformation T offered as equivalence-preserving:
  semantic (C06):   WN(T_impl(G)) = WN(G) on sampled strings — both sides evaluated by the Lean
                    specification `WN` (the real output grammar is sent to the driver);
  shape (C07):      the postcondition predicates, decided by the Lean driver on the real output;
  structural:       T_model(G) = T_impl(G) as weighted rule multisets (mirror models of
                    Model/Transform.lean; fresh names aligned through the `_gen_nt` counter), stage by
                    stage for the `cnf` pipeline (each stage on the real input of that stage).
"""
import hashlib
import json
import random
import struct

from harness import common, gen

STAGES = ["separate_terminals", "binarize", "separate_start", "push_null", "trim", "cotrim", "unaryremove", "unfold"]
PUBLIC = ["trim", "cotrim", "binarize", "separate_start", "separate_terminals", "nullaryremove", "nullaryremove_nb",
          "nullaryremove_nt", "unaryremove", "unarycycleremove", "unarycycleremove_nt", "cnf", "rename", "renumber", "unfold"]


def _enc_chart1(ch, R):
    return [[common.enc_sym(k), common.enc_w(v, R)] for k, v in ch.items()]


def _enc_chart2(ch, R):
    return [[common.enc_sym(k[0]), common.enc_sym(k[1]), common.enc_w(v, R)] for k, v in ch.items()]


def impl(case):
    from genlm.grammar import cfg as _cfg
    R = case["R"]
    g = common.mk_cfg(case["cfg"], R)
    snap0 = common.enc_cfg(g, R)
    steps, outs = [], {}

    _cfg._gen_nt.i = 17  # any start value (the model receives the current value at each step); never reset
    # between stages: fresh names must stay fresh along a pipeline

    def step(name, inp, f, params=None):
        c0 = _cfg._gen_nt.i
        try:
            out = f()
            steps.append({"name": name, "input": common.enc_cfg(inp, R), "params": params or {}, "ctr0": c0,
                          "output": common.enc_cfg(out, R), "ctr1": _cfg._gen_nt.i})
            return out
        except Exception as e:  # noqa
            steps.append({"name": name, "input": common.enc_cfg(inp, R), "params": params or {}, "ctr0": c0,
                          "exc": type(e).__name__, "msg": str(e)[:200]})
            return None

    def public(name, f):
        try:
            out = f()
            outs[name] = common.enc_cfg(out, R)
        except Exception as e:  # noqa
            outs[name] = {"exc": type(e).__name__, "msg": str(e)[:200]}

    # ---- the cnf pipeline, stage by stage on the real intermediate grammars
    s1 = step("separate_terminals", g, lambda: g.separate_terminals())
    if s1 is not None:
        s2 = step("binarize", s1, lambda: s1.binarize())
        if s2 is not None:
            s3 = step("separate_start", s2, lambda: s2.separate_start())
            if s3 is not None:
                try:
                    nw = s3.null_weight()
                    nwj = _enc_chart1(nw, R)
                    s4 = step("push_null", s3, lambda: s3._push_null_weights(nw), {"null_weight": nwj})
                except Exception as e:  # noqa
                    steps.append({"name": "null_weight", "input": common.enc_cfg(s3, R), "exc": type(e).__name__, "msg": str(e)[:200]})
                    s4 = None
                if s4 is not None:
                    s5 = step("trim", s4, lambda: s4.trim())
                    if s5 is not None:
                        try:
                            W = s5._unary_graph().closure_scc_based()
                            Wj = _enc_chart2(W, R)
                            s6 = step("unaryremove", s5, lambda: s5.unaryremove(), {"W": Wj})
                            if s6 is not None:
                                step("trim", s6, lambda: s6.trim())
                        except Exception as e:  # noqa
                            steps.append({"name": "unary_closure", "input": common.enc_cfg(s5, R), "exc": type(e).__name__, "msg": str(e)[:200]})
    # ---- stages on the raw grammar
    g2 = common.mk_cfg(case["cfg"], R)
    step("binarize", g2, lambda: g2.binarize())
    step("separate_start", g2, lambda: g2.separate_start())
    step("trim", g2, lambda: g2.trim())
    step("cotrim", g2, lambda: g2.cotrim())
    try:
        W = g2._unary_graph().closure_scc_based()
        step("unaryremove", g2, lambda: g2.unaryremove(), {"W": _enc_chart2(W, R)})
    except Exception as e:  # noqa
        steps.append({"name": "unary_closure", "input": common.enc_cfg(g2, R), "exc": type(e).__name__, "msg": str(e)[:200]})
    for (i, k) in case.get("unfold", []):
        step("unfold", g2, lambda: g2.unfold(i, k), {"i": i, "k": k})
    # ---- public transformations (semantic + shape checks)
    mk = lambda: common.mk_cfg(case["cfg"], R)  # noqa: fresh object each time (caches)
    public("trim", lambda: mk().trim())
    public("cotrim", lambda: mk().cotrim())
    public("binarize", lambda: mk().binarize())
    public("separate_start", lambda: mk().separate_start())
    public("separate_terminals", lambda: mk().separate_terminals())
    public("nullaryremove", lambda: mk().nullaryremove())
    public("nullaryremove_nb", lambda: mk().nullaryremove(binarize=False))
    public("nullaryremove_nt", lambda: mk().nullaryremove(trim=False))
    public("unaryremove", lambda: mk().unaryremove())
    public("unarycycleremove", lambda: mk().unarycycleremove())
    public("unarycycleremove_nt", lambda: mk().unarycycleremove(trim=False))
    public("cnf", lambda: mk().cnf)
    public("rename", lambda: mk().rename(lambda x: ("r", x)))
    public("renumber", lambda: mk().renumber())
    for (i, k) in case.get("unfold", [])[:1]:
        public("unfold", lambda: mk().unfold(i, k))
    # purity: the input grammar object is unchanged by all of the above (C05 reports it too)
    g3 = mk()
    for f in (lambda: g3.trim(), lambda: g3.cnf, lambda: g3.nullaryremove(), lambda: g3.unaryremove(), lambda: g3.binarize(),
              lambda: g3.unarycycleremove(), lambda: g3.separate_terminals()):
        try:
            f()
        except Exception:  # noqa
            pass
    pure = common.enc_cfg(g3, R) == snap0
    return {"steps": steps, "public": outs, "pure": pure}


def make_case(rng, i, tier):
    R = rng.choice(["Float", "Float", "Float", "Real", "Boolean", "MaxTimes"])
    desc, shape = gen.gen_cfg(rng, maxrules=6 if tier == "quick" else 8)
    if R == "Boolean":
        desc = gen.to_bool(desc)
    if R == "MaxTimes":
        desc = {**desc, "rules": [[w if common.num(w) <= 1 else "1", h, b] for w, h, b in desc["rules"]]}
    xs = gen.gen_strings(rng, desc, k=4, maxlen=3 if tier == "quick" else 4)
    unf = []
    V = set(desc["V"])
    cands = [(ri, k) for ri, (_, _, b) in enumerate(desc["rules"]) for k, y in enumerate(b) if y not in V]
    rng.shuffle(cands)
    unf = cands[:2]
    if rng.random() < 0.12:
        # integer token ids (0 is falsy), handed to the library as ints, numpy integers or floats
        desc, (xs,), _ = gen.intify_terms(desc, xs)
        tt = rng.choice([None, "float"])
        return {"id": i, "shape": shape + "+int_tokens" + ("+" + tt if tt else ""), "R": R, "cfg": desc, "xs": xs, "unfold": unf, "token_type": tt}
    return {"id": i, "shape": shape, "R": R, "cfg": desc, "xs": xs, "unfold": unf}


def corpus():
    f5a = {"S": "S", "V": ["a"], "rules": [["1", "S", ["A", "B"]], ["1", "A", ["a"]], ["1/2", "B", ["B"]]]}
    f5b = {"S": "S", "V": ["a", "c"], "rules": [["1", "S", ["A", "B"]], ["1", "S", ["c"]], ["1", "A", ["a"]], ["1/2", "B", ["B"]]]}
    return [{"shape": "corpus_F5", "R": "Float", "cfg": f5a, "xs": [[], ["a"]], "unfold": []},
            {"shape": "corpus_F5", "R": "Float", "cfg": f5b, "xs": [["c"], ["a"]], "unfold": []}]


def _dec(v):
    if isinstance(v, dict) and "bits" in v:
        return struct.unpack("<d", struct.pack("<Q", v["bits"]))[0]
    return common.num(v)


def same_rules(a, b, tol=1e-9):
    ca, cb = dict(common.canon_rules(a)), dict(common.canon_rules(b))
    if set(ca) != set(cb):
        return False, f"rule sets differ: only-model {sorted(set(ca) - set(cb))[:3]} only-impl {sorted(set(cb) - set(ca))[:3]}"
    for k in ca:
        if not common.close(ca[k], cb[k], tol, 1e-12):
            return False, f"weight of {k}: model {ca[k]} impl {cb[k]}"
    return True, ""


def wn_ops(cfg, R, xs):
    n = 40 if R in ("Float", "Real") else 400
    return {"op": "wn", "R": R if R != "Real" else "Real", "cfg": cfg, "n": n, "xs": xs}


def eval_wn(ctx, items):
    """items: list of (cfg desc, R, xs) -> list of (vals, converged flags)"""
    ops = [wn_ops(c, R, xs) for c, R, xs in items]
    res = ctx["lean"](ops)
    deep = [i for i, r in enumerate(res) if "error" not in r and not r.get("stable")]
    if deep:
        ops2 = [{"op": "wn", "R": "F64", "cfg": items[i][0], "n": 64, "xs": items[i][2]} for i in deep]
        for i, r in zip(deep, ctx["lean"](ops2)):
            res[i] = dict(r, deep=True)
    out = []
    for r in res:
        if "error" in r:
            raise common.DriverError(r["error"])
        vals = [_dec(v) for v in r["vals"]]
        half = [_dec(v) for v in r["half"]]
        isdeep = bool(r.get("deep"))
        conv = [(not isdeep) or common.close(o, h, 1e-12, 1e-15) for o, h in zip(vals, half)]
        out.append((vals, conv, isdeep))
    return out


SHAPE_EXPECT = {
    # public name -> list of predicates (as returned by the driver's `shape` op) that must hold
    "cnf": ["in_cnf", "start_off_rhs"],
    "nullaryremove": ["no_nullary_except_start"],
    "nullaryremove_nb": ["no_nullary_except_start"],
    "nullaryremove_nt": ["no_nullary_except_start"],
    "unaryremove": ["no_unary"],
    "unarycycleremove": ["no_unary_cycle"],
    "unarycycleremove_nt": ["no_unary_cycle"],
    "binarize": ["arity_le_2"],
    "separate_start": ["start_off_rhs"],
    "separate_terminals": ["terminals_separated"],
    "trim": ["trim_useful"],
}


def run_common(ctx, which):
    rng, tier = ctx["rng"], ctx["tier"]
    n = int((40 if tier == "quick" else 700) * ctx.get("mult", 1))
    hashseeds = [0, 1] if tier == "quick" else [0, 1, 2, 3]
    if ctx.get("replay"):
        cases = [f["case"] for f in ctx["replay"]["failing"] if "case" in f]
    else:
        cases = corpus() + [make_case(rng, i, tier) for i in range(n)]
    for i, c in enumerate(cases):
        c["id"] = i
    impl_res = ctx["run_impl"](cases, hashseeds, 90)
    semantic, structural, samples = [], [], []
    evaluations = traces = 0
    nontrivial = set()
    shapes, tcount = {}, {}
    stats = {"structural_steps": 0, "semantic_pairs": 0, "shape_checks": 0, "unconverged": 0, "impl_exceptions": {}, "hashseed_disagreements": 0}
    # ---- collect driver work
    base_items, pub_items, pub_index, step_ops, step_index, shape_ops, shape_index = [], [], [], [], [], [], []
    for c in cases:
        shapes[c["shape"]] = shapes.get(c["shape"], 0) + 1
        base_items.append((c["cfg"], c["R"], c["xs"]))
        res0 = impl_res[hashseeds[0]].get(c["id"])
        if res0 is None or "exc" in res0:
            semantic.append(_viol(which, c, "worker", None, res0))
            continue
        # hash-seed independence of the public results (as rule multisets, fresh names included)
        for hs in hashseeds[1:]:
            r2 = impl_res[hs].get(c["id"])
            if r2 is None or "exc" in r2:
                semantic.append(_viol(which, c, "worker", None, r2, hs))
                continue
            for name, out in res0["public"].items():
                o2 = r2["public"].get(name)
                if ("exc" in out) != ("exc" in (o2 or {})):
                    stats["hashseed_disagreements"] += 1
        if not res0.get("pure", True):
            semantic.append(_viol(which, c, "purity", None, "input grammar mutated by a transformation"))
        for name, out in res0["public"].items():
            tcount[name] = tcount.get(name, 0) + 1
            if "exc" in out:
                stats["impl_exceptions"][out["exc"]] = stats["impl_exceptions"].get(out["exc"], 0) + 1
                semantic.append(_viol(which, c, name, None, out))
                continue
            pub_items.append((out, c["R"], c["xs"]))
            pub_index.append((c, name, out))
            if name in SHAPE_EXPECT:
                shape_ops.append({"op": "shape", "R": c["R"], "cfg": out, "orig": c["cfg"]})
                shape_index.append((c, name, out))
        for st in res0["steps"]:
            if "exc" in st:
                semantic.append(_viol(which, c, "stage:" + st["name"], None, {"exc": st["exc"], "msg": st.get("msg")}))
                continue
            if st["name"] not in STAGES:
                continue
            op = {"op": "transform", "R": c["R"], "name": st["name"], "cfg": st["input"], "ctr": st["ctr0"]}
            op.update(st["params"])
            step_ops.append(op)
            step_index.append((c, st))
    base = eval_wn(ctx, base_items)
    base_by_id = {c["id"]: b for c, b in zip(cases, base)}
    # ---- semantic: WN of the real output vs WN of the input
    if which == "C06":
        pub = eval_wn(ctx, pub_items)
        for (c, name, out), (vals, conv, isdeep) in zip(pub_index, pub):
            bvals, bconv, bdeep = base_by_id[c["id"]]
            for x, v, cv, o, ocv in zip(c["xs"], vals, conv, bvals, bconv):
                evaluations += 1
                stats["semantic_pairs"] += 1
                if not (cv and ocv):
                    stats["unconverged"] += 1
                    continue
                if not common.close(v, o, 1e-7 if (isdeep or bdeep or c["R"] in ("Float", "Real")) else 1e-9, 1e-10):
                    semantic.append(_viol(which, c, name, x, {"WN_of_output": str(v), "WN_of_input": str(o), "output": out}))
                else:
                    traces += 1
            nz = sum(1 for o in bvals if o not in (0, False))
            if nz and nz < len(bvals):
                nontrivial.add(hashlib.sha1(json.dumps([c["cfg"], c["R"], name], sort_keys=True).encode()).hexdigest())
    # ---- shape predicates on the real outputs (C07)
    if which == "C07":
        for (c, name, out), r in zip(shape_index, ctx["lean"](shape_ops)):
            if "error" in r:
                raise common.DriverError(r["error"])
            for pred in SHAPE_EXPECT[name]:
                evaluations += 1
                stats["shape_checks"] += 1
                if not r.get(pred, False):
                    semantic.append(_viol(which, c, name, None, {"postcondition": pred, "output": out, "details": r}))
                else:
                    traces += 1
            if name == "trim" and not r.get("orig_start_generating", True):
                evaluations += 1
                if out["rules"]:
                    semantic.append(_viol(which, c, name, None, {"postcondition": "empty language trims to the empty rule set", "output": out}))
            nontrivial.add(hashlib.sha1(json.dumps([c["cfg"], c["R"], name], sort_keys=True).encode()).hexdigest())
    # ---- structural correspondence of the mirror models
    for (c, st), r in zip(step_index, ctx["lean"](step_ops)):
        stats["structural_steps"] += 1
        evaluations += 1
        if "error" in r:
            raise common.DriverError(r["error"])
        if "exc" in r:
            structural.append({"op": st["name"], "what": f"model raised {r['exc']}", "input": st["input"], "case_id": c["id"]})
            continue
        ok, why = same_rules(r["cfg"], st["output"])
        if ok and (r["cfg"]["S"] != st["output"]["S"] or r["ctr"] != st["ctr1"]):
            ok, why = False, f"start/counter differ: model {r['cfg']['S']}/{r['ctr']} impl {st['output']['S']}/{st['ctr1']}"
        if ok and sorted(map(common.symkey, r["cfg"]["V"])) != sorted(map(common.symkey, st["output"]["V"])):
            ok, why = False, "vocabulary differs"
        if not ok:
            structural.append({"op": st["name"], "what": why, "input": st["input"], "params": st["params"], "model": r["cfg"], "impl": st["output"], "case_id": c["id"]})
        else:
            traces += 1
            if len(samples) < 3 and st["name"] in ("push_null", "binarize", "unaryremove") and st["output"]["rules"]:
                samples.append({"transformation": st["name"], "input": st["input"], "impl_output": st["output"], "model_agrees": True})
    return {
        "evaluations": evaluations, "distinct_nontrivial": len(nontrivial),
        "rule": "seeded random grammars from named shape classes x semiring x transformation; C06: non-trivial = distinct (grammar, transformation) whose "
                "sampled strings include non-zero and zero derivation sums; C07: distinct (grammar, transformation) pairs whose output was inspected",
        "samples": samples, "traces": traces, "semantic": semantic, "structural": structural,
        "extra": {"shape_histogram": shapes, "transformations": tcount, "hashseeds": hashseeds, "stats": stats, "cases": len(cases)},
        "assumptions": ["null weights and unary closures are taken from the implementation as inputs of the mirror models (relative statements); "
                        "their own correctness is C08/C15"],
    }


def _viol(which, c, name, x, got, hs=0):
    sig = hashlib.sha1(json.dumps([name, c["cfg"], x, c["R"]], sort_keys=True).encode()).hexdigest()[:16]
    return {"signature": f"{which}:{name}:{sig}", "op": name, "x": x, "impl": got, "hashseed": hs, "case": c}
