"""C04 — grammar language models are the exact left-to-right factorisation.

Oracle (finite-language grammars, exact): prefix weights P(c) = Σ_{x ⊒ c} WN(G, x) and
P(c·EOS) = WN(G, c); the conditionals must be P(c·t)/P(c) (`chain_rule_lm`, `cond_sums_to_one`
prove the algebra).  On every grammar shape (cyclic, nullable, unary-cyclic): sequence probability
lm(x·EOS) = WN(G,x)/ZN(G,S), distributions sum to one on viable contexts, zero on contexts nothing
extends, agreement of the three back ends, un-normalised next-token weights = parser weight of the
extended context, and closed-form conditionals on long contexts (a^n, n ≤ 300) for the rescaled parser."""
import hashlib
import json
import math
import random
from fractions import Fraction

from harness import common, gen
from harness.props import cfg_transforms as T
from harness.props.c08 import zn_eval

EOS = "▪"
LMS = ["earley", "rescaled", "cky"]


def _mk_lm(name, g):
    if name == "earley":
        from genlm.grammar.parse.earley import EarleyLM
        return EarleyLM(g)
    if name == "rescaled":
        from genlm.grammar.parse.earley_rescaled import EarleyLM
        return EarleyLM(g)
    from genlm.grammar.parse.cky import CKYLM
    return CKYLM(g)


def impl(case):
    from harness.props.c02 import _install_jitter, _uninstall_jitter
    out = {}
    tup = lambda s: tuple(common.dec_sym(t) for t in s)  # noqa
    if case.get("jitter") is not None:
        _install_jitter(case["jitter"])
    try:
        for name in case["lms"]:
            r = {}
            try:
                lm = _mk_lm(name, common.mk_cfg(case["cfg"], "Float"))
            except Exception as e:  # noqa
                out[name] = {"exc": type(e).__name__, "msg": "ctor: " + str(e)[:200]}
                continue
            if case.get("scribble"):
                # a caller that EDITS what it was handed (masking EOS, renormalising in place …): every result object is
                # overwritten right after it is returned; the sweep below then asks the same questions again
                for c in case["ctxs"][:8]:
                    try:
                        q = lm.p_next(tup(c))
                        for k_ in list(q):
                            q[k_] = 7.0
                        mdl = getattr(lm, "model", None)
                        if mdl is not None and hasattr(mdl, "next_token_weights") and name in ("earley", "rescaled"):
                            w_ = mdl.next_token_weights(mdl.chart(tup(c)))
                            for k_ in list(w_):
                                w_[k_] = 0.0
                    except Exception:  # noqa
                        pass
            pn = []
            for c in case["ctxs"]:
                try:
                    p = lm.p_next(tup(c))
                    pn.append({json.dumps(common.enc_sym(k)): float(v) for k, v in p.items()})
                except Exception as e:  # noqa
                    pn.append({"exc": type(e).__name__, "msg": str(e)[:200]})
            r["p_next"] = pn
            sq = []
            for x in case["xs"]:
                try:
                    sq.append(float(lm(tup(x) + (EOS,))))
                except Exception as e:  # noqa
                    sq.append({"exc": type(e).__name__, "msg": str(e)[:200]})
            r["seq"] = sq
            # un-normalised next-token weights vs the parser's weight of the extended context
            if name in ("earley", "cky"):
                un = []
                for c in case["ctxs"][:6]:
                    try:
                        if name == "earley":
                            w = lm.model.next_token_weights(lm.model.chart(tup(c)))
                            ext = {t: lm.model(tup(c) + (t,)) for t in w}
                        else:
                            w = lm.model.next_token_weights(lm.model.chart(tup(c)), tup(c))
                            ext = {t: lm.model(tup(c) + (t,)) for t in w}
                        un.append({json.dumps(common.enc_sym(t)): [float(w[t]), float(ext[t])] for t in w})
                    except Exception as e:  # noqa
                        un.append({"exc": type(e).__name__, "msg": str(e)[:200]})
                r["unnorm"] = un
            if name == "rescaled":
                lp = []
                for x in case["xs"][:6]:
                    try:
                        v = lm.model.logp(tup(x) + (EOS,))
                        lp.append(float(v))
                    except Exception as e:  # noqa
                        lp.append({"exc": type(e).__name__, "msg": str(e)[:200]})
                r["logp"] = lp
            out[name] = r
        # the rescaled parser itself (observable `earley_rescaled Earley.logp(x)`)
        try:
            from genlm.grammar.parse import earley_rescaled
            Ep = earley_rescaled.Earley(common.mk_cfg(case["cfg"], "Float"))
            lp = []
            for x in case["xs"]:
                try:
                    import warnings
                    with warnings.catch_warnings():
                        warnings.simplefilter("ignore")
                        lp.append(float(Ep.logp(tup(x))))
                except Exception as e:  # noqa
                    lp.append({"exc": type(e).__name__, "msg": str(e)[:200]})
            out["rescaled_parser_logp"] = lp
        except Exception as e:  # noqa
            out["rescaled_parser_logp"] = {"exc": type(e).__name__, "msg": str(e)[:200]}
    finally:
        _uninstall_jitter()
    return out


def make_case(rng, i, tier):
    finite = rng.random() < 0.5
    if finite:
        desc, shape = gen.gen_finite_cfg(rng), "finite"
    else:
        desc, shape = gen.gen_cfg(rng, maxrules=6, nterms=2, nnt=rng.choice([1, 2, 2, 3]))
    V = desc["V"]
    ctxs = gen.all_strings(V, 2) + [[rng.choice(V) for _ in range(3)] for _ in range(2)]
    if rng.random() < 0.5:
        # on one LM object: a context P, then P extended by several tokens at once (intermediate prefixes never cached), then P
        # and a sibling of P's first extension again — BEFORE the systematic sweep fills the cache
        P = [rng.choice(V) for _ in range(rng.choice([1, 1, 2]))]
        ext = [rng.choice(V) for _ in range(rng.choice([2, 3]))]
        ctxs = [P, P + ext, P, P + [rng.choice(V)]] + ctxs
    xs = gen.gen_strings(rng, desc, k=4, maxlen=4)[:7]
    return {"id": i, "shape": shape, "finite": finite, "cfg": desc, "ctxs": ctxs, "xs": xs, "lms": LMS, "scribble": rng.random() < 0.3,
            "jitter": rng.randrange(1 << 30) if rng.random() < 0.6 else None}


def long_cases():
    g = {"S": "S", "V": ["a", "b"], "rules": [["1/2", "S", ["a", "S"]], ["1/4", "S", ["a"]], ["1/4", "S", ["b"]]]}
    out = []
    for n, lms in ((12, LMS), (60, ["earley", "rescaled"]), (300, ["rescaled"])):
        out.append({"shape": f"long_a^{n}", "finite": False, "cfg": g, "ctxs": [["a"] * n], "xs": [], "lms": lms, "jitter": None,
                    "closed_form": {json.dumps("a"): "1/2", json.dumps("b"): "1/6", json.dumps(EOS): "1/3"}})
    # very small prefix probabilities (16^-n): S -> a S (1/16) | a (1/4) | b (11/16)
    # P(a^n) = 16^-n * (Z-ish) ; conditionals for n >= 1: a: 1/16, EOS: G(a^n)/P(a^n), b: rest — closed form below
    g2 = {"S": "S", "V": ["a", "b"], "rules": [["1/16", "S", ["a", "S"]], ["1/4", "S", ["a"]], ["11/16", "S", ["b"]]]}
    # P(a^n) = sum_{k>=n-1} 16^-k/4 + sum_{k>=n} 16^-k*11/16 = 16^-(n-1)*(4/15) + 16^-n*(11/15) = 16^-n*(64/15 + 11/15) = 16^-n * 5
    # P(a^n a) = 16^-(n+1)*5 ; P(a^n b) = 16^-n*11/16 ; G(a^n) = 16^-(n-1)/4 = 16^-n*4  -> a: 1/16, b: 11/80, EOS: 4/5
    for n in (250, 620):
        out.append({"shape": f"tiny_prob_a^{n}", "finite": False, "cfg": g2, "ctxs": [["a"] * n], "xs": [], "lms": ["rescaled"], "jitter": None,
                    "closed_form": {json.dumps("a"): "1/16", json.dumps("b"): "11/80", json.dumps(EOS): "4/5"}})
    return out


def corpus():
    f4 = {"S": "S", "V": ["a", "b"], "rules": [["1/2", "N1", ["b"]], ["3/10", "N1", ["a", "b"]], ["1/5", "N1", ["b", "N1"]], ["1/10", "S", ["N1", "N1"]],
                                                 ["1/4", "N1", ["S", "a"]], ["3/10", "S", ["a"]], ["1/5", "N1", ["a"]], ["1/10", "N1", ["b", "N1"]]]}
    # F19: logp of the EMPTY string on the rescaled parser of a grammar that derives it
    f19 = {"S": "S", "V": ["a"], "rules": [["1/4", "S", []], ["1/2", "S", ["a", "S"]], ["1/4", "S", ["a"]]]}
    return [{"shape": "corpus_F4", "finite": False, "cfg": f4, "ctxs": [[], ["a"], ["a", "a"], ["a", "a", "b"]], "xs": [["a", "a", "b"], ["a"]], "lms": LMS, "jitter": None},
            {"shape": "corpus_F19", "finite": False, "cfg": f19, "ctxs": [[], ["a"]], "xs": [[], ["a"], ["a", "a"]], "lms": LMS, "jitter": None}]


def run(ctx):
    rng, tier = ctx["rng"], ctx["tier"]
    n = int((60 if tier == "quick" else 1200) * ctx.get("mult", 1))
    hashseeds = [0, 1] if tier == "quick" else [0, 1, 2, 3]
    if ctx.get("replay"):
        cases = [f["case"] for f in ctx["replay"]["failing"] if "case" in f]
    else:
        cases = corpus() + long_cases() + [make_case(rng, i, tier) for i in range(n)]
    for i, c in enumerate(cases):
        c["id"] = i
    impl_res = ctx["run_impl"](cases, hashseeds, 180)
    fin = [c for c in cases if c["finite"]]
    allx = {c["id"]: gen.all_strings(c["cfg"]["V"], 4) for c in fin}
    fw = dict(zip([c["id"] for c in fin], T.eval_wn(ctx, [(c["cfg"], "Float", allx[c["id"]]) for c in fin])))
    xw = T.eval_wn(ctx, [(c["cfg"], "Float", c["xs"] or [[]]) for c in cases])
    zn = zn_eval(ctx, [(c["cfg"], "Float") for c in cases])
    semantic, samples = [], []
    evaluations = traces = 0
    nontrivial = set()
    shapes = {}
    stats = {"viable_contexts": 0, "nonviable_contexts": 0, "backend_comparisons": 0, "unnorm_checks": 0, "long_contexts": 0}
    for k, c in enumerate(cases):
        shapes[c["shape"]] = shapes.get(c["shape"], 0) + 1
        V = c["cfg"]["V"]
        toks = [json.dumps(t) for t in V] + [json.dumps(EOS)]
        Sk = common.symkey(c["cfg"]["S"])
        zv, zc, _ = zn[k]
        Z = zv.get(Sk, 0)
        oracle = None
        if c["finite"]:
            wv, _, _ = fw[c["id"]]
            G = {json.dumps(x): v for x, v in zip(allx[c["id"]], wv)}

            def P(cx):
                return sum(v for x, v in zip(allx[c["id"]], wv) if x[:len(cx)] == cx)
            oracle = []
            for cx in c["ctxs"]:
                pc = P(cx)
                if pc == 0:
                    oracle.append(None)
                else:
                    d = {json.dumps(t): P(cx + [t]) / pc for t in V}
                    d[json.dumps(EOS)] = G.get(json.dumps(cx), 0) / pc
                    oracle.append(d)
            if any(o is None for o in oracle) and any(o is not None for o in oracle):
                nontrivial.add(hashlib.sha1(json.dumps(c["cfg"], sort_keys=True).encode()).hexdigest())
        elif Z:
            nontrivial.add(hashlib.sha1(json.dumps(c["cfg"], sort_keys=True).encode()).hexdigest())
        for hs in hashseeds:
            res = impl_res[hs].get(c["id"])
            if res is None or "exc" in res:
                semantic.append(_viol(c, hs, "worker", None, res))
                continue
            per_lm = {}
            for name in c["lms"]:
                r = res.get(name)
                if r is None or "exc" in r:
                    semantic.append(_viol(c, hs, name, None, r))
                    continue
                per_lm[name] = r
                for ci, (cx, p) in enumerate(zip(c["ctxs"], r["p_next"])):
                    evaluations += 1
                    if "exc" in p:
                        semantic.append(_viol(c, hs, name + ".p_next", cx, p))
                        continue
                    tot = sum(p.values())
                    if "closed_form" in c:
                        stats["long_contexts"] += 1
                        bad = [t for t in toks if not (abs(p.get(t, 0.0) - float(Fraction(c["closed_form"][t]))) <= 1e-9)]
                        if bad:
                            semantic.append(_viol(c, hs, name + ".p_next", f"a^{len(cx)}", {"impl": p, "closed_form": c["closed_form"]}))
                        else:
                            traces += 1
                        continue
                    if oracle is not None:
                        o = oracle[ci]
                        if o is None:
                            stats["nonviable_contexts"] += 1
                            if any(not (abs(v) <= 1e-12) for v in p.values()):
                                semantic.append(_viol(c, hs, name + ".p_next", cx, {"impl": p, "expected": "all zero (no string extends the context)"}))
                            else:
                                traces += 1
                        else:
                            stats["viable_contexts"] += 1
                            bad = [t for t in toks if not common.close(Fraction(p.get(t, 0.0)), o[t], 1e-7, 1e-10)]
                            if bad or not (abs(tot - 1) <= 1e-9):
                                semantic.append(_viol(c, hs, name + ".p_next", cx, {"impl": p, "prefix_weight_ratio": {t: str(float(v)) for t, v in o.items()}, "sum": tot}))
                            else:
                                traces += 1
                    else:
                        if tot != tot or (tot > 1e-12 and not (abs(tot - 1) <= 1e-8)):
                            semantic.append(_viol(c, hs, name + ".p_next", cx, {"impl": p, "sum": tot}))
                        else:
                            traces += 1
                # chain rule: lm(x·EOS) = G(x)/Z
                wv2, wc2, _ = xw[k]
                for x, v, o, ok in zip(c["xs"], r["seq"], wv2, wc2):
                    evaluations += 1
                    if isinstance(v, dict):
                        semantic.append(_viol(c, hs, name + ".call", x, v))
                    elif ok and zc.get(Sk, True) and Z and not common.close(Fraction(v), o / Z, 1e-6, 1e-10):
                        semantic.append(_viol(c, hs, name + ".call", x, {"impl": v, "weight/total": str(float(o / Z))}))
                    else:
                        traces += 1
                for cx, u in zip(c["ctxs"][:6], r.get("unnorm", [])):
                    evaluations += 1
                    stats["unnorm_checks"] += 1
                    if "exc" in u:
                        semantic.append(_viol(c, hs, name + ".next_token_weights", cx, u))
                    elif any(not common.close(Fraction(a), Fraction(b), 1e-8, 1e-12) for a, b in u.values()):
                        semantic.append(_viol(c, hs, name + ".next_token_weights", cx, {"[next_token_weight, parser(context+token)]": u}))
                    else:
                        traces += 1
                if "logp" in r:
                    for x, v, o, ok in zip(c["xs"][:6], r["logp"], wv2, wc2):
                        evaluations += 1
                        if isinstance(v, dict):
                            semantic.append(_viol(c, hs, name + ".logp", x, v))
                        elif ok and o > 0 and not (math.isfinite(v) and abs(v - math.log(float(o))) <= 1e-6 * max(1.0, abs(v))):
                            # logp of the prefix-grammar parser on x·EOS = log weight(x)
                            semantic.append(_viol(c, hs, name + ".logp", x, {"impl": v, "log_weight": math.log(float(o))}))
                        elif ok and o == 0 and v > -1e300 and not math.isinf(v):
                            semantic.append(_viol(c, hs, name + ".logp", x, {"impl": v, "log_weight": "-inf"}))
                        else:
                            traces += 1
            rl = res.get("rescaled_parser_logp")
            if isinstance(rl, dict):
                semantic.append(_viol(c, hs, "rescaled_parser.logp", None, rl))
            elif rl:
                wv2, wc2, _ = xw[k]
                for x, v, o, ok in zip(c["xs"], rl, wv2, wc2):
                    if v is None:
                        continue
                    evaluations += 1
                    if isinstance(v, dict):
                        semantic.append(_viol(c, hs, "rescaled_parser.logp", x, v))
                    elif ok and o > 0 and not (math.isfinite(v) and abs(v - math.log(float(o))) <= 1e-6 * max(1.0, abs(v))):
                        semantic.append(_viol(c, hs, "rescaled_parser.logp", x, {"impl": v, "log_weight": math.log(float(o))}))
                    elif ok and o == 0 and not (math.isinf(v) and v < 0):
                        semantic.append(_viol(c, hs, "rescaled_parser.logp", x, {"impl": v, "log_weight": "-inf"}))
                    else:
                        traces += 1
            # all back ends agree
            names = list(per_lm)
            for a_ in names[1:]:
                for ci, cx in enumerate(c["ctxs"]):
                    p, q = per_lm[names[0]]["p_next"][ci], per_lm[a_]["p_next"][ci]
                    if "exc" in p or "exc" in q:
                        continue
                    evaluations += 1
                    stats["backend_comparisons"] += 1
                    if any(not (abs(p.get(t, 0.0) - q.get(t, 0.0)) <= 1e-8) for t in toks):
                        semantic.append(_viol(c, hs, f"{names[0]}_vs_{a_}", cx, {names[0]: p, a_: q}))
                    else:
                        traces += 1
        if len(samples) < 3 and oracle and any(o for o in oracle):
            samples.append({"cfg": c["cfg"], "contexts": c["ctxs"][:3], "oracle": [None if o is None else {t: str(v) for t, v in o.items()} for o in oracle[:3]],
                            "impl_earley": ((impl_res[hashseeds[0]].get(c["id"]) or {}).get("earley") or {}).get("p_next", [])[:3]})
    return {
        "evaluations": evaluations, "distinct_nontrivial": len(nontrivial),
        "rule": "seeded finite-language grammars (exact prefix sums) and cyclic/nullable/unary-cyclic convergent grammars x all contexts ≤ 2 plus longer ones x three back ends x hash seeds / "
                "broken agenda ties; long contexts a^n (n = 12, 60, 300) with rational closed form; non-trivial = distinct grammars with viable and non-viable contexts (finite) or positive total weight",
        "samples": samples, "traces": traces, "semantic": semantic, "structural": [],
        "extra": {"shape_histogram": shapes, "hashseeds": hashseeds, "stats": stats, "cases": len(cases)},
        "assumptions": ["floating-point conditionals are compared with rtol 1e-7"],
    }


def _viol(c, hs, name, q, got):
    sig = hashlib.sha1(json.dumps([name, c["cfg"], q], sort_keys=True).encode()).hexdigest()[:16]
    return {"signature": f"C04:{name}:{sig}", "op": name, "query": q, "impl": got, "hashseed": hs, "case": c}
