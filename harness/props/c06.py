"""C06 — normal-form transformations preserve the weighted language."""
from harness.props.cfg_transforms import impl, run_common  # noqa: F401


def run(ctx):
    return run_common(ctx, "C06")
