"""C03 — prefix weight = total weight of all strings with that prefix; derivative.

Oracle: Σ_{x : p ≼ x} WN(G, x) over ALL strings of finite-language grammars (exact finite sums);
`derivative(a)(y) = WN(G, a·y)` on every grammar shape; for cyclic grammars additionally
prefix_weight(()) = total weight (ZN oracle) and the prefix-sum recurrence
prefix(p) = G(p) + Σ_a prefix(p·a) evaluated on the implementation.
Structural: mirror models `prefixT` (`prefix_transducer_unique`: every prefix exactly once) and
`derivative` (given the implementation's null weights)."""
import hashlib
import json

from harness import common, gen
from harness.props import cfg_transforms as T
from harness.props.c08 import zn_eval


def impl(case):
    from genlm.grammar import cfg as _cfg
    from genlm.grammar.cfg import prefix_transducer
    R = case["R"]
    Rc = common.semiring(R)
    out = {}
    tup = lambda s: tuple(common.dec_sym(t) for t in s)  # noqa

    def safe(fn):
        try:
            return common.enc_w(fn(), R)
        except Exception as e:  # noqa
            return {"exc": type(e).__name__, "msg": str(e)[:200]}
    g = common.mk_cfg(case["cfg"], R)
    out["prefix_weight"] = [safe(lambda: g.prefix_weight(tup(p))) for p in case["ps"]]
    g2 = common.mk_cfg(case["cfg"], R)
    out["derivatives_treesum"] = [safe(lambda: g2.derivatives(tup(p))[-1].treesum()) for p in case["ps"]]
    out["call"] = [safe(lambda: g(tup(p))) for p in case["ps"]]
    a = common.dec_sym(case["a"])
    try:
        g3 = common.mk_cfg(case["cfg"], R)
        U = g3.null_weight()
        D = g3.derivative(a)
        out["derivative"] = common.enc_cfg(D, R)
        out["U"] = [[common.enc_sym(k), common.enc_w(v, R)] for k, v in U.items()]
        out["derivative_vals"] = [safe(lambda: D(tup(y))) for y in case["ys"]]
        D2 = D.derivative(a)       # second derivative by the same token: the SKIP re-use of Slash symbols
        out["derivative2_vals"] = [safe(lambda: D2(tup(y))) for y in case["ys"][:6]]
        # the same chain with position tags (`derivative(a, i)`): first a@0, then a@1
        D2i = common.mk_cfg(case["cfg"], R).derivative(a, 0).derivative(a, 1)
        out["derivative2i_vals"] = [safe(lambda: D2i(tup(y))) for y in case["ys"][:6]]
    except Exception as e:  # noqa
        out["derivative"] = {"exc": type(e).__name__, "msg": str(e)[:200]}
    try:
        P = prefix_transducer(Rc, {common.dec_sym(v) for v in case["cfg"]["V"]})
        out["prefix_transducer"] = common.enc_fst(P, R)
    except Exception as e:  # noqa
        out["prefix_transducer"] = {"exc": type(e).__name__, "msg": str(e)[:200]}
    return out


def make_case(rng, i, tier):
    R = rng.choice(["Float", "Float", "Float", "Real", "Boolean", "MaxTimes"])
    finite = rng.random() < 0.6
    if finite:
        desc, shape = gen.gen_finite_cfg(rng), "finite"
    else:
        desc, shape = gen.gen_cfg(rng, maxrules=6, nterms=2)
    V = desc["V"]
    if rng.random() < 0.35:
        # a token behind SEVERAL consecutive nullable nonterminals with null weights different from one
        # (the derivative multiplies the null weights of everything it skips)
        rules = desc["rules"]
        na, nb = "Na", "Nb"
        t = rng.choice(V)
        rules.append([common.frac_str(rng.choice(gen.SMALL)), na, []])
        rules.append([common.frac_str(rng.choice(gen.SMALL)), na, [rng.choice(V)]])
        rules.append([common.frac_str(rng.choice(gen.SMALL)), nb, []])
        rules.append([common.frac_str(rng.choice(gen.SMALL)), nb, [rng.choice(V), nb] if finite is False and rng.random() < 0.3 else [rng.choice(V)]])
        rules.append([common.frac_str(rng.choice(gen.SMALL)), "S", [na, nb, t] + ([rng.choice(V)] if rng.random() < 0.5 else [])])
        if rng.random() < 0.5:
            rules.append([common.frac_str(rng.choice(gen.SMALL)), "S", [nb, na, na, t]])
        shape += "+nullable_prefix"
    if rng.random() < 0.25 and "a" in V and "b" in V:
        # a vocabulary in which different token sequences have the same spelling
        desc["V"] = sorted(set(V) | {"ab"})
        desc["rules"].append([common.frac_str(rng.choice(gen.SMALL)), "S", ["ab"] + ([rng.choice(V)] if rng.random() < 0.5 else [])])
        desc["rules"].append([common.frac_str(rng.choice(gen.SMALL)), "S", ["a", "b"]])
        shape += "+ambiguous_spelling"
        V = desc["V"]
    if not finite:
        desc = gen.reconverge(desc, rng)      # the rules added above must not make a recursive grammar divergent
    if R == "Boolean":
        desc = gen.to_bool(desc)
    if R == "MaxTimes":
        desc = {**desc, "rules": [[w if common.num(w) <= 1 else "1", h, b] for w, h, b in desc["rules"]]}
    ps = gen.all_strings(V, 2) + [[rng.choice(V) for _ in range(3)] for _ in range(3)]
    ys = gen.all_strings(V, 2) + [[rng.choice(V) for _ in range(3)] for _ in range(2)]
    if "ab" in V:
        ps = [["a", "b"], ["ab"], ["ab", "a"], ["a", "b", "a"]] + ps
    a = rng.choice(V)
    if "nullable_prefix" in shape and rng.random() < 0.7:
        a = t
    if "ab" not in V and rng.random() < 0.15:
        # integer token ids: the terminal 0 is falsy
        desc, (ps, ys, aa), _ = gen.intify_terms(desc, ps, ys, [[a]], offset=rng.choice([0, 0, -len(desc["V"])]))
        a = aa[0][0]
        shape += "+int_tokens"
        tt = rng.choice([None, "float"])
        return {"id": i, "R": R, "shape": shape + ("+" + tt if tt else ""), "finite": finite, "cfg": desc, "ps": ps, "ys": ys, "a": a, "token_type": tt}
    return {"id": i, "R": R, "shape": shape, "finite": finite, "cfg": desc, "ps": ps, "ys": ys, "a": a}


def corpus():
    """known finding (known_findings.json): numpy-integer token ids + the tuple-named nonterminals of the derivative grammars —
    `u == r.body[j]` in CFG.agenda compares a namedtuple with a numpy scalar, numpy broadcasts, `if` raises ValueError"""
    g = {"S": "S", "V": [0, 1], "rules": [["1/8", "N3", [1]], ["3/4", "S", ["N3"]], ["1/8", "S", [0, "N3"]], ["3/16", "N3", []], ["1", "S", ["N3", 0]]]}
    return [{"R": "Float", "shape": "corpus_numpy_tokens", "finite": True, "cfg": g, "ps": [[0]], "ys": [[1]], "a": 1, "token_type": "npint"}]


def run(ctx):
    rng, tier = ctx["rng"], ctx["tier"]
    n = int((80 if tier == "quick" else 1500) * ctx.get("mult", 1))
    hashseeds = [0, 1] if tier == "quick" else [0, 1, 2, 3]
    if ctx.get("replay"):
        cases = [f["case"] for f in ctx["replay"]["failing"] if "case" in f]
    else:
        cases = corpus() + [make_case(rng, i, tier) for i in range(n)]
    for i, c in enumerate(cases):
        c["id"] = i
    impl_res = ctx["run_impl"](cases, hashseeds, 120)
    allx = {c["id"]: gen.all_strings(c["cfg"]["V"], 4 if len(c["cfg"]["V"]) <= 2 else 4) for c in cases if c["finite"]}
    fin = [c for c in cases if c["finite"]]
    fw = dict(zip([c["id"] for c in fin], T.eval_wn(ctx, [(c["cfg"], c["R"], allx[c["id"]]) for c in fin])))
    # derivative: WN(G, a·y) and a·a·y; call values on ps
    dw = T.eval_wn(ctx, [(c["cfg"], c["R"], [[c["a"]] + y for y in c["ys"]] + [[c["a"], c["a"]] + y for y in c["ys"][:6]] + c["ps"]) for c in cases])
    zn = zn_eval(ctx, [(c["cfg"], c["R"]) for c in cases])
    sops, sidx = [], []
    for k, c in enumerate(cases):
        r0 = impl_res[hashseeds[0]].get(c["id"]) or {}
        if isinstance(r0.get("derivative"), dict) and "rules" in r0["derivative"]:
            sops.append({"op": "transform", "R": c["R"], "name": "derivative", "cfg": c["cfg"], "a": c["a"], "i": 0, "U": r0["U"]}); sidx.append((k, "derivative"))
        if isinstance(r0.get("prefix_transducer"), dict) and "arcs" in r0["prefix_transducer"]:
            sops.append({"op": "fst_op", "R": c["R"], "name": "prefix_transducer", "V": c["cfg"]["V"]}); sidx.append((k, "prefix_transducer"))
    semantic, structural, samples = [], [], []
    evaluations = traces = 0
    nontrivial = set()
    shapes = {}
    stats = {"finite": 0, "cyclic": 0, "unconverged": 0, "recurrence_checks": 0}
    from harness.props.c10 import same_fst
    for (k, name), r in zip(sidx, ctx["lean"](sops)):
        if "error" in r:
            raise common.DriverError(r["error"])
        c = cases[k]
        got = impl_res[hashseeds[0]][c["id"]][name]
        evaluations += 1
        if name == "derivative":
            ok, why = T.same_rules(r["cfg"], got)
            if ok and r["cfg"]["S"] != got["S"]:
                ok, why = False, "start symbol differs"
        else:
            ok, why = same_fst(r, got, c["R"])
        if not ok:
            structural.append({"op": name, "what": why, "model": r.get("cfg", r), "impl": got, "input": c["cfg"], "a": c["a"]})
        else:
            traces += 1
    for k, c in enumerate(cases):
        R = c["R"]
        add = (lambda a, b: a or b) if R == "Boolean" else (max if R == "MaxTimes" else (lambda a, b: a + b))
        zero = False if R == "Boolean" else 0
        tol = 1e-6 if R in ("Float", "Real") else 1e-9
        shapes[c["shape"]] = shapes.get(c["shape"], 0) + 1
        stats["finite" if c["finite"] else "cyclic"] += 1
        dv, dc, _ = dw[k]
        ny = len(c["ys"])
        d1, d1c = dv[:ny], dc[:ny]
        d2, d2c = dv[ny:ny + min(6, ny)], dc[ny:ny + min(6, ny)]
        callv, callc = dv[ny + min(6, ny):], dc[ny + min(6, ny):]
        oracle = None
        if c["finite"]:
            wv, wc, _ = fw[c["id"]]
            oracle = []
            for p in c["ps"]:
                o = zero
                for x, v in zip(allx[c["id"]], wv):
                    if x[:len(p)] == p:
                        o = add(o, v)
                oracle.append(o)
            if any(o not in (0, False) for o in oracle) and any(o in (0, False) for o in oracle):
                nontrivial.add(hashlib.sha1(json.dumps([c["cfg"], R], sort_keys=True).encode()).hexdigest())
        for hs in hashseeds:
            res = impl_res[hs].get(c["id"])
            if res is None or "exc" in res:
                semantic.append(_viol(c, hs, "worker", None, res))
                continue
            for name in ("prefix_weight", "derivatives_treesum"):
                vs = res[name]
                for pi, (p, v) in enumerate(zip(c["ps"], vs)):
                    evaluations += 1
                    if isinstance(v, dict):
                        # derivatives of a prefix of no string may legitimately have an empty grammar; an exception is still a failure
                        semantic.append(_viol(c, hs, name, p, v))
                    elif oracle is not None:
                        if not common.close(common.num(v), oracle[pi], tol, 1e-9):
                            semantic.append(_viol(c, hs, name, p, {"impl": v, "sum_of_strings_with_prefix": str(oracle[pi])}))
                        else:
                            traces += 1
                    elif not p:
                        zv, zc, _ = zn[k]
                        Sk = common.symkey(c["cfg"]["S"])
                        if zc.get(Sk, True) and not common.close(common.num(v), zv.get(Sk, 0), tol, 1e-9):
                            semantic.append(_viol(c, hs, name, p, {"impl": v, "total_weight": str(zv.get(Sk, 0))}))
                        else:
                            traces += 1
            # prefix-sum recurrence on the implementation (every grammar): prefix(p) = G(p) + Σ_a prefix(p·a)
            pw = {json.dumps(p): v for p, v in zip(c["ps"], res["prefix_weight"]) if not isinstance(v, dict)}
            for pi, p in enumerate(c["ps"]):
                kids = [json.dumps(p + [a]) for a in c["cfg"]["V"]]
                if json.dumps(p) in pw and all(kk in pw for kk in kids) and callc[pi]:
                    rhs = callv[pi]
                    for kk in kids:
                        rhs = add(rhs, common.num(pw[kk]))
                    evaluations += 1
                    stats["recurrence_checks"] += 1
                    if not common.close(common.num(pw[json.dumps(p)]), rhs, tol, 1e-9):
                        semantic.append(_viol(c, hs, "prefix_recurrence", p, {"prefix_weight": pw[json.dumps(p)], "G(p)+sum_children": str(rhs)}))
                    else:
                        traces += 1
            if isinstance(res.get("derivative"), dict) and "exc" in res["derivative"]:
                semantic.append(_viol(c, hs, "derivative", None, res["derivative"]))
            else:
                for y, v, o, ok in list(zip(c["ys"], res["derivative_vals"], d1, d1c)):
                    evaluations += 1
                    if isinstance(v, dict):
                        semantic.append(_viol(c, hs, "derivative", y, v))
                    elif not ok:
                        stats["unconverged"] += 1
                    elif not common.close(common.num(v), o, tol, 1e-9):
                        semantic.append(_viol(c, hs, "derivative", y, {"impl": v, "WN(a·y)": str(o), "a": c["a"]}))
                    else:
                        traces += 1
                for dname, label in (("derivative2_vals", "derivative_twice"), ("derivative2i_vals", "derivative_twice_positions")):
                    for y, v, o, ok in list(zip(c["ys"][:6], res.get(dname, []), d2, d2c)):
                        evaluations += 1
                        if isinstance(v, dict):
                            semantic.append(_viol(c, hs, label, y, v))
                        elif ok and not common.close(common.num(v), o, tol, 1e-9):
                            semantic.append(_viol(c, hs, label, y, {"impl": v, "WN(a·a·y)": str(o), "a": c["a"]}))
                        else:
                            traces += 1
        if len(samples) < 3 and oracle and any(o not in (0, False) for o in oracle):
            samples.append({"cfg": c["cfg"], "R": R, "prefixes": c["ps"][:5], "oracle": [str(o) for o in oracle[:5]],
                            "impl_prefix_weight": (impl_res[hashseeds[0]].get(c["id"]) or {}).get("prefix_weight", [])[:5]})
    return {
        "evaluations": evaluations, "distinct_nontrivial": len(nontrivial),
        "rule": "seeded finite-language grammars (exact sums over all strings ≤ 4) and cyclic/nullable/unary-cyclic grammars (derivative against WN, total weight, prefix-sum recurrence) x all "
                "prefixes ≤ 2 plus longer ones (incl. prefixes of no string) x semiring; non-trivial = distinct finite grammars with a viable and a non-viable prefix",
        "samples": samples, "traces": traces, "semantic": semantic, "structural": structural,
        "extra": {"shape_histogram": shapes, "hashseeds": hashseeds, "stats": stats, "cases": len(cases)},
        "assumptions": ["for grammars with infinitely many completions the prefix weight itself is checked through the total weight (empty prefix), the derivative identity and the prefix-sum recurrence, not by enumeration"],
    }


def _viol(c, hs, name, q, got):
    sig = hashlib.sha1(json.dumps([name, c["cfg"], q, c["R"]], sort_keys=True).encode()).hexdigest()[:16]
    return {"signature": f"C03:{name}:{sig}", "op": name, "query": q, "impl": got, "hashseed": hs, "case": c}
