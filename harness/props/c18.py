"""C18 — regex automata accept exactly the regex language and are locally normalised.

Oracle: Mathlib's verified matcher (`RegularExpression.rmatch`, `rmatch_iff_matches'`).  Regex ASTs
are generated, printed in the library's syntax for `interegular_to_wfsa` and desugared (classes,
negated classes and the dot relative to the character set, repetition, escapes, case-insensitive
literals) for the matcher; acceptance is compared on ALL strings over the character set up to a
bound, and the per-state outgoing mass is summed exactly on the real automaton."""
import hashlib
import json
from fractions import Fraction

from harness import common, gen, regexgen


def impl(case):
    from genlm.grammar.lark_interface import interegular_to_wfsa
    out = {}
    try:
        cs = set(case["charset"])
        if case.get("prev_pattern") is not None:
            # the SAME set object is passed to a previous call (as LarkStuff.char_cfg does for every terminal)
            interegular_to_wfsa(case["prev_pattern"], charset=cs)
            out["charset_mutated"] = cs != set(case["charset"])
        m = interegular_to_wfsa(case["pattern"], charset=cs)
        out["charset_mutated"] = out.get("charset_mutated", False) or cs != set(case["charset"])
    except Exception as e:  # noqa
        return {"exc_build": type(e).__name__, "msg": str(e)[:200]}
    # structural: the FSM interegular produced, serialised, and the automaton built from it (mirror model Model/FsmWfsa.lean)
    try:
        import interegular
        from interegular.fsm import anything_else
        fsm = interegular.parse_pattern(case["pattern"]).to_fsm()
        cs0 = set(case["charset"])
        expand = {}
        for i in fsm.states:
            for a in fsm.map[i]:
                bt = fsm.alphabet.by_transition[a]
                expand[int(a)] = sorted(cs0 - set(x for x in fsm.alphabet if isinstance(x, str))) if anything_else in bt else sorted(x for x in bt if isinstance(x, str))
        out["fsm"] = {"initial": int(fsm.initial), "states": sorted(int(q) for q in fsm.states), "finals": sorted(int(q) for q in fsm.finals),
                      "map": [[int(i), int(a), int(j)] for i in fsm.states for a, j in fsm.map[i].items()],
                      "live": sorted(int(q) for q in fsm.states if fsm.islive(q)), "expand": [[a, l] for a, l in sorted(expand.items())]}
        out["wfsa"] = common.enc_wfsa(m, "Float")
    except Exception as e:  # noqa
        out["fsm"] = {"exc": type(e).__name__, "msg": str(e)[:200]}
    acc = []
    for s in case["strings"]:
        try:
            acc.append(bool(m(s) > 0))
        except Exception as e:  # noqa
            acc.append({"exc": type(e).__name__, "msg": str(e)[:100]})
    out["accepts"] = acc
    out["weights_sum"] = None
    mass = {}
    for i, a, j, w in m.arcs():
        mass[repr(i)] = mass.get(repr(i), Fraction(0)) + Fraction(w)
    for q, w in m.stop.items():
        mass[repr(q)] = mass.get(repr(q), Fraction(0)) + Fraction(w)
    out["mass"] = {k: float(v) for k, v in mass.items()}
    out["multi_char_symbols"] = sorted(a for a in m.alphabet if isinstance(a, str) and len(a) != 1)
    out["start"] = [float(w) for w in m.start.values()]
    tot = 0.0
    for s in case["strings"]:
        try:
            tot += float(m(s))
        except Exception:  # noqa
            pass
    out["weights_sum"] = tot
    return out


CHARSETS = [list("ab1"), list("abcA"), list("abAB1 "), list("ab.\n1"), list("aßSs"), list("abc")]


def _unrolled(n):
    """size of the pattern with its counted repetitions unrolled (x{m,n} = n copies)"""
    t = n[0]
    if t == "rep":
        return max(1, n[3]) * _unrolled(n[1])
    if t in ("alt", "cat"):
        return _unrolled(n[1]) + _unrolled(n[2])
    if t in ("star", "plus", "opt"):
        return 1 + _unrolled(n[1])
    return 1


def make_case(rng, i, tier):
    cs = rng.choice(CHARSETS)
    depth = rng.choice([1, 2, 2, 3] if tier == "quick" else [2, 3, 3, 4])
    ast = regexgen.gen_re(rng, depth, cs)
    while _unrolled(ast) > 24:
        # nested counted repetitions of nullable alternatives ((x{1,3}){2,3}|y+)?){2,4} make interegular's subset construction take
        # minutes (observed once in 1 500 thorough cases: a worker time-out, i.e. no verdict); time is not what C18 is about
        ast = regexgen.gen_re(rng, depth, cs)
    if rng.random() < 0.12:
        ast = suffix_loop(rng, [c for c in cs if c.isalnum()] or cs)
    if "ß" in cs and rng.random() < 0.5:
        ast = ("cat", ("ilit", "ß"), ast) if rng.random() < 0.5 else ("alt", ("ilit", "ßa"), ast)
    L = 3 if len(cs) <= 4 else 2
    if ast[0] == "cat" and ast[1][0] == "star" and len(cs) <= 4:
        L = 4
    if tier == "thorough":
        L += 1 if len(cs) <= 4 else 0
    strings = ["".join(s) for s in gen.all_strings(cs, L)]
    prev = None
    if rng.random() < 0.5:
        prev = regexgen.to_pattern(regexgen.gen_re(rng, 1, cs))
    return {"id": i, "ast": ast, "pattern": regexgen.to_pattern(ast), "charset": cs, "strings": strings, "prev_pattern": prev}


def _cats(*xs):
    out = xs[-1]
    for x in reversed(xs[:-1]):
        out = ("cat", x, out)
    return out


def suffix_loop(rng, cs):
    """loops that can only be LEFT after coming back round to an earlier state: (a|b)*abb, (a|b)*a(a|b)(a|b), ((ab)*c)*d —
    the minimal DFA has non-final states all of whose live successors were discovered before them"""
    a, b = (rng.sample(cs, 2) if len(cs) >= 2 else (cs[0], cs[0]))
    c, d = rng.choice(cs), rng.choice(cs)
    L = lambda x: ("lit", x)   # noqa
    ab = ("alt", L(a), L(b))
    k = rng.randrange(3)
    if k == 0:
        return _cats(("star", ab), *[L(rng.choice([a, b])) for _ in range(rng.choice([2, 3]))])
    if k == 1:
        return _cats(("star", ab), L(a), *[ab for _ in range(rng.choice([1, 2]))])
    return _cats(("star", _cats(("star", _cats(L(a), L(b))), L(c))), L(d))


def corpus():
    cs = list("aßSs")
    ast = ("ilit", "ß")
    out = [{"ast": ast, "pattern": regexgen.to_pattern(ast), "charset": cs, "strings": ["".join(s) for s in gen.all_strings(cs, 2)]}]
    L = lambda x: ("lit", x)   # noqa
    ab = ("alt", L("a"), L("b"))
    for ast, cs, n in ((_cats(("star", ab), L("a"), L("b"), L("b")), list("ab"), 6),
                       (_cats(("star", ab), L("a"), ab, ab), list("ab"), 6),
                       (_cats(("star", _cats(("star", _cats(L("a"), L("b"))), L("c"))), L("d")), list("abcd"), 4)):
        out.append({"ast": ast, "pattern": regexgen.to_pattern(ast), "charset": cs, "strings": ["".join(s) for s in gen.all_strings(cs, n)], "prev_pattern": None})
    return out


def run(ctx):
    rng, tier = ctx["rng"], ctx["tier"]
    n = int((120 if tier == "quick" else 1500) * ctx.get("mult", 1))
    hashseeds = [0, 1] if tier == "quick" else [0, 1, 2]
    if ctx.get("replay"):
        cases = [f["case"] for f in ctx["replay"]["failing"] if "case" in f]
    else:
        cases = corpus() + [make_case(rng, i, tier) for i in range(n)]
    for i, c in enumerate(cases):
        c["id"] = i
    impl_res = ctx["run_impl"](cases, hashseeds, 60)
    oracle = common.re_batch([{"re": regexgen.desugar(tuple(c["ast"]) if isinstance(c["ast"], list) else c["ast"], c["charset"]), "strings": c["strings"]} for c in cases])
    semantic, samples = [], []
    structural = []
    evaluations = traces = 0
    fops, fidx = [], []
    for c in cases:
        r0 = impl_res[hashseeds[0]].get(c["id"]) or {}
        if isinstance(r0.get("fsm"), dict) and "states" in r0["fsm"] and "wfsa" in r0:
            fops.append(dict(r0["fsm"], op="fsm_to_wfsa"))
            fidx.append((c, r0["wfsa"]))
    for (c, got), r in zip(fidx, ctx["lean"](fops)):
        if "error" in r:
            raise common.DriverError(r["error"])
        evaluations += 1
        ok, why = common.same_wfsa(r, got)
        if not ok:
            structural.append({"op": "fsm_to_wfsa", "what": why, "pattern": c["pattern"], "charset": c["charset"], "model": r, "impl": got})
        else:
            traces += 1
    nontrivial = set()
    stats = {"accepted": 0, "rejected": 0, "states_mass_checked": 0, "top_ops": {}}
    for c, o in zip(cases, oracle):
        if "error" in o:
            raise common.DriverError(o["error"])
        want = o["accepts"]
        na = sum(1 for w in want if w)
        stats["accepted"] += na
        stats["rejected"] += len(want) - na
        t = c["ast"][0]
        stats["top_ops"][t] = stats["top_ops"].get(t, 0) + 1
        if na and na < len(want):
            nontrivial.add(hashlib.sha1(json.dumps([c["pattern"], c["charset"]]).encode()).hexdigest())
        for hs in hashseeds:
            res = impl_res[hs].get(c["id"])
            if res is None or "exc" in res or "exc_build" in res:
                semantic.append(_viol(c, hs, "build", None, res))
                continue
            for s, got, w in zip(c["strings"], res["accepts"], want):
                evaluations += 1
                if isinstance(got, dict) or got != w:
                    semantic.append(_viol(c, hs, "accepts", s, {"impl": got, "regex_matches": w}))
                else:
                    traces += 1
            for q, mval in res["mass"].items():
                evaluations += 1
                stats["states_mass_checked"] += 1
                if not (abs(mval - 1.0) <= 1e-9):     # `not <=` so that nan is reported
                    semantic.append(_viol(c, hs, "normalised", q, {"state": q, "arc_weights_plus_final": mval}))
                else:
                    traces += 1
            if res.get("charset_mutated"):
                semantic.append(_viol(c, hs, "charset_mutated", None, "the caller's character set object was modified"))
            evaluations += 1
            if res["multi_char_symbols"]:
                semantic.append(_viol(c, hs, "alphabet", None, {"multi_character_symbols": res["multi_char_symbols"]}))
            elif res["weights_sum"] is not None and res["weights_sum"] > 1 + 1e-9:
                semantic.append(_viol(c, hs, "sub_probability", None, {"sum_of_weights_of_all_short_strings": res["weights_sum"]}))
            else:
                traces += 1
        if len(samples) < 4 and na and na < len(want):
            samples.append({"pattern": c["pattern"], "charset": c["charset"], "accepted_by_regex": [s for s, w in zip(c["strings"], want) if w][:8]})
    return {
        "evaluations": evaluations, "distinct_nontrivial": len(nontrivial),
        "rule": "seeded regex ASTs (literals, classes, negated classes, ranges, dot, alternation, concatenation, star, plus, optional, bounded repetition, \\d \\w \\s, case-insensitive literals incl. ß) "
                "x character sets (incl. newline, '.', ß) x ALL strings over the set up to length 2–4; non-trivial = distinct (pattern, charset) accepting some and rejecting some string",
        "samples": samples, "traces": traces, "semantic": semantic, "structural": structural,
        "extra": {"hashseeds": hashseeds, "stats": stats, "cases": len(cases), "fsm_structural": len(fops)},
        "assumptions": ["the harness' desugaring of the surface syntax (classes, dot = everything but newline, escapes, (?i:…) = {c, c.lower(), c.upper()} single characters) is the reading of 'the supported syntax'; "
                        "it is the trusted part of this oracle, the matcher itself is verified"],
        "trusted": ["interegular (third-party regex→FSM) is validated per run through this end-to-end comparison"],
    }


def _viol(c, hs, name, q, got):
    sig = hashlib.sha1(json.dumps([name, c["pattern"], c["charset"], q]).encode()).hexdigest()[:16]
    return {"signature": f"C18:{name}:{sig}", "op": name, "query": q, "impl": got, "hashseed": hs, "case": c}
