"""C14 — real-weighted equivalence test and minimisation are exact.

The library's float linear algebra is modelled, not verified; its answers are compared with
CERTIFIED answers: an (unverified) exact Tzeng search over ℚ produces either an equivalence
certificate, accepted by the verified checker `equivCertCheck` (`equivCert_sound`: all words have
equal weight), or a word on which the verified evaluator `MAut.weight` gives different weights.
Minimal size: a Hankel-minor certificate accepted by `rankLowerCheck` (`rankLower_sound`: every
equivalent automaton has at least that many states) plus agreement of `A.min` with `A` on all words
up to the length that decides equivalence of automata of these sizes (tolerance 1e-6)."""
import hashlib
import json
from fractions import Fraction

from harness import common, gen, qlinalg


def _decode_word(w):
    out = []
    while w != () and w is not None:
        a, w = w
        out.append(a)
    return out


def impl(case):
    A = common.mk_wfsa(case["a"], "Float", "field")
    B = common.mk_wfsa(case["b"], "Float", "field")
    out = {}
    try:
        ce = A.counterexample(B)
        out["ce"] = None if ce is None else {"word": [common.enc_sym(s) for s in _decode_word(ce[0])], "va": float(ce[1]), "vb": float(ce[2])}
        out["eq"] = bool(A == B)
        out["hash_eq"] = hash(A) == hash(B)
    except Exception as e:  # noqa
        out["ce"] = {"exc": type(e).__name__, "msg": str(e)[:200]}
    try:
        m = common.mk_wfsa(case["a"], "Float", "field").min
        out["min_dim"] = m.dim
        out["min_vals"] = [float(m(tuple(common.dec_sym(s) for s in x))) for x in case["xs"]]
        out["a_vals"] = [float(A(tuple(common.dec_sym(s) for s in x))) for x in case["xs"]]
    except Exception as e:  # noqa
        out["min_dim"] = {"exc": type(e).__name__, "msg": str(e)[:200]}
    return out


W14 = [Fraction(1, 2), Fraction(1, 4), Fraction(3, 4), Fraction(1, 3), Fraction(2, 3), Fraction(1, 5), Fraction(3, 2), Fraction(1), Fraction(2), Fraction(5, 4), Fraction(1, 8)]


def make_case(rng, i, tier):
    kind = rng.choice(["equal_by_construction", "perturbed", "independent", "self", "empty", "redundant", "trie_equal_leaves", "extra_symbol"])
    a, _ = gen.gen_wfsa(rng, nstates=rng.choice([1, 2, 3, 3, 4] if tier == "quick" else [2, 3, 4, 5, 6]), weights=W14,
                        shape=rng.choice(["plain", "multi_init_final", "parallel", "eps", "dead_states", "acyclic", "init_is_final"]))
    syms = a["syms"]
    if kind == "trie_equal_leaves":
        # deterministic trie whose leaves have identical futures: forward-independent states, Hankel rank smaller than the state count
        w = common.frac_str(rng.choice(W14))
        s2 = (syms + ["b"])[:2] if len(syms) > 1 else [syms[0], "b"]
        a = {"start": [["r", "1"]], "stop": [["l1", w], ["l2", w]], "arcs": [["r", s2[0], "l1", "1/2"], ["r", s2[1], "l2", "1/2"]], "syms": s2}
        if rng.random() < 0.5:
            a["arcs"] += [["l1", s2[0], "m1", "1/4"], ["l2", s2[0], "m2", "1/4"]]
            a["stop"] += [["m1", "1"], ["m2", "1"]]
        syms = s2
        b = json.loads(json.dumps(a))
    elif kind == "extra_symbol":
        # the second automaton knows a symbol the first one lacks and gives strings containing it non-zero weight
        b = json.loads(json.dumps(a))
        q0 = b["start"][0][0] if b["start"] else 0
        b["arcs"].append([q0, "z", "zfin", "1/2"])
        b["stop"].append(["zfin", "1"])
        if not b["start"]:
            b["start"] = [[q0, "1"]]
    elif kind == "empty":
        a = {**a, "stop": []}
        b = {"start": [], "stop": [], "arcs": [], "syms": syms}
    elif kind == "self":
        b = json.loads(json.dumps(a))
    elif kind == "equal_by_construction":
        # duplicate a state's role: rename states, split a start weight, add a useless state
        b = json.loads(json.dumps(a))
        b["arcs"] = [[["x", i], s, ["x", j], w] for i, s, j, w in b["arcs"]] + [[["x", "useless"], syms[0], ["x", "useless"], "1/2"]]
        b["start"] = [[["x", q], w] for q, w in b["start"]]
        b["stop"] = [[["x", q], w] for q, w in b["stop"]]
        if b["start"]:
            q, w = b["start"][0]
            h = common.frac_str(Fraction(w) / 2)
            b["start"] = [[q, h], [q, h]] + b["start"][1:]
    elif kind == "redundant":
        # union of two copies with halved start weights: same language, twice the states
        b = {"syms": syms, "start": [], "stop": [], "arcs": []}
        for tag in (0, 1):
            b["start"] += [[[tag, q], common.frac_str(Fraction(w) / 2)] for q, w in a["start"]]
            b["stop"] += [[[tag, q], w] for q, w in a["stop"]]
            b["arcs"] += [[[tag, i], s, [tag, j], w] for i, s, j, w in a["arcs"]]
    elif kind == "perturbed":
        b = json.loads(json.dumps(a))
        if b["arcs"]:
            k = rng.randrange(len(b["arcs"]))
            b["arcs"][k][3] = common.frac_str(Fraction(b["arcs"][k][3]) + rng.choice([Fraction(1, 4), Fraction(1, 100), Fraction(-1, 8)]))
        elif b["stop"]:
            b["stop"][0][1] = common.frac_str(Fraction(b["stop"][0][1]) + Fraction(1, 4))
    else:
        b, _ = gen.gen_wfsa(rng, nstates=rng.choice([1, 2, 3]), nsyms=len(syms), weights=W14)
    if rng.random() < 0.5:
        a, b = b, a
    allsyms = sorted({e[1] for d in (a, b) for e in d["arcs"] if e[1] != ""}) or syms
    xs = gen.all_strings(allsyms, 2 if len(allsyms) > 1 else 3)
    syms = allsyms
    return {"id": i, "kind": kind, "a": a, "b": b, "xs": xs, "syms": syms}


def corpus():
    l = lambda w: {"start": [[0, "1"]], "stop": [[1, "1"]], "arcs": [[0, "a", 1, w]], "syms": ["a"]}  # noqa
    dead = {"start": [[0, "1"]], "stop": [], "arcs": [[0, "a", 1, "1/2"]], "syms": ["a"]}
    empty = {"start": [], "stop": [], "arcs": [], "syms": ["a"]}
    xs = [[], ["a"], ["a", "a"]]
    return [{"kind": "corpus_F13", "a": l("1/2"), "b": l("1/4"), "xs": xs, "syms": ["a"]},
            {"kind": "corpus_F13", "a": l("3/2"), "b": l("1"), "xs": xs, "syms": ["a"]},
            {"kind": "corpus_F9", "a": dead, "b": empty, "xs": xs, "syms": ["a"]},
            {"kind": "corpus_F9", "a": empty, "b": dead, "xs": xs, "syms": ["a"]}]


def run(ctx):
    rng, tier = ctx["rng"], ctx["tier"]
    n = int((120 if tier == "quick" else 2500) * ctx.get("mult", 1))
    hashseeds = [0, 1] if tier == "quick" else [0, 1, 2]
    if ctx.get("replay"):
        cases = [f["case"] for f in ctx["replay"]["failing"] if "case" in f]
    else:
        cases = corpus() + [make_case(rng, i, tier) for i in range(n)]
    for i, c in enumerate(cases):
        c["id"] = i
    impl_res = ctx["run_impl"](cases, hashseeds, 12)
    ops, verdicts = [], []
    for c in cases:
        fa, fb = qlinalg.epsfree_matrix_form(c["a"]), qlinalg.epsfree_matrix_form(c["b"])
        if fa is None or fb is None:
            ops.append(None)
            verdicts.append(None)
            continue
        _, sa, Ma, fa_ = fa
        _, sb, Mb, fb_ = fb
        v, data = qlinalg.tzeng(sa, Ma, fa_, sb, Mb, fb_)
        us, vs, inv, rank = qlinalg.hankel_rank_cert(sa, Ma, fa_)
        op = {"op": "cert", "R": "Float", "a": qlinalg.maut_json(sa, Ma, fa_), "b": qlinalg.maut_json(sb, Mb, fb_),
              "rank": {"us": us, "vs": vs, "inv": [[common.frac_str(x) for x in row] for row in inv]}}
        if v == "equiv":
            U, cStop, cArc = data
            op["cert"] = {"U": [[common.frac_str(x) for x in u] for u in U], "cStop": [common.frac_str(x) for x in cStop],
                          "cArc": [[a, [[common.frac_str(x) for x in row] for row in rows]] for a, rows in cArc]}
            op["words"] = c["xs"]
        else:
            op["words"] = [data] + c["xs"]
        ops.append(op)
        verdicts.append((v, data, rank))
    idx = [i for i, o in enumerate(ops) if o is not None]
    lean = dict(zip(idx, ctx["lean"]([ops[i] for i in idx])))
    semantic, structural, samples = [], [], []
    evaluations = traces = 0
    nontrivial = set()
    kinds = {}
    stats = {"equivalent": 0, "different": 0, "skipped_singular_eps": 0, "rank_hist": {}, "min_checked": 0}
    for k, c in enumerate(cases):
        kinds[c["kind"]] = kinds.get(c["kind"], 0) + 1
        if k not in lean:
            stats["skipped_singular_eps"] += 1
            continue
        L = lean[k]
        if "error" in L:
            raise common.DriverError(L["error"])
        v, data, rank = verdicts[k]
        # the certified answer
        if v == "equiv":
            if not L.get("equiv_cert_ok"):
                raise common.DriverError(f"internal: equivalence certificate rejected for case {k}")
            stats["equivalent"] += 1
        else:
            if common.num(L["wa"][0]) == common.num(L["wb"][0]):
                raise common.DriverError(f"internal: counterexample word does not separate for case {k}")
            stats["different"] += 1
        if not L.get("rank_lower_ok"):
            raise common.DriverError(f"internal: Hankel certificate rejected for case {k}")
        if L["rank_lower"] != rank:
            raise common.DriverError(f"internal: minor smaller than Hankel rank for case {k}")
        stats["rank_hist"][str(rank)] = stats["rank_hist"].get(str(rank), 0) + 1
        nontrivial.add(hashlib.sha1(json.dumps([c["a"], c["b"]], sort_keys=True).encode()).hexdigest())
        well = True
        if v == "diff":   # well-conditioned only: a difference below 1e-6 relative is not decidable in floats
            da, db = float(common.num(L["wa"][0])), float(common.num(L["wb"][0]))
            well = abs(da - db) > 1e-5 * max(1.0, abs(da), abs(db))
        for hs in hashseeds:
            res = impl_res[hs].get(c["id"])
            if res is None or "exc" in res:
                semantic.append(_viol(c, hs, "worker", res))
                continue
            ce = res.get("ce")
            evaluations += 1
            if isinstance(ce, dict) and "exc" in ce:
                semantic.append(_viol(c, hs, "counterexample", ce))
            elif v == "equiv":
                if ce is not None or not res.get("eq") or not res.get("hash_eq"):
                    semantic.append(_viol(c, hs, "counterexample", {"certified": "equivalent", "impl_counterexample": ce, "eq": res.get("eq"), "hash_eq": res.get("hash_eq")}))
                else:
                    traces += 1
            elif well:
                if ce is None or res.get("eq"):
                    semantic.append(_viol(c, hs, "counterexample", {"certified": "different", "separating_word": data, "wa": L["wa"][0], "wb": L["wb"][0], "impl": "no counterexample"}))
                else:
                    traces += 1
            if isinstance(ce, dict) and "word" in ce:
                # any counterexample returned must really separate: re-evaluated below by a second driver call
                c.setdefault("_ce", []).append((hs, ce))
            md = res.get("min_dim")
            evaluations += 1
            stats["min_checked"] += 1
            if isinstance(md, dict):
                semantic.append(_viol(c, hs, "min", md))
            elif md != rank:
                semantic.append(_viol(c, hs, "min", {"min_dim": md, "certified_hankel_rank": rank}))
            elif any(not common.close(Fraction(x), Fraction(y), 1e-6, 1e-8) for x, y in zip(res["min_vals"], res["a_vals"])):
                semantic.append(_viol(c, hs, "min", {"min_vals": res["min_vals"], "a_vals": res["a_vals"]}))
            elif any(not common.close(Fraction(y), common.num(o), 1e-7, 1e-9) for y, o in zip(res["a_vals"], L["wa"][-len(c["xs"]):])):
                semantic.append(_viol(c, hs, "call", {"a_vals": res["a_vals"], "certified": L["wa"][-len(c["xs"]):]}))
            else:
                traces += 1
        if len(samples) < 4:
            samples.append({"a": c["a"], "b": c["b"], "certified": v, "hankel_rank": rank, "impl": impl_res[hashseeds[0]].get(c["id"])})
    # re-evaluate returned counterexamples with the verified evaluator
    ce_ops, ce_idx = [], []
    for k, c in enumerate(cases):
        for hs, ce in c.pop("_ce", []):
            o = dict(ops[k])
            o.pop("cert", None)
            o.pop("rank", None)
            o["words"] = [ce["word"]]
            ce_ops.append(o)
            ce_idx.append((c, hs, ce))
    for (c, hs, ce), L in zip(ce_idx, ctx["lean"](ce_ops)):
        evaluations += 1
        wa, wb = common.num(L["wa"][0]), common.num(L["wb"][0])
        if wa == wb or not common.close(Fraction(ce["va"]), wa, 1e-6, 1e-8) or not common.close(Fraction(ce["vb"]), wb, 1e-6, 1e-8):
            semantic.append(_viol(c, hs, "counterexample", {"returned": ce, "verified_weights": [str(wa), str(wb)]}))
        else:
            traces += 1
    return {
        "evaluations": evaluations, "distinct_nontrivial": len(nontrivial),
        "rule": "seeded pairs of real-weighted automata: equal by construction (renamed, split weights, useless/redundant states), one weight perturbed, "
                "independent, identical, empty language; fractional (also non-dyadic) weights, ε arcs; every pair has a machine-checked verdict",
        "samples": samples, "traces": traces, "semantic": semantic, "structural": structural,
        "extra": {"kind_histogram": kinds, "hashseeds": hashseeds, "stats": stats, "cases": len(cases)},
        "assumptions": ["certificate SEARCH (harness/qlinalg.py) and exact ε-removal are unverified; every verdict they produce is re-checked by the verified Lean checkers",
                        "pairs that differ by less than 1e-5 relative on the separating word are not required to be told apart by the float implementation"],
        "trusted": ["numpy/float behaviour of field_wfsa is modelled, not verified"],
    }


def _viol(c, hs, name, got):
    sig = hashlib.sha1(json.dumps([name, c["a"], c["b"]], sort_keys=True).encode()).hexdigest()[:16]
    cc = {k: v for k, v in c.items() if not k.startswith("_")}
    return {"signature": f"C14:{name}:{sig}", "op": name, "impl": got, "hashseed": hs, "case": cc}
