"""C14 — real-weighted equivalence test and minimisation are exact.

The library's float linear algebra is modelled, not verified.  PRIMARY ORACLE (since round 3): the VERIFIED exact-arithmetic
model of the algorithm itself, run by the Lean driver on the dense form `WFSA.simple` of the two automata over ℚ:
  * op "tzeng_equiv" = `tzSearch` (`Model/Tzeng.lean`), the model of `Simple.counterexample`, with the alphabet iterated in the
    order the REAL run iterated it (`set(A.arcs) | set(B.arcs)` under this hash seed).  `equiv_decides_rat` /
    `tzSearch_decides`: it answers "none" iff all words have equal weight (any iteration order, fuel dim A + dim B);
    `counterexampleQ_sound`: a returned word has the two returned weights and they differ.
  * op "tzeng_min" = `minQ`, the model of `Simple.min`; `minQ_spec`: its dimension is the rank of the Hankel matrix = the
    minimum number of states, and it has the same weights.
The dense form is built here from the case descriptor exactly as `WFSA.simple` builds it (`simple_q`: ε-removal as
`base.WFSA.epsremove`, states that `renumber` drops are dropped) over Fractions and compared entry by entry with the real
`m.simple` (floats read as exact rationals: identical when all weights are dyadic, 1e-12 otherwise) — so the automaton the
verified procedure decides is the automaton the code ran on.
CROSS-CHECK (kept from round 1/2): an independent, unverified exact Tzeng search (`harness/qlinalg.py`, different state space:
no state dropped, own order) produces an equivalence certificate accepted by the verified checker `equivCertCheck`
(`equivCert_sound`) or a separating word, and a Hankel-minor certificate accepted by `rankLowerCheck` (`rankLower_sound`); the
two verdicts (and the two ranks, and all exact weights) must agree — a disagreement is an infrastructure error (exit 2)."""
import hashlib
import json
from fractions import Fraction

from harness import common, gen, qlinalg

ORACLE = ("verified decision procedure: Lean driver ops tzeng_equiv / tzeng_min = Model/Tzeng.lean tzSearch / minQ "
          "(Proofs/Tzeng.lean equiv_decides_rat, tzSearch_decides, counterexampleQ_sound; Proofs/TzengMin.lean minQ_spec, minQ_terminates)")


def _decode_word(w):
    out = []
    while w != () and w is not None:
        a, w = w
        out.append(a)
    return out


def _exc(e):
    return {"exc": type(e).__name__, "msg": str(e)[:200]}


def _enc_ce(ce):
    return None if ce is None else {"word": [common.enc_sym(s) for s in _decode_word(ce[0])], "va": float(ce[1]), "vb": float(ce[2])}


def _vec(v):
    return [float(x) for x in v]


def _dump_simple(m):
    """the dense form `m.simple` as the library built it, the dict order of its matrices, and the state behind every index
    (replay of `epsremove.renumber`: `rename` hands the states to a fresh Integerizer in the order I, F, arcs)"""
    S = m.simple
    er = m.epsremove
    idx = {}
    for q, _ in er.I:
        idx.setdefault(q, len(idx))
    for q, _ in er.F:
        idx.setdefault(q, len(idx))
    for i, _, j, _ in er.arcs():
        idx.setdefault(i, len(idx))
        idx.setdefault(j, len(idx))
    rn = er.renumber
    ok = (len(idx) == int(S.dim) == rn.dim and all(rn.start[idx[q]] == w for q, w in er.I) and all(rn.stop[idx[q]] == w for q, w in er.F)
          and all(rn.delta[idx[i]][a][idx[j]] == w for i, a, j, w in er.arcs()))
    order = [None] * len(idx)
    for q, i in idx.items():
        order[i] = common.enc_sym(q)
    return {"dim": int(S.dim), "order": order, "order_ok": bool(ok), "start": _vec(S.start), "stop": _vec(S.stop),
            "arcs": [[common.enc_sym(a), [_vec(r) for r in M]] for a, M in S.arcs.items()]}


REPEAT = 4   # the long-lived A is compared with 2*REPEAT temporaries (b, a, b, a, …) that die after each comparison


def impl(case):
    mk = lambda d: common.mk_wfsa(d, "Float", "field")  # noqa
    A, B = mk(case["a"]), mk(case["b"])
    out = {}
    try:
        out["ce"] = _enc_ce(A.counterexample(B))
        out["eq"] = bool(A == B)
        out["hash_eq"] = hash(A) == hash(B)
    except Exception as e:  # noqa
        out["ce"] = _exc(e)
    try:
        out["simple_a"], out["simple_b"] = _dump_simple(A), _dump_simple(B)
        # the iteration order of `for a in alphabet` in this process (same expression, same operands, same hash seed)
        out["alphabet"] = [common.enc_sym(s) for s in (set(A.simple.arcs) | set(B.simple.arcs))]
    except Exception as e:  # noqa
        out["simple_exc"] = _exc(e)
    try:
        # the same object compared again and again with partners that are garbage by the next comparison
        seq = []
        for k in range(2 * REPEAT):
            t = mk(case["b" if k % 2 == 0 else "a"])
            seq.append([_enc_ce(A.counterexample(t)), bool(A == t)])
            del t
        out["seq"] = seq
    except Exception as e:  # noqa
        out["seq"] = _exc(e)
    try:
        A2 = mk(case["a"])
        m = A2.min
        out["min_dim"] = m.dim
        out["min_vals"] = [float(m(tuple(common.dec_sym(s) for s in x))) for x in case["xs"]]
        out["a_vals"] = [float(A(tuple(common.dec_sym(s) for s in x))) for x in case["xs"]]
    except Exception as e:  # noqa
        out["min_dim"] = _exc(e)
        return out
    try:
        sm = A2.simple.min
        out["min_src"] = _dump_simple(A2)
        out["min_simple"] = {"dim": int(sm.dim), "start": _vec(sm.start), "stop": _vec(sm.stop),
                             "arcs": [[common.enc_sym(a), [_vec(r) for r in M]] for a, M in sm.arcs.items()]}
        out["fwd_basis"] = [_vec(r) for r in A2.simple.forward_basis()]
    except Exception as e:  # noqa
        out["min_simple"] = _exc(e)
    return out


# ----------------------------------------------------------------------------- the dense form, mirrored over ℚ
def simple_q(desc):
    """`field_wfsa.WFSA.simple` over Fractions, states by name: {"states": [key…] (the order `renumber` would give them if sets
    were iterated in sorted order), "start"/"stop": {key: w}, "arcs": {symkey: {(ki, kj): w}}, "syms": {symkey: json}};
    None when I - E is singular (no ε-closure).  Mirrors: add_I/add_F/add_arc accumulate; `I`/`F` skip zero entries, `arcs()`
    does not; `epsremove` = spawn(keep_stop) + start/arc weights pushed through the ε-closure S (`S.outgoing` = non-zero
    entries); `rename` keeps the states of I, F and of every arc (also zero-weight ones) and nothing else; the alphabet is
    that of the arcs kept."""
    key = common.symkey
    start, stop, delta, states = {}, {}, {}, []

    def st(q):
        k = key(q)
        if k not in states:
            states.append(k)
        return k
    for q, w in desc["start"]:
        k = st(q)
        start[k] = start.get(k, Fraction(0)) + Fraction(w)
    for q, w in desc["stop"]:
        k = st(q)
        stop[k] = stop.get(k, Fraction(0)) + Fraction(w)
    for i, a, j, w in desc["arcs"]:
        ki, kj = st(i), st(j)
        d = delta.setdefault(ki, {}).setdefault(key(a), {})
        d[kj] = d.get(kj, Fraction(0)) + Fraction(w)
    syms = {key(e[1]): e[1] for e in desc["arcs"]}
    n = len(states)
    ix = {k: i for i, k in enumerate(states)}
    eps = key("")
    E = [[Fraction(0)] * n for _ in range(n)]
    for ki, T in delta.items():
        for kj, w in T.get(eps, {}).items():
            E[ix[ki]][ix[kj]] += w
    if any(x != 0 for row in E for x in row):
        S = qlinalg.inverse([[Fraction(int(i == j)) - E[i][j] for j in range(n)] for i in range(n)])
        if S is None:
            return None
    else:
        S = [[Fraction(int(i == j)) for j in range(n)] for i in range(n)]
    out = {k: [states[j] for j in range(n) if S[ix[k]][j] != 0] for k in states}
    # epsremove
    nstart, nstop, ndelta = {}, {k: w for k, w in stop.items() if w != 0}, {}
    for ki, w in start.items():
        if w != 0:
            for kk in out[ki]:
                nstart[kk] = nstart.get(kk, Fraction(0)) + w * S[ix[ki]][ix[kk]]
    for ki, T in delta.items():
        for ka, J in T.items():
            if ka == eps:
                continue
            for kj, w in J.items():
                for kk in out[kj]:
                    d = ndelta.setdefault(ki, {}).setdefault(ka, {})
                    d[kk] = d.get(kk, Fraction(0)) + w * S[ix[kj]][ix[kk]]
    # renumber
    order = []

    def see(k):
        if k not in order:
            order.append(k)
    for k, w in nstart.items():
        if w != 0:
            see(k)
    for k in nstop:
        see(k)
    arcs = {}
    for ki, T in ndelta.items():
        for ka, J in T.items():
            for kk, w in J.items():
                see(ki)
                see(kk)
                arcs.setdefault(ka, {})[(ki, kk)] = w
    return {"states": order, "start": {k: w for k, w in nstart.items() if w != 0}, "stop": nstop, "arcs": arcs,
            "syms": {k: syms[k] for k in arcs}}


def dense(sq, order, arc_order=None):
    """(start, [(sym json, matrix)…], stop) of `simple_q`'s automaton with the states in the given order"""
    ix = {k: i for i, k in enumerate(order)}
    n = len(order)
    start, stop = [Fraction(0)] * n, [Fraction(0)] * n
    for k, w in sq["start"].items():
        start[ix[k]] += w
    for k, w in sq["stop"].items():
        stop[ix[k]] += w
    mats = []
    for ka in (arc_order if arc_order is not None else sorted(sq["arcs"])):
        M = [[Fraction(0)] * n for _ in range(n)]
        for (ki, kj), w in sq["arcs"][ka].items():
            M[ix[ki]][ix[kj]] += w
        mats.append((sq["syms"][ka], M))
    return start, mats, stop


def hankel_sigma(desc, rank):
    """the `rank`-th largest singular value of the language's Hankel matrix (restricted to words of length ≤ dim on both sides,
    which already has full rank), relative to max(1, largest): computed in floats from the Gramians of `simple_q`'s dense form.
    Conditioning information only — it decides which cases are `well-conditioned` in the sense of the property's quantifier
    (the real code takes its rank decisions with np.allclose, rtol 1e-5 / atol 1e-8), never a verdict."""
    import numpy as np
    sq = simple_q(desc)
    if sq is None or rank == 0:
        return None
    st, arcs, sp = dense(sq, sq["states"])
    n = len(st)
    if n == 0:
        return None
    a, b = np.array([float(x) for x in st]), np.array([float(x) for x in sp])
    Ms = [np.array([[float(x) for x in row] for row in M]) for _, M in arcs]
    G0f, G0b = np.outer(a, a), np.outer(b, b)
    Gf, Gb = G0f.copy(), G0b.copy()
    for _ in range(n + 1):
        Gf = G0f + sum((M.T @ Gf @ M for M in Ms), np.zeros((n, n)))
        Gb = G0b + sum((M @ Gb @ M.T for M in Ms), np.zeros((n, n)))
    ev = np.linalg.eigvals(Gf @ Gb)
    sig = sorted((float(np.sqrt(abs(x))) for x in ev), reverse=True)
    if not all(np.isfinite(sig)) or rank > len(sig):
        return 0.0
    return sig[rank - 1] / max(1.0, sig[0])


def maut_json(d):
    start, mats, stop = d
    fs = common.frac_str
    return {"dim": len(start), "start": [fs(x) for x in start], "stop": [fs(x) for x in stop],
            "arcs": [[a, [[fs(x) for x in row] for row in M]] for a, M in mats]}


def _ill_min(c, rank, stats, count):
    sg = hankel_sigma(c["a"], rank)
    ill = sg is not None and sg < 1e-4
    if ill and count:
        stats["ill_conditioned_min"] = stats.get("ill_conditioned_min", 0) + 1
    return ill


def _fclose(x, q, rtol, atol):
    """a float of the real run (possibly nan/inf on a broken tree) against an exact value"""
    try:
        return common.close(Fraction(x), q, rtol, atol)
    except (ValueError, OverflowError, TypeError):
        return False


def _same_entry(x, q, st):
    """float of the real run (read as the exact rational it is) vs the mirror's Fraction"""
    try:
        fx = Fraction(x)
    except (ValueError, OverflowError):
        return False
    if fx == q:
        return True
    st["inexact"] = True
    return common.close(fx, q, 1e-12, 1e-15)


def cmp_simple(real, sq):
    """→ (why | None, order of the real run as keys, dict order of its matrices as keys, exact?)"""
    if not isinstance(real, dict) or "order" not in real:
        return "no dense form from the real run", None, None, False
    if not real.get("order_ok"):
        return "the numbering of epsremove.renumber could not be replayed", None, None, False
    rk = [common.symkey(q) for q in real["order"]]
    if sorted(rk) != sorted(sq["states"]) or real["dim"] != len(rk):
        return f"states kept by simple: impl {sorted(rk)} model {sorted(sq['states'])}", None, None, False
    ak = [common.symkey(a) for a, _ in real["arcs"]]
    if sorted(ak) != sorted(sq["arcs"]):
        return f"alphabet of simple: impl {sorted(ak)} model {sorted(sq['arcs'])}", None, None, False
    start, mats, stop = dense(sq, rk, ak)
    st = {}
    if len(real["start"]) != len(rk) or len(real["stop"]) != len(rk):
        return "shape of start/stop", None, None, False
    for nm, rv, mv in (("start", real["start"], start), ("stop", real["stop"], stop)):
        for i, (x, q) in enumerate(zip(rv, mv)):
            if not _same_entry(x, q, st):
                return f"{nm}[{rk[i]}]: impl {x!r} model {q}", None, None, False
    for (a, RM), (_, MM) in zip(real["arcs"], mats):
        if len(RM) != len(rk) or any(len(r) != len(rk) for r in RM):
            return f"shape of the matrix of {a}", None, None, False
        for i in range(len(rk)):
            for j in range(len(rk)):
                if not _same_entry(RM[i][j], MM[i][j], st):
                    return f"arcs[{a}][{rk[i]},{rk[j]}]: impl {RM[i][j]!r} model {MM[i][j]}", None, None, False
    return None, rk, ak, not st.get("inexact")


W14 = [Fraction(1, 2), Fraction(1, 4), Fraction(3, 4), Fraction(1, 3), Fraction(2, 3), Fraction(1, 5), Fraction(3, 2), Fraction(1), Fraction(2), Fraction(5, 4), Fraction(1, 8)]


def make_case(rng, i, tier):
    kind = rng.choice(["equal_by_construction", "perturbed", "independent", "self", "empty", "redundant", "trie_equal_leaves", "extra_symbol"])
    a, _ = gen.gen_wfsa(rng, nstates=rng.choice([1, 2, 3, 3, 4] if tier == "quick" else [2, 3, 4, 5, 6]), weights=W14,
                        shape=rng.choice(["plain", "multi_init_final", "parallel", "eps", "dead_states", "acyclic", "init_is_final"]))
    syms = a["syms"]
    if kind == "trie_equal_leaves":
        # deterministic trie whose leaves have identical futures: forward-independent states, Hankel rank smaller than the state count
        w = common.frac_str(rng.choice(W14))
        s2 = (syms + ["b"])[:2] if len(syms) > 1 else [syms[0], "b"]
        a = {"start": [["r", "1"]], "stop": [["l1", w], ["l2", w]], "arcs": [["r", s2[0], "l1", "1/2"], ["r", s2[1], "l2", "1/2"]], "syms": s2}
        if rng.random() < 0.5:
            a["arcs"] += [["l1", s2[0], "m1", "1/4"], ["l2", s2[0], "m2", "1/4"]]
            a["stop"] += [["m1", "1"], ["m2", "1"]]
        syms = s2
        b = json.loads(json.dumps(a))
    elif kind == "extra_symbol":
        # the second automaton knows a symbol the first one lacks and gives strings containing it non-zero weight
        b = json.loads(json.dumps(a))
        q0 = b["start"][0][0] if b["start"] else 0
        if rng.random() < 0.6:
            # … only AFTER a non-empty prefix: the foreign arc leaves a state that is not initial (the two automata then
            # agree on every string that starts with the foreign symbol)
            init = [json.dumps(q) for q, _ in b["start"]]
            late = [e[2] for e in b["arcs"] if e[1] != "" and json.dumps(e[2]) not in init]
            if late:
                q0 = rng.choice(late)
        b["arcs"].append([q0, "z", "zfin", "1/2"])
        b["stop"].append(["zfin", "1"])
        if not b["start"]:
            b["start"] = [[q0, "1"]]
    elif kind == "empty":
        a = {**a, "stop": []}
        b = {"start": [], "stop": [], "arcs": [], "syms": syms}
    elif kind == "self":
        b = json.loads(json.dumps(a))
    elif kind == "equal_by_construction":
        # duplicate a state's role: rename states, split a start weight, add a useless state
        b = json.loads(json.dumps(a))
        b["arcs"] = [[["x", i], s, ["x", j], w] for i, s, j, w in b["arcs"]] + [[["x", "useless"], syms[0], ["x", "useless"], "1/2"]]
        b["start"] = [[["x", q], w] for q, w in b["start"]]
        b["stop"] = [[["x", q], w] for q, w in b["stop"]]
        if b["start"]:
            q, w = b["start"][0]
            h = common.frac_str(Fraction(w) / 2)
            b["start"] = [[q, h], [q, h]] + b["start"][1:]
    elif kind == "redundant":
        # union of two copies with halved start weights: same language, twice the states
        b = {"syms": syms, "start": [], "stop": [], "arcs": []}
        for tag in (0, 1):
            b["start"] += [[[tag, q], common.frac_str(Fraction(w) / 2)] for q, w in a["start"]]
            b["stop"] += [[[tag, q], w] for q, w in a["stop"]]
            b["arcs"] += [[[tag, i], s, [tag, j], w] for i, s, j, w in a["arcs"]]
    elif kind == "perturbed":
        b = json.loads(json.dumps(a))
        if b["arcs"]:
            k = rng.randrange(len(b["arcs"]))
            b["arcs"][k][3] = common.frac_str(Fraction(b["arcs"][k][3]) + rng.choice([Fraction(1, 4), Fraction(1, 100), Fraction(-1, 8)]))
        elif b["stop"]:
            b["stop"][0][1] = common.frac_str(Fraction(b["stop"][0][1]) + Fraction(1, 4))
    else:
        b, _ = gen.gen_wfsa(rng, nstates=rng.choice([1, 2, 3]), nsyms=len(syms), weights=W14)
    if rng.random() < 0.5:
        a, b = b, a
    if rng.random() < 0.2:
        # hand-chosen state names that LOOK like array indices but are not 0..n-1: a sentinel -1 next to 1-based numbers, booleans
        def renamed(d):
            qs = gen.wfsa_states(d)
            if len(qs) == 2 and rng.random() < 0.5:
                names = [common.enc_sym(False), common.enc_sym(True)]
            else:
                names = [-1] + list(range(1, len(qs)))
            m = {json.dumps(q): names[k] for k, q in enumerate(qs)}
            f = lambda q: m[json.dumps(q)]  # noqa
            return {**d, "start": [[f(q), w] for q, w in d["start"]], "stop": [[f(q), w] for q, w in d["stop"]],
                    "arcs": [[f(x), s_, f(y), w] for x, s_, y, w in d["arcs"]]}
        a = renamed(a)
        if rng.random() < 0.5:
            b = renamed(b)
        kind += "+index_like_names"
    allsyms = sorted({e[1] for d in (a, b) for e in d["arcs"] if e[1] != ""}) or syms
    xs = gen.all_strings(allsyms, 2 if len(allsyms) > 1 else 3)
    syms = allsyms
    return {"id": i, "kind": kind, "a": a, "b": b, "xs": xs, "syms": syms}


def corpus():
    l = lambda w: {"start": [[0, "1"]], "stop": [[1, "1"]], "arcs": [[0, "a", 1, w]], "syms": ["a"]}  # noqa
    dead = {"start": [[0, "1"]], "stop": [], "arcs": [[0, "a", 1, "1/2"]], "syms": ["a"]}
    empty = {"start": [], "stop": [], "arcs": [], "syms": ["a"]}
    xs = [[], ["a"], ["a", "a"]]
    return [{"kind": "corpus_F13", "a": l("1/2"), "b": l("1/4"), "xs": xs, "syms": ["a"]},
            {"kind": "corpus_F13", "a": l("3/2"), "b": l("1"), "xs": xs, "syms": ["a"]},
            {"kind": "corpus_F9", "a": dead, "b": empty, "xs": xs, "syms": ["a"]},
            {"kind": "corpus_F9", "a": empty, "b": dead, "xs": xs, "syms": ["a"]}]


def _valid_alphabet(real, sqa, sqb):
    """the real iteration order of `set(A.arcs) | set(B.arcs)` if it lists exactly the symbols of the two mirrors"""
    want = set(sqa["arcs"]) | set(sqb["arcs"])
    if isinstance(real, list):
        ks = [common.symkey(a) for a in real]
        if len(ks) == len(set(ks)) and set(ks) == want:
            return real, True
    syms = {**sqa["syms"], **sqb["syms"]}
    return [syms[k] for k in sorted(want)], False


def _cmp_maut(real, model, rtol, atol):
    """real dense automaton (floats) vs the model's (exact): → (why | None, largest absolute deviation)"""
    if real["dim"] != model["dim"]:
        return f"dim: impl {real['dim']} model {model['dim']}", 0.0
    worst = 0.0

    def same(x, y):
        nonlocal worst
        fx = Fraction(x) if x == x and abs(x) != float("inf") else None
        if fx is None:
            return False
        worst = max(worst, abs(float(fx - common.num(y))))
        return common.close(fx, common.num(y), rtol, atol)
    for nm in ("start", "stop"):
        if len(real[nm]) != len(model[nm]) or not all(same(x, y) for x, y in zip(real[nm], model[nm])):
            return f"{nm}: impl {real[nm]} model {model[nm]}", worst
    ra, ma = {common.symkey(a): M for a, M in real["arcs"]}, {common.symkey(a): M for a, M in model["arcs"]}
    if set(ra) != set(ma):
        return f"symbols: impl {sorted(ra)} model {sorted(ma)}", worst
    for k in ra:
        if len(ra[k]) != len(ma[k]) or not all(len(r) == len(m) and all(same(x, y) for x, y in zip(r, m)) for r, m in zip(ra[k], ma[k])):
            return f"matrix of {k}: impl {ra[k]} model {ma[k]}", worst
    return None, worst


def run(ctx):
    rng, tier = ctx["rng"], ctx["tier"]
    n = int((120 if tier == "quick" else 2500) * ctx.get("mult", 1))
    hashseeds = [0, 1] if tier == "quick" else [0, 1, 2]
    if ctx.get("replay"):
        cases = [f["case"] for f in ctx["replay"]["failing"] if "case" in f]
    else:
        cases = corpus() + [make_case(rng, i, tier) for i in range(n)]
    for i, c in enumerate(cases):
        c["id"] = i
    impl_res = ctx["run_impl"](cases, hashseeds, 12)
    semantic, structural, samples = [], [], []
    evaluations = traces = 0
    nontrivial = set()
    kinds = {}
    stats = {"equivalent": 0, "different": 0, "skipped_singular_eps": 0, "rank_hist": {}, "min_checked": 0,
             "simple_compared": 0, "simple_identical_to_the_rational_mirror": 0, "simple_within_1e-12": 0,
             "model_runs": 0, "word_compared": 0, "word_same_as_model": 0, "word_differs": 0,
             "min_automaton_compared": 0, "min_automaton_max_abs_dev": 0.0, "fwd_basis_compared": 0, "repeat_comparisons": 0,
             "ill_conditioned_pairs": 0}

    # ---- cross-check path (unverified search, verified certificate checkers) + the rational mirror of `simple`
    cert_ops, verdicts, mirrors = [], [], []
    for c in cases:
        fa, fb = qlinalg.epsfree_matrix_form(c["a"]), qlinalg.epsfree_matrix_form(c["b"])
        sqa, sqb = simple_q(c["a"]), simple_q(c["b"])
        if fa is None or fb is None or sqa is None or sqb is None:
            if (fa is None) != (sqa is None) or (fb is None) != (sqb is None):
                raise common.DriverError(f"internal: the two ε-removals disagree on singularity for case {c['id']}")
            cert_ops.append(None)
            verdicts.append(None)
            mirrors.append(None)
            continue
        _, sa, Ma, fa_ = fa
        _, sb, Mb, fb_ = fb
        v, data = qlinalg.tzeng(sa, Ma, fa_, sb, Mb, fb_)
        us, vs, inv, rank = qlinalg.hankel_rank_cert(sa, Ma, fa_)
        op = {"op": "cert", "R": "Float", "a": qlinalg.maut_json(sa, Ma, fa_), "b": qlinalg.maut_json(sb, Mb, fb_),
              "rank": {"us": us, "vs": vs, "inv": [[common.frac_str(x) for x in row] for row in inv]}}
        if v == "equiv":
            U, cStop, cArc = data
            op["cert"] = {"U": [[common.frac_str(x) for x in u] for u in U], "cStop": [common.frac_str(x) for x in cStop],
                          "cArc": [[a, [[common.frac_str(x) for x in row] for row in rows]] for a, rows in cArc]}
            op["words"] = c["xs"]
        else:
            op["words"] = [data] + c["xs"]
        cert_ops.append(op)
        verdicts.append((v, data, rank))
        mirrors.append((sqa, sqb))
    idx = [i for i, o in enumerate(cert_ops) if o is not None]
    cert = dict(zip(idx, ctx["lean"]([cert_ops[i] for i in idx])))

    # ---- primary oracle: the verified procedure, on the mirror laid out as the real run laid out `simple`
    # (state numbering, alphabet iteration order and dict order of the matrices of THIS hash seed)
    mops, mkey = [], {}

    def model_op(o):
        k = json.dumps(o, sort_keys=True)
        if k not in mkey:
            mkey[k] = len(mops)
            mops.append(o)
        return mkey[k]
    plan = {}
    for k, c in enumerate(cases):
        if mirrors[k] is None:
            continue
        sqa, sqb = mirrors[k]
        for hs in hashseeds:
            res = impl_res[hs].get(c["id"])
            res = res if isinstance(res, dict) and "exc" not in res else {}
            p = {"struct": []}
            lay = {}
            for side, sq in (("a", sqa), ("b", sqb)):
                why, order, arc_order, exact = cmp_simple(res.get("simple_" + side), sq)
                if res:
                    evaluations += 1
                    stats["simple_compared"] += 1
                    if why:
                        p["struct"].append(("simple", f"WFSA.simple of {side}: {why}" + (f" [{res['simple_exc']}]" if "simple_exc" in res else "")))
                    else:
                        traces += 1
                        stats["simple_identical_to_the_rational_mirror" if exact else "simple_within_1e-12"] += 1
                lay[side] = order if order is not None else sq["states"]
            al, real_al = _valid_alphabet(res.get("alphabet"), sqa, sqb)
            if res and not real_al:
                p["struct"].append(("alphabet", f"iteration alphabet: impl {res.get('alphabet')} model {al}"))
            p["real_alphabet"] = real_al
            ce = res.get("ce")
            words = ([ce["word"]] if isinstance(ce, dict) and "word" in ce else []) + c["xs"]
            p["equiv"] = model_op({"op": "tzeng_equiv", "R": "Float", "a": maut_json(dense(sqa, lay["a"])), "b": maut_json(dense(sqb, lay["b"])),
                                   "alphabet": al, "words": words})
            p["nwords"] = len(words)
            # `min`: its own WFSA object in the real run, hence its own layout
            why, order, arc_order, _ = cmp_simple(res.get("min_src"), sqa)
            if res and "min_src" in res and why:
                p["struct"].append(("simple", f"WFSA.simple of a (the object minimised): {why}"))
            p["min_layout"] = why is None
            p["min"] = model_op({"op": "tzeng_min", "R": "Float", "a": maut_json(dense(sqa, order if order is not None else sqa["states"], arc_order)),
                                 "words": c["xs"], "full": True})
            plan[(k, hs)] = p
    model = ctx["lean"](mops)
    stats["model_runs"] = len(mops)
    for L in model:
        if "error" in L:
            raise common.DriverError(L["error"])
        # hypotheses of the theorems that make the answer a verdict
        if not (L.get("a_wf") and L.get("b_wf", True) and L.get("alphabet_complete", True) and L.get("fuel_sufficient")) or L.get("outcome") == "out_of_fuel":
            raise common.DriverError(f"internal: verified procedure run outside its hypotheses: { {k: L.get(k) for k in ('a_wf', 'b_wf', 'alphabet_complete', 'fuel_sufficient', 'outcome')} }")

    for k, c in enumerate(cases):
        kinds[c["kind"]] = kinds.get(c["kind"], 0) + 1
        if k not in cert:
            stats["skipped_singular_eps"] += 1
            continue
        C = cert[k]
        if "error" in C:
            raise common.DriverError(C["error"])
        v, data, rank = verdicts[k]
        # the certified answer of the cross-check path
        if v == "equiv":
            if not C.get("equiv_cert_ok"):
                raise common.DriverError(f"internal: equivalence certificate rejected for case {k}")
        elif common.num(C["wa"][0]) == common.num(C["wb"][0]):
            raise common.DriverError(f"internal: counterexample word does not separate for case {k}")
        if not C.get("rank_lower_ok"):
            raise common.DriverError(f"internal: Hankel certificate rejected for case {k}")
        if C["rank_lower"] != rank:
            raise common.DriverError(f"internal: minor smaller than Hankel rank for case {k}")
        cert_w = [common.num(x) for x in C["wa"][-len(c["xs"]):]]
        # ---- the two paths must agree (verdict, rank, exact weights): otherwise the harness itself is broken
        for hs in hashseeds:
            p = plan[(k, hs)]
            Le, Lm = model[p["equiv"]], model[p["min"]]
            if (Le["outcome"] == "none") != (v == "equiv"):
                raise common.DriverError(f"internal: verified procedure says {Le['outcome']} but the certificate path says {v} for case {k}")
            if Lm["dim"] != rank or Lm["fwd_dim"] < rank or not Lm.get("min_wf"):
                raise common.DriverError(f"internal: minQ has {Lm['dim']} states but the certified Hankel rank is {rank} for case {k}")
            nx = len(c["xs"])
            if ([common.num(x) for x in Lm["wa"]] != cert_w or [common.num(x) for x in Lm["min_weights"]] != cert_w
                    or [common.num(x) for x in Le["wa"][-nx:]] != cert_w):
                raise common.DriverError(f"internal: exact weights of the two constructions of the automaton differ for case {k}")
            if Le["outcome"] == "some":
                w = common.num(Le["va"]), common.num(Le["vb"])
                if w[0] == w[1]:
                    raise common.DriverError(f"internal: model counterexample does not separate for case {k}")
        stats["equivalent" if v == "equiv" else "different"] += 1
        stats["rank_hist"][str(rank)] = stats["rank_hist"].get(str(rank), 0) + 1
        nontrivial.add(hashlib.sha1(json.dumps([c["a"], c["b"]], sort_keys=True).encode()).hexdigest())
        for hs in hashseeds:
            p = plan[(k, hs)]
            Le, Lm = model[p["equiv"]], model[p["min"]]
            equiv = Le["outcome"] == "none"
            res = impl_res[hs].get(c["id"])
            if res is None or "exc" in res:
                semantic.append(_viol(c, hs, "worker", res))
                continue
            for nm, what in p["struct"]:
                structural.append({"op": nm, "what": what, "hashseed": hs, "case": {kk: vv for kk, vv in c.items() if not kk.startswith("_")}})
            well = True
            if not equiv:   # well-conditioned only: a difference below 1e-5 relative is not decidable in floats
                da, db = float(common.num(Le["va"])), float(common.num(Le["vb"]))
                well = abs(da - db) > 1e-5 * max(1.0, abs(da), abs(db))
                if not well:
                    stats["ill_conditioned_pairs"] += 1
            ce = res.get("ce")
            evaluations += 1
            bad = None
            if isinstance(ce, dict) and "exc" in ce:
                bad = ce
            elif equiv:
                # (a) no counterexample iff the verified procedure finds none; (b) == and hash agree with it
                if ce is not None or not res.get("eq") or not res.get("hash_eq"):
                    bad = {"verified_verdict": "equivalent", "impl_counterexample": ce, "eq": res.get("eq"), "hash_eq": res.get("hash_eq")}
            elif well and (ce is None or res.get("eq")):
                bad = {"verified_verdict": "different", "model_counterexample": [Le["word"], Le["va"], Le["vb"]], "impl_counterexample": ce, "eq": res.get("eq")}
            if bad is None and isinstance(ce, dict) and "word" in ce:
                # (a) a returned word is a genuine counterexample with the two weights reported: the model's exact weights of it
                wa, wb = common.num(Le["wa"][0]), common.num(Le["wb"][0])
                evaluations += 1
                if wa == wb or not _fclose(ce["va"], wa, 1e-9, 1e-12) or not _fclose(ce["vb"], wb, 1e-9, 1e-12):
                    bad = {"returned": ce, "verified_weights_of_that_word": [str(wa), str(wb)]}
                elif not equiv and p["real_alphabet"]:
                    # same iteration order: the search of the code and of the model should stop at the same word (recorded, not demanded)
                    stats["word_compared"] += 1
                    if ce["word"] == Le["word"]:
                        stats["word_same_as_model"] += 1
                        traces += 1
                    else:
                        stats["word_differs"] += 1
                        stats.setdefault("word_differs_examples", [])
                        if len(stats["word_differs_examples"]) < 5:
                            stats["word_differs_examples"].append({"case": c["id"], "hashseed": hs, "impl": ce["word"], "model": Le["word"], "alphabet": Le["alphabet"]})
            if bad is not None:
                semantic.append(_viol(c, hs, "counterexample", bad))
            else:
                traces += 1
            # the same verdict every time the long-lived object is asked again, whatever became of earlier partners
            seq = res.get("seq")
            if isinstance(seq, dict):
                semantic.append(_viol(c, hs, "repeat", seq))
            elif isinstance(seq, list):
                evaluations += len(seq)
                stats["repeat_comparisons"] += len(seq)
                got = [[r is None, e] for r, e in seq]
                want = [[ce is None, ce is None] if i % 2 == 0 else [True, True] for i in range(len(seq))]
                if got != want and bad is None:
                    semantic.append(_viol(c, hs, "repeat", {"partners": "b, a, b, a, … (fresh objects, dead after each comparison)", "no_counterexample_and_eq": got, "expected": want}))
                else:
                    traces += 1
            # (c) minimisation
            md = res.get("min_dim")
            evaluations += 1
            stats["min_checked"] += 1
            mw = [common.num(x) for x in Lm["wa"]]
            if isinstance(md, dict):
                semantic.append(_viol(c, hs, "min", md))
            elif md != Lm["dim"] and not (isinstance(md, int) and md < Lm["dim"] and _ill_min(c, Lm["dim"], stats, hs == hashseeds[0])):
                # (a language whose smallest non-zero Hankel singular value is below the real code's np.allclose tolerance is
                #  outside the property's `well-conditioned weights`: there a SMALLER machine that still reproduces the weights is
                #  accepted — the weights are compared just below — and counted; a larger one never is)
                semantic.append(_viol(c, hs, "min", {"min_dim": md, "verified_minimal_dim": Lm["dim"]}))
            elif any(not _fclose(x, y, 1e-6, 1e-8) for x, y in zip(res["min_vals"], mw)):
                semantic.append(_viol(c, hs, "min", {"min_vals": res["min_vals"], "verified_weights": [str(x) for x in mw]}))
            elif any(not _fclose(y, o, 1e-7, 1e-9) for y, o in zip(res["a_vals"], mw)):
                semantic.append(_viol(c, hs, "call", {"a_vals": res["a_vals"], "verified_weights": [str(x) for x in mw]}))
            else:
                traces += 1
                # structural: the minimal automaton and the forward basis themselves (same dict order of the matrices)
                ms = res.get("min_simple")
                if isinstance(ms, dict) and "exc" not in ms and p["min_layout"] and md == Lm["dim"]:
                    evaluations += 1
                    stats["min_automaton_compared"] += 1
                    why, dev = _cmp_maut(ms, Lm["min"], 1e-5, 1e-6)   # float Gram–Schmidt + pinv: observed deviations ≤ 2e-9 on 7 500 runs
                    stats["min_automaton_max_abs_dev"] = max(stats["min_automaton_max_abs_dev"], dev)
                    fbr = res.get("fwd_basis")
                    if why is None and fbr is not None:
                        stats["fwd_basis_compared"] += 1
                        fbm = Lm["fwd_basis"]
                        if len(fbr) != len(fbm) or any(len(r) != len(m) or any(not _fclose(x, common.num(y), 1e-5, 1e-6) for x, y in zip(r, m)) for r, m in zip(fbr, fbm)):
                            why = f"forward_basis: impl {fbr} model {fbm}"
                    if why:
                        structural.append({"op": "min", "what": "Simple.min vs minQ: " + why, "hashseed": hs, "case": {kk: vv for kk, vv in c.items() if not kk.startswith("_")}})
                    else:
                        traces += 1
                elif isinstance(ms, dict) and "exc" in ms:
                    structural.append({"op": "min", "what": f"Simple.min not observable: {ms}", "hashseed": hs, "case": {kk: vv for kk, vv in c.items() if not kk.startswith("_")}})
        if len(samples) < 4:
            L0 = model[plan[(k, hashseeds[0])]["equiv"]]
            r0 = impl_res[hashseeds[0]].get(c["id"])
            samples.append({"a": c["a"], "b": c["b"], "verified": {kk: L0.get(kk) for kk in ("outcome", "word", "va", "vb", "alphabet")}, "cross_check": v,
                            "minimal_dim": rank, "impl": {kk: r0.get(kk) for kk in ("ce", "eq", "hash_eq", "min_dim", "alphabet")} if isinstance(r0, dict) else r0})
    return {
        "evaluations": evaluations, "distinct_nontrivial": len(nontrivial),
        "rule": "seeded pairs of real-weighted automata: equal by construction (renamed, split weights, useless/redundant states), one weight perturbed, "
                "independent, identical, empty language, a foreign symbol (first or after a prefix); fractional (also non-dyadic) weights, ε arcs; "
                "every verdict comes from the verified decision procedure and is cross-checked by a machine-checked certificate",
        "samples": samples, "traces": traces, "semantic": semantic, "structural": structural,
        "extra": {"oracle": ORACLE, "cross_check": "harness/qlinalg.py certificate search + verified checkers equivCertCheck / rankLowerCheck (must agree with the oracle, else exit 2)",
                  "kind_histogram": kinds, "hashseeds": hashseeds, "stats": stats, "cases": len(cases)},
        "assumptions": ["the dense form handed to the verified procedure is built by the harness (simple_q, exact ε-removal) — compared entry by entry with the real WFSA.simple on every case",
                        "pairs that differ by less than 1e-5 relative on the model's separating word are not required to be told apart by the float implementation"],
        "trusted": ["numpy/float behaviour of field_wfsa is modelled, not verified"],
    }


def _viol(c, hs, name, got):
    sig = hashlib.sha1(json.dumps([name, c["a"], c["b"]], sort_keys=True).encode()).hexdigest()[:16]
    cc = {k: v for k, v in c.items() if not k.startswith("_")}
    return {"signature": f"C14:{name}:{sig}", "op": name, "impl": got, "hashseed": hs, "case": cc}
