"""C12 — rational operations implement the algebra of weighted languages.

Semantic oracle: language-level recursion over the expression tree (union = +, concatenation = sum
over splits, plus/star = least solution of P = A + A·P, reverse = reversed string, lift/from_string/
zero/one by definition) on operand weights `PN(leaf, u)` computed by the Lean specification.
Structural: the mirror models `union`, `concat`, `kleenePlus`, `reverse` (for which the exact-length
path identities `union_Pk`, `concat_Pk`, `kleenePlus_Pk`, `reverse_Pk` are proved) against the
machines the real code builds (states decoded through a replay of `rename_apart`'s Integerizer)."""
import hashlib
import json

from harness import common, gen, oracles


def _build(e, R, cls):
    from genlm.grammar.wfsa import base, field_wfsa
    W = field_wfsa.WFSA if cls == "field" else base.WFSA
    Rc = common.semiring(R)
    t = e[0]
    if t == "leaf":
        return common.mk_wfsa(e[1], R, cls)
    if t == "union":
        return _build(e[1], R, cls) + _build(e[2], R, cls)
    if t == "concat":
        return _build(e[1], R, cls) * _build(e[2], R, cls)
    if t == "star":
        return _build(e[1], R, cls).star()
    if t == "plus":
        return _build(e[1], R, cls).kleene_plus()
    if t == "shared":
        # ONE Python object used twice: after `X.star()` / `X.kleene_plus()` the operand X itself must be unchanged
        X = _build(e[2], R, cls)
        if e[1] == "x*star":
            return X * X.star()
        if e[1] == "plus+x":
            P = X.kleene_plus()
            return P + X
        X.star()
        X.kleene_plus()
        return X
    if t == "reverse":
        return _build(e[1], R, cls).reverse
    if t == "rename":
        return _build(e[1], R, cls).rename(lambda q: ("renamed", q))
    if t == "lift":
        return W.lift(common.dec_sym(e[1]), common.mk_w(e[2], R), R=Rc)
    if t == "from_string":
        return W.from_string(tuple(common.dec_sym(s) for s in e[1]), Rc, w=None if e[2] is None else common.mk_w(e[2], R))
    if t == "from_strings":
        return W.from_strings([tuple(common.dec_sym(s) for s in x) for x in e[1]], Rc)
    if t == "zero":
        return W(Rc).zero if cls == "base" else W(Rc).__class__(Rc)
    if t == "one":
        return W(Rc).one if cls == "base" else W.lift("", Rc.one, R=Rc)
    raise ValueError(t)


def _replay_rename_apart(A, B):
    """the state numbering `rename_apart` produces (same traversal order as `rename`)"""
    from arsenal import Integerizer
    f = Integerizer()
    for tag, M in ((0, A), (1, B)):
        for i, _ in M.I:
            f((tag, i))
        for i, _ in M.F:
            f((tag, i))
        for i, _, j, _ in M.arcs():
            f((tag, i))
            f((tag, j))
    return {v: k for k, v in f.items()} if hasattr(f, "items") else {f(k): k for k in list(f._map)}


def impl(case):
    R, cls = case["R"], case["cls"]
    out = {}
    xs = [tuple(common.dec_sym(s) for s in x) for x in case["xs"]]
    try:
        m = _build(case["expr"], R, cls)
        vals = []
        for x in xs:
            try:
                vals.append(common.enc_w(m(x), R))
            except Exception as e:  # noqa
                vals.append({"exc": type(e).__name__, "msg": str(e)[:200]})
        out["vals"] = vals
    except Exception as e:  # noqa
        out["vals"] = {"exc": type(e).__name__, "msg": "build: " + str(e)[:200]}
    # structural: top-level operation on leaf operands
    e = case["expr"]
    if e[0] in ("union", "concat") and e[1][0] == "leaf" and e[2][0] == "leaf":
        try:
            A, B = common.mk_wfsa(e[1][1], R, cls), common.mk_wfsa(e[2][1], R, cls)
            C = (A + B) if e[0] == "union" else (A * B)
            inv = _replay_rename_apart(A, B)
            out["machine"] = common.enc_wfsa(C, R, state=lambda q: common.enc_sym(inv[q]))
        except Exception as ex:  # noqa
            out["machine"] = {"exc": type(ex).__name__, "msg": str(ex)[:200]}
        # an operand that is EXTENDED after it has been used once (build -> combine -> extend -> combine): the second
        # combination must see the operand as it is now, i.e. equal the combination of a machine with the same arcs built from scratch
        try:
            A, B = common.mk_wfsa(e[1][1], R, cls), common.mk_wfsa(e[2][1], R, cls)
            one = common.semiring(R).one
            op = (lambda u, v: u + v) if e[0] == "union" else (lambda u, v: u * v)
            _ = op(A, B), op(B, A)
            a0 = common.dec_sym(e[1][1]["arcs"][0][1]) if e[1][1]["arcs"] else common.dec_sym(case["xs"][-1][0]) if case["xs"] and case["xs"][-1] else ""
            q0 = next((q for q, _ in A.I), None)
            if q0 is not None:
                A.add_arc(q0, a0, "__zz__", one)
                A.add_F("__zz__", one)
                A.add_I("__zz__", one)
                fresh = common.mk_wfsa(common.enc_wfsa(A, R), R, cls)
                L1, L2, R1, R2 = op(A, B), op(fresh, B), op(B, A), op(B, fresh)
                grown = []
                for x in xs[:8]:
                    row = []
                    for m_ in (L1, L2, R1, R2):
                        try:
                            row.append(common.enc_w(m_(x), R))
                        except Exception as ex:  # noqa
                            row.append({"exc": type(ex).__name__, "msg": str(ex)[:200]})
                    grown.append(row)
                out["operand_grown"] = grown
        except Exception as ex:  # noqa
            out["operand_grown"] = {"exc": type(ex).__name__, "msg": str(ex)[:200]}
    elif e[0] in ("plus", "reverse") and e[1][0] == "leaf":
        try:
            A = common.mk_wfsa(e[1][1], R, cls)
            out["machine"] = common.enc_wfsa(A.kleene_plus() if e[0] == "plus" else A.reverse, R)
        except Exception as ex:  # noqa
            out["machine"] = {"exc": type(ex).__name__, "msg": str(ex)[:200]}
    return out


# ---------------------------------------------------------------- oracle (language level)
class Alg:
    def __init__(self, R):
        self.R = R
        if R == "Boolean":
            self.zero, self.one, self.add, self.mul = False, True, (lambda a, b: a or b), (lambda a, b: a and b)
        elif R == "MaxTimes":
            self.zero, self.one, self.add, self.mul = 0, 1, max, (lambda a, b: a * b)
        else:
            self.zero, self.one, self.add, self.mul = 0, 1, (lambda a, b: a + b), (lambda a, b: a * b)


def ev(e, x, leafw, alg, memo):
    key = (id(e), tuple(x))
    if key in memo:
        return memo[key]
    t = e[0]
    x = list(x)
    if t == "leaf":
        r = leafw[id(e)][tuple(x)]
    elif t == "union":
        r = alg.add(ev(e[1], x, leafw, alg, memo), ev(e[2], x, leafw, alg, memo))
    elif t == "concat":
        r = alg.zero
        for k in range(len(x) + 1):
            r = alg.add(r, alg.mul(ev(e[1], x[:k], leafw, alg, memo), ev(e[2], x[k:], leafw, alg, memo)))
    elif t in ("plus", "star"):
        r = plus(e[1], x, leafw, alg, memo)
        if t == "star" and not x:
            r = alg.add(alg.one, r)
    elif t == "shared":
        a = e[2]
        if e[1] == "x*star":
            r = alg.zero
            for k in range(len(x) + 1):
                st = plus(a, x[k:], leafw, alg, memo)
                if k == len(x):
                    st = alg.add(alg.one, st)
                r = alg.add(r, alg.mul(ev(a, x[:k], leafw, alg, memo), st))
        elif e[1] == "plus+x":
            r = alg.add(plus(a, x, leafw, alg, memo), ev(a, x, leafw, alg, memo))
        else:
            r = ev(a, x, leafw, alg, memo)
    elif t == "reverse":
        r = ev(e[1], x[::-1], leafw, alg, memo)
    elif t == "rename":
        r = ev(e[1], x, leafw, alg, memo)
    elif t == "lift":
        target = [] if e[1] == "" else [e[1]]
        r = _w(e[2], alg) if x == target else alg.zero
    elif t == "from_string":
        r = (alg.one if e[2] is None else _w(e[2], alg)) if x == list(e[1]) else alg.zero
    elif t == "from_strings":
        r = alg.one if any(x == list(s) for s in e[1]) else alg.zero
    elif t == "zero":
        r = alg.zero
    elif t == "one":
        r = alg.one if not x else alg.zero
    else:
        raise ValueError(t)
    memo[key] = r
    return r


def _w(w, alg):
    return bool(w) if alg.R == "Boolean" else common.num(w)


def plus(e, x, leafw, alg, memo):
    """least solution of P(x) = A(x) + Σ_{x=uv} A(u) P(v)"""
    key = ("plus", id(e), tuple(x))
    if key in memo:
        return memo[key]
    a_eps = ev(e, [], leafw, alg, memo)
    rhs = ev(e, x, leafw, alg, memo)
    for k in range(1, len(x) + 1):
        rhs = alg.add(rhs, alg.mul(ev(e, x[:k], leafw, alg, memo), plus(e, x[k:], leafw, alg, memo)))
    if alg.R in ("Boolean", "MaxTimes"):
        r = rhs                      # the A(ε)·P(x) term cannot increase an idempotent sum with A(ε) ≤ 1
    else:
        if abs(a_eps) >= 0.75:
            raise ZeroDivisionError("star of an operand whose empty-string weight is (close to) ≥ 1 diverges: outside the property")
        r = rhs / (1 - a_eps)        # geometric series in A(ε)
    memo[key] = r
    return r


def leaves(e, acc):
    if e[0] == "leaf":
        acc.append(e)
    else:
        for s in e[1:]:
            if isinstance(s, list) and s and isinstance(s[0], str) and s[0] in ("leaf", "union", "concat", "star", "plus", "reverse", "rename", "shared", "lift", "from_string", "from_strings", "zero", "one"):
                leaves(s, acc)
    return acc


def gen_expr(rng, depth, syms, R):
    def leaf():
        d, _ = gen.gen_wfsa(rng, nstates=rng.choice([1, 2, 2, 3]), nsyms=len(syms))
        d["syms"] = syms
        if R == "Boolean":
            d = gen.wfsa_to_bool(d)
        k = rng.random()
        if k < 0.15:
            # state names that look like the tags `rename_apart` creates
            ren = lambda q: [1, q]  # noqa
            d = {**d, "start": [[ren(q), w] for q, w in d["start"]], "stop": [[ren(q), w] for q, w in d["stop"]], "arcs": [[ren(a), b, ren(c), w] for a, b, c, w in d["arcs"]]}
        elif k < 0.3 and d["start"] and d["stop"]:
            # an ε arc from a final state back to an initial state already present in the operand
            d["arcs"].append([d["stop"][0][0], "", d["start"][0][0], common.frac_str(rng.choice(gen.SMALL) / 2) if R != "Boolean" else True])
        if R == "MaxTimes":
            f = lambda w: w if common.num(w) <= 1 else "1"  # noqa
            d = {**d, "start": [[q, f(w)] for q, w in d["start"]], "stop": [[q, f(w)] for q, w in d["stop"]], "arcs": [[a, b, c, f(w)] for a, b, c, w in d["arcs"]]}
        return ["leaf", d]
    w = (lambda: True) if R == "Boolean" else (lambda: common.frac_str(rng.choice(gen.SMALL)))
    if depth == 0 or rng.random() < 0.2:
        k = rng.random()
        if k < 0.6:
            return leaf()
        if k < 0.7:
            return ["lift", rng.choice(syms + [""]), w()]
        if k < 0.8:
            return ["from_string", [rng.choice(syms) for _ in range(rng.randint(0, 3))], rng.choice([None, w()])]
        if k < 0.9:
            return ["from_strings", [[rng.choice(syms) for _ in range(rng.randint(0, 3))] for _ in range(rng.randint(1, 3))]]
        return [rng.choice(["zero", "one"])]
    op = rng.choice(["union", "concat", "concat", "star", "plus", "reverse", "rename", "shared"])
    if op == "shared":
        return ["shared", rng.choice(["x*star", "plus+x", "star;x"]), gen_expr(rng, depth - 1, syms, R)]
    if op in ("union", "concat"):
        return [op, gen_expr(rng, depth - 1, syms, R), gen_expr(rng, depth - 1, syms, R)]
    return [op, gen_expr(rng, depth - 1, syms, R)]


def make_case(rng, i, tier):
    R = rng.choice(["Float", "Float", "Float", "Real", "Boolean", "MaxTimes"])
    syms = gen.TERMS[: rng.choice([1, 2, 2])]
    expr = gen_expr(rng, rng.choice([1, 1, 2]) if tier == "quick" else rng.choice([1, 2, 2, 3]), syms, R)
    xs = gen.all_strings(syms, 2 if len(syms) > 1 else 3)
    for _ in range(2):
        xs.append([rng.choice(syms) for _ in range(3)])
    seen, ys = set(), []
    for x in xs:
        if tuple(x) not in seen:
            seen.add(tuple(x))
            ys.append(x)
    return {"id": i, "R": R, "cls": "field" if R == "Float" and rng.random() < 0.6 else "base", "expr": expr, "xs": ys}


def run(ctx):
    rng, tier = ctx["rng"], ctx["tier"]
    n = int((200 if tier == "quick" else 4000) * ctx.get("mult", 1))
    hashseeds = [0, 1] if tier == "quick" else [0, 1, 2, 3]
    if ctx.get("replay"):
        cases = [f["case"] for f in ctx["replay"]["failing"] if "case" in f]
    else:
        cases = [make_case(rng, i, tier) for i in range(n)]
    for i, c in enumerate(cases):
        c["id"] = i
    impl_res = ctx["run_impl"](cases, hashseeds, 60)
    # operand weights from the Lean oracle on every infix of every string and its reverse
    items, owner = [], []
    for c in cases:
        U = set()
        for x in c["xs"]:
            for y in (x, x[::-1]):
                for a in range(len(y) + 1):
                    for b in range(a, len(y) + 1):
                        U.add(tuple(y[a:b]))
        c["_U"] = sorted(U)
        for lf in leaves(c["expr"], []):
            items.append((lf[1], c["R"], [list(u) for u in c["_U"]]))
            owner.append((c["id"], id(lf)))
    pn = oracles.pn_eval(ctx, items)
    leafw = {}
    unconv = set()
    for (cid, lid), (vals, conv, deep), it in zip(owner, pn, items):
        leafw.setdefault(cid, {})[lid] = {tuple(u): (bool(v) if it[1] == "Boolean" else v) for u, v in zip(it[2], vals)}
        if not all(conv):
            unconv.add(cid)
    # structural ops
    sops, sidx = [], []
    for c in cases:
        r0 = impl_res[hashseeds[0]].get(c["id"]) or {}
        mc = r0.get("machine")
        e = c["expr"]
        if isinstance(mc, dict) and "arcs" in mc:
            name = {"union": "union", "concat": "concat", "plus": "kleene_plus", "reverse": "reverse"}[e[0]]
            op = {"op": "wfsa_op", "R": c["R"], "name": name, "a": e[1][1]}
            if e[0] in ("union", "concat"):
                op["b"] = e[2][1]
            sops.append(op)
            sidx.append((c, mc, name))
    semantic, structural, samples = [], [], []
    evaluations = traces = 0
    nontrivial = set()
    ops_hist = {}
    stats = {"unconverged_cases": len(unconv), "structural": 0, "divergent_star_skipped": 0}
    for (c, mc, name), r in zip(sidx, ctx["lean"](sops)):
        if "error" in r:
            raise common.DriverError(r["error"])
        stats["structural"] += 1
        evaluations += 1
        ok, why = common.same_wfsa(r, mc, R=c["R"])
        if not ok:
            structural.append({"op": name, "what": why, "model": r, "impl": mc, "case_id": c["id"], "expr": c["expr"]})
        else:
            traces += 1
    for c in cases:
        ops_hist[c["expr"][0]] = ops_hist.get(c["expr"][0], 0) + 1
        if c["id"] in unconv:
            continue
        alg = Alg(c["R"])
        try:
            memo = {}
            oracle = [ev(c["expr"], x, leafw.get(c["id"], {}), alg, memo) for x in c["xs"]]
        except ZeroDivisionError:
            stats["divergent_star_skipped"] += 1
            continue
        # star of something whose ε-weight is ≥ 1/2 converges too slowly/diverges for the real code's closure: skip
        bad = False
        for k, v in memo.items():
            pass
        nz = sum(1 for o in oracle if o not in (0, False))
        if nz and nz < len(oracle):
            nontrivial.add(hashlib.sha1(json.dumps([c["expr"], c["R"]], sort_keys=True, default=str).encode()).hexdigest())
        tol = 1e-7 if c["R"] in ("Float", "Real") else 1e-9
        for hs in hashseeds:
            res = impl_res[hs].get(c["id"])
            if res is None or "exc" in res:
                semantic.append(_viol(c, hs, None, None, res))
                continue
            if isinstance(res["vals"], dict):
                semantic.append(_viol(c, hs, None, None, res["vals"]))
                continue
            og = res.get("operand_grown")
            if isinstance(og, dict):
                semantic.append(_viol(c, hs, "operand_grown", None, og))
            elif og:
                for x, row in zip(c["xs"][:8], og):
                    for (ia, ib, what) in ((0, 1, "extended operand on the left"), (2, 3, "extended operand on the right")):
                        a_, b_ = row[ia], row[ib]
                        evaluations += 1
                        if isinstance(a_, dict) or isinstance(b_, dict):
                            if not (isinstance(a_, dict) and isinstance(b_, dict)):
                                semantic.append(_viol(c, hs, ["operand_grown", x], b_, {"what": what, "reused_object": a_, "same_arcs_built_from_scratch": b_}))
                        elif not common.close(common.num(a_), common.num(b_), tol, 1e-10):
                            semantic.append(_viol(c, hs, ["operand_grown", x], b_, {"what": what, "reused_object": a_, "same_arcs_built_from_scratch": b_}))
                        else:
                            traces += 1
            for x, v, o in zip(c["xs"], res["vals"], oracle):
                evaluations += 1
                if isinstance(v, dict) or not common.close(common.num(v), o, tol, 1e-10):
                    semantic.append(_viol(c, hs, x, o, v))
                else:
                    traces += 1
        if len(samples) < 4 and nz and c["expr"][0] != "leaf":
            samples.append({"expr": c["expr"], "R": c["R"], "xs": c["xs"][:4], "oracle": [str(o) for o in oracle[:4]],
                            "impl": (impl_res[hashseeds[0]].get(c["id"]) or {}).get("vals", [])[:4]})
    for c in cases:
        c.pop("_U", None)
    return {
        "evaluations": evaluations, "distinct_nontrivial": len(nontrivial),
        "rule": "seeded random expression trees (depth ≤ 2 quick / 3 thorough) over union, concatenation, star, plus, reverse, rename, lift, from_string(s), "
                "zero, one with random operand automata (ε arcs, several initial/final states) x semiring x all short strings; non-trivial = distinct "
                "expressions with an accepted and a rejected string",
        "samples": samples, "traces": traces, "semantic": semantic, "structural": structural,
        "extra": {"top_level_ops": ops_hist, "hashseeds": hashseeds, "stats": stats, "cases": len(cases)},
        "assumptions": ["operands with ε cycles are evaluated by a deep IEEE truncation; cases whose operand weights did not converge are skipped (counted)"],
    }


def _viol(c, hs, x, oracle, got):
    sig = hashlib.sha1(json.dumps([c["expr"], x, c["R"]], sort_keys=True, default=str).encode()).hexdigest()[:16]
    cc = {k: v for k, v in c.items() if not k.startswith("_")}
    return {"signature": f"C12:{sig}", "op": c["expr"][0], "x": x, "oracle": str(oracle), "impl": got, "hashseed": hs, "case": cc}
