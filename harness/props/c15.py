"""C15 — the algebraic path solver computes closures and least solutions.

Semantic oracle: entry (i, j) of the closure = total weight of all paths from i to j = the Lean
path-sum specification `PN` on the graph read as an ε-labelled automaton (exact for acyclic graphs
and idempotent semirings, deep IEEE truncation with geometric tail otherwise); the solvers are
`b·A*` / `A*·b`.  The component decomposition is decided by the verified checker `sccCheck`
(`sccCheck_iff`: true ⇔ the blocks are exactly the SCCs in an order compatible with the edges).
Structural: the proved model `tarjan` of `scc_decomposition` (Model/Tarjan.lean, `tarjan_correct`) is run on the iteration orders of
`G.N` and `G.incoming[v]` observed in the worker right before `G.blocks`, and must emit the same components in the same order, under every
hash seed; the mirror models `closureScc`, `closureRef` (Lehmann), `solveLeft`, `solveRight` run on the
implementation's own blocks (`solveLeft_eq`, `solveRight_eq`, `lehmann_closed` are proved)."""
import hashlib
import json
from fractions import Fraction

from harness import common, gen, oracles


def impl(case):
    from genlm.grammar.linear import WeightedGraph
    R = case["R"]
    Rc = common.semiring(R)
    out = {}

    def mk():
        G = WeightedGraph(Rc)
        for i, j, w in case["edges"]:
            G[common.dec_sym(i), common.dec_sym(j)] += common.mk_w(w, R)
        G.N |= {common.dec_sym(q) for q in case["nodes"]}
        return G
    G = mk()
    try:
        # the iteration orders Tarjan is about to see (same object, same process, read BEFORE `G.blocks` runs it)
        out["tarjan"] = common.tarjan_observe(G)
        out["blocks"] = [sorted((common.enc_sym(q) for q in blk), key=common.symkey) for blk in G.blocks]
        out["edges"] = [[common.enc_sym(i), common.enc_sym(j), common.enc_w(w, R)] for (i, j), w in G.E.items()]
    except Exception as e:  # noqa
        out["blocks"] = {"exc": type(e).__name__, "msg": str(e)[:200]}
        return out

    def chart2(f):
        try:
            ch = f()
            return [[common.enc_sym(k[0]), common.enc_sym(k[1]), common.enc_w(v, R)] for k, v in ch.items()]
        except Exception as e:  # noqa
            return {"exc": type(e).__name__, "msg": str(e)[:200]}

    def chart1(f):
        try:
            ch = f()
            return [[common.enc_sym(k), common.enc_w(v, R)] for k, v in ch.items()]
        except Exception as e:  # noqa
            return {"exc": type(e).__name__, "msg": str(e)[:200]}
    out["closure_scc"] = chart2(lambda: mk().closure_scc_based())
    # the caller EDITS the closure it was handed (e.g. K[i,i] -= 1 to get A+) and asks the same graph object again
    def closure_again():
        g_ = mk()
        K = g_.closure_scc_based()
        for key in list(K):
            K[key] = Rc.zero
        return g_.closure_scc_based()
    out["closure_scc_again"] = chart2(closure_again)
    out["closure_ref"] = chart2(lambda: mk().closure_reference())
    b = Rc.chart()
    for q, w in case["b"]:
        b[common.dec_sym(q)] += common.mk_w(w, R)
    out["solve_left"] = chart1(lambda: mk().solve_left(b))
    out["solve_right"] = chart1(lambda: mk().solve_right(b))
    return out


def make_case(rng, i, tier):
    R = rng.choice(["Float", "Float", "Real", "Boolean", "MaxTimes", "Lang"])
    n = rng.choice([1, 2, 3, 4, 5] if tier == "quick" else [2, 3, 4, 5, 6, 7, 8])
    shape = rng.choice(["random", "self_loops", "nested_cycles", "components", "isolated", "dag", "chain_of_cycles"])
    nodes = [f"v{k}" for k in range(n)]
    W = gen.SMALL
    edges = []
    if shape in ("random", "self_loops", "isolated", "components"):
        for _ in range(rng.randint(n, 2 * n + 1)):
            i, j = rng.randrange(n), rng.randrange(n)
            if shape == "components" and (i < n // 2) != (j < n // 2):
                continue
            if shape == "isolated" and (i == n - 1 or j == n - 1):
                continue
            edges.append([nodes[i], nodes[j], rng.choice(W)])
        if shape == "self_loops":
            for q in nodes:
                edges.append([q, q, rng.choice(W)])
    elif shape == "dag":
        for _ in range(rng.randint(n, 2 * n)):
            i, j = sorted((rng.randrange(n), rng.randrange(n)))
            if i != j:
                edges.append([nodes[i], nodes[j], rng.choice(W + [Fraction(1), Fraction(2)])])
    elif shape == "nested_cycles":
        for k in range(n):
            edges.append([nodes[k], nodes[(k + 1) % n], rng.choice(W)])
        for _ in range(n):
            i, j = rng.randrange(n), rng.randrange(n)
            edges.append([nodes[i], nodes[j], rng.choice(W)])
    else:  # chain_of_cycles
        for k in range(0, n - 1, 2):
            edges.append([nodes[k], nodes[k + 1], rng.choice(W)])
            edges.append([nodes[k + 1], nodes[k], rng.choice(W)])
            if k + 2 < n:
                edges.append([nodes[k + 1], nodes[k + 2], rng.choice(W)])
    # rows ≤ 3/4: geometric convergence of the path sums
    for _ in range(12):
        rows = {}
        for a, b_, w in edges:
            rows[a] = rows.get(a, 0) + w
        bad = {a for a, v in rows.items() if v > Fraction(3, 4)}
        if not bad or shape == "dag":
            break
        for e in edges:
            if e[0] in bad:
                e[2] = e[2] / 2
    if R in ("Float", "Real") and edges and rng.random() < 0.25:
        # weights of both signs: an edge whose accumulated weight cancels to zero, and a negative edge
        a0, b0, w0 = rng.choice(edges)
        edges.append([rng.choice(nodes), rng.choice(nodes), Fraction(1, 4)])
        edges.append([edges[-1][0], edges[-1][1], Fraction(-1, 4)])
        edges.append([a0, b0, -w0 / 2])
        shape += "+cancelling"
    bsigned = []
    if R in ("Float", "Real") and rng.random() < 0.2:
        # a strongly connected block {p, q} with ASYMMETRIC inner weights that is entered (from a source node and from
        # the right-hand side) at both of its nodes with weights that cancel: +w into p, -w into q — each entering
        # weight is non-zero, only their sum is zero, and the path sums through the block do not vanish
        p_, q_, s_, t_ = "cp", "cq", "cs", "ct"
        w = rng.choice([Fraction(1, 4), Fraction(1, 2)])
        edges += [[p_, q_, Fraction(1, 2)], [q_, p_, Fraction(1, 4)], [s_, p_, w], [s_, q_, -w], [q_, t_, Fraction(1, 2)]]
        if rng.random() < 0.5:
            edges.append([p_, t_, Fraction(1, 4)])
        if nodes and rng.random() < 0.5:
            edges.append([rng.choice(nodes), s_, Fraction(1, 4)])
        nodes = nodes + [p_, q_, s_, t_]
        n = len(nodes)
        bsigned = [[p_, w], [q_, -w]]
        shape += "+cancelling_entry"
    rng.shuffle(nodes)
    b = [[q, rng.choice(W + [Fraction(1)])] for q in rng.sample(nodes, rng.randint(1, n))]
    if bsigned:
        b = [e for e in b if e[0] not in ("cp", "cq")] + bsigned
    enc = (lambda w: True) if R == "Boolean" else common.frac_str
    if R == "Lang":
        letters = iter("abcdefghijklmnopqrstuvwxyz" * 4)
        enc = lambda w: [next(letters)]  # noqa: every edge / right-hand side entry gets its own one-letter language
    return {"id": i, "shape": shape, "R": R, "nodes": nodes, "edges": [[a, c, enc(w)] for a, c, w in edges], "b": [[q, enc(w)] for q, w in b]}


def run(ctx):
    rng, tier = ctx["rng"], ctx["tier"]
    n = int((150 if tier == "quick" else 4000) * ctx.get("mult", 1))
    hashseeds = [0, 1, 2] if tier == "quick" else list(range(6))
    if ctx.get("replay"):
        cases = [f["case"] for f in ctx["replay"]["failing"] if "case" in f]
    else:
        cases = [make_case(rng, i, tier) for i in range(n)]
    for i, c in enumerate(cases):
        c["id"] = i
    impl_res = ctx["run_impl"](cases, hashseeds, 30)
    # closure oracle: one ε-machine per source node, all target nodes as separate runs → use start i, stop j
    items, owner = [], []
    for c in cases:
        for i in c["nodes"]:
            for j in c["nodes"]:
                one = True if c["R"] == "Boolean" else ([""] if c["R"] == "Lang" else "1")
                d = {"start": [[i, one]], "stop": [[j, one]], "arcs": [[a, "", b, w] for a, b, w in c["edges"]]}
                items.append((d, c["R"], [[]]))
                owner.append((c["id"], i, j))
    # pn_eval treats ε-cyclic machines as deep; acyclic/idempotent exact
    pn = oracles.pn_eval(ctx, items)
    clo = {}
    for (cid, i, j), (vals, conv, deep) in zip(owner, pn):
        clo.setdefault(cid, {})[(i, j)] = (vals[0], conv[0])
    semantic, structural, samples = [], [], []
    evaluations = traces = 0
    nontrivial = set()
    shapes = {}
    stats = {"multi_node_blocks": 0, "blocks": 0, "unconverged": 0, "structural": 0, "tarjan_runs": 0, "tarjan_multi_node_blocks": 0}
    lops, lidx = [], []
    for c in cases:
        shapes[c["shape"]] = shapes.get(c["shape"], 0) + 1
        r0 = impl_res[hashseeds[0]].get(c["id"])
        if r0 and isinstance(r0.get("blocks"), list):
            lops.append({"op": "linear", "R": c["R"], "nodes": c["nodes"], "edges": r0["edges"], "blocks": r0["blocks"], "b": c["b"]})
            lidx.append(c)
    lean = {c["id"]: r for c, r in zip(lidx, ctx["lean"](lops))}
    # the proved model of `scc_decomposition` run on the iteration orders observed in each worker process (every hash seed):
    # it must emit the SAME components in the SAME order as the real `G.blocks`
    tops, tidx = [], []
    for c in cases:
        for hs in hashseeds:
            r = impl_res[hs].get(c["id"])
            if r and isinstance(r.get("blocks"), list) and "tarjan" in r:
                tops.append(common.tarjan_op(r["tarjan"]))
                tidx.append((c, hs, r))
    for (c, hs, r), m in zip(tidx, ctx["lean"](tops)):
        evaluations += 1
        stats["tarjan_runs"] += 1
        ok, why = common.tarjan_same(m, r["blocks"])
        if ok:
            traces += 1
            stats["tarjan_multi_node_blocks"] += sum(1 for b in r["blocks"] if len(b) > 1)
        else:
            structural.append({"op": "scc_decomposition", "what": why, "orders": r["tarjan"], "model": m.get("blocks"), "impl": r["blocks"],
                               "case_id": c["id"], "hashseed": hs, "case": c})
    alg_add = {"Boolean": (lambda a, b: a or b), "MaxTimes": max, "Lang": (lambda a, b: sorted(set(a) | set(b)))}

    def lmul(a, b):
        return sorted({u + v for u in a for v in b if len(u + v) <= 3})
    for c in cases:
        R = c["R"]
        add = alg_add.get(R, lambda a, b: a + b)
        zero = False if R == "Boolean" else ([] if R == "Lang" else 0)
        K = clo[c["id"]]
        tol = 1e-7 if R in ("Float", "Real") else 1e-9
        bvec = {}
        for q, w in c["b"]:
            bvec[q] = add(bvec.get(q, zero), (bool(w) if R == "Boolean" else (list(w) if R == "Lang" else common.num(w))))
        for hs in hashseeds:
            res = impl_res[hs].get(c["id"])
            if res is None or "exc" in res:
                semantic.append(_viol(c, hs, "worker", res))
                continue
            if isinstance(res["blocks"], dict):
                semantic.append(_viol(c, hs, "blocks", res["blocks"]))
                continue
            # blocks: verified checker (run on hashseed 0's blocks by the driver; other seeds compared as partitions+order validity below)
            if hs == hashseeds[0]:
                L = lean[c["id"]]
                if "error" in L:
                    raise common.DriverError(L["error"])
                evaluations += 1
                stats["blocks"] += len(res["blocks"])
                stats["multi_node_blocks"] += sum(1 for b in res["blocks"] if len(b) > 1)
                if not L["scc_ok"]:
                    semantic.append(_viol(c, hs, "blocks", {"blocks": res["blocks"], "verdict": "not the SCC decomposition in edge-compatible order"}))
                else:
                    traces += 1
                if not L["divergent"]:
                    for name in ("closure_scc", "closure_ref", "closure_scc_again"):
                        if isinstance(res[name], dict):
                            continue
                        stats["structural"] += 1
                        evaluations += 1
                        Lm = L["closure_scc" if name == "closure_scc_again" else name]     # asked again: the same closure
                        ok, why = _same_chart(Lm, res[name], 2, R)
                        if not ok:
                            structural.append({"op": name, "what": why, "model": Lm, "impl": res[name], "case_id": c["id"]})
                        else:
                            traces += 1
                    for name in ("solve_left", "solve_right"):
                        if isinstance(res[name], dict):
                            continue
                        stats["structural"] += 1
                        evaluations += 1
                        ok, why = _same_chart(L[name], res[name], 1, R)
                        if not ok:
                            structural.append({"op": name, "what": why, "model": L[name], "impl": res[name], "case_id": c["id"]})
                        else:
                            traces += 1
            else:
                r0 = impl_res[hashseeds[0]].get(c["id"])
                if r0 and isinstance(r0.get("blocks"), list) and sorted(map(json.dumps, res["blocks"])) != sorted(map(json.dumps, r0["blocks"])):
                    semantic.append(_viol(c, hs, "blocks", {"blocks": res["blocks"], "other_seed": r0["blocks"]}))
            # closures against the path-sum oracle
            for name in ("closure_scc", "closure_ref", "closure_scc_again"):
                ch = res[name]
                if isinstance(ch, dict):
                    semantic.append(_viol(c, hs, name, ch))
                    continue
                got = {(json.dumps(a), json.dumps(b)): (v if R == "Lang" else common.num(v)) for a, b, v in ch}
                for (i, j), (o, cv) in K.items():
                    evaluations += 1
                    if not cv:
                        stats["unconverged"] += 1
                        continue
                    g = got.get((json.dumps(i), json.dumps(j)), zero)
                    if (sorted(g) != sorted(o)) if R == "Lang" else (not common.close(g, o, tol, 1e-10)):
                        semantic.append(_viol(c, hs, name, {"entry": [i, j], "impl": str(g), "sum_of_all_paths": str(o)}))
                    else:
                        traces += 1
            for name, left in (("solve_left", True), ("solve_right", False)):
                ch = res[name]
                if isinstance(ch, dict):
                    semantic.append(_viol(c, hs, name, ch))
                    continue
                got = {json.dumps(a): (v if R == "Lang" else common.num(v)) for a, v in ch}
                for k in c["nodes"]:
                    o, ok = zero, True
                    for i in c["nodes"]:
                        kv, cv = K[(i, k)] if left else K[(k, i)]
                        ok = ok and cv
                        bi = bvec.get(i, zero)
                        if R == "Lang":
                            term = lmul(bi, kv) if left else lmul(kv, bi)     # x = xA + b: b on the left; x = Ax + b: b on the right
                        else:
                            term = (bi and bool(kv)) if R == "Boolean" else bi * kv
                        o = add(o, term)
                    evaluations += 1
                    if not ok:
                        continue
                    gk = got.get(json.dumps(k), zero)
                    if (sorted(gk) != sorted(o)) if R == "Lang" else (not common.close(gk, o, tol, 1e-10)):
                        semantic.append(_viol(c, hs, name, {"node": k, "impl": str(got.get(json.dumps(k), zero)), "least_solution": str(o)}))
                    else:
                        traces += 1
        if len(c["edges"]) >= 2:
            nontrivial.add(hashlib.sha1(json.dumps([c["nodes"], c["edges"], c["R"]], sort_keys=True).encode()).hexdigest())
        if len(samples) < 3 and len(c["nodes"]) >= 3:
            samples.append({"nodes": c["nodes"], "edges": c["edges"], "R": R, "impl_blocks": (impl_res[hashseeds[0]].get(c["id"]) or {}).get("blocks"),
                            "oracle_closure_row0": {json.dumps(k): str(v[0]) for k, v in list(K.items())[:len(c["nodes"])]}})
    return {
        "evaluations": evaluations, "distinct_nontrivial": len(nontrivial),
        "rule": "seeded weighted graphs (self loops, nested cycles, chains of cycles, several components, isolated nodes, DAGs; rows ≤ 3/4) x right-hand sides x "
                "semiring x hash seeds; non-trivial = distinct graphs with at least two edges",
        "samples": samples, "traces": traces, "semantic": semantic, "structural": structural,
        "extra": {"shape_histogram": shapes, "hashseeds": hashseeds, "stats": stats, "cases": len(cases)},
        "assumptions": ["cyclic graphs over Float/Real: path sums truncated at 120 arcs in IEEE arithmetic, compared with rtol 1e-7 where the truncations at 120 and 60 agree to 1e-12"],
        "trusted": ["Tarjan's algorithm: the proved model `tarjan` (tarjan_correct, every iteration order) is run on the iteration orders of "
                    "`G.N` / `G.incoming[v]` observed in each worker and must emit the real `blocks` (same components, same order); the real "
                    "blocks are also decided by the verified checker sccCheck"],
    }


def _same_chart(model, impl_, arity, R):
    def canon(items):
        d = {}
        for it in items:
            k = json.dumps(it[:arity])
            w = it[arity]
            if R == "Lang":
                d[k] = sorted(set(d.get(k, [])) | set(w))
                continue
            if isinstance(w, bool):
                d[k] = d.get(k, False) or w
            elif R == "MaxTimes":
                d[k] = max(d.get(k, 0), common.num(w))
            else:
                d[k] = d.get(k, 0) + common.num(w)
        return {k: v for k, v in d.items() if v not in (0, False, [])}
    a, b = canon(model), canon(impl_)
    if set(a) != set(b):
        return False, f"keys differ: only-model {sorted(set(a) - set(b))[:3]} only-impl {sorted(set(b) - set(a))[:3]}"
    for k in a:
        if (a[k] != b[k]) if R == "Lang" else (not common.close(a[k], b[k], 1e-9, 1e-12)):
            return False, f"{k}: model {a[k]} impl {b[k]}"
    return True, ""


def _viol(c, hs, name, got):
    sig = hashlib.sha1(json.dumps([name, c["nodes"], c["edges"], c["b"], c["R"]], sort_keys=True).encode()).hexdigest()[:16]
    return {"signature": f"C15:{name}:{sig}", "op": name, "impl": got, "hashseed": hs, "case": c}
