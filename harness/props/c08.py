"""C08 — total weights are the least solution of the grammar equations.

Oracle: the Lean Kleene iterates `ZN G n X` (n-th iterate of the grammar's polynomial system from
zero = sum of the weights of the derivation trees of height ≤ n), exact when stationary, deep IEEE
truncation otherwise; the Expectation leg through the proved `expectation_lifting` model.
Structural: the blocks of `cfg.dependency_graph()` (the order in which `agenda` solves) against the proved model `tarjan` of
`scc_decomposition` (Model/Tarjan.lean, `tarjan_correct`), run on the set iteration orders observed in the worker, under every hash seed."""
import hashlib
import json
import struct

from harness import common, gen


def impl(case):
    R = case["R"]
    g = common.mk_cfg(case["cfg"], R)
    out = {}

    def chart(name, f):
        try:
            ch = f()
            out[name] = [[common.enc_sym(k), common.enc_w(v, R)] for k, v in ch.items()]
        except Exception as e:  # noqa
            out[name] = {"exc": type(e).__name__, "msg": str(e)[:200]}
    chart("agenda", lambda: g.agenda())
    chart("naive", lambda: g.naive_bottom_up())
    # the caller EDITS the charts it was handed (normalising in place, deleting entries) and asks the same object again
    def again(f):
        def run_():
            z = f()
            zero_ = common.semiring(R).zero
            for k_ in list(z):
                z[k_] = zero_
            return f()
        return run_
    g2, g3 = common.mk_cfg(case["cfg"], R), common.mk_cfg(case["cfg"], R)   # fresh objects: the FIRST chart they hand out is the one edited
    chart("agenda_again", again(lambda: g2.agenda()))
    chart("naive_again", again(lambda: g3.naive_bottom_up()))
    chart("agenda_again2", again(lambda: g.agenda()))
    # the same grammar object GROWN after a first evaluation: a prefix of the rule list is evaluated, the remaining
    # rules are added with `add`, and the evaluators run again (anything memoised per object must follow the rule list)
    k = case.get("split")
    if k is not None:
        def grown():
            part = dict(case["cfg"], rules=case["cfg"]["rules"][:k])
            h = common.mk_cfg(part, R)
            try:
                h.agenda(); h.naive_bottom_up(); h.treesum(); h.trim(); h.cotrim()
            except Exception:  # noqa  (the partial grammar may diverge or be empty: only the final answer is compared)
                pass
            for w, hd, b in case["cfg"]["rules"][k:]:
                h.add(common.mk_w(w, R), common.dec_sym(hd), *[common.dec_sym(y) for y in b])
            return h
        chart("agenda_grown", lambda: grown().agenda())
        chart("naive_grown", lambda: grown().naive_bottom_up())
        try:
            out["treesum_grown"] = common.enc_w(grown().treesum(), R)
        except Exception as e:  # noqa
            out["treesum_grown"] = {"exc": type(e).__name__, "msg": str(e)[:200]}
    # a TRUNCATED evaluation (`maxiter` small) stops each strongly connected block early, but a nonterminal that is not recursive
    # is a block of its own and is evaluated in one step from the (possibly truncated) values below it: its entry must equal
    # the sum over its rules of weight x product of the chart entries of the body — whatever happened in the earlier blocks
    if R in ("Float", "Real"):
        try:
            fl = lambda v: float(v.score if hasattr(v, "score") else v)   # noqa
            g4 = common.mk_cfg(case["cfg"], R)
            succ = {X: set() for X in g4.N}
            for r in g4.rules:
                succ[r.head].update(y for y in r.body if y in g4.N)

            def recursive(X):
                seen, st = set(), list(succ[X])
                while st:
                    y = st.pop()
                    if y not in seen:
                        seen.add(y)
                        st += list(succ[y])
                return X in seen
            rows = []
            for m in (1, 3, 10):
                ch = g4.agenda(maxiter=m)
                for X in g4.N:
                    if not recursive(X):
                        val = 0.0
                        for r in g4.rules:
                            if r.head == X:
                                w = fl(r.w)
                                for y in r.body:
                                    w *= 1.0 if y in g4.V else fl(ch[y])
                                val += w
                        rows.append([m, common.enc_sym(X), fl(ch[X]), val])
            out["agenda_trunc"] = rows
        except Exception as e:  # noqa
            out["agenda_trunc"] = {"exc": type(e).__name__, "msg": str(e)[:200]}
    try:
        out["treesum"] = common.enc_w(common.mk_cfg(case["cfg"], R).treesum(), R)
    except Exception as e:  # noqa
        out["treesum"] = {"exc": type(e).__name__, "msg": str(e)[:200]}
    # the dependency graph whose blocks drive `agenda`: the iteration orders Tarjan is about to see, then the real blocks
    try:
        D = common.mk_cfg(case["cfg"], R).dependency_graph()
        obs = common.tarjan_observe(D)   # BEFORE `D.blocks`
        out["deps"] = {"tarjan": obs, "blocks": common.tarjan_blocks(D)}
    except Exception as e:  # noqa
        out["deps"] = {"exc": type(e).__name__, "msg": str(e)[:200]}
    if R == "Float":
        try:
            out["expected_length"] = common.frac_str(common.mk_cfg(case["cfg"], R).expected_length)
        except Exception as e:  # noqa
            out["expected_length"] = {"exc": type(e).__name__, "msg": str(e)[:200]}
    return out


def _dec(v):
    if isinstance(v, dict) and "bits" in v:
        return struct.unpack("<d", struct.pack("<Q", v["bits"]))[0]
    if isinstance(v, list):
        return tuple(_dec(x) for x in v)
    return common.num(v)


def make_case(rng, i, tier):
    R = rng.choice(["Float", "Float", "Float", "Real", "Boolean", "MaxTimes"])
    desc, shape = gen.gen_cfg(rng, maxrules=7 if tier == "quick" else 10)
    if R == "Boolean":
        desc = gen.to_bool(desc)
    if R == "MaxTimes":
        desc = {**desc, "rules": [[w if common.num(w) <= 1 else "1", h, b] for w, h, b in desc["rules"]]}
    split = rng.randint(1, max(1, len(desc["rules"]) - 1)) if rng.random() < 0.5 and len(desc["rules"]) >= 2 else None
    return {"id": i, "shape": shape, "R": R, "cfg": desc, "split": split}


def zn_eval(ctx, items, op="zn"):
    ops = [{"op": op, "R": R, "cfg": c, "n": 60 if R in ("Float", "Real", "Expectation") else 400} for c, R in items]
    res = ctx["lean"](ops)
    deep = [i for i, r in enumerate(res) if "error" not in r and not r.get("stable")]
    if deep:
        ops2 = [{"op": op, "R": "F64", "cfg": items[i][0], "n": 400} for i in deep]
        for i, r in zip(deep, ctx["lean"](ops2)):
            res[i] = dict(r, deep=True)
    out = []
    for r in res:
        if "error" in r:
            raise common.DriverError(r["error"])
        vals = {common.symkey(k): _dec(v) for k, v in r["vals"]}
        half = {common.symkey(k): _dec(v) for k, v in r["half"]}
        conv = {k: (not r.get("deep")) or common.close(vals[k], half.get(k, 0), 1e-12, 1e-15) for k in vals}
        out.append((vals, conv, bool(r.get("deep"))))
    return out


def run(ctx):
    rng, tier = ctx["rng"], ctx["tier"]
    n = int((120 if tier == "quick" else 2500) * ctx.get("mult", 1))
    hashseeds = [0, 1, 2, 3] if tier == "quick" else list(range(8))
    if ctx.get("replay"):
        cases = [f["case"] for f in ctx["replay"]["failing"] if "case" in f]
    else:
        cases = [make_case(rng, i, tier) for i in range(n)]
    for i, c in enumerate(cases):
        c["id"] = i
    impl_res = ctx["run_impl"](cases, hashseeds, 60)
    zn = zn_eval(ctx, [(c["cfg"], c["R"]) for c in cases])
    fl = [c for c in cases if c["R"] == "Float"]
    ex = dict(zip([c["id"] for c in fl], zn_eval(ctx, [(c["cfg"], "Expectation") for c in fl], op="lift_expectation")))
    semantic, structural, samples = [], [], []
    evaluations = traces = 0
    nontrivial = set()
    shapes = {}
    stats = {"exact": 0, "deep": 0, "unconverged": 0, "cyclic_dependency": 0, "expected_length": 0, "tarjan_runs": 0, "tarjan_multi_node_blocks": 0}
    # structural: the proved model `tarjan` of `scc_decomposition`, run on the iteration orders of `deps.N` / `deps.incoming[v]` observed
    # in each worker, must emit the real `cfg.dependency_graph().blocks` — same components, same order (the order `agenda` relies on)
    tops, tidx = [], []
    for c in cases:
        for hs in hashseeds:
            d = (impl_res[hs].get(c["id"]) or {}).get("deps")
            if d is None:
                continue
            if "exc" in d:
                structural.append({"op": "scc_decomposition", "what": f"dependency_graph().blocks raised {d['exc']}: {d.get('msg')}",
                                   "case_id": c["id"], "hashseed": hs, "case": c})
                continue
            tops.append(common.tarjan_op(d["tarjan"]))
            tidx.append((c, hs, d))
    for (c, hs, d), m in zip(tidx, ctx["lean"](tops)):
        evaluations += 1
        stats["tarjan_runs"] += 1
        ok, why = common.tarjan_same(m, d["blocks"])
        if ok:
            traces += 1
            stats["tarjan_multi_node_blocks"] += sum(1 for b in d["blocks"] if len(b) > 1)
        else:
            structural.append({"op": "scc_decomposition", "what": why, "orders": d["tarjan"], "model": m.get("blocks"), "impl": d["blocks"],
                               "case_id": c["id"], "hashseed": hs, "case": c})
    for c, (vals, conv, isdeep) in zip(cases, zn):
        shapes[c["shape"]] = shapes.get(c["shape"], 0) + 1
        stats["deep" if isdeep else "exact"] += 1
        V = set(c["cfg"]["V"])
        Skey = common.symkey(c["cfg"]["S"])
        if any(v not in (0, False) for v in vals.values()) and len(vals) > 1:
            nontrivial.add(hashlib.sha1(json.dumps([c["cfg"], c["R"]], sort_keys=True).encode()).hexdigest())
        tol = 1e-7 if isdeep or c["R"] in ("Float", "Real") else 1e-9
        for hs in hashseeds:
            res = impl_res[hs].get(c["id"])
            if res is None or "exc" in res:
                semantic.append(_viol(c, hs, "worker", None, None, res))
                continue
            for name in ("agenda", "naive", "agenda_again", "naive_again", "agenda_again2") + (("agenda_grown", "naive_grown") if c.get("split") is not None else ()):
                ch = res[name]
                if isinstance(ch, dict):
                    semantic.append(_viol(c, hs, name, None, None, ch))
                    continue
                got = {common.symkey(k): common.num(v) for k, v in ch}
                for X, o in vals.items():
                    evaluations += 1
                    if not conv[X]:
                        stats["unconverged"] += 1
                        continue
                    if not common.close(got.get(X, 0), o, tol, 1e-9):
                        semantic.append(_viol(c, hs, name, json.loads(X), o, common.frac_str(got.get(X, 0)) if not isinstance(got.get(X, 0), bool) else got.get(X, 0)))
                    else:
                        traces += 1
                # symbols the code reports that head no rule must be terminals (value one) or zero
                for X, v in got.items():
                    if X not in vals and json.loads(X) not in V and v not in (0, False):
                        semantic.append(_viol(c, hs, name, json.loads(X), 0, str(v)))
            at = res.get("agenda_trunc")
            if isinstance(at, dict):
                semantic.append(_viol(c, hs, "agenda_trunc", None, None, at))
            elif at:
                for m, X, gotv, val in at:
                    evaluations += 1
                    if not (abs(gotv - val) <= 1e-9 * max(1.0, abs(val))):
                        semantic.append(_viol(c, hs, "agenda_trunc", X, val, {"maxiter": m, "chart_entry": gotv, "one_step_from_the_chart": val}))
                    else:
                        traces += 1
            for tname in ("treesum",) + (("treesum_grown",) if c.get("split") is not None else ()):
                ts = res[tname]
                evaluations += 1
                if isinstance(ts, dict):
                    semantic.append(_viol(c, hs, tname, None, None, ts))
                elif conv.get(Skey, True) and not common.close(common.num(ts), vals.get(Skey, 0), tol, 1e-9):
                    semantic.append(_viol(c, hs, tname, c["cfg"]["S"], vals.get(Skey, 0), ts))
                else:
                    traces += 1
            if c["R"] == "Float" and c["id"] in ex:
                evals, econv, edeep = ex[c["id"]]
                el = res.get("expected_length")
                evaluations += 1
                stats["expected_length"] += 1
                o = evals.get(Skey, (0, 0))
                if isinstance(el, dict):
                    semantic.append(_viol(c, hs, "expected_length", None, o, el))
                elif econv.get(Skey, True) and not common.close(common.num(el), o[1] if isinstance(o, tuple) else 0, 1e-6, 1e-9):
                    semantic.append(_viol(c, hs, "expected_length", c["cfg"]["S"], str(o), el))
                else:
                    traces += 1
        if len(samples) < 4 and vals.get(Skey) not in (0, False, None):
            samples.append({"cfg": c["cfg"], "R": c["R"], "oracle_ZN": {k: str(v) for k, v in vals.items()},
                            "impl_agenda": (impl_res[hashseeds[0]].get(c["id"]) or {}).get("agenda")})
    return {
        "evaluations": evaluations, "distinct_nontrivial": len(nontrivial),
        "rule": "seeded convergent random grammars (geometric convergence enforced by the generator) x semiring x hash seeds; "
                "non-trivial = distinct grammars with at least two heads and a non-zero total weight",
        "samples": samples, "traces": traces, "semantic": semantic, "structural": structural,
        "extra": {"shape_histogram": shapes, "hashseeds": hashseeds, "oracle_stats": stats, "cases": len(cases)},
        "assumptions": ["deep (IEEE, n=400) truncations of ZN are compared with rtol 1e-7 where ZN_400 and ZN_200 agree to 1e-12; "
                        "the implementation's own tolerance is 1e-12 per update"],
    }


def _viol(c, hs, name, X, oracle, got):
    sig = hashlib.sha1(json.dumps([name, c["cfg"], X, c["R"]], sort_keys=True).encode()).hexdigest()[:16]
    return {"signature": f"C08:{name}:{sig}", "op": name, "x": X, "oracle_ZN": str(oracle), "impl": got, "hashseed": hs, "case": c}
