"""C11 — automaton string weight = sum over accepting paths; epsilon removal; total weight.

Oracle: `PN A n x` (Lean; accepting paths with ≤ n arcs through ε arcs and cycles), exact for
ε-acyclic machines (every path spelling x has at most (|x|+1)·|Q| arcs), deep IEEE truncation with
geometric tail for ε-cyclic ones."""
import hashlib
import json

from harness import common, gen, oracles


def impl(case):
    R = case["R"]
    m = common.mk_wfsa(case["wfsa"], R, case["cls"])
    xs = [tuple(common.dec_sym(s) for s in x) for x in case["xs"]]
    out = {}

    def safe(f):
        try:
            return common.enc_w(f(), R)
        except Exception as e:  # noqa
            return {"exc": type(e).__name__, "msg": str(e)[:200]}
    out["call"] = [safe(lambda: m(x)) for x in xs]
    # the same strings handed over as one-shot iterators / lists / generators: same weights
    out["call_iter"] = [safe(lambda: m(iter(x))) for x in xs[:8]]
    out["call_list"] = [safe(lambda: m(list(x))) for x in xs[:8]]
    out["call_gen"] = [safe(lambda: m(t for t in x)) for x in xs[:8]]
    try:
        er = m.epsremove
        out["epsremove"] = common.enc_wfsa(er, R)
        out["epsremove_call"] = [safe(lambda: er(x)) for x in xs]
    except Exception as e:  # noqa
        out["epsremove"] = {"exc": type(e).__name__, "msg": str(e)[:200]}
    out["total"] = safe(lambda: common.mk_wfsa(case["wfsa"], R, case["cls"]).total_weight())
    # the ε-free machine returned by `epsremove` is a NEW machine: extend it with ε arcs (as `__mul__` would), then query it —
    # it must behave like a machine with the same arcs built from scratch, and ITS ε-removal must remove the new ε arcs
    try:
        from genlm.grammar.wfsa import EPSILON
        er2 = common.mk_wfsa(case["wfsa"], R, case["cls"]).epsremove
        one = common.semiring(R).one
        qs = [q for q, _ in er2.F] or list(er2.states)
        if qs:
            er2.add_arc(qs[0], EPSILON, "__zz__", one)
            er2.add_F("__zz__", one)
            snap = common.enc_wfsa(er2, R)
            fresh = common.mk_wfsa(snap, R, case["cls"])
            out["edited_epsremove_call"] = [[safe(lambda: er2(x)), safe(lambda: fresh(x))] for x in xs[:8]]
            out["edited_epsremove_epsfree"] = not any(a == EPSILON for _, a, _, _ in er2.epsremove.arcs())
    except Exception as e:  # noqa
        out["edited_epsremove_call"] = {"exc": type(e).__name__, "msg": str(e)[:200]}
    return out


def make_case(rng, i, tier):
    R = rng.choice(["Float", "Float", "Float", "Real", "Boolean", "MaxTimes"])
    desc, shape = gen.gen_wfsa(rng)
    if rng.random() < 0.2:
        # an ε-graph component with NESTED cycles: the 3-cycle u→v→w→u plus the chord w→v (optionally a 4th state on a second
        # chord), under every naming / insertion order — the block decomposition behind the ε-closure must keep it in ONE block
        names = rng.sample([100, 101, 102, 103], 4)
        u, v, w, t = names
        a0 = rng.choice(desc["syms"])
        cyc = [[u, "", v, "1/4"], [v, "", w, "1/2"], [w, "", u, "1/4"], [w, "", v, "1/8"]]
        if rng.random() < 0.4:
            cyc += [[w, "", t, "1/4"], [t, "", v, "1/4"], [t, "", u, "1/8"]]
        rng.shuffle(cyc)
        ent = rng.choice([u, v, w])
        desc = {**desc, "start": desc["start"] + [[ent, "1/2"]], "stop": desc["stop"] + [[rng.choice([u, v, w]), "1/2"]],
                "arcs": desc["arcs"] + cyc + [[rng.choice([u, v, w]), a0, rng.choice([u, v, w]), "1/4"]]}
        shape += "+eps_scc_chord"
    if R == "Boolean":
        desc = gen.wfsa_to_bool(desc)
    if R == "MaxTimes":
        f = lambda w: w if common.num(w) <= 1 else "1"  # noqa
        desc = {**desc, "start": [[q, f(w)] for q, w in desc["start"]], "stop": [[q, f(w)] for q, w in desc["stop"]],
                "arcs": [[a, b, c, f(w)] for a, b, c, w in desc["arcs"]]}
    if R in ("Float", "Real") and rng.random() < 0.15:
        # weights of both signs: an ε-cycle {cp, cq} with asymmetric weights entered at BOTH states with start weights
        # that cancel (+w, -w); every single weight is non-zero and the path sum through the cycle is not
        w = rng.choice(["1/2", "1/4"])
        a0 = rng.choice(desc["syms"])
        if rng.random() < 0.5:   # entered from the start weights …
            entry = {"start": desc["start"] + [["cp", w], ["cq", "-" + w]], "arcs": []}
        else:                    # … or through ε arcs from one source state (the cancellation is inside the ε-graph)
            entry = {"start": desc["start"] + [["cs", "1"]], "arcs": [["cs", "", "cp", w], ["cs", "", "cq", "-" + w]]}
        desc = {**desc, "start": entry["start"], "stop": desc["stop"] + [["cq", "1"]],
                "arcs": desc["arcs"] + entry["arcs"] + [["cp", "", "cq", "1/2"], ["cq", "", "cp", "1/4"]] + ([["cq", a0, "cq", "1/4"]] if rng.random() < 0.5 else [])}
        shape += "+cancelling_entry"
    maxlen = 3 if tier == "quick" else 4
    xs = [s for s in gen.all_strings(desc["syms"], 2)]
    for _ in range(4):
        xs.append([rng.choice(desc["syms"]) for _ in range(rng.randint(3, maxlen))])
    seen, ys = set(), []
    for x in xs:
        if tuple(x) not in seen:
            seen.add(tuple(x))
            ys.append(x)
    return {"id": i, "shape": shape, "R": R, "cls": "field" if R == "Float" and rng.random() < 0.5 else "base", "wfsa": desc, "xs": ys}


def total_machine(desc, scale=None):
    """all labels erased: PN on the empty string = sum over all accepting paths with ≤ n arcs"""
    return {"start": desc["start"], "stop": desc["stop"], "arcs": [[i, "", j, w] for i, a, j, w in desc["arcs"]]}


def corpus():
    d = {"start": [[0, "1/2"]], "stop": [[0, "1"]], "arcs": [[0, "a", 0, "1/2"]], "syms": ["a"]}
    return [{"shape": "corpus_F7", "R": "Real", "cls": "base", "wfsa": d, "xs": [[], ["a"]]},
            {"shape": "corpus_F7", "R": "Boolean", "cls": "base", "wfsa": gen.wfsa_to_bool(d), "xs": [[], ["a"]]}]


def run(ctx):
    rng, tier = ctx["rng"], ctx["tier"]
    n = int((150 if tier == "quick" else 3000) * ctx.get("mult", 1))
    hashseeds = [0, 1] if tier == "quick" else [0, 1, 2, 3]
    if ctx.get("replay"):
        cases = [f["case"] for f in ctx["replay"]["failing"] if "case" in f]
    else:
        cases = corpus() + [make_case(rng, i, tier) for i in range(n)]
    for i, c in enumerate(cases):
        c["id"] = i
    impl_res = ctx["run_impl"](cases, hashseeds, 60)
    base = oracles.pn_eval(ctx, [(c["wfsa"], c["R"], c["xs"]) for c in cases])
    # total weight: only where the arc-weight rows make the path sum converge quickly (row sums ≤ 3/4) or it is finite
    def rows_ok(d):
        rows = {}
        for i, a, j, w in d["arcs"]:
            if not isinstance(w, bool):
                rows[common.symkey(i)] = rows.get(common.symkey(i), 0) + common.num(w)
        return all(v <= 0.75 for v in rows.values())
    tot_idx = [k for k, c in enumerate(cases) if c["R"] in ("Boolean", "MaxTimes") or rows_ok(c["wfsa"])]
    tots = dict(zip(tot_idx, oracles.pn_eval(ctx, [(total_machine(cases[k]["wfsa"]), cases[k]["R"], [[]]) for k in tot_idx])))
    # the real epsremove result, evaluated by the oracle
    er_items, er_idx = [], []
    for k, c in enumerate(cases):
        r0 = impl_res[hashseeds[0]].get(c["id"]) or {}
        er = r0.get("epsremove")
        if isinstance(er, dict) and "arcs" in er:
            er_items.append((er, c["R"], c["xs"]))
            er_idx.append(k)
    ers = dict(zip(er_idx, oracles.pn_eval(ctx, er_items)))
    semantic, samples = [], []
    evaluations = traces = 0
    nontrivial = set()
    shapes = {}
    stats = {"exact": 0, "deep": 0, "unconverged": 0, "total_weight_checked": 0, "epsremove_checked": 0, "eps_arcs_in": 0}
    for k, (c, (vals, conv, deep)) in enumerate(zip(cases, base)):
        shapes[c["shape"]] = shapes.get(c["shape"], 0) + 1
        stats["deep" if deep else "exact"] += 1
        stats["eps_arcs_in"] += sum(1 for a in c["wfsa"]["arcs"] if a[1] == "")
        nz = sum(1 for o in vals if o not in (0, False))
        if nz and nz < len(vals):
            nontrivial.add(hashlib.sha1(json.dumps([c["wfsa"], c["R"]], sort_keys=True).encode()).hexdigest())
        tol = 1e-7 if c["R"] in ("Float", "Real") else 1e-9
        for hs in hashseeds:
            res = impl_res[hs].get(c["id"])
            if res is None or "exc" in res:
                semantic.append(_viol(c, hs, "worker", None, None, res))
                continue
            for name in ("call", "epsremove_call", "call_iter", "call_list", "call_gen"):
                if name not in res:
                    continue
                for x, v, o, cv in zip(c["xs"], res[name], vals, conv):
                    evaluations += 1
                    if isinstance(v, dict):
                        semantic.append(_viol(c, hs, name, x, o, v))
                    elif not cv:
                        stats["unconverged"] += 1
                    elif not common.close(common.num(v), o, tol, 1e-10):
                        semantic.append(_viol(c, hs, name, x, o, v))
                    else:
                        traces += 1
            ee = res.get("edited_epsremove_call")
            if isinstance(ee, dict):
                semantic.append(_viol(c, hs, "edited_epsremove", None, None, ee))
            elif ee:
                for x, (a_, b_) in zip(c["xs"][:8], ee):
                    evaluations += 1
                    if isinstance(a_, dict) or isinstance(b_, dict) or not common.close(common.num(a_), common.num(b_), tol, 1e-10):
                        semantic.append(_viol(c, hs, "edited_epsremove", x, str(b_), {"edited_result": a_, "same_arcs_built_from_scratch": b_}))
                    else:
                        traces += 1
                if res.get("edited_epsremove_epsfree") is False:
                    semantic.append(_viol(c, hs, "edited_epsremove", None, "no epsilon arcs", {"what": "epsremove of the extended machine still has epsilon arcs"}))
            er = res.get("epsremove")
            if isinstance(er, dict) and "exc" in er:
                semantic.append(_viol(c, hs, "epsremove", None, None, er))
            elif isinstance(er, dict):
                evaluations += 1
                if any(a[1] == "" for a in er["arcs"]):
                    semantic.append(_viol(c, hs, "epsremove", None, "no epsilon arcs", {"arcs": er["arcs"]}))
                elif hs == hashseeds[0] and k in ers:
                    stats["epsremove_checked"] += 1
                    evals, econv, _ = ers[k]
                    for x, v, o, cv, ecv in zip(c["xs"], evals, vals, conv, econv):
                        evaluations += 1
                        if cv and ecv and not common.close(v, o, tol, 1e-10):
                            semantic.append(_viol(c, hs, "epsremove", x, o, {"PN_of_epsremove_output": str(v), "output": er}))
                        else:
                            traces += 1
            if k in tots:
                tv, tc, _ = tots[k]
                evaluations += 1
                stats["total_weight_checked"] += 1
                t = res.get("total")
                if isinstance(t, dict):
                    semantic.append(_viol(c, hs, "total_weight", None, tv[0], t))
                elif tc[0] and not common.close(common.num(t), tv[0], 1e-6, 1e-9):
                    semantic.append(_viol(c, hs, "total_weight", None, tv[0], t))
                else:
                    traces += 1
        if len(samples) < 4 and nz:
            samples.append({"wfsa": c["wfsa"], "R": c["R"], "xs": c["xs"][:4], "oracle_PN": [str(o) for o in vals[:4]],
                            "impl_call": ((impl_res[hashseeds[0]].get(c["id"]) or {}).get("call") or [])[:4]})
    return {
        "evaluations": evaluations, "distinct_nontrivial": len(nontrivial),
        "rule": "seeded random automata from named shape classes (several initial/final states, parallel arcs, ε arcs and ε cycles, dead and unreachable "
                "states, state names equal to symbols) x semiring x all strings ≤ 2 plus sampled longer ones; non-trivial = distinct automata with an accepted and a rejected string",
        "samples": samples, "traces": traces, "semantic": semantic, "structural": [],
        "extra": {"shape_histogram": shapes, "hashseeds": hashseeds, "oracle_stats": stats, "cases": len(cases)},
        "assumptions": ["ε-cyclic machines: PN_120 in IEEE arithmetic, compared with rtol 1e-7 where PN_120 and PN_60 agree to 1e-12 (ε rows ≤ 1/2 by construction)",
                        "total weight compared only for machines whose arc-weight rows sum to ≤ 3/4 (geometric convergence) or over idempotent semirings"],
    }


def _viol(c, hs, name, x, oracle, got):
    sig = hashlib.sha1(json.dumps([name, c["wfsa"], x, c["R"]], sort_keys=True).encode()).hexdigest()[:16]
    return {"signature": f"C11:{name}:{sig}", "op": name, "x": x, "oracle_PN": str(oracle), "impl": got, "hashseed": hs, "case": c}
