"""C10 — transducer composition counts every matching path pair exactly once.

Oracle: the transducer path-sum specification `TPN` (Lean, `TPNtab_spec`).  For composition the
specification value is `TPN` of the MODEL composition (`FST.compose` / `compose'`, the two association
branches of `__matmul__`), for which `compose_graded` proves that every pair of matching paths
contributes exactly once (so it equals Σ_y T1(x,y)·T2(y,z)); the real composed machine is compared
with the model machine structurally (reachable part) and by value."""
import hashlib
import json

from harness import common, gen, oracles


def _reach(desc):
    st = {common.symkey(q) for q, w in desc["start"] if w not in (0, "0", False)}
    g = {}
    for e in desc["arcs"]:
        g.setdefault(common.symkey(e[0]), set()).add(common.symkey(e[3]))
    seen, stack = set(st), list(st)
    while stack:
        u = stack.pop()
        for v in g.get(u, ()):
            if v not in seen:
                seen.add(v)
                stack.append(v)
    return seen


def restrict(desc, keep):
    return {"start": [s for s in desc["start"] if common.symkey(s[0]) in keep], "stop": [s for s in desc["stop"] if common.symkey(s[0]) in keep],
            "arcs": [e for e in desc["arcs"] if common.symkey(e[0]) in keep and common.symkey(e[3]) in keep]}


def canon_fst(desc, R):
    def acc(items, keyf, wf):
        d = {}
        for it in items:
            k, w = keyf(it), wf(it)
            if isinstance(w, bool):
                d[k] = d.get(k, False) or w
            elif R == "MaxTimes":
                d[k] = max(d.get(k, 0), common.num(w))
            else:
                d[k] = d.get(k, 0) + common.num(w)
        return {k: v for k, v in d.items() if v not in (0, False)}
    return {"start": acc(desc["start"], lambda e: common.symkey(e[0]), lambda e: e[1]),
            "stop": acc(desc["stop"], lambda e: common.symkey(e[0]), lambda e: e[1]),
            "arcs": acc(desc["arcs"], lambda e: common.symkey(e[:-1]), lambda e: e[-1])}


def same_fst(a, b, R, tol=1e-9):
    ca, cb = canon_fst(a, R), canon_fst(b, R)
    for part in ("start", "stop", "arcs"):
        if set(ca[part]) != set(cb[part]):
            return False, f"{part}: only-model {sorted(set(ca[part]) - set(cb[part]))[:2]} only-impl {sorted(set(cb[part]) - set(ca[part]))[:2]}"
        for k in ca[part]:
            if not common.close(ca[part][k], cb[part][k], tol, 1e-12):
                return False, f"{part} {k}: model {ca[part][k]} impl {cb[part][k]}"
    return True, ""


def impl(case):
    from genlm.grammar.fst import FST
    R = case["R"]
    Rc = common.semiring(R)
    f = common.mk_fst(case["f"], R)
    g = common.mk_fst(case["g"], R)
    out = {}

    def safe(fn):
        try:
            return common.enc_w(fn(), R)
        except Exception as e:  # noqa
            return {"exc": type(e).__name__, "msg": str(e)[:200]}
    tup = lambda s: tuple(common.dec_sym(t) for t in s)  # noqa
    try:
        C = f @ g
        out["branch"] = "L" if len(f.states) < len(g.states) else "R"
        out["compose"] = common.enc_fst(C, R)
        out["compose_vals"] = [safe(lambda: C(tup(x), tup(z))) for x, z in case["xz"]]
    except Exception as e:  # noqa
        out["compose"] = {"exc": type(e).__name__, "msg": str(e)[:200]}
    out["f_vals"] = [safe(lambda: f(tup(x), tup(y))) for x, y in case["xy"]]
    out["fT_vals"] = [safe(lambda: f.T(tup(y), tup(x))) for x, y in case["xy"]]
    out["f_x_none"] = [safe(lambda: f(tup(x), None)(tup(y))) for x, y in case["xy"]]
    out["f_none_y"] = [safe(lambda: f(None, tup(y))(tup(x))) for x, y in case["xy"]]
    try:
        out["T"] = common.enc_fst(f.T, R)
        out["project0"] = common.enc_wfsa(f.project(0), R)
        out["project1"] = common.enc_wfsa(f.project(1), R)
    except Exception as e:  # noqa
        out["T"] = {"exc": type(e).__name__, "msg": str(e)[:200]}
    # (f + f2) @ g = f @ g + f2 @ g: a UNION as the left operand of a composition
    if case.get("f2") is not None:
        try:
            f2 = common.mk_fst(case["f2"], R)
            U = common.mk_fst(case["f"], R) + f2
            UC, C1, C2 = U @ g, common.mk_fst(case["f"], R) @ g, f2 @ g
            out["union_compose"] = [[safe(lambda: UC(tup(x), tup(z))), safe(lambda: C1(tup(x), tup(z)) + C2(tup(x), tup(z)))] for x, z in case["xz"][:8]]
        except Exception as e:  # noqa
            out["union_compose"] = {"exc": type(e).__name__, "msg": str(e)[:200]}
    # the transpose is a NEW machine: edit it, transpose again, and the edits must be there
    try:
        t = common.mk_fst(case["f"], R).T
        a0 = (common.dec_sym(case["f"]["arcs"][0][1]), common.dec_sym(case["f"]["arcs"][0][2])) if case["f"]["arcs"] else ("", "")
        q0 = next(iter(t.states), 0)
        t.add_arc(q0, a0, "__zz__", Rc.one)
        t.add_F("__zz__", Rc.one)
        et, ett = common.enc_fst(t, R), common.enc_fst(t.T, R)
        flip = {"start": et["start"], "stop": et["stop"], "arcs": [[i, b, a, j, w] for i, a, b, j, w in et["arcs"]]}
        out["transpose_of_edited"] = same_fst(flip, ett, R)[0]
    except Exception as e:  # noqa
        out["transpose_of_edited"] = {"exc": type(e).__name__, "msg": str(e)[:200]}
    out["p0_vals"] = [safe(lambda: f.project(0)(tup(x))) for x in case["xs"]]
    out["p1_vals"] = [safe(lambda: f.project(1)(tup(y))) for y in case["ys"]]
    # constructors
    try:
        ps = [(tup(x), tup(y)) for x, y in case["pairs"]]
        P = FST.from_pairs(ps, Rc)
        out["from_pairs"] = common.enc_fst(P, R)
        out["from_pairs_vals"] = [safe(lambda: P(tup(x), tup(y))) for x, y in case["pair_queries"]]
        s = tup(case["pairs"][0][0])
        Fs = FST.from_string(s, Rc)
        out["from_string_vals"] = [safe(lambda: Fs(tup(x), tup(y))) for x, y in case["pair_queries"]]
    except Exception as e:  # noqa
        out["from_pairs"] = {"exc": type(e).__name__, "msg": str(e)[:200]}
    return out


def make_case(rng, i, tier):
    R = rng.choice(["Float", "Float", "Float", "Real", "Boolean", "MaxTimes"])
    A, B, Cc = ["a", "b"], ["x", "y"], ["u", "v"]
    if rng.random() < 0.15:
        A, B, Cc = [0, 1], [0, 2], [0, 3]      # integer symbols: 0 is falsy, EPSILON is the (falsy) empty string
    na, nb = rng.choice([(1, 2), (2, 1), (2, 2), (1, 3), (3, 1), (2, 3), (3, 2)])
    f, sf = gen.gen_fst(rng, nstates=na, in_syms=A, out_syms=B)
    g, sg = gen.gen_fst(rng, nstates=nb, in_syms=B, out_syms=Cc)
    if R == "Boolean":
        f, g = gen.fst_to_bool(f), gen.fst_to_bool(g)
    f2 = None
    if rng.random() < 0.35:
        f2, _ = gen.gen_fst(rng, nstates=rng.choice([1, 2]), in_syms=A, out_syms=B)
        if R == "Boolean":
            f2 = gen.fst_to_bool(f2)
        if R == "MaxTimes":
            cap2 = lambda w: w if common.num(w) <= 1 else "1"  # noqa
            f2["start"] = [[q, cap2(w)] for q, w in f2["start"]]; f2["stop"] = [[q, cap2(w)] for q, w in f2["stop"]]; f2["arcs"] = [e[:4] + [cap2(e[4])] for e in f2["arcs"]]
    if rng.random() < 0.2:
        f = {**f, "use_set_arc": True}       # built with `set_arc` where a triple occurs once (same machine)
    if rng.random() < 0.1:
        g = {**g, "use_set_arc": True}
    if R == "MaxTimes":
        cap = lambda w: w if common.num(w) <= 1 else "1"  # noqa
        for d in (f, g):
            d["start"] = [[q, cap(w)] for q, w in d["start"]]
            d["stop"] = [[q, cap(w)] for q, w in d["stop"]]
            d["arcs"] = [e[:4] + [cap(e[4])] for e in d["arcs"]]
    L = 2 if tier == "quick" else 2
    xs, ys, zs = gen.all_strings(A, L), gen.all_strings(B, L), gen.all_strings(Cc, L)
    xz = [(x, z) for x in xs for z in zs]
    rng.shuffle(xz)
    xy = [(x, y) for x in xs for y in ys]
    rng.shuffle(xy)
    pairs = [[[rng.choice(A) for _ in range(rng.randint(0, 3))], [rng.choice(B) for _ in range(rng.randint(0, 3))]] for _ in range(rng.randint(1, 3))]
    if rng.random() < 0.3:
        pairs.append(pairs[0])
    pq = [p for p in pairs] + [[pairs[0][0], pairs[0][0]], [[], []], [pairs[0][0], pairs[-1][1]]]
    return {"id": i, "R": R, "f": f, "f2": f2, "g": g, "shapes": [sf, sg], "xz": xz[:12], "xy": xy[:12], "xs": xs, "ys": ys,
            "pairs": pairs, "pair_queries": pq}


def corpus():
    f = {"start": [[0, "1"]], "stop": [[0, "1"]], "arcs": [[0, "a", "x", 0, "1/2"]]}
    g = {"start": [[0, "1"]], "stop": [[0, "1"]], "arcs": [[0, "x", "u", 0, "1/2"]]}
    return [{"R": "Boolean", "f": gen.fst_to_bool(f), "g": gen.fst_to_bool(g), "shapes": ["corpus_F7", "corpus_F7"], "xz": [[["a"], ["u"]], [[], []]], "xy": [[["a"], ["x"]]],
             "xs": [["a"]], "ys": [["x"]], "pairs": [[["a", "b"], ["x", "y"]], [["a"], ["x", "y", "x"]]], "pair_queries": [[["a", "b"], ["x", "y"]], [["a"], ["x", "y", "x"]], [["a"], ["x"]]]},
            {"R": "Float", "f": f, "g": g, "shapes": ["corpus_F6", "corpus_F6"], "xz": [[["a"], ["u"]], [[], []]], "xy": [[["a"], ["x"]]],
             "xs": [["a"]], "ys": [["x"]], "pairs": [[["a", "b"], ["x", "y"]], [["a"], ["x", "y", "x"]]], "pair_queries": [[["a", "b"], ["x", "y"]], [["a"], ["x", "y", "x"]], [["a"], ["x"]]]}]


def run(ctx):
    rng, tier = ctx["rng"], ctx["tier"]
    n = int((100 if tier == "quick" else 2000) * ctx.get("mult", 1))
    hashseeds = [0, 1] if tier == "quick" else [0, 1, 2, 3]
    if ctx.get("replay"):
        cases = [f["case"] for f in ctx["replay"]["failing"] if "case" in f]
    else:
        cases = corpus() + [make_case(rng, i, tier) for i in range(n)]
    for i, c in enumerate(cases):
        c["id"] = i
    impl_res = ctx["run_impl"](cases, hashseeds, 90)
    # model machines
    mops, midx = [], []
    for k, c in enumerate(cases):
        r0 = impl_res[hashseeds[0]].get(c["id"]) or {}
        br = r0.get("branch", "R")
        c["_branch"] = br
        mops.append({"op": "fst_op", "R": c["R"], "name": "compose" + br, "f": c["f"], "g": c["g"]}); midx.append((k, "compose"))
        mops.append({"op": "fst_op", "R": c["R"], "name": "transpose", "f": c["f"]}); midx.append((k, "T"))
        mops.append({"op": "fst_op", "R": c["R"], "name": "project0", "f": c["f"]}); midx.append((k, "project0"))
        mops.append({"op": "fst_op", "R": c["R"], "name": "project1", "f": c["f"]}); midx.append((k, "project1"))
        mops.append({"op": "fst_op", "R": c["R"], "name": "from_pairs", "pairs": c["pairs"]}); midx.append((k, "from_pairs"))
    models = {}
    for key, r in zip(midx, ctx["lean"](mops)):
        if "error" in r:
            raise common.DriverError(r["error"])
        models[key] = r
    fvals = oracles.tpn_eval(ctx, [(c["f"], c["R"], c["xy"]) for c in cases])
    cvals = oracles.tpn_eval(ctx, [(restrict(models[(k, "compose")], _reach(models[(k, "compose")])), c["R"], c["xz"]) for k, c in enumerate(cases)])
    p0 = oracles.pn_eval(ctx, [(models[(k, "project0")], c["R"], c["xs"]) for k, c in enumerate(cases)])
    p1 = oracles.pn_eval(ctx, [(models[(k, "project1")], c["R"], c["ys"]) for k, c in enumerate(cases)])
    semantic, structural, samples = [], [], []
    evaluations = traces = 0
    nontrivial = set()
    stats = {"branch_L": 0, "branch_R": 0, "unconverged": 0, "structural": 0, "compose_arcs": 0, "eps_eps_arcs_in_result": 0}
    shapes = {}
    for k, c in enumerate(cases):
        R = c["R"]
        tol = 1e-7 if R in ("Float", "Real") else 1e-9
        for s_ in c["shapes"]:
            shapes[s_] = shapes.get(s_, 0) + 1
        stats["branch_" + c["_branch"]] += 1
        fv, fc, _ = fvals[k]
        cv, cc, _ = cvals[k]
        if any(v not in (0, False) for v in cv) and any(v in (0, False) for v in cv):
            nontrivial.add(hashlib.sha1(json.dumps([c["f"], c["g"], R], sort_keys=True).encode()).hexdigest())
        for hs in hashseeds:
            res = impl_res[hs].get(c["id"])
            if res is None or "exc" in res:
                semantic.append(_viol(c, hs, "worker", None, res))
                continue
            # evaluation consistent with the relational semantics
            for name, oracle, conv, qs in (("f_vals", fv, fc, c["xy"]), ("fT_vals", fv, fc, c["xy"]), ("f_x_none", fv, fc, c["xy"]), ("f_none_y", fv, fc, c["xy"]),
                                           ("p0_vals", p0[k][0], p0[k][1], c["xs"]), ("p1_vals", p1[k][0], p1[k][1], c["ys"])):
                for q, v, o, ok in zip(qs, res.get(name, []), oracle, conv):
                    evaluations += 1
                    if isinstance(v, dict):
                        semantic.append(_viol(c, hs, name, q, v))
                    elif not ok:
                        stats["unconverged"] += 1
                    elif not common.close(common.num(v), o, tol, 1e-10):
                        semantic.append(_viol(c, hs, name, q, {"impl": v, "path_sum": str(o)}))
                    else:
                        traces += 1
            comp = res.get("compose")
            if isinstance(comp, dict) and "exc" in comp:
                semantic.append(_viol(c, hs, "compose", None, comp))
            else:
                for q, v, o, ok in zip(c["xz"], res["compose_vals"], cv, cc):
                    evaluations += 1
                    if isinstance(v, dict):
                        semantic.append(_viol(c, hs, "compose", q, v))
                    elif not ok:
                        stats["unconverged"] += 1
                    elif not common.close(common.num(v), o, tol, 1e-10):
                        semantic.append(_viol(c, hs, "compose", q, {"impl": v, "sum_over_matching_path_pairs": str(o)}))
                    else:
                        traces += 1
            # constructors
            if isinstance(res.get("from_pairs"), dict) and "exc" in res["from_pairs"]:
                semantic.append(_viol(c, hs, "from_pairs", None, res["from_pairs"]))
            else:
                for q, v, v2 in zip(c["pair_queries"], res["from_pairs_vals"], res["from_string_vals"]):
                    cnt = sum(1 for p in c["pairs"] if p[0] == q[0] and p[1] == q[1])
                    want = (cnt > 0) if R == "Boolean" else (1 if cnt and R == "MaxTimes" else cnt)
                    evaluations += 2
                    if isinstance(v, dict) or not common.close(common.num(v), want, tol, 1e-10):
                        semantic.append(_viol(c, hs, "from_pairs", q, {"impl": v, "expected": want}))
                    else:
                        traces += 1
                    s0 = c["pairs"][0][0]
                    want2 = (q[0] == s0 and q[1] == s0)
                    if isinstance(v2, dict) or not common.close(common.num(v2), want2 if R == "Boolean" else int(want2), tol, 1e-10):
                        semantic.append(_viol(c, hs, "from_string", q, {"impl": v2, "expected": int(want2)}))
                    else:
                        traces += 1
            uc = res.get("union_compose")
            if isinstance(uc, dict):
                semantic.append(_viol(c, hs, "union_compose", None, uc))
            elif uc:
                for (x, z), (lhs, rhs) in zip(c["xz"][:8], uc):
                    evaluations += 1
                    if isinstance(lhs, dict) or isinstance(rhs, dict):
                        semantic.append(_viol(c, hs, "union_compose", [x, z], {"lhs": lhs, "rhs": rhs}))
                    elif not common.close(common.num(lhs), common.num(rhs), 1e-7, 1e-10):
                        semantic.append(_viol(c, hs, "union_compose", [x, z], {"(f+f2)@g": lhs, "f@g + f2@g": rhs}))
                    else:
                        traces += 1
            te = res.get("transpose_of_edited")
            if te is not True:
                semantic.append(_viol(c, hs, "transpose_of_edited", None, {"what": "an arc and a final state added to f.T do not show in (f.T).T", "detail": te}))
            if hs == hashseeds[0]:
                for name in ("compose", "T", "from_pairs"):
                    got = res.get(name)
                    if not isinstance(got, dict) or "arcs" not in got:
                        continue
                    model = models[(k, name)]
                    if name == "compose":
                        model = restrict(model, _reach(model))
                        stats["compose_arcs"] += len(got["arcs"])
                        stats["eps_eps_arcs_in_result"] += sum(1 for e in got["arcs"] if e[1] == "" and e[2] == "")
                    stats["structural"] += 1
                    evaluations += 1
                    ok, why = same_fst(model, got, R)
                    if not ok:
                        structural.append({"op": name, "what": why, "model": model, "impl": got, "f": c["f"], "g": c["g"], "branch": c["_branch"]})
                    else:
                        traces += 1
                for name in ("project0", "project1"):
                    got = res.get(name)
                    if isinstance(got, dict) and "arcs" in got:
                        stats["structural"] += 1
                        evaluations += 1
                        ok, why = common.same_wfsa(models[(k, name)], got, R=R)
                        if not ok:
                            structural.append({"op": name, "what": why, "model": models[(k, name)], "impl": got, "f": c["f"]})
                        else:
                            traces += 1
        if len(samples) < 3 and any(v not in (0, False) for v in cv):
            samples.append({"f": c["f"], "g": c["g"], "R": R, "queries": c["xz"][:4], "oracle": [str(v) for v in cv[:4]],
                            "impl": ((impl_res[hashseeds[0]].get(c["id"]) or {}).get("compose_vals") or [])[:4]})
    for c in cases:
        c.pop("_branch", None)
    return {
        "evaluations": evaluations, "distinct_nontrivial": len(nontrivial),
        "rule": "seeded pairs of transducers (output-ε in the first, input-ε in the second, ε:ε arcs, cycles, several initial/final states, dead states, both size orderings = both "
                "association branches) x string pairs up to length 2 per tape x semiring; non-trivial = distinct pairs whose composition relates some and rejects some string pair",
        "samples": samples, "traces": traces, "semantic": semantic, "structural": structural,
        "extra": {"shape_histogram": shapes, "hashseeds": hashseeds, "stats": stats, "cases": len(cases)},
        "assumptions": ["ε:ε-cyclic machines: TPN truncated at 80 arcs in IEEE arithmetic (ε rows ≤ 1/2), compared with rtol 1e-7 where the truncations at 80 and 40 agree"],
    }


def _viol(c, hs, name, q, got):
    sig = hashlib.sha1(json.dumps([name, c["f"], c["g"], q, c["R"]], sort_keys=True).encode()).hexdigest()[:16]
    cc = {k: v for k, v in c.items() if not k.startswith("_")}
    return {"signature": f"C10:{name}:{sig}", "op": name, "query": q, "impl": got, "hashseed": hs, "case": cc}
