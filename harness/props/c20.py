"""C20 — local normalisation yields the proportional proper grammar; EOS wrapping.

Semantic: on the REAL outputs — per-head rule-weight sums = 1; `WN(ln(G), x) · Z_S = WN(G, x)`;
total weight of ln(G) = 1 (`ZN`); `WN(add_EOS(G), x·EOS) = WN(G, x)` and 0 for strings not ending in
exactly one EOS.  Structural: mirror models `locallyNormalizeDrop` (given the implementation's Z) and
`addEOS`, for which `ln_heads_sum_one`, `ln_proportional`, `addEOS_spec` are proved."""
import hashlib
import json

from harness import common, gen
from harness.props import cfg_transforms as T
from harness.props.c08 import zn_eval

EOS = "▪"


def impl(case):
    from genlm.grammar import cfg as _cfg
    from genlm.grammar.cfglm import add_EOS, locally_normalize
    R = case["R"]
    out = {}
    g = common.mk_cfg(case["cfg"], R)
    try:
        Z = g.agenda()
        out["Z"] = [[common.enc_sym(k), common.enc_w(v, R)] for k, v in Z.items()]
        k = case.get("split")
        if k is None:
            gl = common.mk_cfg(case["cfg"], R)
        else:
            # the grammar object is GROWN after it has been trimmed / cotrimmed / evaluated once (memoised results must follow)
            gl = common.mk_cfg(dict(case["cfg"], rules=case["cfg"]["rules"][:k]), R)
            try:
                gl.cotrim(); gl.trim(); gl.agenda(); gl.rhs; gl.language(1); locally_normalize(gl)
            except Exception:  # noqa
                pass
            for w, hd, b in case["cfg"]["rules"][k:]:
                gl.add(common.mk_w(w, R), common.dec_sym(hd), *[common.dec_sym(y) for y in b])
        ln = locally_normalize(gl)
        out["ln"] = common.enc_cfg(ln, R)
    except Exception as e:  # noqa
        out["ln"] = {"exc": type(e).__name__, "msg": str(e)[:200]}
    try:
        _cfg._gen_nt.i = 5
        ge = add_EOS(common.mk_cfg(case["cfg"], R))
        out["eos"] = common.enc_cfg(ge, R)
        out["eos_ctr"] = _cfg._gen_nt.i
        g2 = add_EOS(add_EOS(common.mk_cfg(case["cfg"], R), eos="</s>"), eos="</d>")      # two-level wrapping
        out["eos2"] = common.enc_cfg(g2, R)
    except Exception as e:  # noqa
        out["eos"] = {"exc": type(e).__name__, "msg": str(e)[:200]}
    return out


def make_case(rng, i, tier):
    desc, shape = gen.gen_cfg(rng, maxrules=7 if tier == "quick" else 9)
    if rng.random() < 0.15:
        # improper PCFG: every head's rule weights sum to one, yet the total weight is < 1
        p = rng.choice(["5/8", "3/4", "9/16"])
        q = common.frac_str(1 - common.num(p))
        desc = {"S": "S", "V": ["a", "b"], "rules": [[p, "S", ["S", "S"]], [q, "S", ["A"]], ["1/2", "A", ["a"]], ["1/2", "A", ["b", "A"]]]}
        shape = "improper_pcfg"
    xs = gen.gen_strings(rng, desc, k=5, maxlen=3 if tier == "quick" else 4)
    split = rng.randint(1, len(desc["rules"]) - 1) if rng.random() < 0.3 and len(desc["rules"]) >= 2 else None
    return {"id": i, "shape": shape, "R": "Float", "cfg": desc, "xs": xs, "split": split}


def run(ctx):
    rng, tier = ctx["rng"], ctx["tier"]
    n = int((100 if tier == "quick" else 2000) * ctx.get("mult", 1))
    hashseeds = [0, 1] if tier == "quick" else [0, 1, 2, 3]
    if ctx.get("replay"):
        cases = [f["case"] for f in ctx["replay"]["failing"] if "case" in f]
    else:
        cases = [make_case(rng, i, tier) for i in range(n)]
    for i, c in enumerate(cases):
        c["id"] = i
    impl_res = ctx["run_impl"](cases, hashseeds, 60)
    zn = zn_eval(ctx, [(c["cfg"], "Float") for c in cases])
    base = T.eval_wn(ctx, [(c["cfg"], "Float", c["xs"]) for c in cases])
    semantic, structural, samples = [], [], []
    evaluations = traces = 0
    nontrivial = set()
    shapes = {}
    stats = {"positive_total": 0, "zero_total": 0, "heads_checked": 0, "useless_heads_dropped": 0}
    ln_items, ln_idx, eos_items, eos_idx, sops, sidx, lnz_items = [], [], [], [], [], [], []
    eos2_items, eos2_idx = [], []
    for k, c in enumerate(cases):
        shapes[c["shape"]] = shapes.get(c["shape"], 0) + 1
        r0 = impl_res[hashseeds[0]].get(c["id"])
        if r0 is None or "exc" in r0:
            semantic.append(_viol(c, 0, "worker", None, r0))
            continue
        for hs in hashseeds[1:]:
            r = impl_res[hs].get(c["id"])
            if r is None or "exc" in r:
                semantic.append(_viol(c, hs, "worker", None, r))
        if "exc" in r0["ln"]:
            semantic.append(_viol(c, 0, "locally_normalize", None, r0["ln"]))
        else:
            ln_items.append((r0["ln"], "Float", c["xs"]))
            ln_idx.append(k)
            lnz_items.append((r0["ln"], "Float"))
            sops.append({"op": "transform", "R": "Float", "name": "locally_normalize", "cfg": c["cfg"], "Z": r0["Z"]})
            sidx.append((k, "locally_normalize", r0["ln"], None))
        if "exc" in r0["eos"]:
            semantic.append(_viol(c, 0, "add_EOS", None, r0["eos"]))
        else:
            exs = []
            for x in c["xs"]:
                exs += [x + [EOS], x, x + [EOS, EOS], [EOS] + x]
            eos_items.append((r0["eos"], "Float", exs))
            eos_idx.append(k)
            sops.append({"op": "transform", "R": "Float", "name": "add_eos", "cfg": c["cfg"], "eos": EOS, "ctr": 5})
            sidx.append((k, "add_eos", r0["eos"], r0.get("eos_ctr")))
            if isinstance(r0.get("eos2"), dict) and "rules" in r0["eos2"]:
                e2 = []
                for x in c["xs"]:
                    e2 += [x + ["</s>", "</d>"], x + ["</d>"], x + ["</s>", "</s>", "</d>"], x + ["</s>", "</d>", "</d>"]]
                eos2_items.append((r0["eos2"], "Float", e2))
                eos2_idx.append(k)
    lnw = dict(zip(ln_idx, T.eval_wn(ctx, ln_items)))
    lnz = dict(zip(ln_idx, zn_eval(ctx, lnz_items)))
    eosw = dict(zip(eos_idx, T.eval_wn(ctx, eos_items)))
    eos2w = dict(zip(eos2_idx, T.eval_wn(ctx, eos2_items)))
    for (k, name, got, ctr), r in zip(sidx, ctx["lean"](sops)):
        evaluations += 1
        if "error" in r:
            raise common.DriverError(r["error"])
        ok, why = T.same_rules(r["cfg"], got)
        if ok and name == "add_eos" and (r["cfg"]["S"] != got["S"] or r["ctr"] != ctr or sorted(map(common.symkey, r["cfg"]["V"])) != sorted(map(common.symkey, got["V"]))):
            ok, why = False, "start symbol / vocabulary / counter differ"
        if not ok:
            structural.append({"op": name, "what": why, "model": r["cfg"], "impl": got, "input": cases[k]["cfg"]})
        else:
            traces += 1
    for k, c in enumerate(cases):
        r0 = impl_res[hashseeds[0]].get(c["id"])
        if r0 is None or "exc" in r0:
            continue
        zvals, zconv, _ = zn[k]
        Skey = common.symkey(c["cfg"]["S"])
        ZS = zvals.get(Skey, 0)
        bvals, bconv, _ = base[k]
        if k in lnw and zconv.get(Skey, True):
            ln = r0["ln"]
            if ZS > 1e-9:
                stats["positive_total"] += 1
                nontrivial.add(hashlib.sha1(json.dumps(c["cfg"], sort_keys=True).encode()).hexdigest())
                # (a) per-head sums of the real output
                sums = {}
                for w, h, b in ln["rules"]:
                    sums[common.symkey(h)] = sums.get(common.symkey(h), 0) + common.num(w)
                for h, s in sums.items():
                    evaluations += 1
                    stats["heads_checked"] += 1
                    if not common.close(s, 1, 1e-7, 1e-9):
                        semantic.append(_viol(c, 0, "locally_normalize", json.loads(h), {"head_sum": str(float(s)), "output": ln}))
                    else:
                        traces += 1
                heads_in = {common.symkey(h) for _, h, _ in c["cfg"]["rules"]}
                stats["useless_heads_dropped"] += len(heads_in - set(sums))
                # every head with positive total weight must have been kept
                for h in heads_in:
                    if zvals.get(h, 0) > 1e-9 and zconv.get(h, True) and h not in sums:
                        semantic.append(_viol(c, 0, "locally_normalize", json.loads(h), {"missing_head_with_positive_weight": str(zvals[h]), "output": ln}))
                # (b) proportionality
                vals, conv, _ = lnw[k]
                for x, v, cv, o, ocv in zip(c["xs"], vals, conv, bvals, bconv):
                    evaluations += 1
                    if cv and ocv and not common.close(v * ZS, o, 1e-6, 1e-10):
                        semantic.append(_viol(c, 0, "locally_normalize", x, {"WN_ln": str(v), "Z": str(ZS), "WN": str(o), "output": ln}))
                    else:
                        traces += 1
                # (c) total weight one
                lz, lc, _ = lnz[k]
                evaluations += 1
                if lc.get(Skey, True) and not common.close(lz.get(Skey, 0), 1, 1e-6, 1e-9):
                    semantic.append(_viol(c, 0, "locally_normalize", None, {"total_weight_of_output": str(lz.get(Skey, 0)), "output": ln}))
                else:
                    traces += 1
            else:
                stats["zero_total"] += 1
        if k in eosw:
            vals, conv, _ = eosw[k]
            for t, x in enumerate(c["xs"]):
                o, ocv = bvals[t], bconv[t]
                got = vals[4 * t: 4 * t + 4]
                gconv = conv[4 * t: 4 * t + 4]
                evaluations += 4
                if ocv and gconv[0] and not common.close(got[0], o, 1e-7, 1e-10):
                    semantic.append(_viol(c, 0, "add_EOS", x + [EOS], {"WN_eos": str(got[0]), "WN": str(o), "output": r0["eos"]}))
                for j, lab in ((1, "no EOS"), (2, "two EOS"), (3, "EOS first")):
                    if lab == "EOS first" and not x:
                        continue
                    if got[j] not in (0, False) and not common.close(got[j], 0, 0, 1e-12):
                        semantic.append(_viol(c, 0, "add_EOS", lab, {"WN_eos": str(got[j]), "expected": 0, "string": x, "output": r0["eos"]}))
                    else:
                        traces += 1
        if k in eos2w:
            vals, conv, _ = eos2w[k]
            for t, x in enumerate(c["xs"]):
                o, ocv = bvals[t], bconv[t]
                got = vals[4 * t: 4 * t + 4]
                gconv = conv[4 * t: 4 * t + 4]
                evaluations += 4
                if ocv and gconv[0] and not common.close(got[0], o, 1e-7, 1e-10):
                    semantic.append(_viol(c, 0, "add_EOS_twice", x + ["</s>", "</d>"], {"WN_eos2": str(got[0]), "WN": str(o), "output": r0["eos2"]}))
                for j, lab in ((1, "inner EOS missing"), (2, "two inner EOS"), (3, "two outer EOS")):
                    if not common.close(got[j], 0, 0, 1e-12):
                        semantic.append(_viol(c, 0, "add_EOS_twice", lab, {"WN_eos2": str(got[j]), "expected": 0, "string": x, "output": r0["eos2"]}))
                    else:
                        traces += 1
        if len(samples) < 3 and ZS and k in lnw:
            samples.append({"cfg": c["cfg"], "Z_S": str(ZS), "impl_locally_normalize": r0["ln"]})
    return {
        "evaluations": evaluations, "distinct_nontrivial": len(nontrivial),
        "rule": "seeded convergent random grammars (incl. useless nonterminals of zero total weight, nullary/unary rules, several recursive nonterminals) x sampled strings; "
                "non-trivial = distinct grammars with positive total weight",
        "samples": samples, "traces": traces, "semantic": semantic, "structural": structural,
        "extra": {"shape_histogram": shapes, "hashseeds": hashseeds, "stats": stats, "cases": len(cases)},
        "assumptions": ["Z taken from the implementation's agenda() as input of the structural model; its correctness is C08"],
    }


def _viol(c, hs, name, x, got):
    sig = hashlib.sha1(json.dumps([name, c["cfg"], x], sort_keys=True).encode()).hexdigest()[:16]
    return {"signature": f"C20:{name}:{sig}", "op": name, "x": x, "impl": got, "hashseed": hs, "case": c}
