"""C13 — determinisation, minimisation, pushing and trimming preserve the language.

Semantic: string weights of the REAL results against the proved path-sum oracle `PN` on all short
strings; determinism / ε-freeness / single initial state, stochasticity of pushed machines and
usefulness of kept states decided on the real outputs.  Structural: mirror models `push` (given the
implementation's backward weights), `trim`, `trimVals` (theorems push_preserves, push_stochastic,
wfsa_trim_Pk, wfsa_trim_useful), and the EXACT legs (`_xleg`): the subset construction `determinizeRun`
(`Model/Det.lean`; theorems det_preserves, det_deterministic, minDet_preserves) run by the driver over ℚ on the machine
`A = m.epsremove.push` that the real `determinize` works on, compared with the real `D = m.determinize` as weighted automata
whose states are weighted subsets — and every stage of `min_det = reverse.determinize.trim.reverse.determinize.trim`
(models `reverse`, `determinizeRun`, `trim` on the real intermediate machines, power states as names).
Two legs: the library's own `Float` semiring fed with Fractions (floats creep in through `Float.star(0) == 1.0`: compared
after a canonical breadth-first renumbering with tolerance 1e-9) and the harness's `Exact` plain-number semiring
(`harness/exactsemi.py`: the real code on Fractions throughout: exact equality of the arc / final-weight multisets)."""
import hashlib
import json
import math
from fractions import Fraction

from harness import common, gen, oracles


def impl(case):
    R = "Float"
    out = {}

    def mk():
        return common.mk_wfsa(case["wfsa"], R, "field")

    def machine(name, f, extra=None):
        try:
            m = f()
            out[name] = common.enc_wfsa(m, R)
            if extra:
                extra(m)
        except ZeroDivisionError as e:
            out[name] = {"exc": "ZeroDivision", "msg": str(e)[:100]}
        except Exception as e:  # noqa
            out[name] = {"exc": type(e).__name__, "msg": str(e)[:200]}
    m0 = mk()
    try:
        out["V"] = [[common.enc_sym(k), common.enc_w(v, R)] for k, v in m0.backward.items()]
        out["fwd"] = [[common.enc_sym(k), common.enc_w(v, R)] for k, v in m0.forward.items()]
    except Exception as e:  # noqa
        out["V"] = {"exc": type(e).__name__, "msg": str(e)[:200]}
    machine("push", lambda: mk().push)
    machine("trim", lambda: mk().trim)
    # editing the RESULT of trim / trim_vals / push must not change the machine it was computed from
    try:
        pure = True
        for op in ("trim", "trim_vals", "push"):
            m1 = mk()
            snap = common.enc_wfsa(m1, R)
            m1.push                                        # fill a cached property first
            t = getattr(m1, op)
            t.add_F("__fresh_state__", common.mk_w("1/2", R))
            t.add_arc("__fresh_state__", case["wfsa"]["syms"][0] if case["wfsa"].get("syms") else "a", "__fresh_state__", common.mk_w("1/4", R))
            pure = pure and common.enc_wfsa(m1, R) == snap
        out["result_edits_are_private"] = pure
    except Exception as e:  # noqa
        out["result_edits_are_private"] = {"exc": type(e).__name__, "msg": str(e)[:200]}
    machine("trim_vals", lambda: mk().trim_vals)

    def trim_after_total():
        m2 = mk()
        m2.total_weight(); m2.backward; m2.forward      # memoised weights first, then the purely structural trim
        return m2.trim
    machine("trim_after_total", trim_after_total)
    machine("push_trim", lambda: mk().push.trim)
    if case.get("det"):
        machine("determinize", lambda: mk().determinize)
        if not case.get("no_min_det"):   # reversal of a cyclic machine is non-deterministic and cyclic: termination not guaranteed
            machine("min_det", lambda: mk().min_det)
        out["xdet"] = {leg: _xleg(case["wfsa"], leg, not case.get("no_min_det")) for leg in XLEGS}
    return out


# ----------------------------------------------------------------------------- exact legs (worker side)
XLEGS = ("Exact", "Float")


def _xw(w, flag):
    """a weight of the real machine -> the exact rational it denotes (string); flag[0] := False if it is a float"""
    if hasattr(w, "item") and hasattr(w, "dtype"):
        w = w.item()
    if isinstance(w, float):
        flag[0] = False
        if math.isinf(w) or math.isnan(w):
            return repr(w)
        return common.frac_str(Fraction(w))
    return common.frac_str(w)


def _xstate(q, flag):
    """state name -> JSON; a power state (frozendict {state: weight}) -> the sorted list of its [state, weight] pairs"""
    if hasattr(q, "items") and not isinstance(q, (str, bytes)):
        return sorted(([_xstate(k, flag), _xw(v, flag)] for k, v in q.items()), key=common.symkey)
    return common.enc_sym(q)


def _xmachine(m):
    flag = [True]
    d = {"start": [[_xstate(q, flag), _xw(w, flag)] for q, w in m.start.items()],
         "stop": [[_xstate(q, flag), _xw(w, flag)] for q, w in m.stop.items()],
         "arcs": [[_xstate(i, flag), common.enc_sym(a), _xstate(j, flag), _xw(w, flag)] for i, a, j, w in m.arcs()]}
    d["exact"] = flag[0]
    return d


def _xleg(desc, R, do_min):
    """the real machines around `determinize` (and every stage of `min_det`), weights as the exact rationals they denote"""
    out = {}

    def step(name, f):
        try:
            m = f()
            out[name] = _xmachine(m)
            return m
        except ZeroDivisionError as e:
            out[name] = {"exc": "ZeroDivision", "msg": str(e)[:100]}
        except Exception as e:  # noqa
            out[name] = {"exc": type(e).__name__, "msg": str(e)[:200]}
        return None

    def stage(m, sfx):
        step("A" + sfx, lambda: m.epsremove.push)      # the very object `determinize` works on (cached properties)
        return step("D" + sfx, lambda: m.determinize)

    def mk():
        return common.mk_wfsa(desc, R, "field", exact=True)
    m = mk()
    out["M"] = _xmachine(m)
    stage(m, "")
    if _is_m(out.get("A")):
        step("AT", lambda: m.epsremove.push.trim)      # `trim` on a machine with explicit zero entries (push writes start[i] * V[i] for every live i)
    if do_min:
        R1 = step("R1", lambda: mk().reverse)
        D1 = stage(R1, "1") if R1 is not None else None
        T1 = step("T1", lambda: D1.trim) if D1 is not None else None
        R2 = step("R2", lambda: T1.reverse) if T1 is not None else None
        D2 = stage(R2, "2") if R2 is not None else None
        if D2 is not None:
            step("T2", lambda: D2.trim)
        step("MD", lambda: mk().min_det)
    return out


# ----------------------------------------------------------------------------- exact legs (harness side)
def _is_m(x):
    return isinstance(x, dict) and "arcs" in x


def _strip(x):
    return {k: x[k] for k in ("start", "stop", "arcs")}


def _xstates(x):
    return {common.symkey(q) for q, _ in x["start"] + x["stop"]} | {common.symkey(e[k]) for e in x["arcs"] for k in (0, 2)}


def _sort_power(r):
    """model output of `determinize`: the power states come in the model's order (`canonChart`); a frozendict has none"""
    def s(Q):
        return sorted(Q, key=common.symkey)
    return {"start": [[s(q), w] for q, w in r["start"]], "stop": [[s(q), w] for q, w in r["stop"]],
            "arcs": [[s(i), a, s(j), w] for i, a, j, w in r["arcs"]]}


def _accd(d, keep_zeros):
    """the three charts of a machine: repeated keys accumulate (add_I / add_F / add_arc)"""
    out = {}
    for part, kf in (("start", lambda e: common.symkey(e[0])), ("stop", lambda e: common.symkey(e[0])),
                     ("arcs", lambda e: common.symkey(e[:-1]))):
        acc = {}
        for e in d[part]:
            acc[kf(e)] = acc.get(kf(e), 0) + Fraction(e[-1])
        out[part] = acc if keep_zeros else {k: v for k, v in acc.items() if v != 0}
    return out


def _weq(a, b, exact):
    return a == b if exact else common.close(a, b, 1e-9, 1e-12)


def _cmp_named(model, got, exact, keep_zeros):
    """same machine with the same state names: the charts agree key by key (exactly / within 1e-9)"""
    ca, cb = _accd(model, keep_zeros), _accd(got, keep_zeros)
    for part in ("start", "stop", "arcs"):
        da, db = ca[part], cb[part]
        if set(da) != set(db):
            return f"{part}: only-model {sorted(set(da) - set(db))[:3]} only-impl {sorted(set(db) - set(da))[:3]}"
        for k in da:
            if not _weq(da[k], db[k], exact):
                return f"{part} {k}: model {da[k]} impl {db[k]}"
    return ""


def _det_tables(d):
    """a machine with ONE initial power state and at most one arc per (state, symbol): (q0, w0, {(P, a): (Q, w)}, {P: final weight})"""
    c = _accd(d, True)
    if len(c["start"]) != 1:
        return None, f"{len(c['start'])} initial states"
    out = {}
    for k, w in c["arcs"].items():
        i, a, j = json.loads(k)
        key = (common.symkey(i), common.symkey(a))
        if key in out:
            return None, f"two arcs for {key[0]} {key[1]}"
        out[key] = (common.symkey(j), w)
    (q0, w0), = c["start"].items()
    return (q0, w0, out, c["stop"]), ""


def _cmp_bfs(model, got, exact):
    """the two deterministic machines explored in parallel, breadth-first from their initial power states (symbols in a fixed
    order): the canonical renumbering of the power states.  Corresponding states must hold the same weighted subset, the same
    final weight and, symbol by symbol, arcs of the same weight into corresponding states; every state of either machine must
    be reached.  Exact arithmetic: the correspondence must be one-to-one.  Floats: rounding can make the real code keep apart
    subsets that differ in the last bit ({q: 1.0} / {q: 0.9999999999999999}) where ℚ has one state — several real states may
    correspond to one model state, or one real state to several model states within the tolerance (both counted as `float_split`).  Returns (why, split?)"""
    ta, why = _det_tables(model)
    if ta is None:
        return "model: " + why, False
    tb, why = _det_tables(got)
    if tb is None:
        return "impl: " + why, False
    (qa, wa, outa, stopa), (qb, wb, outb, stopb) = ta, tb
    if not _weq(wa, wb, exact):
        return f"start weight: model {wa} impl {wb}", False
    syms = sorted({a for _, a in outa} | {a for _, a in outb})
    pairs, order = {(qa, qb)}, [(qa, qb)]
    for Pa, Pb in order:
        n = order.index((Pa, Pb))
        Qa, Qb = json.loads(Pa), json.loads(Pb)
        if [common.symkey(q) for q, _ in Qa] != [common.symkey(q) for q, _ in Qb] or \
                not all(_weq(Fraction(u[1]), Fraction(v[1]), exact) for u, v in zip(Qa, Qb)):
            return f"power state #{n}: model {Pa} impl {Pb}", False
        if (Pa in stopa) != (Pb in stopb) or (Pa in stopa and not _weq(stopa[Pa], stopb[Pb], exact)):
            return f"final weight of #{n} {Pb}: model {stopa.get(Pa)} impl {stopb.get(Pb)}", False
        for a in syms:
            ea, eb = outa.get((Pa, a)), outb.get((Pb, a))
            if ea is None and eb is None:
                continue
            if ea is None or eb is None or not _weq(ea[1], eb[1], exact):
                return f"arc from #{n} {Pb} on {a}: model {ea} impl {eb}", False
            if (ea[0], eb[0]) not in pairs:
                pairs.add((ea[0], eb[0]))
                order.append((ea[0], eb[0]))
    ma, mb = {}, {}
    for Pa, Pb in order:
        ma.setdefault(Pa, set()).add(Pb)
        mb.setdefault(Pb, set()).add(Pa)
    if _xstates(model) - set(ma):
        return f"model states not reachable from the initial one: {sorted(_xstates(model) - set(ma))[:3]}", False
    if _xstates(got) - set(mb):
        return f"impl states not reachable from the initial one: {sorted(_xstates(got) - set(mb))[:3]}", False
    if any(len(v) > 1 for v in mb.values()) and exact:
        return f"one impl power state corresponds to several model states: {[(k, sorted(v)) for k, v in mb.items() if len(v) > 1][:2]}", False
    # (floats, the other direction: the real code's rounded residuals can coincide — {q: 1−2⁻⁵³} stays {q: 1−2⁻⁵³} after a step
    #  where ℚ moves to {q: 1} — so one real state may also stand for several model states that are within the tolerance of it;
    #  every pair was compared weight by weight above.  Seen once in 4 000 thorough cases; counted with the splits)
    split = any(len(v) > 1 for v in ma.values()) or any(len(v) > 1 for v in mb.values())
    if split and exact:
        return f"model has {len(ma)} power states, impl {len(mb)}: {[(k, sorted(v)) for k, v in ma.items() if len(v) > 1][:2]}", True
    return "", split


def _xjobs(x):
    """the model evaluations that tie one leg's real machines: (kind, driver op, real result, input machine)"""
    jobs = []

    def det(sfx):
        A, D = x.get("A" + sfx), x.get("D" + sfx)
        if _is_m(A) and isinstance(D, dict):
            fuel = len(_xstates(D)) + 8 if _is_m(D) else 400
            jobs.append(("determinize" + sfx, {"op": "wfsa_op2", "R": "Float", "name": "determinize", "a": _strip(A), "fuel": fuel}, D, A))

    def simple(kind, op, name, src, dst):
        if _is_m(x.get(src)) and _is_m(x.get(dst)):
            jobs.append((kind, {"op": op, "R": "Float", "name": name, "a": _strip(x[src])}, x[dst], x[src]))
    det("")
    simple("push_trim", "wfsa_op2", "trim", "A", "AT")
    simple("min_det:reverse1", "wfsa_op", "reverse", "M", "R1")
    det("1")
    simple("min_det:trim1", "wfsa_op2", "trim", "D1", "T1")
    simple("min_det:reverse2", "wfsa_op", "reverse", "T1", "R2")
    det("2")
    simple("min_det:trim2", "wfsa_op2", "trim", "D2", "T2")
    return jobs


def _xcheck(ctx, cases, impl_res, hashseeds, structural, xs):
    """run the jobs of every case x hash seed x leg through the driver and compare; returns (evaluations, traces)"""
    ops, meta = [], []
    for c in cases:
        for hs in hashseeds:
            res = impl_res[hs].get(c["id"]) or {}
            for leg, x in (res.get("xdet") or {}).items():
                st = xs.setdefault(leg, {"determinize_compared": 0, "exact": 0, "tolerance": 0, "zero_division_agreed": 0,
                                         "float_split": 0, "push_trim_compared": 0, "min_det_stages_compared": 0, "min_det_chain_agreed": 0, "not_comparable": 0, "disagreements": 0})
                if any(isinstance(v, dict) and any(isinstance(t, str) and t.strip("-") in ("inf", "nan") for e in v.get("arcs", []) + v.get("start", []) + v.get("stop", []) for t in e[-1:]) for v in x.values()):
                    st["not_comparable"] += 1     # an infinite weight: outside ℚ
                    continue
                for kind, op, got, src in _xjobs(x):
                    ops.append(op)
                    meta.append((c, hs, leg, kind, got, src))
                if _is_m(x.get("T2")) and _is_m(x.get("MD")):
                    why = _cmp_named(x["T2"], x["MD"], x["T2"]["exact"] and x["MD"]["exact"], True)
                    if why:
                        st["disagreements"] += 1
                        structural.append({"op": f"min_det[{leg}]", "what": "min_det differs from reverse.determinize.trim.reverse.determinize.trim: " + why,
                                           "impl": x["MD"], "input": c["wfsa"], "hashseed": hs})
                    else:
                        st["min_det_chain_agreed"] += 1
    evaluations = traces = 0
    for (c, hs, leg, kind, got, src), r in zip(meta, ctx["lean"](ops)):
        st = xs[leg]
        evaluations += 1
        if "error" in r:
            raise common.DriverError(r["error"])
        why = ""
        if kind.startswith("determinize"):
            exact = bool(src.get("exact")) and (not _is_m(got) or bool(got.get("exact")))
            if not _is_m(got):
                if got.get("exc") == "ZeroDivision":
                    if r["outcome"] == "zeroDiv":
                        st["zero_division_agreed"] += 1
                    elif exact or r["outcome"] != "done":
                        why = f"impl raises ZeroDivisionError, model outcome {r['outcome']}"
                    else:
                        st["not_comparable"] += 1    # a float sum that cancels to 0.0 where the exact sum does not
                else:
                    st["not_comparable"] += 1
                    continue
            elif r["outcome"] != "done":
                why = f"impl returns a machine, model outcome {r['outcome']} (fuel {len(_xstates(got)) + 8})"
            else:
                st["determinize_compared"] += 1
                st["exact" if exact else "tolerance"] += 1
                rm = _sort_power(r)
                # exact arithmetic: the same weighted subsets, the same charts (zero entries included), to the last digit;
                # and in both cases: equal after the canonical renumbering of the power states
                why = _cmp_named(rm, got, True, True) if exact else ""
                if not why:
                    why, split = _cmp_bfs(rm, got, exact)
                    st["float_split"] += bool(split and not why)
        else:
            st["push_trim_compared" if kind == "push_trim" else "min_det_stages_compared"] += 1
            # `reverse` reads `self.I` / `self.F` (non-zero entries) while the model keeps the zero ones: compare as charts with default zero
            # `_trim(active)` writes start[i] and stop[i] for EVERY active state, zero or not, and so does the model: zero entries compared too
            why = _cmp_named(r, got, bool(src.get("exact")) and bool(got.get("exact")), "trim" in kind)
        if why:
            st["disagreements"] += 1
            structural.append({"op": f"{kind}[{leg}]", "what": why, "model": r, "impl": got, "input": _strip(src) if _is_m(src) else src,
                               "case": c["wfsa"], "hashseed": hs})
        else:
            traces += 1
    return evaluations, traces


def _det_cyclic(rng):
    """a DETERMINISTIC automaton with cycles (loops through the start state included) whose states are stochastic:
    the subset construction terminates on it (every power state is a singleton), and its total weight is exactly the
    start weight — the acyclic family never revisits a power state, this one does"""
    n = rng.choice([1, 2, 2, 3])
    syms = gen.TERMS[: rng.choice([1, 2])]
    arcs, stop = [], []
    for q in range(n):
        left = Fraction(1)
        for a in syms:
            if rng.random() < 0.75:
                w = rng.choice([Fraction(1, 2), Fraction(1, 4), Fraction(1, 8)])
                if w < left:
                    arcs.append([q, a, rng.randrange(n) if rng.random() < 0.7 else 0, common.frac_str(w)])
                    left -= w
        stop.append([q, common.frac_str(left)])
    start = [[0, rng.choice(["1", "1", "3", "1/2"])]]
    return {"start": start, "stop": stop, "arcs": arcs, "syms": syms}


def make_case(rng, i, tier):
    if rng.random() < 0.12:
        d = _det_cyclic(rng)
        return {"id": i, "shape": "det_cyclic_stochastic", "wfsa": d, "xs": gen.all_strings(d["syms"], 4 if len(d["syms"]) == 1 else 3),
                "det": True, "no_min_det": True}
    shape = rng.choice(["acyclic", "acyclic", "eps", "multi_init_final", "dead_states", "parallel", "plain", "init_is_final"])
    d, shape = gen.gen_wfsa(rng, shape=shape, nstates=rng.choice([2, 3, 4] if tier == "quick" else [2, 3, 4, 5, 6]))
    if True:
        # acyclic (ε arcs included) so that determinisation terminates: orient every arc by state order
        order = {common.symkey(q): k for k, q in enumerate(gen.wfsa_states(d))}
        arcs = []
        for a in d["arcs"]:
            i_, j_ = order[common.symkey(a[0])], order[common.symkey(a[2])]
            if i_ == j_:
                continue
            arcs.append(a if i_ < j_ else [a[2], a[1], a[0], a[3]])
        d["arcs"] = arcs
    xs = gen.all_strings(d["syms"], 3 if len(d["syms"]) <= 2 else 2)
    return {"id": i, "shape": shape, "wfsa": d, "xs": xs, "det": True}


def corpus():
    f8 = {"start": [[0, "1"]], "stop": [[1, "1"]], "arcs": [[0, "a", 1, "1/2"], [2, "b", 1, "1/2"]], "syms": ["a", "b"]}
    neg = {"start": [[0, "1"]], "stop": [[1, "1"], [2, "-1"]], "arcs": [[0, "a", 1, "1"], [0, "b", 2, "1"]], "syms": ["a", "b"]}
    # the pushed machine is the machine itself (all potentials 1); the subset reached on `a` is {1: 1, 2: -1}: mass zero with
    # keys, so `determinize` raises ZeroDivisionError — and the model must answer `zeroDiv`
    zdiv = {"start": [[0, "1"]], "stop": [[1, "1"], [2, "1"], [3, "1"]], "arcs": [[0, "a", 1, "1"], [0, "a", 2, "-1"], [0, "b", 3, "1"]], "syms": ["a", "b"]}
    xs = gen.all_strings(["a", "b"], 2)
    return [{"shape": "corpus_F8", "wfsa": f8, "xs": xs, "det": True},
            {"shape": "corpus_negative_cancellation", "wfsa": neg, "xs": xs, "det": False},
            {"shape": "corpus_zero_mass_subset", "wfsa": zdiv, "xs": xs, "det": True, "no_min_det": True}]


def _useful_states(desc):
    """states on an accepting path (non-zero start, non-zero stop, any stored arcs)"""
    start = {common.symkey(q) for q, w in common.canon_wfsa(desc)["start"] for q in [json.loads(q)]}
    stop = {common.symkey(json.loads(q)) for q, w in common.canon_wfsa(desc)["stop"]}
    fw, bw = {}, {}
    for i, a, j, w in desc["arcs"]:
        fw.setdefault(common.symkey(i), set()).add(common.symkey(j))
        bw.setdefault(common.symkey(j), set()).add(common.symkey(i))

    def reach(src, g):
        seen, st = set(src), list(src)
        while st:
            u = st.pop()
            for v in g.get(u, ()):
                if v not in seen:
                    seen.add(v)
                    st.append(v)
        return seen
    return reach(start, fw) & reach(stop, bw)


def run(ctx):
    rng, tier = ctx["rng"], ctx["tier"]
    n = int((120 if tier == "quick" else 2500) * ctx.get("mult", 1))
    hashseeds = [0, 1] if tier == "quick" else [0, 1, 2, 3]
    if ctx.get("replay"):
        cases = [f["case"] for f in ctx["replay"]["failing"] if "case" in f]
    else:
        cases = corpus() + [make_case(rng, i, tier) for i in range(n)]
    for i, c in enumerate(cases):
        c["id"] = i
    impl_res = ctx["run_impl"](cases, hashseeds, 60)
    base = oracles.pn_eval(ctx, [(c["wfsa"], "Float", c["xs"]) for c in cases])
    names = ["push", "trim", "trim_vals", "trim_after_total", "push_trim", "determinize", "min_det"]
    items, idx, sops, sidx = [], [], [], []
    for k, c in enumerate(cases):
        r0 = impl_res[hashseeds[0]].get(c["id"]) or {}
        for nm in names:
            m = r0.get(nm)
            if isinstance(m, dict) and "arcs" in m and len(m["arcs"]) <= 60:
                items.append((m, "Float", c["xs"]))
                idx.append((k, nm))
        if isinstance(r0.get("V"), list):
            if isinstance(r0.get("push"), dict) and "arcs" in r0["push"]:
                sops.append({"op": "wfsa_op2", "R": "Float", "name": "push", "a": c["wfsa"], "V": r0["V"]}); sidx.append((k, "push"))
            if isinstance(r0.get("trim_vals"), dict) and "arcs" in r0["trim_vals"]:
                sops.append({"op": "wfsa_op2", "R": "Float", "name": "trim_vals", "a": c["wfsa"], "fwd": r0["fwd"], "bwd": r0["V"]}); sidx.append((k, "trim_vals"))
        if isinstance(r0.get("trim"), dict) and "arcs" in r0["trim"]:
            sops.append({"op": "wfsa_op2", "R": "Float", "name": "trim", "a": c["wfsa"]}); sidx.append((k, "trim"))
    outw = dict(zip(idx, oracles.pn_eval(ctx, items)))
    semantic, structural, samples = [], [], []
    evaluations = traces = 0
    nontrivial = set()
    shapes = {}
    stats = {"determinize_ok": 0, "determinize_zero_division": 0, "structural": 0, "push_states_checked": 0}
    for (k, nm), r in zip(sidx, ctx["lean"](sops)):
        if "error" in r:
            raise common.DriverError(r["error"])
        stats["structural"] += 1
        evaluations += 1
        got = impl_res[hashseeds[0]][cases[k]["id"]][nm]
        ok, why = common.same_wfsa(r, got)
        if not ok:
            structural.append({"op": nm, "what": why, "model": r, "impl": got, "input": cases[k]["wfsa"]})
        else:
            traces += 1
    xstats = {}
    ev, tr = _xcheck(ctx, cases, impl_res, hashseeds, structural, xstats)
    evaluations += ev
    traces += tr
    stats["exact_legs"] = xstats
    for k, (c, (vals, conv, deep)) in enumerate(zip(cases, base)):
        shapes[c["shape"]] = shapes.get(c["shape"], 0) + 1
        nz = sum(1 for o in vals if o != 0)
        if nz and nz < len(vals):
            nontrivial.add(hashlib.sha1(json.dumps(c["wfsa"], sort_keys=True).encode()).hexdigest())
        for hs in hashseeds:
            res = impl_res[hs].get(c["id"])
            if res is None or "exc" in res:
                semantic.append(_viol(c, hs, "worker", None, res))
                continue
            if res.get("result_edits_are_private") is not True and hs == hashseeds[0]:
                semantic.append(_viol(c, hs, "result_edits_are_private", None, {"what": "adding a state/arc to the machine returned by trim / trim_vals / push changed the original machine", "detail": res.get("result_edits_are_private")}))
            for nm in names:
                m = res.get(nm)
                if m is None:
                    continue
                if "exc" in m:
                    allpos = all(common.num(e[-1]) > 0 for e in c["wfsa"]["arcs"] + c["wfsa"]["start"] + c["wfsa"]["stop"])
                    if m["exc"] == "ZeroDivision" and nm in ("determinize", "min_det") and not allpos:
                        # weights of both signs can cancel a subset's mass: outside the premise "whenever determinisation terminates";
                        # with positive weights the subset construction never divides by zero (`det_no_zeroDiv_of_pos`)
                        stats["determinize_zero_division"] += 1
                        continue
                    semantic.append(_viol(c, hs, nm, None, m))
                    continue
                if hs != hashseeds[0]:
                    continue
                if (k, nm) not in outw:
                    stats["too_large_skipped"] = stats.get("too_large_skipped", 0) + 1
                    continue
                ovals, oconv, _ = outw[(k, nm)]
                for x, v, cv, o, ocv in zip(c["xs"], ovals, oconv, vals, conv):
                    evaluations += 1
                    if cv and ocv and not common.close(v, o, 1e-7, 1e-10):
                        semantic.append(_viol(c, hs, nm, x, {"PN_of_output": str(v), "PN_of_input": str(o), "output": m}))
                    else:
                        traces += 1
                cw = common.canon_wfsa(m)
                if nm in ("determinize", "min_det"):
                    stats["determinize_ok"] += 1
                    evaluations += 1
                    bad = None
                    if len(cw["start"]) > 1:
                        bad = "more than one initial state"
                    elif any(a[1] == "" for a in m["arcs"]):
                        bad = "epsilon arc"
                    else:
                        seen = set()
                        for key, w in cw["arcs"]:
                            i_, a_, j_ = json.loads(key)
                            if (json.dumps(i_), json.dumps(a_)) in seen:
                                bad = f"two arcs for state/symbol {i_} {a_}"
                            seen.add((json.dumps(i_), json.dumps(a_)))
                    if bad:
                        semantic.append(_viol(c, hs, nm, None, {"not_deterministic": bad, "output": m}))
                    else:
                        traces += 1
                if nm == "push":
                    mass = {}
                    for key, w in cw["arcs"]:
                        i_ = json.dumps(json.loads(key)[0])
                        mass[i_] = mass.get(i_, 0) + w
                    for key, w in cw["stop"]:
                        mass[key] = mass.get(key, 0) + w
                    live = {json.dumps(a[0]) for a in m["arcs"]} | {json.dumps(q) for q, _ in m["stop"]} | {json.dumps(q) for q, _ in m["start"]}
                    for q in live:
                        evaluations += 1
                        stats["push_states_checked"] += 1
                        if not common.close(mass.get(q, 0), 1, 1e-7, 1e-9):
                            semantic.append(_viol(c, hs, nm, None, {"state": json.loads(q), "outgoing_plus_final": str(float(mass.get(q, 0))), "output": m}))
                        else:
                            traces += 1
                if nm in ("trim", "trim_vals", "push_trim"):
                    useful = _useful_states(m)
                    allst = {common.symkey(q) for q in gen.wfsa_states(m)}
                    evaluations += 1
                    if allst - useful:
                        semantic.append(_viol(c, hs, nm, None, {"states_on_no_accepting_path": sorted(allst - useful), "output": m}))
                    else:
                        traces += 1
        if len(samples) < 3 and nz:
            samples.append({"wfsa": c["wfsa"], "impl": {nm: (impl_res[hashseeds[0]].get(c["id"]) or {}).get(nm) for nm in ("push", "determinize")}})
    return {
        "evaluations": evaluations, "distinct_nontrivial": len(nontrivial),
        "rule": "seeded acyclic / ε-acyclic real-weighted automata (positive dyadic weights, shared prefixes, several initial states, dead and unreachable states) "
                "x all strings ≤ 3; non-trivial = distinct automata with an accepted and a rejected string; "
                "exact legs: every case x hash seed x {library Float fed with Fractions, harness Exact semiring}: model `determinizeRun` over ℚ on the real "
                "epsremove.push machine vs the real determinize (and each stage of min_det, and trim after push), see extra.stats.exact_legs",
        "samples": samples, "traces": traces, "semantic": semantic, "structural": structural,
        "extra": {"shape_histogram": shapes, "hashseeds": hashseeds, "stats": stats, "cases": len(cases)},
        "assumptions": ["determinize raising ZeroDivisionError is tolerated only for inputs with weights of both signs (cancelling subset mass); for positive weights it is a violation",
                        "exact legs: over floats the real subset construction may keep apart weighted subsets that differ in the last bit where the model over ℚ has one power state "
                        "(several real states then correspond to one model state: extra.stats.exact_legs.Float.float_split); over the Exact semiring the correspondence must be one-to-one and exact"],
        "trusted": ["harness/exactsemi.py (Fraction constants in the library's plain-number semiring protocol)"],
    }


def _viol(c, hs, name, x, got):
    sig = hashlib.sha1(json.dumps([name, c["wfsa"], x], sort_keys=True).encode()).hexdigest()[:16]
    return {"signature": f"C13:{name}:{sig}", "op": name, "x": x, "impl": got, "hashseed": hs, "case": c}
