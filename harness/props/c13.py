"""C13 — determinisation, minimisation, pushing and trimming preserve the language.

Semantic: string weights of the REAL results against the proved path-sum oracle `PN` on all short
strings; determinism / ε-freeness / single initial state, stochasticity of pushed machines and
usefulness of kept states decided on the real outputs.  Structural: mirror models `push` (given the
implementation's backward weights), `trim`, `trimVals` (theorems push_preserves, push_stochastic,
wfsa_trim_Pk, wfsa_trim_useful)."""
import hashlib
import json
from fractions import Fraction

from harness import common, gen, oracles


def impl(case):
    R = "Float"
    out = {}

    def mk():
        return common.mk_wfsa(case["wfsa"], R, "field")

    def machine(name, f, extra=None):
        try:
            m = f()
            out[name] = common.enc_wfsa(m, R)
            if extra:
                extra(m)
        except ZeroDivisionError as e:
            out[name] = {"exc": "ZeroDivision", "msg": str(e)[:100]}
        except Exception as e:  # noqa
            out[name] = {"exc": type(e).__name__, "msg": str(e)[:200]}
    m0 = mk()
    try:
        out["V"] = [[common.enc_sym(k), common.enc_w(v, R)] for k, v in m0.backward.items()]
        out["fwd"] = [[common.enc_sym(k), common.enc_w(v, R)] for k, v in m0.forward.items()]
    except Exception as e:  # noqa
        out["V"] = {"exc": type(e).__name__, "msg": str(e)[:200]}
    machine("push", lambda: mk().push)
    machine("trim", lambda: mk().trim)
    machine("trim_vals", lambda: mk().trim_vals)
    machine("push_trim", lambda: mk().push.trim)
    if case.get("det"):
        machine("determinize", lambda: mk().determinize)
        if not case.get("no_min_det"):   # reversal of a cyclic machine is non-deterministic and cyclic: termination not guaranteed
            machine("min_det", lambda: mk().min_det)
    return out


def _det_cyclic(rng):
    """a DETERMINISTIC automaton with cycles (loops through the start state included) whose states are stochastic:
    the subset construction terminates on it (every power state is a singleton), and its total weight is exactly the
    start weight — the acyclic family never revisits a power state, this one does"""
    n = rng.choice([1, 2, 2, 3])
    syms = gen.TERMS[: rng.choice([1, 2])]
    arcs, stop = [], []
    for q in range(n):
        left = Fraction(1)
        for a in syms:
            if rng.random() < 0.75:
                w = rng.choice([Fraction(1, 2), Fraction(1, 4), Fraction(1, 8)])
                if w < left:
                    arcs.append([q, a, rng.randrange(n) if rng.random() < 0.7 else 0, common.frac_str(w)])
                    left -= w
        stop.append([q, common.frac_str(left)])
    start = [[0, rng.choice(["1", "1", "3", "1/2"])]]
    return {"start": start, "stop": stop, "arcs": arcs, "syms": syms}


def make_case(rng, i, tier):
    if rng.random() < 0.12:
        d = _det_cyclic(rng)
        return {"id": i, "shape": "det_cyclic_stochastic", "wfsa": d, "xs": gen.all_strings(d["syms"], 4 if len(d["syms"]) == 1 else 3),
                "det": True, "no_min_det": True}
    shape = rng.choice(["acyclic", "acyclic", "eps", "multi_init_final", "dead_states", "parallel", "plain", "init_is_final"])
    d, shape = gen.gen_wfsa(rng, shape=shape, nstates=rng.choice([2, 3, 4] if tier == "quick" else [2, 3, 4, 5, 6]))
    if True:
        # acyclic (ε arcs included) so that determinisation terminates: orient every arc by state order
        order = {common.symkey(q): k for k, q in enumerate(gen.wfsa_states(d))}
        arcs = []
        for a in d["arcs"]:
            i_, j_ = order[common.symkey(a[0])], order[common.symkey(a[2])]
            if i_ == j_:
                continue
            arcs.append(a if i_ < j_ else [a[2], a[1], a[0], a[3]])
        d["arcs"] = arcs
    xs = gen.all_strings(d["syms"], 3 if len(d["syms"]) <= 2 else 2)
    return {"id": i, "shape": shape, "wfsa": d, "xs": xs, "det": True}


def corpus():
    f8 = {"start": [[0, "1"]], "stop": [[1, "1"]], "arcs": [[0, "a", 1, "1/2"], [2, "b", 1, "1/2"]], "syms": ["a", "b"]}
    neg = {"start": [[0, "1"]], "stop": [[1, "1"], [2, "-1"]], "arcs": [[0, "a", 1, "1"], [0, "b", 2, "1"]], "syms": ["a", "b"]}
    xs = gen.all_strings(["a", "b"], 2)
    return [{"shape": "corpus_F8", "wfsa": f8, "xs": xs, "det": True},
            {"shape": "corpus_negative_cancellation", "wfsa": neg, "xs": xs, "det": False}]


def _useful_states(desc):
    """states on an accepting path (non-zero start, non-zero stop, any stored arcs)"""
    start = {common.symkey(q) for q, w in common.canon_wfsa(desc)["start"] for q in [json.loads(q)]}
    stop = {common.symkey(json.loads(q)) for q, w in common.canon_wfsa(desc)["stop"]}
    fw, bw = {}, {}
    for i, a, j, w in desc["arcs"]:
        fw.setdefault(common.symkey(i), set()).add(common.symkey(j))
        bw.setdefault(common.symkey(j), set()).add(common.symkey(i))

    def reach(src, g):
        seen, st = set(src), list(src)
        while st:
            u = st.pop()
            for v in g.get(u, ()):
                if v not in seen:
                    seen.add(v)
                    st.append(v)
        return seen
    return reach(start, fw) & reach(stop, bw)


def run(ctx):
    rng, tier = ctx["rng"], ctx["tier"]
    n = int((120 if tier == "quick" else 2500) * ctx.get("mult", 1))
    hashseeds = [0, 1] if tier == "quick" else [0, 1, 2, 3]
    if ctx.get("replay"):
        cases = [f["case"] for f in ctx["replay"]["failing"] if "case" in f]
    else:
        cases = corpus() + [make_case(rng, i, tier) for i in range(n)]
    for i, c in enumerate(cases):
        c["id"] = i
    impl_res = ctx["run_impl"](cases, hashseeds, 60)
    base = oracles.pn_eval(ctx, [(c["wfsa"], "Float", c["xs"]) for c in cases])
    names = ["push", "trim", "trim_vals", "push_trim", "determinize", "min_det"]
    items, idx, sops, sidx = [], [], [], []
    for k, c in enumerate(cases):
        r0 = impl_res[hashseeds[0]].get(c["id"]) or {}
        for nm in names:
            m = r0.get(nm)
            if isinstance(m, dict) and "arcs" in m and len(m["arcs"]) <= 60:
                items.append((m, "Float", c["xs"]))
                idx.append((k, nm))
        if isinstance(r0.get("V"), list):
            if isinstance(r0.get("push"), dict) and "arcs" in r0["push"]:
                sops.append({"op": "wfsa_op2", "R": "Float", "name": "push", "a": c["wfsa"], "V": r0["V"]}); sidx.append((k, "push"))
            if isinstance(r0.get("trim_vals"), dict) and "arcs" in r0["trim_vals"]:
                sops.append({"op": "wfsa_op2", "R": "Float", "name": "trim_vals", "a": c["wfsa"], "fwd": r0["fwd"], "bwd": r0["V"]}); sidx.append((k, "trim_vals"))
        if isinstance(r0.get("trim"), dict) and "arcs" in r0["trim"]:
            sops.append({"op": "wfsa_op2", "R": "Float", "name": "trim", "a": c["wfsa"]}); sidx.append((k, "trim"))
    outw = dict(zip(idx, oracles.pn_eval(ctx, items)))
    semantic, structural, samples = [], [], []
    evaluations = traces = 0
    nontrivial = set()
    shapes = {}
    stats = {"determinize_ok": 0, "determinize_zero_division": 0, "structural": 0, "push_states_checked": 0}
    for (k, nm), r in zip(sidx, ctx["lean"](sops)):
        if "error" in r:
            raise common.DriverError(r["error"])
        stats["structural"] += 1
        evaluations += 1
        got = impl_res[hashseeds[0]][cases[k]["id"]][nm]
        ok, why = common.same_wfsa(r, got)
        if not ok:
            structural.append({"op": nm, "what": why, "model": r, "impl": got, "input": cases[k]["wfsa"]})
        else:
            traces += 1
    for k, (c, (vals, conv, deep)) in enumerate(zip(cases, base)):
        shapes[c["shape"]] = shapes.get(c["shape"], 0) + 1
        nz = sum(1 for o in vals if o != 0)
        if nz and nz < len(vals):
            nontrivial.add(hashlib.sha1(json.dumps(c["wfsa"], sort_keys=True).encode()).hexdigest())
        for hs in hashseeds:
            res = impl_res[hs].get(c["id"])
            if res is None or "exc" in res:
                semantic.append(_viol(c, hs, "worker", None, res))
                continue
            for nm in names:
                m = res.get(nm)
                if m is None:
                    continue
                if "exc" in m:
                    allpos = all(common.num(e[-1]) > 0 for e in c["wfsa"]["arcs"] + c["wfsa"]["start"] + c["wfsa"]["stop"])
                    if m["exc"] == "ZeroDivision" and nm in ("determinize", "min_det") and not allpos:
                        # weights of both signs can cancel a subset's mass: outside the premise "whenever determinisation terminates";
                        # with positive weights the subset construction never divides by zero (`det_no_zeroDiv_of_pos`)
                        stats["determinize_zero_division"] += 1
                        continue
                    semantic.append(_viol(c, hs, nm, None, m))
                    continue
                if hs != hashseeds[0]:
                    continue
                if (k, nm) not in outw:
                    stats["too_large_skipped"] = stats.get("too_large_skipped", 0) + 1
                    continue
                ovals, oconv, _ = outw[(k, nm)]
                for x, v, cv, o, ocv in zip(c["xs"], ovals, oconv, vals, conv):
                    evaluations += 1
                    if cv and ocv and not common.close(v, o, 1e-7, 1e-10):
                        semantic.append(_viol(c, hs, nm, x, {"PN_of_output": str(v), "PN_of_input": str(o), "output": m}))
                    else:
                        traces += 1
                cw = common.canon_wfsa(m)
                if nm in ("determinize", "min_det"):
                    stats["determinize_ok"] += 1
                    evaluations += 1
                    bad = None
                    if len(cw["start"]) > 1:
                        bad = "more than one initial state"
                    elif any(a[1] == "" for a in m["arcs"]):
                        bad = "epsilon arc"
                    else:
                        seen = set()
                        for key, w in cw["arcs"]:
                            i_, a_, j_ = json.loads(key)
                            if (json.dumps(i_), json.dumps(a_)) in seen:
                                bad = f"two arcs for state/symbol {i_} {a_}"
                            seen.add((json.dumps(i_), json.dumps(a_)))
                    if bad:
                        semantic.append(_viol(c, hs, nm, None, {"not_deterministic": bad, "output": m}))
                    else:
                        traces += 1
                if nm == "push":
                    mass = {}
                    for key, w in cw["arcs"]:
                        i_ = json.dumps(json.loads(key)[0])
                        mass[i_] = mass.get(i_, 0) + w
                    for key, w in cw["stop"]:
                        mass[key] = mass.get(key, 0) + w
                    live = {json.dumps(a[0]) for a in m["arcs"]} | {json.dumps(q) for q, _ in m["stop"]} | {json.dumps(q) for q, _ in m["start"]}
                    for q in live:
                        evaluations += 1
                        stats["push_states_checked"] += 1
                        if not common.close(mass.get(q, 0), 1, 1e-7, 1e-9):
                            semantic.append(_viol(c, hs, nm, None, {"state": json.loads(q), "outgoing_plus_final": str(float(mass.get(q, 0))), "output": m}))
                        else:
                            traces += 1
                if nm in ("trim", "trim_vals", "push_trim"):
                    useful = _useful_states(m)
                    allst = {common.symkey(q) for q in gen.wfsa_states(m)}
                    evaluations += 1
                    if allst - useful:
                        semantic.append(_viol(c, hs, nm, None, {"states_on_no_accepting_path": sorted(allst - useful), "output": m}))
                    else:
                        traces += 1
        if len(samples) < 3 and nz:
            samples.append({"wfsa": c["wfsa"], "impl": {nm: (impl_res[hashseeds[0]].get(c["id"]) or {}).get(nm) for nm in ("push", "determinize")}})
    return {
        "evaluations": evaluations, "distinct_nontrivial": len(nontrivial),
        "rule": "seeded acyclic / ε-acyclic real-weighted automata (positive dyadic weights, shared prefixes, several initial states, dead and unreachable states) "
                "x all strings ≤ 3; non-trivial = distinct automata with an accepted and a rejected string",
        "samples": samples, "traces": traces, "semantic": semantic, "structural": structural,
        "extra": {"shape_histogram": shapes, "hashseeds": hashseeds, "stats": stats, "cases": len(cases)},
        "assumptions": ["determinize raising ZeroDivisionError is tolerated only for inputs with weights of both signs (cancelling subset mass); for positive weights it is a violation"],
    }


def _viol(c, hs, name, x, got):
    sig = hashlib.sha1(json.dumps([name, c["wfsa"], x], sort_keys=True).encode()).hexdigest()[:16]
    return {"signature": f"C13:{name}:{sig}", "op": name, "x": x, "impl": got, "hashseed": hs, "case": c}
