"""C19 — character- and byte-level grammars built from Lark grammars.

Oracle (substitution semantics): a string is accepted iff it splits into segments w_1…w_k such that
each w_i ∈ [ignored terminal]? · L(t_i) for some terminal t_i and t_1…t_k is a sentence of the Lark
RULE grammar.  Segment membership is decided by the verified regex matcher (Mathlib rmatch), sentence-
hood of terminal sequences by the verified derivation procedure `derivesB` (Model/Mask.lean); the
harness only expands the EBNF operators of ITS OWN generated grammars and enumerates segmentations.
Byte level: the same strings, UTF-8 encoded; other byte strings (truncated encodings) must be rejected."""
import hashlib
import itertools
import json

from harness import common, gen, regexgen


def impl(case):
    from genlm.grammar.lark_interface import LarkStuff
    out = {}
    try:
        L = LarkStuff(case["grammar"])
    except Exception as e:  # noqa
        return {"exc_build": type(e).__name__, "msg": str(e)[:300]}
    cs = set(case["charset"])
    for name, build in (("char", lambda: L.char_cfg(charset=cs)), ("byte", lambda: L.byte_cfg(charset=cs))):
        try:
            g = build()
            if case.get("twice"):
                g = build()              # the same LarkStuff object asked again: same grammar expected
            out[name + "_disjoint"] = len(g.N & g.V) == 0
            acc = []
            items = case["strings"] if name == "char" else [s.encode("utf-8") for s in case["strings"]] + [bytes(b) for b in case["bad_bytes"]]
            for s in items:
                try:
                    acc.append(bool(g(s) > 0))
                except Exception as e:  # noqa
                    acc.append({"exc": type(e).__name__, "msg": str(e)[:100]})
            out[name] = acc
        except Exception as e:  # noqa
            out[name] = {"exc": type(e).__name__, "msg": str(e)[:300]}
    return out


TERM_CHARSETS = [list("ab "), list("abc "), list("aéü "), list("abA "), list("a€b"), list("→←≤1"), list("€む→"), list("ab. "), list("ab+ "), list("aAbB"), list("abcd ")]


def make_case(rng, i, tier):
    cs = rng.choice(TERM_CHARSETS)
    four = rng.random() < 0.12
    nul = not four and rng.random() < 0.1
    if nul:
        cs = ["a", "\x00", "b"]
    if four:
        cs = list("abcd ")      # `start: TA TB TC TD` over four one-letter terminals with %ignore, the same object asked twice
    letters = [c for c in cs if c != " "]
    nterm = rng.choice([1, 2, 2, 3, 4, 4])
    terms = []
    for k in range(nterm):
        name = "T" + "ABCD"[k]
        kind = rng.random()
        if kind < 0.45:
            lit = "".join(rng.choice(letters) for _ in range(rng.randint(1, 2)))
            ci = rng.random() < 0.25 and lit.isascii()
            terms.append({"name": name, "kind": "str", "lit": lit, "ci": ci, "ast": ("ilit", lit) if ci else _lit_ast(lit)})
        else:
            ast = regexgen.gen_re(rng, rng.choice([1, 2]), [c for c in cs])
            ast = ("cat", ("lit", rng.choice(letters)), ast) if rng.random() < 0.7 else ("plus", ("cls", sorted(rng.sample(letters, min(2, len(letters)))), False))
            terms.append({"name": name, "kind": "re", "ast": ast})
    if rng.random() < 0.3 and len(terms) >= 1:
        # two terminals with the same source text but different meaning: "x"i vs "x", or "." vs /./
        if "." in cs and rng.random() < 0.5:
            terms.append({"name": "TY", "kind": "str", "lit": ".", "ci": False, "ast": ("lit", ".")})
            terms.append({"name": "TZ", "kind": "re", "ast": ("dot",)})
        elif "+" in cs and rng.random() < 0.7:
            # the string "a+" and the regex /a+/ have the same source text
            terms.append({"name": "TY", "kind": "str", "lit": "a+", "ci": False, "ast": ("cat", ("lit", "a"), ("lit", "+"))})
            terms.append({"name": "TZ", "kind": "re", "ast": ("plus", ("lit", "a")), "src": "a+"})
        else:
            lit = "".join(rng.choice([c for c in letters if c.isascii() and c.isalpha()] or ["a"]) for _ in range(rng.choice([1, 1, 2])))
            # both cases must be in the character set, otherwise "x"i and "x" denote the same language over it
            cs = cs + [c for c in dict.fromkeys(lit.swapcase()) if c not in cs]
            letters = [c for c in cs if c != " "]
            terms.append({"name": "TY", "kind": "str", "lit": lit, "ci": True, "ast": ("ilit", lit)})
            terms.append({"name": "TZ", "kind": "str", "lit": lit, "ci": False, "ast": _lit_ast(lit)})
    multi = [c for c in letters if len(c.encode()) >= 3]
    if len(multi) >= 2 and rng.random() < 0.6:
        # one terminal = a class over several 3-byte characters (shared lead byte, different continuation bytes)
        terms[0] = {"name": terms[0]["name"], "kind": "re", "ast": ("cls", sorted(rng.sample(multi, min(len(multi), rng.choice([2, 3])))), False)}
    if four:
        terms = [{"name": "T" + "ABCD"[k], "kind": "str", "lit": c, "ci": False, "ast": ("lit", c)} for k, c in enumerate("abcd")]
    if nul:
        # U+0000 in a string terminal and in a regex terminal (written with escapes in the Lark source): its UTF-8 encoding is the
        # byte 0, a FALSY integer label on the byte level
        terms = [{"name": "TA", "kind": "str", "lit": "a", "ci": False, "ast": ("lit", "a")},
                 {"name": "TB", "kind": "re", "ast": ("lit", "\x00"), "src": "\\x00"},
                 {"name": "TC", "kind": "str", "lit": "b\x00", "srclit": "b\\x00", "ci": False, "ast": _lit_ast("b\x00")}][: rng.choice([2, 3, 3])]
    ignore = None
    if " " in cs and (four or rng.random() < 0.5):
        ignore = {"name": "WS", "kind": "str", "lit": " ", "ci": False, "ast": ("lit", " ")}
    rules = {}
    rnames = ["start"] + (["r1"] if rng.random() < 0.5 and not four else [])
    syms = [t["name"] for t in terms] + rnames[1:]
    for r in rnames:
        alts = []
        for _ in range(rng.randint(1, 2)):
            items = []
            for _ in range(rng.randint(1, 3)):
                s = rng.choice(syms if r == "start" else [t["name"] for t in terms] + (["start"] if rng.random() < 0.1 else []))
                items.append([s, rng.choice(["", "", "", "?", "*", "+"])])
            alts.append(items)
        if r != "start" or rng.random() < 0.3:
            alts.append([[rng.choice([t["name"] for t in terms]), ""]])   # guarantee termination
        if four:
            alts = [[["TA", ""], ["TB", ""], ["TC", ""], ["TD", ""]]]
        rules[r] = alts
    lines = []
    for r, alts in rules.items():
        lines.append(f"{r}: " + " | ".join(" ".join(s + suf for s, suf in items) for items in alts))
    for t in terms + ([ignore] if ignore else []):
        if t["kind"] == "str":
            lines.append(f'{t["name"]}: "{t.get("srclit") or t["lit"]}"' + ("i" if t["ci"] else ""))
        else:
            lines.append(f'{t["name"]}: /{t.get("src") or regexgen.to_pattern(t["ast"])}/')
    if ignore:
        lines.append("%ignore WS")
    L = 3 if len(cs) >= 4 else 4
    strings = ["".join(s) for s in gen.all_strings(cs, L)]
    if four:
        strings += ["".join(s) for s in gen.all_strings(letters, 4) if len(s) == 4]
    bad = []
    for s in strings[:40]:
        b = list(s.encode("utf-8"))
        if len(b) > len(s):
            bad.append(b[:-1])
            bad.append(b[1:])
    mb = [list(ch.encode("utf-8")) for ch in cs if len(ch.encode("utf-8")) >= 3]
    for b1 in mb:
        for b2 in mb:
            if b1 != b2 and len(b1) == len(b2):
                # byte mixes of two characters of equal length (same lead byte, continuation bytes exchanged)
                for cut in range(1, len(b1)):
                    mix = b1[:cut] + b2[cut:]
                    if mix not in mb:
                        bad.append(mix)
                        bad.append([ord("1")] + mix + [ord("1")] if "1" in cs else mix + mix)
    return {"id": i, "twice": four or rng.random() < 0.35, "grammar": "\n".join(lines) + "\n", "charset": cs, "terms": terms, "ignore": ignore, "rules": rules, "strings": strings, "bad_bytes": bad[:12] + bad[12:][-24:]}


def _lit_ast(lit):
    ast = ("lit", lit[0])
    for c in lit[1:]:
        ast = ("cat", ast, ("lit", c))
    return ast


def expand_rules(rules, termnames):
    """EBNF (?, *, +) of the harness' own grammars -> plain rules over rule names and terminal names"""
    out, ctr = [], [0]

    def helper(sym, suf):
        if suf == "":
            return sym
        ctr[0] += 1
        h = f"__h{ctr[0]}"
        if suf == "?":
            out.append([True, h, []]); out.append([True, h, [sym]])
        elif suf == "*":
            out.append([True, h, []]); out.append([True, h, [h, sym]])
        else:
            out.append([True, h, [sym]]); out.append([True, h, [h, sym]])
        return h
    for r, alts in rules.items():
        for items in alts:
            out.append([True, r, [helper(s, suf) for s, suf in items]])
    return {"S": "start", "V": sorted(termnames), "rules": out}


def segmentations(s):
    if not s:
        return [[]]
    out = []
    for k in range(1, len(s) + 1):
        for rest in segmentations(s[k:]):
            out.append([s[:k]] + rest)
    return out


def run(ctx):
    rng, tier = ctx["rng"], ctx["tier"]
    n = int((40 if tier == "quick" else 500) * ctx.get("mult", 1))
    hashseeds = [0] if tier == "quick" else [0, 1]
    if ctx.get("replay"):
        cases = [f["case"] for f in ctx["replay"]["failing"] if "case" in f]
    else:
        cases = corpus() + [make_case(rng, i, tier) for i in range(n)]
    for i, c in enumerate(cases):
        c["id"] = i
    impl_res = ctx["run_impl"](cases, hashseeds, 300)
    # 1. which substrings match which terminal (verified matcher)
    re_items, re_idx = [], []
    for c in cases:
        subs = sorted({s[a:b] for s in c["strings"] for a in range(len(s)) for b in range(a + 1, len(s) + 1)} | {""})
        c["_subs"] = subs
        for t in c["terms"] + ([c["ignore"]] if c["ignore"] else []):
            ast = t["ast"]
            re_items.append({"re": regexgen.desugar(_tuplify(ast), c["charset"]), "strings": subs})
            re_idx.append((c["id"], t["name"]))
    match = {}
    for (cid, tn), r in zip(re_idx, common.re_batch(re_items)):
        if "error" in r:
            raise common.DriverError(r["error"])
        match[(cid, tn)] = {s for s, a in zip(cases[cid]["_subs"], r["accepts"]) if a}
    # 2. candidate terminal sequences per string, 3. sentence-hood by the verified derivation procedure
    mops, midx = [], []
    skip = set()
    for c in cases:
        names = [t["name"] for t in c["terms"]]
        if any("" in match[(c["id"], tn)] for tn in names + (["WS"] if c["ignore"] else [])):
            skip.add(c["id"])     # zero-width terminals are rejected by Lark itself
            continue
        seqs = set()
        c["_cands"] = {}
        for s in c["strings"]:
            cand = set()
            for seg in segmentations(s):
                opts = []
                for w in seg:
                    ts = set()
                    for tn in names:
                        if w in match[(c["id"], tn)]:
                            ts.add(tn)
                        if c["ignore"]:
                            for k in range(1, len(w)):
                                if w[:k] in match[(c["id"], "WS")] and w[k:] in match[(c["id"], tn)]:
                                    ts.add(tn)
                    opts.append(sorted(ts))
                if all(opts):
                    for tau in itertools.product(*opts):
                        cand.add(tau)
            c["_cands"][s] = cand
            seqs |= cand
        seqs = sorted(seqs)
        c["_seqs"] = seqs
        mops.append({"op": "mask", "R": "Boolean", "cfg": expand_rules(c["rules"], names), "ctxs": [list(t) for t in seqs] or [[]]})
        midx.append(c["id"])
    sent = {}
    for cid, r in zip(midx, ctx["lean"](mops)):
        if "error" in r:
            raise common.DriverError(r["error"])
        sent[cid] = {tuple(t) for t, ok in zip(cases[cid]["_seqs"], r["sentence"]) if ok}
    semantic, samples = [], []
    evaluations = traces = 0
    nontrivial = set()
    stats = {"skipped_zero_width": len(skip), "accepted": 0, "rejected": 0, "byte_strings": 0, "bad_byte_strings": 0, "build_errors": 0, "with_ignore": 0, "multibyte_charsets": 0}
    for c in cases:
        if c["id"] in skip:
            continue
        stats["with_ignore"] += bool(c["ignore"])
        stats["multibyte_charsets"] += any(len(ch.encode()) > 1 for ch in c["charset"])
        want = [bool(c["_cands"][s] & sent[c["id"]]) for s in c["strings"]]
        na = sum(want)
        stats["accepted"] += na
        stats["rejected"] += len(want) - na
        if na and na < len(want):
            nontrivial.add(hashlib.sha1(c["grammar"].encode()).hexdigest())
        for hs in hashseeds:
            res = impl_res[hs].get(c["id"])
            if res is None or "exc" in res:
                semantic.append(_viol(c, hs, "worker", None, res))
                continue
            if "exc_build" in res:
                stats["build_errors"] += 1     # Lark rejected the generated grammar: not a case of the property
                continue
            for name in ("char", "byte"):
                got = res.get(name)
                if isinstance(got, dict):
                    semantic.append(_viol(c, hs, name + "_cfg", None, got))
                    continue
                if not res.get(name + "_disjoint", True):
                    semantic.append(_viol(c, hs, name + "_cfg", None, "terminal and nonterminal names collide"))
                for s, g, w in zip(c["strings"], got, want):
                    evaluations += 1
                    stats["byte_strings"] += name == "byte"
                    if isinstance(g, dict) or g != w:
                        semantic.append(_viol(c, hs, name + "_cfg", s, {"impl": g, "substitution_semantics": w}))
                    else:
                        traces += 1
                if name == "byte":
                    for b, g in zip(c["bad_bytes"], got[len(c["strings"]):]):
                        evaluations += 1
                        stats["bad_byte_strings"] += 1
                        try:
                            dec = bytes(b).decode("utf-8")
                        except Exception:  # noqa
                            dec = None
                        w = (dec in c["strings"] and want[c["strings"].index(dec)]) if dec is not None else False
                        if dec is not None and dec not in c["strings"]:
                            if all(ch in c["charset"] or ch in "qz9" for ch in dec):
                                continue            # a longer string over the character set: not enumerated
                            w = False               # contains a character no terminal of the generated grammar can match
                        if isinstance(g, dict) or g != w:
                            semantic.append(_viol(c, hs, "byte_cfg", b, {"impl": g, "expected": w, "note": "not the UTF-8 encoding of an accepted string" if not w else ""}))
                        else:
                            traces += 1
        if len(samples) < 3 and na and na < len(want):
            samples.append({"grammar": c["grammar"], "charset": c["charset"], "accepted": [s for s, w in zip(c["strings"], want) if w][:8]})
    for c in cases:
        for k in ("_subs", "_cands", "_seqs"):
            c.pop(k, None)
    return {
        "evaluations": evaluations, "distinct_nontrivial": len(nontrivial),
        "rule": "seeded Lark grammars (1–2 rules with ? * + |, 1–3 string / regex / case-insensitive terminals, optional %ignore of a whitespace terminal, charsets with 2- and 3-byte characters) "
                "x ALL strings over the charset up to length 3–4 (char level) and their UTF-8 encodings plus truncated encodings (byte level); non-trivial = distinct grammars accepting some and rejecting some string",
        "samples": samples, "traces": traces, "semantic": semantic, "structural": [],
        "extra": {"hashseeds": hashseeds, "stats": stats, "cases": len(cases)},
        "assumptions": ["the harness expands the EBNF operators of its own generated grammars and enumerates segmentations; Lark's grammar loader is third-party code cross-checked only through this end-to-end comparison",
                        "grammars Lark itself rejects (e.g. zero-width terminals) are skipped and counted"],
    }


def corpus():
    g = 'start: TA TB\nTA: "é"\nTB: "ü"\n'
    cs = list("éü")
    terms = [{"name": "TA", "kind": "str", "lit": "é", "ci": False, "ast": ("lit", "é")}, {"name": "TB", "kind": "str", "lit": "ü", "ci": False, "ast": ("lit", "ü")}]
    e, u = list("é".encode()), list("ü".encode())
    return [{"grammar": g, "charset": cs, "terms": terms, "ignore": None, "rules": {"start": [[["TA", ""], ["TB", ""]]]},
             "strings": ["".join(s) for s in gen.all_strings(cs, 2)], "bad_bytes": [[e[0], u[1], e[0], e[1]], e[:1], e + u[:1]]}]


def _tuplify(a):
    return tuple(_tuplify(x) if isinstance(x, list) and x and isinstance(x[0], str) and x[0] in ("lit", "cls", "range", "dot", "esc", "ilit", "eps", "alt", "cat", "star", "plus", "opt", "rep") else x for x in a) if isinstance(a, (list, tuple)) else a


def _viol(c, hs, name, q, got):
    sig = hashlib.sha1(json.dumps([name, c["grammar"], q]).encode()).hexdigest()[:16]
    cc = {k: v for k, v in c.items() if not k.startswith("_")}
    return {"signature": f"C19:{name}:{sig}", "op": name, "query": q, "impl": got, "hashseed": hs, "case": cc}
