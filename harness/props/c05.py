"""C05 — incremental parsing is history-independent; queries are pure.

Proof: the memo-table discipline (`history_independent`: for every operation sequence the answers
are those of a fresh object, for an arbitrary pure column function).  What a pure model cannot
exhibit — Python aliasing, in-place mutation of shared cached columns, mutation of the grammar — is
checked here: seeded query histories (sibling and nested prefixes, repeats, clear_cache, cold vs
warm long contexts) on ONE object against a fresh object per query, with deep snapshots of every
cached column and of the grammar before and after each query."""
import hashlib
import json
import random

from harness import common, gen

EOS = "▪"
KINDS = ["earley", "rescaled", "cky", "earley_lm", "rescaled_lm", "cky_lm", "bool_earley", "bool_cky"]


def _make(kind, desc):
    g = common.mk_cfg(desc, "Float")
    if kind == "earley":
        from genlm.grammar.parse.earley import Earley
        return Earley(g), g
    if kind == "rescaled":
        from genlm.grammar.parse.earley_rescaled import Earley
        return Earley(g), g
    if kind == "cky":
        from genlm.grammar.parse.cky import IncrementalCKY
        return IncrementalCKY(g.cnf), g
    if kind == "earley_lm":
        from genlm.grammar.parse.earley import EarleyLM
        return EarleyLM(g), g
    if kind == "rescaled_lm":
        from genlm.grammar.parse.earley_rescaled import EarleyLM
        return EarleyLM(g), g
    if kind == "cky_lm":
        from genlm.grammar.parse.cky import CKYLM
        return CKYLM(g), g
    from genlm.grammar.cfglm import BoolCFGLM
    return BoolCFGLM(g, alg="earley" if kind == "bool_earley" else "cky"), g


def _num(v):
    try:
        return float(v.score) if hasattr(v, "score") else float(v)
    except Exception:  # noqa
        return repr(v)


def _canon_col(col):
    """canonical, zero-free image of one cached chart column, INDEPENDENT of the internal numbering of
    nonterminals (each construction renumbers them; fresh-name counters differ between objects):
    per origin position, the sorted multiset of item weights"""
    def group(items, origin):
        d = {}
        for k, v in items:
            x = _num(v)
            if x != 0:
                d.setdefault(origin(k), []).append(x)
        return sorted((o, sorted(vs)) for o, vs in d.items())
    if hasattr(col, "c_chart"):     # Earley column
        out = {"c": group(col.c_chart.items(), lambda k: k[0]), "i": group(col.i_chart.items(), lambda k: k[0])}
        if getattr(col, "rescale", None) is not None:
            out["r"] = _num(col.rescale)
        return out
    # CKY column: defaultdict(i -> Chart)
    return sorted((i, sorted(_num(v) for v in ch.values() if _num(v) != 0)) for i, ch in col.items() if any(_num(v) != 0 for v in ch.values()))


def _parser(obj):
    m = getattr(obj, "model", None)
    if m is None:
        return obj
    return getattr(m, "model", m) if hasattr(m, "model") and not hasattr(m, "_chart") else m


def _snapshot(obj):
    p = _parser(obj)
    ch = getattr(p, "_chart", None)
    if ch is None:
        return {}
    return {repr(k): [_canon_col(c) for c in cols] for k, cols in ch.items()}


_SCRIBBLE = False
_LIST_CTX = None     # the ONE list object of a `list_ctx` history (edited in place between queries), None otherwise


def _answer(obj, op, shared_list=False):
    if _LIST_CTX is None:
        tup = lambda s: tuple(common.dec_sym(t) for t in s)  # noqa
    elif shared_list:
        def tup(s):           # the caller's own list, edited in place: same object, new contents
            _LIST_CTX[:] = [common.dec_sym(t) for t in s]
            return _LIST_CTX
    else:
        tup = lambda s: [common.dec_sym(t) for t in s]  # noqa  (a fresh list per query)
    name, arg = op[0], op[1] if len(op) > 1 else None
    if name == "clear":
        obj.clear_cache()
        return "cleared"
    if name == "p_next":
        if hasattr(obj, "p_next"):
            p = obj.p_next(tup(arg))
        else:
            return "n/a"
        ans = sorted((repr(k), _num(v)) for k, v in p.items() if _num(v) != 0)
        if shared_list is not None and _SCRIBBLE:
            try:                          # the caller edits the object it was handed (it is the caller's now)
                for k in list(p):
                    p[k] = p[k] * 0
            except Exception:  # noqa
                pass
        return ans
    if name == "call":
        if hasattr(obj, "eos"):
            if _LIST_CTX is not None:
                return _num(obj(tup(list(arg) + [EOS])))
            return _num(obj(tup(arg) + (EOS,)))
        return _num(obj(tup(arg)))
    if name == "chart":
        p = _parser(obj)
        return [_canon_col(c) for c in p.chart(tup(arg))]
    raise ValueError(name)


def impl(case):
    global _LIST_CTX, _SCRIBBLE
    _LIST_CTX = [] if case.get("list_ctx") else None
    _SCRIBBLE = bool(case.get("scribble"))
    kind = case["kind"]
    obj, g = _make(kind, case["cfg"])
    g_snap = common.enc_cfg(g, "Float")
    inner = getattr(obj, "cfg", None)
    inner_snap = common.enc_cfg(inner, "Float") if inner is not None and hasattr(inner, "rules") else None
    out = {"answers": [], "fresh": [], "cache_mutations": [], "grammar_mutated": False}
    for op in case["ops"]:
        snap = not case.get("no_snapshot")
        before = _snapshot(obj) if snap else {}
        try:
            a = _answer(obj, op, shared_list=True)
        except Exception as e:  # noqa
            a = {"exc": type(e).__name__, "msg": str(e)[:200]}
        after = _snapshot(obj) if snap else {}
        if op[0] != "clear":
            for k, cols in before.items():
                if k in after and after[k] != cols:
                    out["cache_mutations"].append({"op": op, "cached_prefix": k})
        try:
            fo, _ = _make(kind, case["cfg"])
            f = _answer(fo, op) if op[0] != "clear" else "cleared"
        except Exception as e:  # noqa
            f = {"exc": type(e).__name__, "msg": str(e)[:200]}
        out["answers"].append(a)
        out["fresh"].append(f)
    out["grammar_mutated"] = common.enc_cfg(g, "Float") != g_snap or (inner_snap is not None and common.enc_cfg(inner, "Float") != inner_snap)
    return out


def make_case(rng, i, tier):
    kind = rng.choice(KINDS)
    desc, shape = gen.gen_cfg(rng, maxrules=5 if "cky" in kind else 6, nterms=rng.choice([2, 3]), nnt=rng.choice([1, 2, 2, 3]),
                              shape="mutual_left_rec" if rng.random() < 0.25 else None)
    V = desc["V"]
    base = []
    for _ in range(5):
        s = gen.sample_string(rng, desc, maxlen=5) or [rng.choice(V) for _ in range(rng.randint(1, 4))]
        base.append(s)
    ops = []
    nops = rng.randint(6, 14) if tier == "quick" else rng.randint(10, 40)
    qtypes = ["p_next", "call", "chart"] if kind in ("earley", "rescaled", "cky") else ["p_next", "call", "chart"]
    if kind in ("earley", "rescaled"):
        qtypes = ["call", "chart", "chart"]
    for _ in range(nops):
        r = rng.random()
        if r < 0.12:
            ops.append(["clear"])
            continue
        s = rng.choice(base)
        k = rng.randint(0, len(s))
        p = s[:k]
        if rng.random() < 0.3 and p:                       # sibling prefix: same parent, different last token
            p = p[:-1] + [rng.choice(V)]
        if rng.random() < 0.15 and ops:                    # repeat an earlier query
            ops.append(rng.choice(ops))
            continue
        ops.append([rng.choice(qtypes), p])
        if rng.random() < 0.3:
            # look-ahead that may not pan out: the context extended by an arbitrary token, then the context itself again
            q = rng.choice(qtypes)
            ops.append([q, p + [rng.choice(V)]])
            ops.append([q, p])
        elif rng.random() < 0.2:
            # a cached context, then the context extended by several tokens at once (cold intermediate prefixes), then the context again
            q = rng.choice(qtypes)
            ops.append([q, p])
            ops.append([q, p + [rng.choice(V) for _ in range(rng.choice([2, 3]))]])
            ops.append([q, p])
    # contexts handed over as ONE Python list that the caller edits in place between queries (append / pop / overwrite)
    list_ctx = rng.random() < 0.2
    scribble = rng.random() < 0.25
    return {"id": i, "kind": kind, "shape": shape + ("+list_ctx" if list_ctx else "") + ("+scribble" if scribble else ""), "cfg": desc, "ops": ops,
            "list_ctx": list_ctx, "scribble": scribble}


def long_cases():
    g = {"S": "S", "V": ["a", "b"], "rules": [["1/2", "S", ["a", "S"]], ["1/4", "S", ["a"]], ["1/4", "S", ["b"]]]}
    out = []
    for kind, n in (("rescaled_lm", 200), ("earley_lm", 120), ("rescaled", 150), ("bool_earley", 100)):
        a = ["a"] * n
        q = "p_next" if kind.endswith("_lm") or kind.startswith("bool") else "call"
        ops = [[q, a[: n // 2]], [q, a], [q, a[: n // 2] + ["b"]], [q, a[: n // 3]], ["clear"], [q, a[: n // 2]], [q, a[: n // 2]]]
        out.append({"kind": kind, "shape": f"long_{n}", "cfg": g, "ops": ops})
    # cold query beyond the interpreter's recursion limit (one chart level per token), then warm re-queries
    a = ["a"] * 520
    out.append({"kind": "rescaled_lm", "shape": "long_cold_520", "cfg": g, "ops": [["p_next", a], ["p_next", a[:260]], ["p_next", a]], "no_snapshot": True})
    out.append({"kind": "earley", "shape": "long_cold_520", "cfg": g, "ops": [["call", a], ["call", a[:300]]], "no_snapshot": True})
    return out


def _same(a, b):
    if isinstance(a, float) and isinstance(b, float):
        # a fresh object re-runs the (tolerance-1e-12, order-dependent) fixpoint computations of its constructor
        if a != a or b != b or abs(a) == float('inf') or abs(b) == float('inf'):
            return a == b          # nan is never the same; an infinite value only equals itself
        return a == b or abs(a - b) <= 1e-9 * max(abs(a), abs(b))
    if isinstance(a, (list, tuple)) and isinstance(b, (list, tuple)):
        return len(a) == len(b) and all(_same(x, y) for x, y in zip(a, b))
    if isinstance(a, dict) and isinstance(b, dict):
        if "exc" in a or "exc" in b:
            return a.get("exc") == b.get("exc")
        return a.keys() == b.keys() and all(_same(a[k], b[k]) for k in a)
    return a == b


def run(ctx):
    rng, tier = ctx["rng"], ctx["tier"]
    n = int((70 if tier == "quick" else 1000) * ctx.get("mult", 1))
    hashseeds = [0, 1] if tier == "quick" else [0, 1, 2]
    if ctx.get("replay"):
        cases = [f["case"] for f in ctx["replay"]["failing"] if "case" in f]
    else:
        cases = long_cases() + [make_case(rng, i, tier) for i in range(n)]
    for i, c in enumerate(cases):
        c["id"] = i
    impl_res = ctx["run_impl"](cases, hashseeds, 240)
    semantic, samples = [], []
    evaluations = traces = 0
    nontrivial = set()
    kinds, opsh = {}, {}
    stats = {"queries": 0, "clears": 0, "repeated_queries": 0, "exceptions_both": 0}
    for c in cases:
        kinds[c["kind"]] = kinds.get(c["kind"], 0) + 1
        seen = set()
        for op in c["ops"]:
            opsh[op[0]] = opsh.get(op[0], 0) + 1
            kk = json.dumps(op)
            stats["repeated_queries"] += kk in seen
            seen.add(kk)
        nontrivial.add(hashlib.sha1(json.dumps([c["kind"], c["cfg"], c["ops"]], sort_keys=True).encode()).hexdigest())
        for hs in hashseeds:
            res = impl_res[hs].get(c["id"])
            if res is None or "exc" in res:
                semantic.append(_viol(c, hs, "worker", None, res))
                continue
            if res["grammar_mutated"]:
                semantic.append(_viol(c, hs, "grammar_mutated", None, "rules / V / S of the grammar changed during the history"))
            for m in res["cache_mutations"]:
                semantic.append(_viol(c, hs, "cached_column_mutated", m["op"], m))
            for op, a, f in zip(c["ops"], res["answers"], res["fresh"]):
                evaluations += 1
                if op[0] == "clear":
                    stats["clears"] += 1
                    continue
                stats["queries"] += 1
                if isinstance(a, dict) and "exc" in a and isinstance(f, dict) and "exc" in f:
                    stats["exceptions_both"] += 1
                if not _same(a, f):
                    semantic.append(_viol(c, hs, "history_dependence", op, {"used_object": _short(a), "fresh_object": _short(f)}))
                else:
                    traces += 1
        if len(samples) < 3 and len(c["ops"]) > 6:
            samples.append({"kind": c["kind"], "cfg": c["cfg"], "ops": c["ops"][:8]})
    return {
        "evaluations": evaluations, "distinct_nontrivial": len(nontrivial),
        "rule": "seeded query histories (6–14 ops quick, 10–40 thorough: p_next / call / chart / clear_cache over sibling and nested prefixes, repeats) on eight object kinds "
                "(three parsers, three LMs, Boolean LM with both back ends) plus cold/warm long contexts (100–200 tokens); every answer compared with a fresh object's, every cached "
                "column snapshotted before/after each query; distinct = distinct (kind, grammar, history)",
        "samples": samples, "traces": traces, "semantic": semantic, "structural": [],
        "extra": {"kind_histogram": kinds, "op_histogram": opsh, "hashseeds": hashseeds, "stats": stats, "cases": len(cases)},
        "assumptions": ["used-vs-fresh answers are compared with rtol 1e-9: each construction re-runs iterative fixpoint computations (tolerance 1e-12) in a name-dependent order",
                        "explicit zero entries in returned charts are canonicalised away (a Chart is a function with default zero)"],
    }


def _short(a):
    s = json.dumps(a, default=str)
    return s if len(s) < 600 else s[:600] + "…"


def _viol(c, hs, name, op, got):
    sig = hashlib.sha1(json.dumps([name, c["kind"], c["cfg"], c["ops"], op], sort_keys=True).encode()).hexdigest()[:16]
    return {"signature": f"C05:{name}:{sig}", "op": name, "query": op, "impl": got, "hashseed": hs, "case": c}
