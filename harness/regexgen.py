"""Regex ASTs: generation, printing in the library's (Python re / interegular) syntax, and desugaring
to the core operators of the verified matcher relative to a character set."""
import string

LETTERS = "abcAB"


def gen_re(rng, depth, charset):
    chars = sorted(charset)
    lits = [c for c in chars if c.isalnum()] or ["a"]
    if rng.random() < 0.25:
        lits = lits + [rng.choice("qz9")]      # a symbol the pattern mentions but the character set lacks
    if depth == 0 or rng.random() < 0.25:
        k = rng.random()
        if k < 0.45:
            return ("lit", rng.choice(lits))
        if k < 0.6:
            cs = rng.sample(lits, rng.randint(1, min(3, len(lits))))
            return ("cls", sorted(cs), rng.random() < 0.4)
        if k < 0.7:
            return ("dot",)
        if k < 0.78:
            return ("esc", rng.choice(["d", "w", "s"]))
        if k < 0.86:
            return ("ilit", "".join(rng.choice(lits) for _ in range(rng.randint(1, 2))))
        if k < 0.9 and "." in charset:
            return ("lit", ".")
        if k < 0.94:
            lo, hi = sorted(rng.sample("abc", 2))
            return ("range", lo, hi, rng.random() < 0.3)
        return ("eps",)
    op = rng.choice(["alt", "cat", "cat", "star", "plus", "opt", "rep"])
    if op in ("alt", "cat"):
        return (op, gen_re(rng, depth - 1, charset), gen_re(rng, depth - 1, charset))
    if op == "rep":
        m = rng.randint(0, 2)
        return ("rep", gen_re(rng, depth - 1, charset), m, m + rng.randint(0, 2))
    return (op, gen_re(rng, depth - 1, charset))


def _esc(c):
    return "\\" + c if c in ".^$*+?{}[]\\|()" else c


def to_pattern(n):
    t = n[0]
    if t == "lit":
        return _esc(n[1])
    if t == "cls":
        return "[" + ("^" if n[2] else "") + "".join(_esc(c) if c in "]\\^-" else c for c in n[1]) + "]"
    if t == "range":
        return "[" + ("^" if n[3] else "") + f"{n[1]}-{n[2]}]"
    if t == "dot":
        return "."
    if t == "esc":
        return "\\" + n[1]
    if t == "ilit":
        return f"(?i:{n[1]})"
    if t == "eps":
        return "()"
    if t == "alt":
        return f"({to_pattern(n[1])}|{to_pattern(n[2])})"
    if t == "cat":
        return f"({to_pattern(n[1])}{to_pattern(n[2])})"
    if t == "star":
        return f"({to_pattern(n[1])})*"
    if t == "plus":
        return f"({to_pattern(n[1])})+"
    if t == "opt":
        return f"({to_pattern(n[1])})?"
    if t == "rep":
        return f"({to_pattern(n[1])}){{{n[2]},{n[3]}}}"
    raise ValueError(t)


def _alts(cs):
    cs = sorted(cs)
    if not cs:
        return "empty"
    out = ["chr", cs[0]]
    for c in cs[1:]:
        out = ["alt", out, ["chr", c]]
    return out


def _cat(xs):
    if not xs:
        return "eps"
    out = xs[0]
    for x in xs[1:]:
        out = ["cat", out, x]
    return out


def desugar(n, charset):
    """core AST (JSON) over the character set: classes, negated classes, dot, escapes, repetition,
    case-insensitive literals expanded"""
    t = n[0]
    cs = set(charset)
    if t == "lit":
        return ["chr", n[1]] if n[1] in cs else "empty"
    if t == "cls":
        return _alts((cs - set(n[1])) if n[2] else (cs & set(n[1])))
    if t == "range":
        r = {chr(k) for k in range(ord(n[1]), ord(n[2]) + 1)}
        return _alts((cs - r) if n[3] else (cs & r))
    if t == "dot":
        return _alts(cs - {"\n"})
    if t == "esc":
        if n[1] == "d":
            return _alts({c for c in cs if c in string.digits})
        if n[1] == "w":
            return _alts({c for c in cs if c in string.ascii_letters + string.digits + "_"})
        return _alts({c for c in cs if c in " \t\n\r\f\v"})
    if t == "ilit":
        parts = []
        for c in n[1]:
            v = {x for x in (c, c.lower(), c.upper()) if len(x) == 1}
            parts.append(_alts(v & cs))
        return _cat(parts)
    if t == "eps":
        return "eps"
    if t == "alt":
        return ["alt", desugar(n[1], charset), desugar(n[2], charset)]
    if t == "cat":
        return ["cat", desugar(n[1], charset), desugar(n[2], charset)]
    if t == "star":
        return ["star", desugar(n[1], charset)]
    if t == "plus":
        d = desugar(n[1], charset)
        return ["cat", d, ["star", d]]
    if t == "opt":
        return ["alt", "eps", desugar(n[1], charset)]
    if t == "rep":
        d = desugar(n[1], charset)
        req = _cat([d] * n[2])
        opt = "eps"
        for _ in range(n[3] - n[2]):
            opt = ["alt", "eps", ["cat", d, opt]]
        return ["cat", req, opt]
    raise ValueError(t)
