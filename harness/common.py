"""Shared plumbing of the verification harness: encoding of Python objects for the Lean
driver's line protocol, the driver itself, build + axiom audit, evidence files."""
import fcntl
import hashlib
import json
import math
import os
import subprocess
import sys
import time
from fractions import Fraction

VERIF = os.path.dirname(os.path.dirname(os.path.abspath(__file__)))
LEAN = os.environ.get("VERIF_LEAN") or os.path.join(VERIF, "lean")   # VERIF_LEAN: a scratch copy of the lake project (development: seeded-change runs)
DRIVER = os.path.join(LEAN, ".lake", "build", "bin", "driver")
REPO = os.environ.get("GENLM_REPO", "/repo")
# development only (seeded-change runs against a scratch worktree, in parallel): where replay/ and evidence/ are written
OUT = os.environ.get("VERIF_OUT", VERIF)
GUARD = "GENLM_GRAMMAR_VERIF"

STD_AXIOMS = {"propext", "Classical.choice", "Quot.sound"}
# theorems audited for a property besides `Genlm.Props.<prop>` (proved about GENERATED definitions)
EXTRA_NS = {"C16": ["Genlm.SemiringLaws"], "C02": ["Genlm.Gen.Earley"], "C04": ["Genlm.Gen.EarleyRescaled"]}


# ----------------------------------------------------------------------------- symbols
def enc_sym(x):
    """Python hashable name -> JSON (type-tagged, structural)."""
    if isinstance(x, bool):
        return {"t": "True" if x else "False", "a": []}
    if isinstance(x, str):
        return x
    if isinstance(x, int):
        return int(x)
    if x is None:
        return None
    if isinstance(x, bytes):
        return {"t": "bytes", "a": list(x)}
    if isinstance(x, tuple):
        if hasattr(x, "_fields"):
            return {"t": type(x).__name__, "a": [enc_sym(y) for y in x]}
        return [enc_sym(y) for y in x]
    if isinstance(x, frozenset):
        return {"t": "frozenset", "a": sorted((enc_sym(y) for y in x), key=lambda j: json.dumps(j, sort_keys=True))}
    if hasattr(x, "item") and hasattr(x, "dtype"):  # numpy scalar
        return enc_sym(x.item())
    if isinstance(x, float) and x == int(x):
        if TOKEN_WRAP == "float":
            return int(x)       # the descriptor's integer token, handed to the library as a float
        return {"t": "float", "a": [int(x)]}
    # frozendict (determinize) and anything else: opaque but deterministic
    try:
        items = sorted(((enc_sym(k), repr(v)) for k, v in x.items()), key=lambda j: json.dumps(j, sort_keys=True))
        return {"t": "frozendict", "a": [[k, v] for k, v in items]}
    except Exception:
        return {"t": "repr", "a": [repr(x)]}


# set per case by impl_worker (`case["token_type"]`): integer symbols of the descriptor are handed to the library as numpy
# integers / floats — token ids that EQUAL (and hash like) Python ints without being `int` instances
TOKEN_WRAP = None


def dec_sym(j):
    """JSON -> Python name (inverse of enc_sym on what the library creates)."""
    if isinstance(j, int) and not isinstance(j, bool) and TOKEN_WRAP:
        if TOKEN_WRAP == "npint":
            import numpy as np
            return np.int64(j)
        if TOKEN_WRAP == "float":
            return float(j)
    if isinstance(j, (str, int)) and not isinstance(j, bool):
        return j
    if j is None:
        return None
    if isinstance(j, list):
        return tuple(dec_sym(y) for y in j)
    if isinstance(j, dict):
        t, a = j["t"], [dec_sym(y) for y in j["a"]]
        if t in ("Other", "NotNull", "Slash"):
            from genlm.grammar import cfg as _cfg
            return getattr(_cfg, t)(*a)
        if t == "True":
            return True
        if t == "False":
            return False
        if t == "bytes":
            return bytes(a)
        if t == "frozenset":
            return frozenset(a)
        return (t, *a)
    raise ValueError(j)


def symkey(j):
    return json.dumps(j, sort_keys=True, ensure_ascii=False)


# ----------------------------------------------------------------------------- weights
def semiring(name):
    if name == "Lang":
        from harness.langsemi import Lang
        return Lang
    if name == "Exact":
        from harness.exactsemi import Exact
        return Exact
    from genlm.grammar import semiring as S
    return getattr(S, name)


def frac_str(q):
    q = Fraction(q)
    return str(q.numerator) if q.denominator == 1 else f"{q.numerator}/{q.denominator}"


def mk_w(s, R, exact=False):
    """weight descriptor (string 'n/d', bool, or [p, r]) -> value of semiring R (by name)."""
    if R == "Boolean":
        return semiring(R)(bool(s))
    if R == "Lang":
        return semiring(R)(s)
    if R in ("Expectation", "Entropy"):
        p, r = s
        return semiring(R)(float(Fraction(p)), float(Fraction(r)))
    q = Fraction(s)
    v = q if (exact or R == "Exact") else float(q)
    if R in ("Float", "Exact"):
        return v
    return semiring(R)(v)


def enc_w(w, R):
    """value of semiring R -> JSON weight for the driver (exact)."""
    if R == "Boolean":
        return bool(w.score)
    if R == "Lang":
        return sorted(w.score)
    if R in ("Expectation", "Entropy"):
        return [frac_str(w.score[0]), frac_str(w.score[1])]
    v = w if R in ("Float", "Exact") else w.score
    if isinstance(v, float) and (math.isinf(v) or math.isnan(v)):
        return "inf" if v > 0 else ("-inf" if v < 0 else "nan")
    if hasattr(v, "item"):
        v = v.item()
    return frac_str(v)


def num(j):
    """JSON weight (from either side) -> Fraction / bool / tuple for comparison."""
    if isinstance(j, bool):
        return j
    if isinstance(j, list):
        return tuple(num(x) for x in j)
    if isinstance(j, (int, float)):
        return Fraction(j)
    if j in ("inf", "-inf", "nan"):
        return float(j)
    return Fraction(j)


def close(a, b, rtol=1e-9, atol=1e-12):
    """numeric agreement of two decoded weights (exact for bool)."""
    if isinstance(a, bool) or isinstance(b, bool):
        return bool(a) == bool(b)
    if isinstance(a, tuple) or isinstance(b, tuple):
        return len(a) == len(b) and all(close(x, y, rtol, atol) for x, y in zip(a, b))
    if isinstance(a, float) or isinstance(b, float):
        a, b = float(a), float(b)
        if math.isnan(a) or math.isnan(b):
            return False
        if math.isinf(a) or math.isinf(b):
            return a == b
    d = abs(a - b)
    return d <= atol + rtol * max(abs(a), abs(b))


# ----------------------------------------------------------------------------- grammars
def mk_cfg(desc, R="Float", exact=False):
    """descriptor {"S":…, "V":[…], "rules":[[w, head, body]…]} -> real CFG over semiring R."""
    from genlm.grammar.cfg import CFG
    Rc = semiring(R)
    g = CFG(R=Rc, S=dec_sym(desc["S"]), V={dec_sym(v) for v in desc["V"]})
    for w, h, b in desc["rules"]:
        g.add(mk_w(w, R, exact), dec_sym(h), *[dec_sym(y) for y in b])
    return g


def enc_cfg(g, R="Float"):
    return {
        "S": enc_sym(g.S),
        "V": sorted((enc_sym(v) for v in g.V), key=symkey),
        "rules": [[enc_w(r.w, R), enc_sym(r.head), [enc_sym(y) for y in r.body]] for r in g.rules],
    }


def canon_rules(desc):
    """rule multiset with weights summed per (head, body), sorted; zero entries dropped."""
    acc = {}
    for w, h, b in desc["rules"]:
        k = (symkey(h), symkey(b))
        acc[k] = acc.get(k, 0) + (num(w) if not isinstance(w, bool) else w)
    return sorted((k, v) for k, v in acc.items() if v != 0)


# ----------------------------------------------------------------------------- Lean driver
class DriverError(Exception):
    pass


def _lean_chunk(ops, timeout):
    data = "\n".join(json.dumps(o, ensure_ascii=False) for o in ops) + "\n"
    p = subprocess.run([DRIVER], input=data.encode(), stdout=subprocess.PIPE, stderr=subprocess.PIPE, timeout=timeout)
    if p.returncode != 0:
        raise DriverError(f"driver exit {p.returncode}: {p.stderr.decode()[-500:]}")
    lines = p.stdout.decode().splitlines()
    if len(lines) != len(ops):
        raise DriverError(f"driver returned {len(lines)} lines for {len(ops)} ops: {p.stderr.decode()[-300:]}")
    return [json.loads(l) for l in lines]


def lean_batch(ops, timeout=400, jobs=16):
    """Run a batch of operations through the native Lean driver (in parallel chunks); one result per op."""
    if not ops:
        return []
    from concurrent.futures import ThreadPoolExecutor
    k = max(1, min(jobs, len(ops) // 4 or 1))
    idx = [list(range(i, len(ops), k)) for i in range(k)]
    out = [None] * len(ops)
    try:
        with ThreadPoolExecutor(max_workers=k) as ex:
            futs = [(ix, ex.submit(_lean_chunk, [ops[i] for i in ix], timeout)) for ix in idx if ix]
            for ix, f in futs:
                for i, r in zip(ix, f.result()):
                    out[i] = r
    except subprocess.TimeoutExpired:
        raise DriverError("driver timed out")
    return out


# ----------------------------------------------------------------------------- Tarjan (scc_decomposition) vs its proved model
def tarjan_observe(G):
    """(worker side) The iteration orders `scc_decomposition(G.incoming.__getitem__, G.N)` is going to see, read off the
    `WeightedGraph` object `G` itself: `list(G.N)` and `list(G.incoming[v])` per node.  Call it right BEFORE the first access
    to `G.blocks` (/`buckets`/`Blocks`), in the same process: an unmodified set iterates in the same order every time.  Nothing
    is mutated (the defaultdict `incoming` is read with `items()`, no key is created)."""
    return {"roots": [enc_sym(v) for v in G.N],
            "succ": [[enc_sym(v), [enc_sym(w) for w in ws]] for v, ws in list(G.incoming.items())]}


def tarjan_blocks(G):
    """(worker side) `G.blocks` in emission order, each block in its frozenset's order"""
    return [[enc_sym(q) for q in blk] for blk in G.blocks]


def tarjan_op(obs):
    """driver operation running the model `tarjan` (Model/Tarjan.lean; `tarjan_correct` holds for every order) on the observed orders"""
    return {"op": "tarjan", "roots": obs["roots"], "succ": obs["succ"]}


def tarjan_same(model, blocks):
    """the model's components vs the real `blocks`: the SAME components in the SAME order (a component is a frozenset)"""
    if "error" in model:
        raise DriverError(model["error"])
    if not model.get("ok") or not model.get("stack_empty"):
        return False, f"the model's run failed (ok={model.get('ok')}, stack_empty={model.get('stack_empty')})"
    mb = [sorted(map(symkey, b)) for b in model["blocks"]]
    ib = [sorted(map(symkey, b)) for b in blocks]
    if any(len(set(b)) != len(b) for b in mb):
        return False, "the model emitted a node twice in one component"
    if mb == ib:
        return True, ""
    if sorted(mb) == sorted(ib):
        k = next(i for i, (a, b) in enumerate(zip(mb, ib)) if a != b)
        return False, f"same components, different emission order (first difference at position {k}): model {model['blocks']} impl {blocks}"
    return False, f"components differ: model {model['blocks']} impl {blocks}"


# ----------------------------------------------------------------------------- build + audit
def _lean_sources_hash():
    h = hashlib.sha256()
    for root, dirs, files in os.walk(LEAN):
        dirs[:] = sorted(d for d in dirs if d not in (".lake",))
        for f in sorted(files):
            if f.endswith((".lean", ".toml")):
                p = os.path.join(root, f)
                h.update(p.encode())
                h.update(open(p, "rb").read())
    return h.hexdigest()


FORBIDDEN = ["sorry", "admit", "native_decide", "bv_decide", "implemented_by", "unsafe ", "maxHeartbeats 0"]


def grep_forbidden():
    """forbidden tokens outside comments in the Lean sources (cheap textual scan)."""
    import re
    hits = []
    for root, dirs, files in os.walk(LEAN):
        dirs[:] = [d for d in dirs if d != ".lake"]
        for f in files:
            if not f.endswith(".lean"):
                continue
            p = os.path.join(root, f)
            src = open(p, encoding="utf-8").read()
            src = re.sub(r"/-.*?-/", lambda m: "\n" * m.group(0).count("\n"), src, flags=re.S)
            for ln, line in enumerate(src.splitlines(), 1):
                code = line.split("--")[0]
                for tok in FORBIDDEN:
                    if re.search(r"(?<![A-Za-z_.])" + re.escape(tok.strip()) + r"(?![A-Za-z_])", code):
                        hits.append(f"{os.path.relpath(p, LEAN)}:{ln}: {tok.strip()}")
                if re.match(r"\s*axiom\s", code):
                    hits.append(f"{os.path.relpath(p, LEAN)}:{ln}: axiom")
    return hits


def build_and_audit(prop, log=None):
    """translator -> lake build (driver + the property's theorem module) -> axiom audit of
    namespace Genlm.Props.<prop>; under a lock, cached by source hash.
    Returns dict(ok, driver_ok, build_log, audit={thm: [axioms]}, forbidden=[…], translate)."""
    os.makedirs(os.path.join(LEAN, ".lake"), exist_ok=True)
    lock = open(os.path.join(LEAN, ".lake", "verif.lock"), "w")
    fcntl.flock(lock, fcntl.LOCK_EX)
    try:
        t0 = time.time()
        try:
            from harness import translate
            tr = translate.run(prop)
        except Exception as e:  # translation failure = broken tie, handled by the caller
            tr = {"ok": False, "log": f"translator failed: {e!r}"}
        cache = os.path.join(LEAN, ".lake", f"verif_build_{prop}.json")
        h = _lean_sources_hash()
        if os.path.exists(cache) and os.path.exists(DRIVER):
            try:
                c = json.load(open(cache))
                if c.get("hash") == h and c.get("ok"):
                    c["cached"] = True
                    c["translate"] = tr
                    return c
            except Exception:
                pass
        res = {"hash": h, "audit": {}, "translate": tr}
        d = subprocess.run(["lake", "build", "driver"], cwd=LEAN, stdout=subprocess.PIPE, stderr=subprocess.STDOUT, timeout=3600)
        res["driver_ok"] = d.returncode == 0 and os.path.exists(DRIVER)
        out = d.stdout.decode(errors="replace")
        mod = f"GenlmModel.Props.{prop}"
        p = subprocess.run(["lake", "build", mod], cwd=LEAN, stdout=subprocess.PIPE, stderr=subprocess.STDOUT, timeout=3600)
        out += p.stdout.decode(errors="replace")
        res["ok"] = p.returncode == 0
        res["build_log"] = out[-6000:]
        if p.returncode == 0:
            a = subprocess.run(["lake", "env", "lean", "--run", "Audit.lean", mod, f"Genlm.Props.{prop}"] + EXTRA_NS.get(prop, []), cwd=LEAN,
                               stdout=subprocess.PIPE, stderr=subprocess.STDOUT, timeout=1800)
            txt = a.stdout.decode(errors="replace")
            for line in txt.splitlines():
                if line.startswith("AUDIT "):
                    dd = json.loads(line[6:])
                    res["audit"][dd["thm"]] = dd["axioms"]
            if a.returncode != 0:
                res["ok"] = False
                res["build_log"] += "\nAUDIT FAILED:\n" + txt[-3000:]
        res["forbidden"] = grep_forbidden()
        res["build_s"] = round(time.time() - t0, 2)
        if res["ok"] and res["driver_ok"]:
            json.dump(res, open(cache, "w"))
        return res
    finally:
        fcntl.flock(lock, fcntl.LOCK_UN)
        lock.close()


# ----------------------------------------------------------------------------- automata
def mk_wfsa(desc, R="Float", cls="field", exact=False):
    """descriptor {"start":[[q,w]…],"stop":[[q,w]…],"arcs":[[i,a,j,w]…]} -> real WFSA ('' is ε)."""
    if cls == "field":
        from genlm.grammar.wfsa.field_wfsa import WFSA
    else:
        from genlm.grammar.wfsa.base import WFSA
    m = WFSA(semiring(R))
    for q, w in desc["start"]:
        m.add_I(dec_sym(q), mk_w(w, R, exact))
    for q, w in desc["stop"]:
        m.add_F(dec_sym(q), mk_w(w, R, exact))
    for i, a, j, w in desc["arcs"]:
        m.add_arc(dec_sym(i), dec_sym(a), dec_sym(j), mk_w(w, R, exact))
    return m


def enc_wfsa(m, R="Float", state=enc_sym):
    return {
        "start": [[state(q), enc_w(w, R)] for q, w in m.start.items()],
        "stop": [[state(q), enc_w(w, R)] for q, w in m.stop.items()],
        "arcs": [[state(i), enc_sym(a), state(j), enc_w(w, R)] for i, a, j, w in m.arcs()],
    }


def mk_fst(desc, R="Float", exact=False):
    """descriptor with arcs [[i,a,b,j,w]…] -> real FST"""
    from genlm.grammar.fst import FST
    m = FST(semiring(R))
    for q, w in desc["start"]:
        m.add_I(dec_sym(q), mk_w(w, R, exact))
    for q, w in desc["stop"]:
        m.add_F(dec_sym(q), mk_w(w, R, exact))
    seen = set()
    for i, a, b, j, w in desc["arcs"]:
        key = symkey([i, a, b, j])
        if desc.get("use_set_arc") and key not in seen and sum(1 for e in desc["arcs"] if symkey(e[:4]) == key) == 1:
            # the public assigning variant: same machine when the (state, label, state) triple occurs once
            m.set_arc(dec_sym(i), (dec_sym(a), dec_sym(b)), dec_sym(j), mk_w(w, R, exact))
        else:
            m.add_arc(dec_sym(i), (dec_sym(a), dec_sym(b)), dec_sym(j), mk_w(w, R, exact))
        seen.add(key)
    return m


def enc_fst(m, R="Float", state=enc_sym):
    return {
        "start": [[state(q), enc_w(w, R)] for q, w in m.start.items()],
        "stop": [[state(q), enc_w(w, R)] for q, w in m.stop.items()],
        "arcs": [[state(i), enc_sym(ab[0]), enc_sym(ab[1]), state(j), enc_w(w, R)] for i, ab, j, w in m.arcs()],
    }


def canon_wfsa(desc, R="Float"):
    """weights accumulated per key with the semiring's addition, zero entries dropped, sorted
    (a Chart is a function with default zero)"""
    def acc(items, keyf, wf):
        d = {}
        for it in items:
            k = keyf(it)
            w = wf(it)
            if isinstance(w, bool):
                d[k] = d.get(k, False) or w
            elif R == "MaxTimes":
                d[k] = max(d.get(k, 0), num(w))
            else:
                d[k] = d.get(k, 0) + num(w)
        return sorted((k, v) for k, v in d.items() if v not in (0, False))
    return {"start": acc(desc["start"], lambda e: symkey(e[0]), lambda e: e[1]),
            "stop": acc(desc["stop"], lambda e: symkey(e[0]), lambda e: e[1]),
            "arcs": acc(desc["arcs"], lambda e: symkey(e[:-1]), lambda e: e[-1])}


def same_wfsa(a, b, tol=1e-9, R="Float"):
    ca, cb = canon_wfsa(a, R), canon_wfsa(b, R)
    for part in ("start", "stop", "arcs"):
        da, db = dict(ca[part]), dict(cb[part])
        if set(da) != set(db):
            return False, f"{part}: only-model {sorted(set(da) - set(db))[:3]} only-impl {sorted(set(db) - set(da))[:3]}"
        for k in da:
            if not close(da[k], db[k], tol, 1e-12):
                return False, f"{part} {k}: model {da[k]} impl {db[k]}"
    return True, ""


def dec_float(v):
    """driver weight (possibly {"bits":…} or a list) -> python number"""
    import struct
    if isinstance(v, dict) and "bits" in v:
        return struct.unpack("<d", struct.pack("<Q", v["bits"]))[0]
    if isinstance(v, list):
        return tuple(dec_float(x) for x in v)
    return num(v)


def accum_wfsa(desc, R="Float"):
    """the machine Python actually builds from a descriptor: add_I/add_F/add_arc accumulate repeated keys"""
    c = canon_wfsa(desc, R)
    import json as _j

    def w(v):
        return v if isinstance(v, bool) else frac_str(v)
    return {"start": [[_j.loads(k), w(v)] for k, v in c["start"]], "stop": [[_j.loads(k), w(v)] for k, v in c["stop"]],
            "arcs": [_j.loads(k) + [w(v)] for k, v in c["arcs"]]}


def re_batch(items, timeout=600, jobs=8):
    """verified regex matcher (Mathlib rmatch) through `lake env lean --run ReDriver.lean`"""
    if not items:
        return []
    from concurrent.futures import ThreadPoolExecutor
    k = max(1, min(jobs, len(items) // 8 or 1))
    idx = [list(range(i, len(items), k)) for i in range(k)]

    def chunk(ix):
        data = "\n".join(json.dumps(items[i], ensure_ascii=False) for i in ix) + "\n"
        p = subprocess.run(["lake", "env", "lean", "--run", "ReDriver.lean"], cwd=LEAN, input=data.encode(), stdout=subprocess.PIPE, stderr=subprocess.PIPE, timeout=timeout)
        lines = p.stdout.decode().splitlines()
        if p.returncode != 0 or len(lines) != len(ix):
            raise DriverError(f"regex driver: exit {p.returncode}, {len(lines)}/{len(ix)} lines: {p.stderr.decode()[-300:]}")
        return [json.loads(l) for l in lines]
    out = [None] * len(items)
    try:
        with ThreadPoolExecutor(max_workers=k) as ex:
            for ix, f in [(ix, ex.submit(chunk, ix)) for ix in idx if ix]:
                for i, r in zip(ix, f.result()):
                    out[i] = r
    except subprocess.TimeoutExpired:
        raise DriverError("regex driver timed out")
    return out
