#!/usr/bin/env python3
"""mutant_prompt.py <prop> <id> [steer…] — prints the brief handed to an independent sub-agent.
The brief contains ONLY the text of the property (title, statement, quantifier) and the location of the agent's own
scratch worktree; nothing from /verif's machinery."""
import json
import os
import sys

prop, mid = sys.argv[1], sys.argv[2]
steer = " ".join(sys.argv[3:])
here = os.path.dirname(os.path.dirname(os.path.abspath(__file__)))
d = next(json.loads(l) for l in open(os.path.join(here, "properties.jsonl")) if json.loads(l)["id"] == prop)
wt = f"/tmp/mut/{mid}"
print(f"""You are testing how robust a Python library's correctness is. The library is genlm-grammar (weighted CFGs, WFSAs,
WFSTs over semirings). You have your OWN scratch git worktree of it at {wt} (work only there; never touch /repo or /verif,
and do not read anything under /verif). Run Python as `cd {wt} && PYTHONPATH={wt} /venv/bin/python …` so that your
copy is the one imported (check `genlm.grammar.__file__` once). The test suite is
`cd {wt} && PYTHONPATH={wt} /venv/bin/python -m pytest -q -p no:cacheprovider --timeout=900` (97 tests, ~40 s).

PROPERTY ({prop}) — {d['title']}
{d['statement']}
It is quantified over: {d['quantifier']['text']}

TASK. Write ONE small, realistic change to the library source (under {wt}/genlm/) that BREAKS this property while
 (a) the library still imports and the whole existing test suite still passes (all 97), and
 (b) the breakage needs something specific to manifest — an unusual input shape, a multi-step sequence of operations, a
     particular interleaving/ordering (e.g. a hash seed or tie-break), or two cooperating sites that each look fine alone —
     NOT something ordinary use would expose at once. Think of a plausible "optimisation", refactoring slip, cache,
     off-by-one, wrong-variable, or edge-case shortcut that a reviewer could wave through.
{('Steer: ' + steer) if steer else ''}
Read the relevant source first and understand it. Then make the change, run the test suite to confirm it still passes,
and write a demonstration.

DELIVERABLES, all in the directory {wt}_out/ (create it):
 * patch.diff — output of `git -C {wt} diff` (source change only; do not include the demo or new tests in it);
 * demo.py — a small standalone program (run as `cd <tree> && PYTHONPATH=<tree> /venv/bin/python demo.py`, it must import
   the library from the current working directory's tree, i.e. do not hard-code {wt}) that exits 0 on the UNCHANGED tree
   and exits non-zero (assertion failure) on the changed tree, demonstrating the property violation through the public
   API (compute the expected value independently, e.g. by brute-force enumeration, not by calling the changed code twice);
 * notes.md — a few lines: which property, what the change is, what is needed for it to manifest, why the tests miss it.
Verify yourself WITHOUT `git stash` (the stash is shared between worktrees and other people use it): `git -C {wt} diff > {wt}_out/patch.diff;
git -C {wt} apply -R {wt}_out/patch.diff` → demo exits 0; `git -C {wt} apply {wt}_out/patch.diff` → demo exits non-zero and pytest passes.
Leave the worktree with the change applied. Your final answer: one paragraph summarising the change and the trigger.""")
