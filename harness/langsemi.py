"""A user-defined NON-commutative closed semiring (finite languages of strings of length ≤ 3 under
union / truncated concatenation / star) in the library's Semiring protocol — C15 quantifies over
closed semirings, not only commutative ones."""
from genlm.grammar.semiring import Semiring

BOUND = 3


class Lang(Semiring):
    def __init__(self, xs):
        super().__init__(frozenset(x for x in xs if len(x) <= BOUND))

    def __add__(self, other):
        return Lang(self.score | other.score)

    def __mul__(self, other):
        return Lang(u + v for u in self.score for v in other.score)

    def star(self):
        acc = Lang.one
        for _ in range(BOUND + 1):
            acc = Lang.one + self * acc
        return acc

    def __eq__(self, other):
        return isinstance(other, Lang) and self.score == other.score

    def __hash__(self):
        return hash(self.score)

    def metric(self, other):
        return 0 if self == other else 1

    def __repr__(self):
        return "{" + ",".join(sorted(self.score)) + "}"


Lang.zero = Lang([])
Lang.one = Lang([""])
