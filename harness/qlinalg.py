"""Exact linear algebra over ℚ (fractions.Fraction): the UNVERIFIED certificate search.
Everything it produces is checked by the verified Lean checkers (Model/Cert.lean).
Since T7 the verdicts of C14 come from the verified decision procedure (driver ops tzeng_equiv / tzeng_min); this search
and its certificates are the independent cross-check (props/c14.py: the two must agree)."""
from fractions import Fraction


def matvec(M, v):
    return [sum((a * b for a, b in zip(row, v)), Fraction(0)) for row in M]


def vecmat(v, M):
    n = len(M[0]) if M else 0
    return [sum((v[i] * M[i][j] for i in range(len(v))), Fraction(0)) for j in range(n)]


def dot(u, v):
    return sum((a * b for a, b in zip(u, v)), Fraction(0))


def solve_in_span(U, v):
    """coefficients c with Σ c_i U_i = v, or None (U: list of independent vectors)"""
    if not U:
        return [] if all(x == 0 for x in v) else None
    n, k = len(v), len(U)
    A = [[U[j][i] for j in range(k)] + [v[i]] for i in range(n)]
    r = 0
    piv = []
    for c in range(k):
        p = next((i for i in range(r, n) if A[i][c] != 0), None)
        if p is None:
            continue
        A[r], A[p] = A[p], A[r]
        inv = 1 / A[r][c]
        A[r] = [x * inv for x in A[r]]
        for i in range(n):
            if i != r and A[i][c] != 0:
                f = A[i][c]
                A[i] = [x - f * y for x, y in zip(A[i], A[r])]
        piv.append(c)
        r += 1
    for i in range(r, n):
        if A[i][k] != 0:
            return None
    if len(piv) < k:
        return None  # U not independent
    c = [Fraction(0)] * k
    for row, pc in zip(A, piv):
        c[pc] = row[k]
    return c


def inverse(M):
    n = len(M)
    A = [list(M[i]) + [Fraction(int(i == j)) for j in range(n)] for i in range(n)]
    for c in range(n):
        p = next((i for i in range(c, n) if A[i][c] != 0), None)
        if p is None:
            return None
        A[c], A[p] = A[p], A[c]
        inv = 1 / A[c][c]
        A[c] = [x * inv for x in A[c]]
        for i in range(n):
            if i != c and A[i][c] != 0:
                f = A[i][c]
                A[i] = [x - f * y for x, y in zip(A[i], A[c])]
    return [row[n:] for row in A]


def matmul(A, B):
    return [[sum((A[i][k] * B[k][j] for k in range(len(B))), Fraction(0)) for j in range(len(B[0]))] for i in range(len(A))]


def epsfree_matrix_form(desc):
    """ε-removal over ℚ of a WFSA descriptor -> (states, start, {sym: matrix}, stop); None if I - E is singular"""
    from harness.gen import wfsa_states
    Q = wfsa_states(desc)
    ix = {repr(q): i for i, q in enumerate(Q)}
    n = len(Q)
    start = [Fraction(0)] * n
    stop = [Fraction(0)] * n
    for q, w in desc["start"]:
        start[ix[repr(q)]] += Fraction(w)
    for q, w in desc["stop"]:
        stop[ix[repr(q)]] += Fraction(w)
    E = [[Fraction(0)] * n for _ in range(n)]
    M = {}
    for i, a, j, w in desc["arcs"]:
        if a == "":
            E[ix[repr(i)]][ix[repr(j)]] += Fraction(w)
        else:
            M.setdefault(a, [[Fraction(0)] * n for _ in range(n)])[ix[repr(i)]][ix[repr(j)]] += Fraction(w)
    if any(x != 0 for row in E for x in row):
        ImE = [[Fraction(int(i == j)) - E[i][j] for j in range(n)] for i in range(n)]
        S = inverse(ImE)
        if S is None:
            return None
        start = vecmat(start, S) if n else start
        M = {a: matmul(m, S) for a, m in M.items()}
    return Q, start, M, stop


def maut_json(start, M, stop):
    from harness.common import frac_str
    return {"dim": len(start), "start": [frac_str(x) for x in start], "stop": [frac_str(x) for x in stop],
            "arcs": [[a, [[frac_str(x) for x in row] for row in m]] for a, m in sorted(M.items())]}


def tzeng(startA, MA, stopA, startB, MB, stopB):
    """Tzeng's search over ℚ on the difference automaton.
    Returns ("equiv", cert) with cert = (U, cStop, cArc) or ("diff", word)."""
    na, nb = len(startA), len(startB)
    syms = sorted(set(MA) | set(MB))
    zA = [[Fraction(0)] * na for _ in range(na)]
    zB = [[Fraction(0)] * nb for _ in range(nb)]

    def mul(a, u):
        ua = matvec(MA.get(a, zA), u[:na]) if na else []
        ub = matvec(MB.get(a, zB), u[na:]) if nb else []
        return ua + ub
    start = list(startA) + [-x for x in startB]
    stop = list(stopA) + list(stopB)
    U, words = [], []
    if any(x != 0 for x in stop):
        U.append(stop)
        words.append([])
    if dot(start, stop) != 0:
        return "diff", []
    k = 0
    while k < len(U):
        for a in syms:
            v = mul(a, U[k])
            if dot(start, v) != 0:
                return "diff", [a] + words[k]
            if solve_in_span(U, v) is None:
                U.append(v)
                words.append([a] + words[k])
        k += 1
    cStop = solve_in_span(U, stop) if U else []
    cArc = []
    for a in syms:
        rows = []
        for u in U:
            rows.append(solve_in_span(U, mul(a, u)))
        cArc.append((a, rows))
    return "equiv", (U, cStop, cArc)


def hankel_rank_cert(start, M, stop):
    """words us, vs and the inverse of the Hankel minor H[i][j] = weight(us[i] ++ vs[j]) of maximal size"""
    n = len(start)
    syms = sorted(M)
    z = [[Fraction(0)] * n for _ in range(n)]
    # forward space (row vectors start·M_w) and backward space (column vectors M_w·stop), with words
    F, fw = [], []
    if any(x != 0 for x in start):
        F.append(list(start)); fw.append([])
    k = 0
    while k < len(F):
        for a in syms:
            v = vecmat(F[k], M.get(a, z))
            if solve_in_span(F, v) is None:
                F.append(v); fw.append(fw[k] + [a])
        k += 1
    B, bw = [], []
    if any(x != 0 for x in stop):
        B.append(list(stop)); bw.append([])
    k = 0
    while k < len(B):
        for a in syms:
            v = matvec(M.get(a, z), B[k])
            if solve_in_span(B, v) is None:
                B.append(v); bw.append([a] + bw[k])
        k += 1
    H = [[dot(f, b) for b in B] for f in F]
    # maximal invertible minor by greedy row/column selection
    rows, cols = [], []
    for i in range(len(F)):
        for j in range(len(B)):
            if j in cols:
                continue
            cand_r, cand_c = rows + [i], cols + [j]
            sub = [[H[r][c] for c in cand_c] for r in cand_r]
            if inverse(sub) is not None:
                rows, cols = cand_r, cand_c
                break
    sub = [[H[r][c] for c in cols] for r in rows]
    inv = inverse(sub) if rows else []
    # rank of H for the record
    rank = 0
    basis = []
    for r in H:
        if solve_in_span(basis, r) is None:
            basis.append(r); rank += 1
    return [fw[r] for r in rows], [bw[c] for c in cols], inv, rank
