#!/bin/bash
# validate_mutant.sh <src dir with patch.diff, demo.py, notes.md> <seeded id> <property> [extra checks…]
# confirms: patch applies, 97 tests pass, demo fails with / passes without the patch; runs the checks; stores under seeded/<id>/
cd "$(dirname "$0")/.."
src=$1; id=$2; prop=$3; shift 3
checks="$prop $@"
d=seeded/$id
mkdir -p $d; cp "$src/patch.diff" "$src/demo.py" $d/ 2>/dev/null; cp "$src/notes.md" $d/ 2>/dev/null
git -C /repo status --short | grep -q . && { echo "/repo not clean"; exit 2; }
(cd /repo && timeout 300 /venv/bin/python "$OLDPWD/$d/demo.py" >/dev/null 2>&1); clean=$?
git -C /repo apply "$PWD/$d/patch.diff" || { echo "$id: patch does not apply"; exit 2; }
trap 'git -C /repo checkout -- . ; git -C /repo clean -fdq genlm tests 2>/dev/null' EXIT
tests=$(cd /repo && timeout 1200 /venv/bin/python -m pytest -q -p no:cacheprovider --timeout=900 2>&1 | tail -1)
(cd /repo && timeout 300 /venv/bin/python "$OLDPWD/$d/demo.py" >/dev/null 2>&1); mutated=$?
res=""
for c in $checks; do
  out=$(VERIF_OUT=/tmp/mut/scratch_repo_mode timeout 2400 /venv/bin/python harness/check.py $c 2>/dev/null); rc=$?
  v=$(echo "$out" | grep VIOLATION | head -1 | sed 's/VIOLATION property=//')
  res="$res | $c rc=$rc ${v}"
  [ $rc -eq 1 ] && cp /tmp/mut/scratch_repo_mode/replay/${c}_quick_0.json $d/replay_$c.json 2>/dev/null
done
echo "$id: demo clean=$clean mutated=$mutated; tests: $tests $res"
python3 - "$d" "$id" "$prop" "$clean" "$mutated" "$tests" "$res" <<'PY'
import json, sys, os
d, id_, prop, clean, mutated, tests, res = sys.argv[1:8]
notes = open(os.path.join(d, "notes.md")).read() if os.path.exists(os.path.join(d, "notes.md")) else ""
json.dump({"id": id_, "property": prop, "origin": "independent sub-agent given only the property text and a scratch worktree",
           "needs_to_manifest": notes[:1500], "confirmed": {"demo_on_unchanged_tree_rc": int(clean), "demo_on_mutated_tree_rc": int(mutated), "test_suite": tests.strip()},
           "checks_run": res.strip(" |")}, open(os.path.join(d, "meta.json"), "w"), indent=1)
PY
