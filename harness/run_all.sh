#!/bin/bash
# run_all.sh [tier] [seed…] — every registered check, sequentially; summary lines only
cd "$(dirname "$0")/.."
tier=${1:-quick}; shift
seeds=${@:-0}
for s in $seeds; do
  for i in $(seq -w 1 20); do
    out=$(VERIF_SEED=$s /venv/bin/python harness/check.py C$i --tier $tier 2>/dev/null); rc=$?
    echo "rc=$rc $(echo "$out" | grep -v KNOWN-FINDING | tail -1)"
    echo "$out" | grep VIOLATION
  done
done
