"""Evaluation of the Lean specification oracles with exact-then-deep fallback."""
from harness import common, gen


def pn_eval(ctx, items):
    """items: list of (wfsa desc, R, xs) -> list of (vals, converged flags, deep?)
    `PN A n x` = accepting paths with ≤ n arcs (proved = Qk path sums, `PNtab_spec`)."""
    ops, deepflags = [], []
    for d, R, xs in items:
        ns = len(gen.wfsa_states(d)) + 1
        ml = max([len(x) for x in xs] + [0]) + 1
        if R == "Lang":
            ops.append({"op": "pn", "R": R, "wfsa": d, "n": 5, "xs": xs})     # strings longer than 3 are dropped: 4 arcs suffice
            deepflags.append(False)
        elif R in ("Boolean", "MaxTimes") or gen.eps_acyclic(d):
            ops.append({"op": "pn", "R": R, "wfsa": d, "n": ml * ns + 1, "xs": xs})
            deepflags.append(False)
        else:
            ops.append({"op": "pn", "R": "F64", "wfsa": d, "n": 120, "xs": xs})
            deepflags.append(True)
    res = ctx["lean"](ops)
    out = []
    for r, deep in zip(res, deepflags):
        if "error" in r:
            raise common.DriverError(r["error"])
        if r["vals"] and isinstance(r["vals"][0], list) and (not r["vals"][0] or isinstance(r["vals"][0][0], str)):
            out.append((r["vals"], [True] * len(r["vals"]), False))      # language weights: exact
            continue
        vals = [common.dec_float(v) for v in r["vals"]]
        half = [common.dec_float(v) for v in r["half"]]
        conv = [(not deep) or common.close(o, h, 1e-12, 1e-15) for o, h in zip(vals, half)]
        out.append((vals, conv, deep))
    return out


def tpn_eval(ctx, items):
    """items: list of (fst desc, R, pairs) -> list of (vals, converged flags, deep?)
    `TPN T n x y` = accepting paths with ≤ n arcs reading x and writing y (`TPNtab_spec`)."""
    ops, deepflags = [], []
    for d, R, pairs in items:
        ns = len(gen.fst_states(d)) + 1
        ml = max([len(x) + len(y) for x, y in pairs] + [0]) + 1
        if R in ("Boolean", "MaxTimes") or gen.fst_eps_acyclic(d):
            ops.append({"op": "tpn", "R": R, "fst": d, "n": ml * ns + 1, "pairs": pairs})
            deepflags.append(False)
        else:
            ops.append({"op": "tpn", "R": "F64", "fst": d, "n": 80, "pairs": pairs})
            deepflags.append(True)
    res = ctx["lean"](ops)
    out = []
    for r, deep in zip(res, deepflags):
        if "error" in r:
            raise common.DriverError(r["error"])
        vals = [common.dec_float(v) for v in r["vals"]]
        half = [common.dec_float(v) for v in r["half"]]
        conv = [(not deep) or common.close(o, h, 1e-11, 1e-15) for o, h in zip(vals, half)]
        out.append((vals, conv, deep))
    return out
