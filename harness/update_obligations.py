"""Records, per property, the theorems currently present in `Genlm.Props.Cxx` with clean axioms as the
EXPECTED obligations (committed file harness/obligations.json).  Run by the author after adding
theorems; never by a check."""
import json
import os
import sys

sys.path.insert(0, os.path.dirname(os.path.dirname(os.path.abspath(__file__))))
from harness import common

props = sys.argv[1:] or [f"C{i:02d}" for i in range(1, 21)]
path = os.path.join(common.VERIF, "harness", "obligations.json")
ob = json.load(open(path))
for p in props:
    if not os.path.exists(os.path.join(common.LEAN, "GenlmModel", "Props", p + ".lean")):
        continue
    b = common.build_and_audit(p)
    if not b["ok"]:
        print(p, "BUILD FAILED", b.get("build_log", "")[-1500:])
        continue
    good = sorted(t for t, ax in b["audit"].items() if set(ax) <= common.STD_AXIOMS)
    bad = sorted(t for t, ax in b["audit"].items() if not set(ax) <= common.STD_AXIOMS)
    ob[p] = good
    print(p, len(good), "theorems", ("NON-STANDARD AXIOMS: " + str(bad)) if bad else "", b.get("forbidden"))
json.dump(ob, open(path, "w"), indent=1, sort_keys=True)
