import GenlmModel.Model.Ops
open Genlm Lean

partial def loop (hin : IO.FS.Stream) (hout : IO.FS.Stream) : IO Unit := do
  let line ← hin.getLine
  if line.isEmpty then return ()
  let l := line.trimAscii.toString
  if l.isEmpty then loop hin hout else
  let out : Json :=
    match Json.parse l with
    | .error e => Json.mkObj [("error", .str s!"parse: {e}")]
    | .ok j =>
      match runOp j with
      | .ok r => r
      | .error e => Json.mkObj [("error", .str e)]
  hout.putStrLn out.compress
  loop hin hout

def main : IO Unit := do
  let hin ← IO.getStdin
  let hout ← IO.getStdout
  loop hin hout
  hout.flush
