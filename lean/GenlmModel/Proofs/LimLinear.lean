import GenlmModel.Proofs.Linear
import GenlmModel.Proofs.LimCore
import Mathlib.Topology.Algebra.InfiniteSum.ENNReal
import Mathlib.Topology.Algebra.InfiniteSum.NatInt
import Mathlib.Analysis.SpecificLimits.Basic
import Mathlib.Data.Matrix.Mul
import Mathlib.Tactic.Finiteness

/-! # The algebraic path solver at the limit (property C15 at full strength over `ℝ≥0∞`)

`Proofs/Linear.lean` shows, in every commutative semiring in which `star a = 1 + a * star a` holds at the
pivots, that `_closure` (Lehmann), `closure_scc_based`, `solve_left`, `solve_right` return *a* solution of the
respective linear system.  Over `ℝ≥0∞` with `star a = ∑' n, a ^ n` (`starE`) we prove that they return *the*
intended one: the sum over all paths, which is the least solution.

* `star_ennreal_unfold`, `star_ennreal_least`, `starE_eq_inv` : `starE` unfolds, is the least solution of
  `s = 1 + a * s`, and equals `(1 - a)⁻¹` (`∞` for `a ≥ 1`).
* `lehmann_closed_ennreal`, `closureScc_correct_ennreal`, `closureRef_closed_ennreal` : the existing theorems
  instantiated (the hypothesis `hstar` disappears).
* `pathW A N k i j` (walks with exactly `k` edges inside `N`, i.e. the `k`-th power of `A` restricted to `N`),
  `pathL A N i j = ∑' k, pathW A N k i j`.
* `lehmann_is_path_sum` : `_closure(A, N)[i,k] = pathL A N i k` for every duplicate-free node list, any weights.
* `solveLeft_least`, `solveRight_least` : `solve_left(b) = b · A*`, `solve_right(b) = A* · b` (`A* = pathL`),
  they solve `x = xA + b` / `x = Ax + b`, vanish outside the nodes, and lie below every pre-fixed point.
* `closureScc_is_path_sum` : `closure_scc_based` (blocks from a decomposition accepted by `sccCheck`, block
  closures by `_closure`) equals `pathL`; `closureRef_is_path_sum` for `closure_reference`. -/
namespace Genlm
open scoped ENNReal
open Linear

/-! ### 1. `star` over `ℝ≥0∞` -/

/-- `star a = ∑ₙ aⁿ` -/
noncomputable def starE (a : ℝ≥0∞) : ℝ≥0∞ := ∑' n : ℕ, a ^ n

theorem starE_eq_inv (a : ℝ≥0∞) : starE a = (1 - a)⁻¹ := ENNReal.tsum_geometric a

theorem starE_eq_top {a : ℝ≥0∞} (h : 1 ≤ a) : starE a = ∞ := by
  rw [starE_eq_inv, tsub_eq_zero_of_le h, ENNReal.inv_zero]

/-- `star a` is finite exactly for `a < 1`: there Python's `1 / (1 - a)` (`Float.star`, `Real.star`) is the
same number; for `a ≥ 1` the series diverges whereas `1 / (1 - a)` raises (`a = 1`) or is negative (`a > 1`) -/
theorem starE_lt_top_iff (a : ℝ≥0∞) : starE a < ∞ ↔ a < 1 := by
  rw [starE_eq_inv, ENNReal.inv_lt_top, tsub_pos_iff_lt]

theorem starE_zero : starE 0 = 1 := by
  rw [starE_eq_inv, tsub_zero, inv_one]

/-- **`star` unfolds** -/
theorem star_ennreal_unfold (a : ℝ≥0∞) : starE a = 1 + a * starE a := by
  unfold starE
  conv_lhs => rw [tsum_eq_zero_add' ENNReal.summable, pow_zero]
  rw [← ENNReal.tsum_mul_left]
  simp only [pow_succ']

/-- pre-fixed point form: `c + y·a ≤ y` implies `c · a* ≤ y` -/
theorem starE_mul_le_E2 (a c y : ℝ≥0∞) (h : c + y * a ≤ y) : c * starE a ≤ y := by
  unfold starE
  rw [← ENNReal.tsum_mul_left]
  apply ENNReal.tsum_le_of_sum_range_le
  intro n
  induction n with
  | zero => simp
  | succ n ih =>
    rw [Finset.sum_range_succ', pow_zero, mul_one]
    have e : ∑ i ∈ Finset.range n, c * a ^ (i + 1) = (∑ i ∈ Finset.range n, c * a ^ i) * a := by
      rw [Finset.sum_mul]
      apply Finset.sum_congr rfl
      intro i _; rw [pow_succ, mul_assoc]
    rw [e, add_comm]
    exact le_trans (add_le_add le_rfl (mul_le_mul' ih le_rfl)) h

/-- **`star a` is the least solution of `s = 1 + a * s`** (even the least pre-fixed point) -/
theorem star_ennreal_least (a s : ℝ≥0∞) (h : 1 + a * s ≤ s) : starE a ≤ s := by
  have := starE_mul_le_E2 a 1 s (by rw [mul_comm s a]; exact h)
  rwa [one_mul] at this

theorem star_ennreal_least_eq (a s : ℝ≥0∞) (h : s = 1 + a * s) : starE a ≤ s :=
  star_ennreal_least a s h.ge

/-! the existing algebraic theorems, instantiated: `hstar` always holds -/
section Inst
variable {ι : Type} [DecidableEq ι]

theorem lehmann_closed_ennreal (g : WGraph ι ℝ≥0∞) (N : List ι) (hN : N.Nodup) :
    (⟨N, lehmann g starE N⟩ : Block ι ℝ≥0∞).RightClosed g ∧
    (⟨N, lehmann g starE N⟩ : Block ι ℝ≥0∞).LeftClosed g :=
  lehmann_closed g starE N hN (fun a _ => star_ennreal_unfold a)

theorem closureScc_correct_ennreal (g : WGraph ι ℝ≥0∞) (hN : g.nodes.Nodup) (bl : List (List ι))
    (hchk : sccCheck g g.arcs bl = true) :
    ∀ i ∈ g.nodes, ∀ k ∈ g.nodes, wlook (closureScc g (mkBlocks g starE bl)) (i, k)
      = (if k = i then 1 else 0) + (g.nodes.map fun m =>
          wlook (closureScc g (mkBlocks g starE bl)) (i, m) * g.E m k).sum :=
  closureScc_correct g hN starE bl hchk (fun _ _ a _ => star_ennreal_unfold a)

theorem closureRef_closed_ennreal (g : WGraph ι ℝ≥0∞) (hN : g.nodes.Nodup) :
    ∀ i ∈ g.nodes, ∀ k ∈ g.nodes,
      wlook (closureRef g starE) (i, k) = (if i = k then 1 else 0)
        + (g.nodes.map fun m => wlook (closureRef g starE) (i, m) * g.E m k).sum ∧
      wlook (closureRef g starE) (i, k) = (if i = k then 1 else 0)
        + (g.nodes.map fun m => g.E i m * wlook (closureRef g starE) (m, k)).sum :=
  closureRef_closed g hN starE (fun a _ => star_ennreal_unfold a)

end Inst

/-! ### 2. row-vector iteration `c, c·A_P, c·A_P², …` and its sum -/
section Row
variable {ι : Type}

/-- `rowPow A P c n = c · (D_P A)ⁿ` (`D_P` the diagonal projector on `P`): weight of the walks of `n` edges
started with the vector `c`, all of whose nodes except the last lie in `P` -/
noncomputable def rowPow (A : ι → ι → ℝ≥0∞) (P : Finset ι) (c : ι → ℝ≥0∞) : ℕ → ι → ℝ≥0∞
  | 0 => c
  | n+1 => fun k => ∑ p ∈ P, rowPow A P c n p * A p k

/-- `rowL A P c = c · (D_P A)*` -/
noncomputable def rowL (A : ι → ι → ℝ≥0∞) (P : Finset ι) (c : ι → ℝ≥0∞) (k : ι) : ℝ≥0∞ :=
  ∑' n, rowPow A P c n k

theorem rowPow_zero_E2 (A : ι → ι → ℝ≥0∞) (P : Finset ι) (c : ι → ℝ≥0∞) (k : ι) :
    rowPow A P c 0 k = c k := rfl

theorem rowPow_succ_E2 (A : ι → ι → ℝ≥0∞) (P : Finset ι) (c : ι → ℝ≥0∞) (n : ℕ) (k : ι) :
    rowPow A P c (n+1) k = ∑ p ∈ P, rowPow A P c n p * A p k := rfl

/-- `rowL` solves `y = c + y · D_P A` -/
theorem rowL_unfold_E2 (A : ι → ι → ℝ≥0∞) (P : Finset ι) (c : ι → ℝ≥0∞) (k : ι) :
    rowL A P c k = c k + ∑ p ∈ P, rowL A P c p * A p k := by
  unfold rowL
  rw [tsum_eq_zero_add' ENNReal.summable, rowPow_zero_E2]
  congr 1
  simp only [rowPow_succ_E2]
  rw [Summable.tsum_finsetSum (fun i _ => ENNReal.summable)]
  apply Finset.sum_congr rfl
  intro p _
  rw [ENNReal.tsum_mul_right]

/-- … and lies below every pre-fixed point (on any set `Q ⊇ P` of coordinates) -/
theorem rowL_least_E2 (A : ι → ι → ℝ≥0∞) (P : Finset ι) (c : ι → ℝ≥0∞) (Q : ι → Prop)
    (hPQ : ∀ p ∈ P, Q p) (y : ι → ℝ≥0∞)
    (hy : ∀ k, Q k → c k + ∑ p ∈ P, y p * A p k ≤ y k) : ∀ k, Q k → rowL A P c k ≤ y k := by
  have key : ∀ n k, Q k → ∑ m ∈ Finset.range n, rowPow A P c m k ≤ y k := by
    intro n
    induction n with
    | zero => intro k _; simp
    | succ n ih =>
      intro k hk
      rw [Finset.sum_range_succ']
      simp only [rowPow_succ_E2, rowPow_zero_E2]
      rw [Finset.sum_comm, add_comm]
      refine le_trans (add_le_add le_rfl (Finset.sum_le_sum fun p hp => ?_)) (hy k hk)
      rw [← Finset.sum_mul]
      exact mul_le_mul' (ih p (hPQ p hp)) le_rfl
  intro k hk
  exact ENNReal.tsum_le_of_sum_range_le (fun n => key n k hk)

theorem rowPow_add_E2 (A : ι → ι → ℝ≥0∞) (P : Finset ι) (c d : ι → ℝ≥0∞) (n : ℕ) (k : ι) :
    rowPow A P (fun k => c k + d k) n k = rowPow A P c n k + rowPow A P d n k := by
  induction n generalizing k with
  | zero => rfl
  | succ n ih => simp only [rowPow_succ_E2, ih, add_mul, Finset.sum_add_distrib]

theorem rowPow_smul_E2 (A : ι → ι → ℝ≥0∞) (P : Finset ι) (t : ℝ≥0∞) (c : ι → ℝ≥0∞) (n : ℕ) (k : ι) :
    rowPow A P (fun k => t * c k) n k = t * rowPow A P c n k := by
  induction n generalizing k with
  | zero => rfl
  | succ n ih => simp only [rowPow_succ_E2, ih, mul_assoc, Finset.mul_sum]

theorem rowL_add_E2 (A : ι → ι → ℝ≥0∞) (P : Finset ι) (c d : ι → ℝ≥0∞) (k : ι) :
    rowL A P (fun k => c k + d k) k = rowL A P c k + rowL A P d k := by
  unfold rowL
  simp only [rowPow_add_E2]
  exact ENNReal.tsum_add

theorem rowL_smul_E2 (A : ι → ι → ℝ≥0∞) (P : Finset ι) (t : ℝ≥0∞) (c : ι → ℝ≥0∞) (k : ι) :
    rowL A P (fun k => t * c k) k = t * rowL A P c k := by
  unfold rowL
  simp only [rowPow_smul_E2]
  exact ENNReal.tsum_mul_left

/-- shifting: one more step is the same as starting from `c · D_P A` -/
theorem rowPow_shift_E2 (A : ι → ι → ℝ≥0∞) (P : Finset ι) (c : ι → ℝ≥0∞) (n : ℕ) (k : ι) :
    rowPow A P c (n+1) k = rowPow A P (fun k => ∑ p ∈ P, c p * A p k) n k := by
  induction n generalizing k with
  | zero => rfl
  | succ n ih =>
    rw [rowPow_succ_E2, rowPow_succ_E2 A P _ n k]
    apply Finset.sum_congr rfl
    intro p _
    rw [ih p]

/-- `Lmat A P i k = ∑ₙ (A (D_P A)ⁿ) i k`: total weight of the non-empty walks from `i` to `k` whose interior
nodes all lie in `P` (the matrix Lehmann's algorithm holds after the pivots `P`) -/
noncomputable def Lmat (A : ι → ι → ℝ≥0∞) (P : Finset ι) (i k : ι) : ℝ≥0∞ := rowL A P (A i) k

theorem Lmat_right_E2 (A : ι → ι → ℝ≥0∞) (P : Finset ι) (i k : ι) :
    Lmat A P i k = A i k + ∑ p ∈ P, Lmat A P i p * A p k := rowL_unfold_E2 A P (A i) k

theorem Lmat_empty_E2 (A : ι → ι → ℝ≥0∞) (i k : ι) : Lmat A ∅ i k = A i k := by
  rw [Lmat_right_E2, Finset.sum_empty, add_zero]

end Row

/-- the "right" half of `gj_step` (`Proofs/Linear.lean`), in any commutative semiring -/
theorem gj_step_right_E2 {ι K : Type} [DecidableEq ι] [CommSemiring K] (A : ι → ι → K) (P : Finset ι)
    (M : ι → ι → K) (j : ι) (s : K) (hj : j ∉ P) (hs : s = 1 + M j j * s)
    (h : ∀ i k, M i k = A i k + ∑ p ∈ P, M i p * A p k) (i k : ι) :
    M i k + M i j * s * M j k
      = A i k + ∑ p ∈ insert j P, (M i p + M i j * s * M j p) * A p k := by
  have hik := h i k
  have hjk := h j k
  have hsum : ∑ p ∈ P, (M i p + M i j * s * M j p) * A p k =
      (∑ p ∈ P, M i p * A p k) + (M i j * s) * (∑ p ∈ P, M j p * A p k) := by
    rw [Finset.mul_sum, ← Finset.sum_add_distrib]
    apply Finset.sum_congr rfl; intro p _; ring
  have e : M i j + M i j * s * M j j = M i j * s := by
    conv_rhs => rw [hs]
    ring
  rw [Finset.sum_insert hj, hsum, e]
  generalize (∑ p ∈ P, M i p * A p k) = V at hik ⊢
  generalize (∑ p ∈ P, M j p * A p k) = W at hjk ⊢
  rw [hik, hjk]; ring

section Leh
variable {ι : Type} [DecidableEq ι]

/-- **the pivot step computes the path sums with one more admissible interior node** -/
theorem Lmat_insert_E2 (A : ι → ι → ℝ≥0∞) (P : Finset ι) (j : ι) (hj : j ∉ P) (i k : ι) :
    Lmat A (insert j P) i k
      = Lmat A P i k + Lmat A P i j * starE (Lmat A P j j) * Lmat A P j k := by
  apply le_antisymm
  · -- the pivoted matrix solves the system for `insert j P`
    have hsol := gj_step_right_E2 A P (Lmat A P) j (starE (Lmat A P j j)) hj
      (star_ennreal_unfold _) (Lmat_right_E2 A P)
    exact rowL_least_E2 A (insert j P) (A i) (fun _ => True) (fun _ _ => trivial)
      (fun k => Lmat A P i k + Lmat A P i j * starE (Lmat A P j j) * Lmat A P j k)
      (fun k _ => (hsol i k).ge) k trivial
  · -- every solution for `insert j P` dominates the pivoted matrix
    have hy : ∀ k, Lmat A (insert j P) i k
        = (A i k + Lmat A (insert j P) i j * A j k) + ∑ p ∈ P, Lmat A (insert j P) i p * A p k := by
      intro k
      rw [Lmat_right_E2 A (insert j P) i k, Finset.sum_insert hj, add_assoc]
    have h1 : ∀ k, Lmat A P i k + Lmat A (insert j P) i j * Lmat A P j k ≤ Lmat A (insert j P) i k := by
      intro k
      have := rowL_least_E2 A P (fun k => A i k + Lmat A (insert j P) i j * A j k) (fun _ => True)
        (fun _ _ => trivial) (fun k => Lmat A (insert j P) i k) (fun k _ => (hy k).ge) k trivial
      rw [rowL_add_E2, rowL_smul_E2] at this
      exact this
    have h2 : Lmat A P i j * starE (Lmat A P j j) ≤ Lmat A (insert j P) i j :=
      starE_mul_le_E2 _ _ _ (h1 j)
    exact le_trans (add_le_add le_rfl (mul_le_mul' h2 le_rfl)) (h1 k)

/-- the pivot loop, on matrices as functions -/
theorem runF_eq_Lmat_E2 (A : ι → ι → ℝ≥0∞) (js : List ι) (hjs : js.Nodup) (P : Finset ι)
    (hP : ∀ j ∈ js, j ∉ P) : runF starE js (Lmat A P) = Lmat A (P ∪ js.toFinset) := by
  induction js generalizing P with
  | nil => simp [runF]
  | cons j js ih =>
    rw [List.nodup_cons] at hjs
    have hstep : pivF starE (Lmat A P) j = Lmat A (insert j P) := by
      funext i k
      exact (Lmat_insert_E2 A P j (hP j (by simp)) i k).symm
    show runF starE js (pivF starE (Lmat A P) j) = _
    rw [hstep, ih hjs.2 (insert j P)
      (by
        intro j' hj' hmem
        rcases Finset.mem_insert.mp hmem with rfl | hmem
        · exact hjs.1 hj'
        · exact hP j' (by simp [hj']) hmem),
      List.toFinset_cons, Finset.union_insert, ← Finset.insert_union]

theorem runF_eq_Lmat_full_E2 (A : ι → ι → ℝ≥0∞) (N : List ι) (hN : N.Nodup) :
    runF starE N A = Lmat A N.toFinset := by
  have h0 : A = Lmat A ∅ := by funext i k; exact (Lmat_empty_E2 A i k).symm
  conv_lhs => rw [h0]
  rw [runF_eq_Lmat_E2 A N hN ∅ (by simp), Finset.empty_union]

end Leh

/-! ### 3. path sums -/
section Path
variable {ι : Type} [DecidableEq ι]

/-- `pathW A N k i j`: total weight of the walks with exactly `k` edges from `i` to `j` inside `N`
(the `k`-th power of the matrix `A` restricted to `N`; every node of the walk except possibly the last lies in `N`,
so for `i, j ∈ N` all of them do) -/
noncomputable def pathW (A : ι → ι → ℝ≥0∞) (N : Finset ι) : ℕ → ι → ι → ℝ≥0∞
  | 0 => fun i j => if i = j then 1 else 0
  | n+1 => fun i j => ∑ m ∈ N, pathW A N n i m * A m j

/-- `pathL A N i j`: total weight of ALL walks from `i` to `j` inside `N` -/
noncomputable def pathL (A : ι → ι → ℝ≥0∞) (N : Finset ι) (i j : ι) : ℝ≥0∞ := ∑' n, pathW A N n i j

theorem pathW_zero (A : ι → ι → ℝ≥0∞) (N : Finset ι) (i j : ι) :
    pathW A N 0 i j = if i = j then 1 else 0 := rfl

theorem pathW_succ (A : ι → ι → ℝ≥0∞) (N : Finset ι) (n : ℕ) (i j : ι) :
    pathW A N (n+1) i j = ∑ m ∈ N, pathW A N n i m * A m j := rfl

theorem pathW_eq_rowPow_E2 (A : ι → ι → ℝ≥0∞) (N : Finset ι) (n : ℕ) (i j : ι) :
    pathW A N n i j = rowPow A N (fun j => if i = j then 1 else 0) n j := by
  induction n generalizing j with
  | zero => rfl
  | succ n ih => simp only [pathW_succ, rowPow_succ_E2, ih]

theorem pathL_eq_rowL_E2 (A : ι → ι → ℝ≥0∞) (N : Finset ι) (i j : ι) :
    pathL A N i j = rowL A N (fun j => if i = j then 1 else 0) j := by
  unfold pathL rowL
  simp only [pathW_eq_rowPow_E2]

/-- `A* = I + A* · A` -/
theorem pathL_unfold_right (A : ι → ι → ℝ≥0∞) (N : Finset ι) (i k : ι) :
    pathL A N i k = (if i = k then 1 else 0) + ∑ m ∈ N, pathL A N i m * A m k := by
  simp only [pathL_eq_rowL_E2]
  exact rowL_unfold_E2 A N _ k

/-- walks of `n+1` edges, first edge split off (left recursion) -/
theorem pathW_succ_left (A : ι → ι → ℝ≥0∞) (N : Finset ι) (n : ℕ) (i j : ι) (hi : i ∈ N) (hj : j ∈ N) :
    pathW A N (n+1) i j = ∑ m ∈ N, A i m * pathW A N n m j := by
  induction n generalizing j with
  | zero =>
    simp only [pathW_succ, pathW_zero, ite_mul, one_mul, zero_mul, mul_ite, mul_one, mul_zero,
      Finset.sum_ite_eq, Finset.sum_ite_eq', hi, hj, if_true]
  | succ n ih =>
    rw [pathW_succ]
    have : ∀ m ∈ N, pathW A N (n+1) i m * A m j = ∑ m' ∈ N, A i m' * (pathW A N n m' m * A m j) := by
      intro m hm
      rw [ih m hm, Finset.sum_mul]
      apply Finset.sum_congr rfl; intro m' _; rw [mul_assoc]
    rw [Finset.sum_congr rfl this, Finset.sum_comm]
    apply Finset.sum_congr rfl
    intro m' _
    rw [pathW_succ, Finset.mul_sum]

theorem pathW_transpose (A : ι → ι → ℝ≥0∞) (N : Finset ι) (n : ℕ) (i j : ι) (hi : i ∈ N) (hj : j ∈ N) :
    pathW (fun a b => A b a) N n i j = pathW A N n j i := by
  induction n generalizing j with
  | zero =>
    simp only [pathW_zero]
    by_cases h : i = j
    · subst h; simp
    · have : ¬ j = i := fun e => h e.symm
      simp [h, this]
  | succ n ih =>
    rw [pathW_succ, pathW_succ_left A N n j i hj hi]
    apply Finset.sum_congr rfl
    intro m hm
    rw [ih m hm, mul_comm]

theorem pathL_transpose (A : ι → ι → ℝ≥0∞) (N : Finset ι) (i j : ι) (hi : i ∈ N) (hj : j ∈ N) :
    pathL (fun a b => A b a) N i j = pathL A N j i := by
  unfold pathL
  simp only [pathW_transpose A N _ i j hi hj]

/-- `A* = I + A · A*` (on `N × N`) -/
theorem pathL_unfold_left (A : ι → ι → ℝ≥0∞) (N : Finset ι) (i k : ι) (hi : i ∈ N) (hk : k ∈ N) :
    pathL A N i k = (if i = k then 1 else 0) + ∑ m ∈ N, A i m * pathL A N m k := by
  rw [← pathL_transpose A N k i hk hi, pathL_unfold_right]
  congr 1
  · by_cases h : i = k
    · subst h; simp
    · have : ¬ k = i := fun e => h e.symm
      simp [h, this]
  · apply Finset.sum_congr rfl
    intro m hm
    rw [pathL_transpose A N k m hk hm, mul_comm]

/-- the non-empty walks: `pathW (n+1) i · = A i · (D_N A)ⁿ` -/
theorem pathW_succ_eq_rowPow_E2 (A : ι → ι → ℝ≥0∞) (N : Finset ι) (n : ℕ) (i k : ι) (hi : i ∈ N) :
    pathW A N (n+1) i k = rowPow A N (A i) n k := by
  rw [pathW_eq_rowPow_E2, rowPow_shift_E2]
  congr 1
  funext k
  simp only [ite_mul, one_mul, zero_mul, Finset.sum_ite_eq, hi, if_true]

theorem pathL_eq_Lmat_E2 (A : ι → ι → ℝ≥0∞) (N : Finset ι) (i k : ι) (hi : i ∈ N) :
    pathL A N i k = (if i = k then 1 else 0) + Lmat A N i k := by
  unfold pathL Lmat rowL
  rw [tsum_eq_zero_add' ENNReal.summable, pathW_zero]
  simp only [pathW_succ_eq_rowPow_E2 A N _ i k hi]

/-- on a single node the walks are the powers of the loop weight -/
theorem pathW_singleton_E2 (A : ι → ι → ℝ≥0∞) (i : ι) (n : ℕ) : pathW A {i} n i i = A i i ^ n := by
  induction n with
  | zero => simp [pathW_zero]
  | succ n ih => rw [pathW_succ, Finset.sum_singleton, ih, pow_succ]

/-- `b · A*` as a row iteration -/
theorem sum_mul_pathW_E2 (A : ι → ι → ℝ≥0∞) (N : Finset ι) (c : ι → ℝ≥0∞) (n : ℕ) (k : ι) (hk : k ∈ N) :
    ∑ j ∈ N, c j * pathW A N n j k = rowPow A N c n k := by
  induction n generalizing k with
  | zero =>
    simp only [pathW_zero, rowPow_zero_E2, mul_ite, mul_one, mul_zero, Finset.sum_ite_eq', hk, if_true]
  | succ n ih =>
    rw [rowPow_succ_E2]
    have : ∀ j ∈ N, c j * pathW A N (n+1) j k = ∑ m ∈ N, c j * pathW A N n j m * A m k := by
      intro j _
      rw [pathW_succ, Finset.mul_sum]
      apply Finset.sum_congr rfl; intro m _; rw [mul_assoc]
    rw [Finset.sum_congr rfl this, Finset.sum_comm]
    apply Finset.sum_congr rfl
    intro m hm
    rw [← Finset.sum_mul, ih m hm]

theorem sum_mul_pathL_E2 (A : ι → ι → ℝ≥0∞) (N : Finset ι) (c : ι → ℝ≥0∞) (k : ι) (hk : k ∈ N) :
    ∑ j ∈ N, c j * pathL A N j k = rowL A N c k := by
  unfold pathL rowL
  simp only [← ENNReal.tsum_mul_left]
  rw [← Summable.tsum_finsetSum (fun i _ => ENNReal.summable)]
  simp only [sum_mul_pathW_E2 A N c _ k hk]

/-- **Lehmann's `_closure(A, N)` is the path sum**: for every weighted graph `g` over `ℝ≥0∞` (self loops, nested
cycles, divergent cycles, several components, isolated nodes) and every duplicate-free node list `N`, in the pivot order
given by `N`, the entry `(i,k)` of the computed block closure is the total weight of all walks from `i` to `k`
inside `N`; the keys of the result lie in `N × N`. -/
theorem lehmann_is_path_sum (g : WGraph ι ℝ≥0∞) (N : List ι) (hN : N.Nodup) :
    (∀ i ∈ N, ∀ k ∈ N, wlook (lehmann g starE N) (i, k) = pathL g.E N.toFinset i k) ∧
    ∀ e ∈ lehmann g starE N, e.1.1 ∈ N ∧ e.1.2 ∈ N := by
  refine ⟨?_, (lehmann_closed_ennreal g N hN).1.1⟩
  by_cases h1 : ∃ i, N = [i]
  · obtain ⟨i, rfl⟩ := h1
    intro j hj k hk
    simp only [List.mem_singleton] at hj hk
    rw [hj, hk]
    have hfs : [i].toFinset = {i} := by simp
    have hB : wlook (lehmann g starE [i]) (i, i) = starE (g.E i i) := by
      simp [lehmann, wlook_cons, wlook_nil]
    rw [hB, hfs]
    unfold pathL starE
    simp only [pathW_singleton_E2]
  · have hN1 : ∀ i, N ≠ [i] := fun i h => h1 ⟨i, h⟩
    obtain ⟨hleh, _⟩ := lehmann_general g starE N hN1
    have hag := agree_run starE N hN N (fun j hj => hj) g.edges g.E (fun i _ k _ => rfl)
    intro i hi k hk
    rw [hleh, wlook_table N N _ hN hN i k, if_pos ⟨hi, hk⟩, hag.1 i hi k hk,
      runF_eq_Lmat_full_E2 g.E N hN, pathL_eq_Lmat_E2 g.E N.toFinset i k (List.mem_toFinset.mpr hi)]
    by_cases h : i = k <;> simp [h, add_comm]

/-- `closure_reference` is the path sum -/
theorem closureRef_is_path_sum (g : WGraph ι ℝ≥0∞) (hN : g.nodes.Nodup) :
    ∀ i ∈ g.nodes, ∀ k ∈ g.nodes, wlook (closureRef g starE) (i, k) = pathL g.E g.nodes.toFinset i k :=
  (lehmann_is_path_sum g g.nodes hN).1

end Path

/-! ### 4. `solve_left`, `solve_right`, `closure_scc_based` -/
section SolveL
variable {ι : Type} [DecidableEq ι]

/-- what the solvers need from a block at the limit: the keys of the block matrix lie in the block and its
entries are the path sums inside the block -/
def Block.IsPathSum (g : WGraph ι ℝ≥0∞) (blk : Block ι ℝ≥0∞) : Prop :=
  (∀ e ∈ blk.clo, e.1.1 ∈ blk.nodes ∧ e.1.2 ∈ blk.nodes) ∧
  ∀ j ∈ blk.nodes, ∀ k ∈ blk.nodes, blk.B j k = pathL g.E blk.nodes.toFinset j k

theorem Block.IsPathSum.rightClosed_E2 {g : WGraph ι ℝ≥0∞} {blk : Block ι ℝ≥0∞} (h : blk.IsPathSum g)
    (hnd : blk.nodes.Nodup) : blk.RightClosed g := by
  refine ⟨h.1, ?_⟩
  intro j hj k hk
  rw [h.2 j hj k hk, pathL_unfold_right, ← List.sum_toFinset _ hnd]
  congr 1
  apply Finset.sum_congr rfl
  intro m hm
  rw [h.2 j hj m (List.mem_toFinset.mp hm)]

/-- the blocks computed by `_closure` are path sums -/
theorem mkBlocks_isPathSum_E2 (g : WGraph ι ℝ≥0∞) (bl : List (List ι)) (hnd : bl.flatten.Nodup) :
    ∀ blk ∈ mkBlocks g starE bl, blk.IsPathSum g := by
  intro blk hb
  obtain ⟨N, hNb, rfl⟩ := List.mem_map.mp hb
  have h := lehmann_is_path_sum g N ((List.nodup_flatten.mp hnd).1 N hNb)
  exact ⟨h.2, h.1⟩

/-- the loop of `solve_left` never exceeds a pre-fixed point of `y ↦ b + y·A` (no triangularity needed),
and touches only the nodes of the blocks processed -/
theorem solveLeft_le_prefix_E2 (g : WGraph ι ℝ≥0∞) (hg : g.WF) (b : ι → ℝ≥0∞) (blocks : List (Block ι ℝ≥0∞))
    (hnd : (blocks.map (·.nodes)).flatten.Nodup)
    (hsub : ∀ blk ∈ blocks, ∀ k ∈ blk.nodes, k ∈ g.nodes)
    (hB : ∀ blk ∈ blocks, blk.IsPathSum g)
    (y : ι → ℝ≥0∞) (hy : ∀ k ∈ g.nodes, b k + ∑ i ∈ g.nodes.toFinset, y i * g.E i k ≤ y k) :
    (∀ k, k ∉ (blocks.map (·.nodes)).flatten → wlook (solveLeft g blocks b) k = 0) ∧
    ∀ k, wlook (solveLeft g blocks b) k ≤ y k := by
  induction blocks using List.reverseRecOn with
  | nil => exact ⟨fun k _ => rfl, fun k => by simp [solveLeft, wlook_nil]⟩
  | append_singleton pre blk ih =>
    rw [List.map_append, List.flatten_append, List.nodup_append] at hnd
    simp only [List.map_cons, List.map_nil, List.flatten_cons, List.flatten_nil,
      List.append_nil] at hnd
    obtain ⟨ih0, ihle⟩ := ih hnd.1 (fun B hB' => hsub B (by simp [hB'])) (fun B hB' => hB B (by simp [hB']))
    have hc := hB blk (by simp)
    have hPsub : blk.nodes.toFinset ⊆ g.nodes.toFinset := by
      intro k hk
      rw [List.mem_toFinset] at hk ⊢
      exact hsub blk (by simp) k hk
    have hlook : ∀ k, wlook (solveLeft g (pre ++ [blk]) b) k = wlook (solveLeft g pre b) k +
        ∑ j ∈ blk.nodes.toFinset,
          (b j + ∑ i ∈ g.nodes.toFinset, wlook (solveLeft g pre b) i * g.E i j) * blk.B j k := by
      intro k
      rw [solveLeft_snoc]
      exact solveLeftBlock_look g hg b _ blk hnd.2.1 (fun e he => (hc.1 e he).1) k
    have hBz : ∀ j k, k ∉ blk.nodes → blk.B j k = 0 := by
      intro j k hk
      apply wlook_eq_zero
      intro e he heq
      apply hk
      have := (hc.1 e he).2
      rw [heq] at this; exact this
    have hout : ∀ k, k ∉ blk.nodes → wlook (solveLeft g (pre ++ [blk]) b) k
        = wlook (solveLeft g pre b) k := by
      intro k hk
      rw [hlook k, Finset.sum_eq_zero (fun j _ => by rw [hBz j k hk, mul_zero]), add_zero]
    constructor
    · intro k hk
      rw [List.map_append, List.flatten_append, List.mem_append, not_or] at hk
      simp only [List.map_cons, List.map_nil, List.flatten_cons, List.flatten_nil,
        List.append_nil] at hk
      rw [hout k hk.2, ih0 k hk.1]
    · intro k
      by_cases hk : k ∈ blk.nodes
      · have hk0 : wlook (solveLeft g pre b) k = 0 :=
          ih0 k (fun hmem => hnd.2.2 k hmem k hk rfl)
        have hkP : k ∈ blk.nodes.toFinset := List.mem_toFinset.mpr hk
        rw [hlook k, hk0, zero_add]
        have e : ∑ j ∈ blk.nodes.toFinset,
            (b j + ∑ i ∈ g.nodes.toFinset, wlook (solveLeft g pre b) i * g.E i j) * blk.B j k
            = rowL g.E blk.nodes.toFinset
              (fun j => b j + ∑ i ∈ g.nodes.toFinset, wlook (solveLeft g pre b) i * g.E i j) k := by
          rw [← sum_mul_pathL_E2 g.E blk.nodes.toFinset _ k hkP]
          apply Finset.sum_congr rfl
          intro j hj
          rw [hc.2 j (List.mem_toFinset.mp hj) k hk]
        rw [e]
        refine rowL_least_E2 g.E blk.nodes.toFinset _ (fun k => k ∈ blk.nodes.toFinset)
          (fun p hp => hp) y ?_ k hkP
        intro k' hk'
        have hk'n : k' ∈ g.nodes := List.mem_toFinset.mp (hPsub hk')
        refine le_trans ?_ (hy k' hk'n)
        rw [add_assoc]
        refine add_le_add le_rfl ?_
        have hP : ∑ p ∈ blk.nodes.toFinset, y p * g.E p k'
            = ∑ i ∈ g.nodes.toFinset, if i ∈ blk.nodes.toFinset then y i * g.E i k' else 0 := by
          rw [Finset.sum_ite_mem, Finset.inter_eq_right.mpr hPsub]
        rw [hP, ← Finset.sum_add_distrib]
        apply Finset.sum_le_sum
        intro i _
        by_cases hi : i ∈ blk.nodes.toFinset
        · have hi0 : wlook (solveLeft g pre b) i = 0 :=
            ih0 i (fun hmem => hnd.2.2 i hmem i (List.mem_toFinset.mp hi) rfl)
          rw [if_pos hi, hi0, zero_mul, zero_add]
        · rw [if_neg hi, add_zero]
          exact mul_le_mul' (ihle i) le_rfl
      · rw [hout k hk]
        exact ihle k

/-- the four facts about `solve_left`, with triangularity in `Pairwise` form -/
theorem solveLeft_core_E2 (g : WGraph ι ℝ≥0∞) (hg : g.WF) (b : ι → ℝ≥0∞) (blocks : List (Block ι ℝ≥0∞))
    (hnd : (blocks.map (·.nodes)).flatten.Nodup)
    (hcov : ∀ k, k ∈ g.nodes ↔ k ∈ (blocks.map (·.nodes)).flatten)
    (htri : blocks.Pairwise fun P Q => ∀ i ∈ Q.nodes, ∀ j ∈ P.nodes, g.E i j = 0)
    (hB : ∀ blk ∈ blocks, blk.IsPathSum g) :
    (∀ k ∈ g.nodes, wlook (solveLeft g blocks b) k = rowL g.E g.nodes.toFinset b k) ∧
    (∀ k ∈ g.nodes, wlook (solveLeft g blocks b) k
        = b k + ∑ i ∈ g.nodes.toFinset, wlook (solveLeft g blocks b) i * g.E i k) ∧
    (∀ k, k ∉ g.nodes → wlook (solveLeft g blocks b) k = 0) ∧
    ∀ y : ι → ℝ≥0∞, (∀ k ∈ g.nodes, b k + ∑ i ∈ g.nodes.toFinset, y i * g.E i k ≤ y k) →
      ∀ k, wlook (solveLeft g blocks b) k ≤ y k := by
  have hsub : ∀ blk ∈ blocks, ∀ k ∈ blk.nodes, k ∈ g.nodes := fun blk hb k hk =>
    (hcov k).mpr (List.mem_flatten.mpr ⟨blk.nodes, List.mem_map_of_mem hb, hk⟩)
  have hbn : ∀ blk ∈ blocks, blk.nodes.Nodup := fun blk hb =>
    (List.nodup_flatten.mp hnd).1 blk.nodes (List.mem_map_of_mem hb)
  have inv := solveLeft_inv g hg b blocks hnd hsub htri
    (fun blk hb => (hB blk hb).rightClosed_E2 (hbn blk hb))
  have hsol : ∀ k ∈ g.nodes, wlook (solveLeft g blocks b) k
      = b k + ∑ i ∈ g.nodes.toFinset, wlook (solveLeft g blocks b) i * g.E i k :=
    fun k hk => inv.2 k (List.mem_toFinset.mpr ((hcov k).mp hk))
  have hle : ∀ y : ι → ℝ≥0∞, (∀ k ∈ g.nodes, b k + ∑ i ∈ g.nodes.toFinset, y i * g.E i k ≤ y k) →
      ∀ k, wlook (solveLeft g blocks b) k ≤ y k :=
    fun y hy => (solveLeft_le_prefix_E2 g hg b blocks hnd hsub hB y hy).2
  refine ⟨?_, hsol, ?_, hle⟩
  · intro k hk
    apply le_antisymm
    · exact hle (rowL g.E g.nodes.toFinset b) (fun k _ => (rowL_unfold_E2 g.E _ b k).ge) k
    · exact rowL_least_E2 g.E g.nodes.toFinset b (fun k => k ∈ g.nodes)
        (fun p hp => List.mem_toFinset.mp hp) _ (fun k hk => (hsol k hk).ge) k hk
  · intro k hk
    exact inv.1 k (fun h => hk ((hcov k).mpr (List.mem_toFinset.mp h)))

/-- **`solve_left(b)` at the limit.**  Under the hypotheses of `solveLeft_eq` (representation invariant; blocks
duplicate-free, disjoint, covering the nodes; no non-zero edge from a later to an earlier block) and block matrices
that are the path sums of their blocks (what `_closure` computes, `lehmann_is_path_sum`):
(1) `solve_left(b) = b · A*` with `A* = pathL`; (2) it solves `x = xA + b`; (3) it vanishes outside the nodes;
(4) it lies below every `y` with `yA + b ≤ y` — it is the LEAST solution. -/
theorem solveLeft_least (g : WGraph ι ℝ≥0∞) (hg : g.WF) (blocks : List (Block ι ℝ≥0∞)) (b : ι → ℝ≥0∞)
    (hnd : (blocks.map (·.nodes)).flatten.Nodup)
    (hcov : ∀ k, k ∈ g.nodes ↔ k ∈ (blocks.map (·.nodes)).flatten)
    (htri : ∀ i j, i ∈ g.nodes → j ∈ g.nodes →
      blockIdx (blocks.map (·.nodes)) j < blockIdx (blocks.map (·.nodes)) i → g.E i j = 0)
    (hB : ∀ blk ∈ blocks, blk.IsPathSum g) :
    (∀ k ∈ g.nodes, wlook (solveLeft g blocks b) k
        = (g.nodes.map fun i => b i * pathL g.E g.nodes.toFinset i k).sum) ∧
    (∀ k ∈ g.nodes, wlook (solveLeft g blocks b) k
        = b k + (g.nodes.map fun i => wlook (solveLeft g blocks b) i * g.E i k).sum) ∧
    (∀ k, k ∉ g.nodes → wlook (solveLeft g blocks b) k = 0) ∧
    ∀ y : ι → ℝ≥0∞, (∀ k ∈ g.nodes, b k + (g.nodes.map fun i => y i * g.E i k).sum ≤ y k) →
      ∀ k, wlook (solveLeft g blocks b) k ≤ y k := by
  have hpw := pairwise_of_blockIdx (blocks.map (·.nodes)) hnd (fun i j => g.E i j = 0)
    (fun i j hi hj => htri i j ((hcov i).mpr hi) ((hcov j).mpr hj))
  rw [List.pairwise_map] at hpw
  obtain ⟨h1, h2, h3, h4⟩ := solveLeft_core_E2 g hg b blocks hnd hcov hpw hB
  refine ⟨?_, ?_, h3, ?_⟩
  · intro k hk
    rw [h1 k hk, ← sum_mul_pathL_E2 g.E _ b k (List.mem_toFinset.mpr hk), List.sum_toFinset _ hg.1]
  · intro k hk
    rw [← List.sum_toFinset _ hg.1]
    exact h2 k hk
  · intro y hy
    apply h4 y
    intro k hk
    rw [List.sum_toFinset _ hg.1]
    exact hy k hk

theorem transpose_E_fun_E2 (g : WGraph ι ℝ≥0∞) : g.transpose.E = fun a b => g.E b a := by
  funext a b; exact transpose_E g a b

theorem Block.IsPathSum.transpose_E2 {g : WGraph ι ℝ≥0∞} {blk : Block ι ℝ≥0∞} (h : blk.IsPathSum g) :
    blk.transpose.IsPathSum g.transpose := by
  constructor
  · intro e he
    simp only [Block.transpose, List.mem_map] at he
    obtain ⟨e', he', rfl⟩ := he
    exact ⟨(h.1 e' he').2, (h.1 e' he').1⟩
  · intro j hj k hk
    have hn : blk.transpose.nodes = blk.nodes := rfl
    rw [hn] at hj hk ⊢
    rw [transpose_B, h.2 k hk j hj, transpose_E_fun_E2,
      pathL_transpose g.E _ j k (List.mem_toFinset.mpr hj) (List.mem_toFinset.mpr hk)]

/-- **`solve_right(b)` at the limit**: (1) `solve_right(b) = A* · b`; (2) it solves `x = Ax + b`; (3) it vanishes
outside the nodes; (4) it lies below every `y` with `Ay + b ≤ y` — the LEAST solution. -/
theorem solveRight_least (g : WGraph ι ℝ≥0∞) (hg : g.WF) (blocks : List (Block ι ℝ≥0∞)) (b : ι → ℝ≥0∞)
    (hnd : (blocks.map (·.nodes)).flatten.Nodup)
    (hcov : ∀ k, k ∈ g.nodes ↔ k ∈ (blocks.map (·.nodes)).flatten)
    (htri : ∀ i j, i ∈ g.nodes → j ∈ g.nodes →
      blockIdx (blocks.map (·.nodes)) j < blockIdx (blocks.map (·.nodes)) i → g.E i j = 0)
    (hB : ∀ blk ∈ blocks, blk.IsPathSum g) :
    (∀ k ∈ g.nodes, wlook (solveRight g blocks b) k
        = (g.nodes.map fun i => pathL g.E g.nodes.toFinset k i * b i).sum) ∧
    (∀ k ∈ g.nodes, wlook (solveRight g blocks b) k
        = b k + (g.nodes.map fun i => g.E k i * wlook (solveRight g blocks b) i).sum) ∧
    (∀ k, k ∉ g.nodes → wlook (solveRight g blocks b) k = 0) ∧
    ∀ y : ι → ℝ≥0∞, (∀ k ∈ g.nodes, b k + (g.nodes.map fun i => g.E k i * y i).sum ≤ y k) →
      ∀ k, wlook (solveRight g blocks b) k ≤ y k := by
  have hpw := pairwise_of_blockIdx (blocks.map (·.nodes)) hnd (fun i j => g.E i j = 0)
    (fun i j hi hj => htri i j ((hcov i).mpr hi) ((hcov j).mpr hj))
  rw [List.pairwise_map] at hpw
  have hperm : ((blocks.reverse.map Block.transpose).map (·.nodes)).flatten.Perm
      (blocks.map (·.nodes)).flatten := by
    rw [transpose_nodes_reverse]
    exact (List.reverse_perm _).flatten
  have hn : g.transpose.nodes = g.nodes := rfl
  have core := solveLeft_core_E2 g.transpose (transpose_WF g hg) b (blocks.reverse.map Block.transpose)
    (hperm.nodup_iff.mpr hnd)
    (by intro k; rw [hn, hcov k]; exact (hperm.mem_iff).symm)
    (by
      rw [List.pairwise_map, List.pairwise_reverse]
      refine hpw.imp ?_
      intro P Q h i hi j hj
      rw [transpose_E]
      exact h j hj i hi)
    (by
      intro blk hb
      obtain ⟨blk0, hb0, rfl⟩ := List.mem_map.mp hb
      exact (hB blk0 (List.mem_reverse.mp hb0)).transpose_E2)
  rw [← solveRight_eq_solveLeft_transpose, hn] at core
  obtain ⟨h1, h2, h3, h4⟩ := core
  refine ⟨?_, ?_, h3, ?_⟩
  · intro k hk
    have hkN := List.mem_toFinset.mpr hk
    rw [h1 k hk, ← sum_mul_pathL_E2 _ _ b k hkN, ← List.sum_toFinset _ hg.1]
    apply Finset.sum_congr rfl
    intro i hi
    rw [transpose_E_fun_E2, pathL_transpose g.E _ i k hi hkN, mul_comm]
  · intro k hk
    rw [← List.sum_toFinset _ hg.1]
    refine (h2 k hk).trans ?_
    congr 1
    apply Finset.sum_congr rfl
    intro i _
    rw [transpose_E, mul_comm]
  · intro y hy
    apply h4 y
    intro k hk
    refine le_trans (le_of_eq ?_) (hy k hk)
    rw [← List.sum_toFinset _ hg.1]
    congr 1
    apply Finset.sum_congr rfl
    intro i _
    rw [transpose_E, mul_comm]

/-- structural hypotheses of the solvers from the checker, for the blocks computed by `_closure` over `ℝ≥0∞` -/
theorem solve_least_of_sccCheck (g : WGraph ι ℝ≥0∞) (hN : g.nodes.Nodup) (bl : List (List ι))
    (hchk : sccCheck g g.arcs bl = true) (b : ι → ℝ≥0∞) :
    ((∀ k ∈ g.nodes, wlook (solveLeft g (mkBlocks g starE bl) b) k
        = (g.nodes.map fun i => b i * pathL g.E g.nodes.toFinset i k).sum) ∧
     (∀ k ∈ g.nodes, wlook (solveLeft g (mkBlocks g starE bl) b) k
        = b k + (g.nodes.map fun i => wlook (solveLeft g (mkBlocks g starE bl) b) i * g.E i k).sum) ∧
     (∀ k, k ∉ g.nodes → wlook (solveLeft g (mkBlocks g starE bl) b) k = 0) ∧
     ∀ y : ι → ℝ≥0∞, (∀ k ∈ g.nodes, b k + (g.nodes.map fun i => y i * g.E i k).sum ≤ y k) →
       ∀ k, wlook (solveLeft g (mkBlocks g starE bl) b) k ≤ y k) ∧
    ((∀ k ∈ g.nodes, wlook (solveRight g (mkBlocks g starE bl) b) k
        = (g.nodes.map fun i => pathL g.E g.nodes.toFinset k i * b i).sum) ∧
     (∀ k ∈ g.nodes, wlook (solveRight g (mkBlocks g starE bl) b) k
        = b k + (g.nodes.map fun i => g.E k i * wlook (solveRight g (mkBlocks g starE bl) b) i).sum) ∧
     (∀ k, k ∉ g.nodes → wlook (solveRight g (mkBlocks g starE bl) b) k = 0) ∧
     ∀ y : ι → ℝ≥0∞, (∀ k ∈ g.nodes, b k + (g.nodes.map fun i => g.E k i * y i).sum ≤ y k) →
       ∀ k, wlook (solveRight g (mkBlocks g starE bl) b) k ≤ y k) := by
  obtain ⟨hnd, hcov, hE, htri⟩ := solve_hyps_of_sccCheck g bl hchk
  have hWF : g.WF := ⟨hN, hE⟩
  have hB := mkBlocks_isPathSum_E2 g bl hnd
  constructor
  · exact solveLeft_least g hWF _ b (by rw [mkBlocks_nodes]; exact hnd)
      (by rw [mkBlocks_nodes]; exact hcov) (by rw [mkBlocks_nodes]; exact htri) hB
  · exact solveRight_least g hWF _ b (by rw [mkBlocks_nodes]; exact hnd)
      (by rw [mkBlocks_nodes]; exact hcov) (by rw [mkBlocks_nodes]; exact htri) hB

/-- **`closure_scc_based` is the path sum**: for a decomposition accepted by `sccCheck` (the true SCCs, sources
first) and block closures computed by `_closure` with `star a = ∑ₙ aⁿ`, entry `(i,k)` is the total weight of all
walks from `i` to `k`; there are no entries outside `nodes × nodes`. -/
theorem closureScc_is_path_sum (g : WGraph ι ℝ≥0∞) (hN : g.nodes.Nodup) (bl : List (List ι))
    (hchk : sccCheck g g.arcs bl = true) :
    (∀ i ∈ g.nodes, ∀ k ∈ g.nodes,
      wlook (closureScc g (mkBlocks g starE bl)) (i, k) = pathL g.E g.nodes.toFinset i k) ∧
    ∀ i k, ¬ (i ∈ g.nodes ∧ k ∈ g.nodes) → wlook (closureScc g (mkBlocks g starE bl)) (i, k) = 0 := by
  have hs := fun b => (solve_least_of_sccCheck g hN bl hchk b).1
  constructor
  · intro i hi k hk
    rw [closureScc_row_eq_solveLeft g hN _ i k hi, (hs _).1 k hk, ← List.sum_toFinset _ hN]
    simp only [ite_mul, one_mul, zero_mul, Finset.sum_ite_eq', List.mem_toFinset, hi, if_true]
  · intro i k hik
    by_cases hi : i ∈ g.nodes
    · have hk : k ∉ g.nodes := fun hk => hik ⟨hi, hk⟩
      rw [closureScc_row_eq_solveLeft g hN _ i k hi]
      exact (hs _).2.2.1 k hk
    · apply wlook_eq_zero
      intro e he heq
      unfold closureScc at he
      obtain ⟨a, ha, he'⟩ := List.mem_flatMap.mp he
      obtain ⟨e', _, rfl⟩ := List.mem_map.mp he'
      exact hi ((Prod.mk.inj heq).1 ▸ ha)

/-- the two closure routines agree (both are the path sum) -/
theorem closureScc_eq_closureRef (g : WGraph ι ℝ≥0∞) (hN : g.nodes.Nodup) (bl : List (List ι))
    (hchk : sccCheck g g.arcs bl = true) :
    ∀ i ∈ g.nodes, ∀ k ∈ g.nodes,
      wlook (closureScc g (mkBlocks g starE bl)) (i, k) = wlook (closureRef g starE) (i, k) := by
  intro i hi k hk
  rw [(closureScc_is_path_sum g hN bl hchk).1 i hi k hk, closureRef_is_path_sum g hN i hi k hk]

end SolveL

/-! ### 5. sanity link and non-vacuity -/

/-- `pathW` over a finite index type is Mathlib's matrix power -/
theorem pathW_eq_matrix_pow {n : Type} [Fintype n] [DecidableEq n] (A : Matrix n n ℝ≥0∞) (k : ℕ)
    (i j : n) : pathW (fun a b => A a b) Finset.univ k i j = (A ^ k) i j := by
  induction k generalizing j with
  | zero => rw [pathW_zero, pow_zero, Matrix.one_apply]
  | succ k ih =>
    rw [pathW_succ, pow_succ, Matrix.mul_apply]
    apply Finset.sum_congr rfl
    intro m _
    rw [ih m]

section Examples

/-- a 2-cycle `0 ⇄ 1` with weights `1/2`, `1/4`: cycle weight `1/8`, closure entry `(0,0) = 1/(1 - 1/8) = 8/7` -/
private noncomputable def G2 : WGraph Nat ℝ≥0∞ := ⟨[0, 1], [((0, 1), 1/2), ((1, 0), 1/4)]⟩

example : G2.nodes.Nodup := by decide
example : sccCheck G2 G2.arcs [[0, 1]] = true := by decide

private theorem ex_arith1_E2 : (1 : ℝ≥0∞) = 7/8 + 4⁻¹ * 2⁻¹ := by
  rw [← ENNReal.toReal_eq_toReal_iff' (by finiteness) (by finiteness),
    ENNReal.toReal_add (by finiteness) (by finiteness)]
  simp
  norm_num

private theorem ex_star_E2 : starE (4⁻¹ * 2⁻¹) = 8/7 := by
  rw [starE_eq_inv, ENNReal.sub_eq_of_eq_add (by finiteness) ex_arith1_E2,
    ENNReal.inv_div (by simp) (by simp)]

private theorem ex_arith2_E2 : (2⁻¹ * (8/7) * 4⁻¹ + 1 : ℝ≥0∞) = 8/7 := by
  rw [← ENNReal.toReal_eq_toReal_iff' (by finiteness) (by finiteness),
    ENNReal.toReal_add (by finiteness) (by finiteness)]
  simp
  norm_num

/-- Lehmann's result on the 2-cycle … -/
private theorem ex_G2_ref_E2 : wlook (closureRef G2 starE) (0, 0) = 8/7 := by
  simp [closureRef, lehmann, lehRun, lehStep, wlook, lsum, G2, starE_zero, ex_star_E2, ex_arith2_E2]

/-- … is the (finite) sum over all walks `0 → 0`, … -/
example : pathL G2.E {0, 1} 0 0 = 8/7 := by
  have h := closureRef_is_path_sum G2 (by decide) 0 (by simp [G2]) 0 (by simp [G2])
  have hf : G2.nodes.toFinset = {0, 1} := by decide
  rw [hf] at h
  rw [← h, ex_G2_ref_E2]

/-- … and so is the SCC-based closure -/
example : wlook (closureScc G2 (mkBlocks G2 starE [[0, 1]])) (0, 0) = 8/7 := by
  rw [closureScc_eq_closureRef G2 (by decide) [[0, 1]] (by decide) 0 (by simp [G2]) 0 (by simp [G2]),
    ex_G2_ref_E2]

/-- a divergent self loop: the closure is `∞`, and the theorems still apply -/
private noncomputable def G1 : WGraph Nat ℝ≥0∞ := ⟨[0], [((0, 0), 1)]⟩

example : sccCheck G1 G1.arcs [[0]] = true := by decide

example : wlook (closureRef G1 starE) (0, 0) = ∞ := by
  simp [closureRef, lehmann, wlook, lsum, G1, WGraph.E, starE_eq_top]

example : pathL G1.E {0} 0 0 = ∞ := by
  have h := closureRef_is_path_sum G1 (by decide) 0 (by simp [G1]) 0 (by simp [G1])
  have hf : G1.nodes.toFinset = {0} := by decide
  rw [hf] at h; rw [← h]
  simp [closureRef, lehmann, wlook, lsum, G1, WGraph.E, starE_eq_top]

/-- several components: the 2-cycle `0 ⇄ 1`, an edge `1 → 2` into a divergent loop at `2`, an isolated node `3` -/
private noncomputable def G4 : WGraph Nat ℝ≥0∞ :=
  ⟨[0, 1, 2, 3], [((0, 1), 1/2), ((1, 0), 1/4), ((1, 2), 1/3), ((2, 2), 1)]⟩

example : G4.nodes.Nodup := by decide
example : sccCheck G4 G4.arcs [[0, 1], [2], [3]] = true := by decide

/-- the walks `0 → 2` have infinite total weight; the isolated node only has the empty walk -/
example : pathL G4.E {0, 1, 2, 3} 0 2 = ∞ ∧ pathL G4.E {0, 1, 2, 3} 3 3 = 1 := by
  have h := (closureScc_is_path_sum G4 (by decide) [[0, 1], [2], [3]] (by decide)).1
  have hf : G4.nodes.toFinset = {0, 1, 2, 3} := by decide
  rw [hf] at h
  constructor
  · rw [← h 0 (by simp [G4]) 2 (by simp [G4])]
    simp [closureScc, mkBlocks, solveLeft, solveLeftBlock, enterLeft, lehmann, lehRun, lehStep, wlook, lsum,
      G4, WGraph.E, WGraph.incoming, WGraph.arcs, linDedup, starE_zero, starE_eq_top]
  · rw [← h 3 (by simp [G4]) 3 (by simp [G4])]
    simp [closureScc, mkBlocks, solveLeft, solveLeftBlock, enterLeft, lehmann, lehRun, lehStep, wlook, lsum,
      G4, WGraph.E, WGraph.incoming, WGraph.arcs, linDedup, starE_zero]

/-- `solve_left` / `solve_right` on `G4` are the least solutions, for every right-hand side -/
example (b : Nat → ℝ≥0∞) :=
  solve_least_of_sccCheck G4 (by decide) [[0, 1], [2], [3]] (by decide) b

end Examples

end Genlm
