import GenlmModel.Model.AgendaM
import GenlmModel.Proofs.Basic
import GenlmModel.Proofs.Zn
import GenlmModel.Proofs.TrimSem
import Mathlib.Algebra.BigOperators.Group.List.Basic
import Mathlib.Algebra.Ring.Defs
import Mathlib.Algebra.Ring.Nat
import Mathlib.Tactic.Ring

/-!
Property C08: `CFG.agenda` (semi-naive agenda evaluation of the total weights), model
`Model/AgendaM.lean`, for every commutative semiring, every grammar and every scheduler.

* `agenda_invariant`   — in every reachable state `old X + pending X = agF G old X`;
* `agenda_fixed_point` — if nothing is pending, `old` solves the grammar equations;
* `agenda_le_agIter`, `agenda_le_ZN` — `old` stays below the Kleene chain;
* `agenda_least`       — a terminated agenda holds a least (pre-)fixed point;
* `agenda_terminated_ZN` — ... which bounds every `ZN G n` and is bounded by one of them.

`agF G z X = [X ∈ V] + Σ_{r.head = X} r.w * Π_{y ∈ r.body} z y`, `agIter` its Kleene iterates
(`Model/AgendaM.lean`).  `a ≼ b` is `NatLe` of `Proofs/TrimSem.lean` (`∃ c, b = a + c`); it is
definitionally `AlgLe` of `Proofs/Zn.lean`, whose lemmas (free of `[DecidableEq K]`) are used in
the proofs.  States are `AgReach G st`; `agReach_iff_run`: `AgReach G st ↔ ∃ sched, st = agendaRun G sched`.
-/
namespace Genlm
variable {σ K : Type} [DecidableEq σ] [CommSemiring K]

/-- the states the `while` loop of `CFG.agenda` can be in, for any scheduler -/
inductive AgReach (G : CFG σ K) : AgState σ K → Prop
  | init : AgReach G (agendaInit G)
  | step (u : σ) {st : AgState σ K} : AgReach G st → AgReach G (agendaStep G u st)

namespace AgendaAux

/-! ### pending values -/

theorem sum_filter_map {α : Type} (l : List α) (p : α → Prop) [DecidablePred p] (g : α → K) :
    ((l.filter fun a => p a).map g).sum = (l.map fun a => if p a then g a else 0).sum := by
  induction l with
  | nil => rfl
  | cons a l ih =>
    by_cases h : p a
    · simp [h, ih]
    · simp [h, ih]

theorem sum_filter_mapB {α : Type} (l : List α) (p : α → Bool) (g : α → K) :
    ((l.filter p).map g).sum = (l.map fun a => if p a = true then g a else 0).sum := by
  induction l with
  | nil => rfl
  | cons a l ih =>
    by_cases h : p a = true
    · simp [h, ih]
    · simp [h, ih]

theorem agPending_eq (ch : List (σ × K)) (x : σ) :
    agPending ch x = (ch.map fun e => if e.1 = x then e.2 else 0).sum := by
  unfold agPending
  rw [lsum_eq_sum]
  exact sum_filter_map ch (fun e => e.1 = x) (fun e => e.2)

theorem agPending_nil (x : σ) : agPending ([] : List (σ × K)) x = 0 := by
  simp [agPending_eq]

theorem agPending_append (a b : List (σ × K)) (x : σ) :
    agPending (a ++ b) x = agPending a x + agPending b x := by
  simp only [agPending_eq, List.map_append, List.sum_append]

/-- `popitem`: the key `u` disappears, the others are untouched -/
theorem agPending_pop (ch : List (σ × K)) (u x : σ) :
    agPending (ch.filter fun e => !(decide (e.1 = u))) x = if x = u then 0 else agPending ch x := by
  by_cases hx : x = u
  · subst hx
    rw [if_pos rfl, agPending_eq]
    apply sum_map_zero
    intro e he
    have : ¬ e.1 = x := by simpa using (List.mem_filter.1 he).2
    rw [if_neg this]
  · rw [if_neg hx, agPending_eq, agPending_eq]
    symm
    apply sum_filter_of_zero
    intro e _ hp
    have he : e.1 = u := by simpa using hp
    have : ¬ e.1 = x := fun h => hx (h.symm.trans he)
    rw [if_neg this]

theorem agPending_flatMap {α : Type} (l : List α) (f : α → List (σ × K)) (x : σ) :
    agPending (l.flatMap f) x = (l.map fun a => agPending (f a) x).sum := by
  induction l with
  | nil => simp [agPending_nil]
  | cons a l ih => simp only [List.flatMap_cons, agPending_append, ih, List.map_cons, List.sum_cons]

theorem agPending_map_const {α : Type} (l : List α) (h : σ) (W : α → K) (x : σ) :
    agPending (l.map fun k => (h, W k)) x = if h = x then (l.map W).sum else 0 := by
  rw [agPending_eq]
  by_cases hx : h = x
  · simp [hx, Function.comp_def]
  · simp [hx, Function.comp_def]

/-! ### the semi-naive `new / v / old` factors telescope -/

/-- `Σ_{k : b_k = u} (Π_{j<k} z'(b_j)) * v * (Π_{j>k} z(b_j))` with `z' = z[u ↦ z u + v]` -/
def tele (z : σ → K) (u : σ) (v : K) : List σ → K
  | [] => 0
  | y :: ys => (if y = u then v * (ys.map z).prod else 0) +
      (if y = u then z u + v else z y) * tele z u v ys

/-- the telescoping identity -/
theorem prod_update (z : σ → K) (u : σ) (v : K) (b : List σ) :
    (b.map fun x => if x = u then z u + v else z x).prod = (b.map z).prod + tele z u v b := by
  induction b with
  | nil => simp [tele]
  | cons y ys ih =>
    simp only [List.map_cons, List.prod_cons, tele, ih]
    by_cases h : y = u
    · subst h; simp only [if_true]; ring
    · simp only [h, if_false]; ring

omit [CommSemiring K] in
theorem agPositions_ge (u : σ) (j : Nat) (ys : List σ) (k : Nat) (h : k ∈ agPositions u j ys) :
    j ≤ k := by
  induction ys generalizing j with
  | nil => simp [agPositions] at h
  | cons y ys ih =>
    simp only [agPositions] at h
    split at h
    · rcases List.mem_cons.1 h with rfl | h
      · exact Nat.le_refl _
      · exact Nat.le_of_succ_le (ih _ h)
    · exact Nat.le_of_succ_le (ih _ h)

/-- after the position `k` only `old` values are multiplied in -/
theorem agWLoop_past (old : σ → K) (u : σ) (new v : K) (k j : Nat) (ys : List σ) (W : K)
    (h : k < j) : agWLoop old u new v k j ys W = W * (ys.map old).prod := by
  induction ys generalizing j W with
  | nil => simp [agWLoop]
  | cons y ys ih =>
    have h1 : ¬ j < k := by omega
    have h2 : ¬ j = k := by omega
    simp only [agWLoop, h1, h2, if_false]
    rw [ih (j+1) _ (by omega)]
    by_cases hy : y = u
    · subst hy; simp only [if_true, List.map_cons, List.prod_cons]; ring
    · simp only [hy, if_false, List.map_cons, List.prod_cons]; ring

/-- the updates sent by one rule through all its routing entries for `u` -/
theorem agWLoop_sum (old : σ → K) (u : σ) (v : K) (j : Nat) (ys : List σ) (W : K) :
    ((agPositions u j ys).map fun k => agWLoop old u (old u + v) v k j ys W).sum
      = W * tele old u v ys := by
  induction ys generalizing j W with
  | nil => simp [agPositions, tele]
  | cons y ys ih =>
    have hrest : ∀ W', ((agPositions u (j+1) ys).map fun k =>
          agWLoop old u (old u + v) v k j (y :: ys) W').sum
        = (W' * (if y = u then old u + v else old y)) * tele old u v ys := by
      intro W'
      rw [← ih (j+1)]
      congr 1
      apply List.map_congr_left
      intro k hk
      have hjk : j < k := agPositions_ge u (j+1) ys k hk
      simp only [agWLoop, hjk, if_true]
    by_cases hy : y = u
    · subst hy
      simp only [agPositions, if_true, List.map_cons, List.sum_cons, hrest, tele]
      simp only [agWLoop, Nat.lt_irrefl, if_false, if_true]
      rw [agWLoop_past _ _ _ _ _ _ _ _ (Nat.lt_succ_self j)]
      ring
    · simp only [agPositions, hy, if_false, hrest, tele]
      ring

/-- pending value of the updates of one step -/
theorem agPending_pushes (G : CFG σ K) (old : σ → K) (u : σ) (v : K) (X : σ) :
    agPending (agPushes G old u (old u + v) v) X
      = ((G.rules.filter fun r => r.head = X).map fun r => r.w * tele old u v r.body).sum := by
  unfold agPushes
  rw [agPending_flatMap, sum_filter_map G.rules (fun r => r.head = X)]
  congr 1
  apply List.map_congr_left
  intro r _
  rw [agPending_map_const, agWLoop_sum]

/-! ### `agF` -/

theorem agF_eq (G : CFG σ K) (z : σ → K) (X : σ) :
    agF G z X = (if X ∈ G.V then 1 else 0) +
      ((G.rules.filter fun r => r.head = X).map fun r => r.w * (r.body.map z).prod).sum := by
  simp only [agF, lsum_eq_sum, lprod_eq_prod]

/-- effect on `agF` of raising one coordinate -/
theorem agF_update (G : CFG σ K) (z : σ → K) (u : σ) (v : K) (X : σ) :
    agF G (fun x => if x = u then z u + v else z x) X
      = agF G z X
        + ((G.rules.filter fun r => r.head = X).map fun r => r.w * tele z u v r.body).sum := by
  rw [agF_eq, agF_eq, add_assoc, ← List.sum_map_add]
  congr 2
  apply List.map_congr_left
  intro r _
  rw [prod_update, mul_add]

/-- polynomial maps are monotone -/
theorem agF_mono (G : CFG σ K) (z z' : σ → K) (h : ∀ X, z X ≼ z' X) (X : σ) :
    agF G z X ≼ agF G z' X := by
  rw [agF_eq, agF_eq]
  refine AlgLe.add (AlgLe.refl _) (AlgLe.sum_map _ _ _ ?_)
  intro r _
  exact AlgLe.mul (AlgLe.refl _) (AlgLe.prod_map _ _ _ fun y _ => h y)

/-! ### initial state -/

omit [CommSemiring K] in
theorem mem_agDedup (l : List σ) (a : σ) : a ∈ agDedup l ↔ a ∈ l := by
  induction l with
  | nil => simp [agDedup]
  | cons b l ih =>
    simp only [agDedup]
    split
    · next hb =>
      rw [ih, List.mem_cons]
      constructor
      · exact Or.inr
      · rintro (rfl | h)
        · exact hb
        · exact h
    · simp only [List.mem_cons, ih]

theorem agPending_dedup (l : List σ) (X : σ) :
    agPending ((agDedup l).map fun a => (a, (1 : K))) X = if X ∈ l then 1 else 0 := by
  induction l with
  | nil => simp [agDedup, agPending_nil]
  | cons b l ih =>
    simp only [agDedup]
    split
    · next hb =>
      rw [ih]
      by_cases hX : X = b
      · subst hX; simp [hb]
      · simp [hX]
    · next hb =>
      have hcons : agPending ((b :: agDedup l).map fun a => (a, (1 : K))) X
          = (if b = X then 1 else 0) + agPending ((agDedup l).map fun a => (a, (1 : K))) X := by
        simp only [agPending_eq, List.map_cons, List.sum_cons]
      rw [hcons, ih]
      by_cases hX : X = b
      · subst hX; simp [hb]
      · have : ¬ b = X := fun h => hX h.symm
        simp [hX, this]

theorem init_invariant (G : CFG σ K) (X : σ) :
    (agendaInit G).old X + pending (agendaInit G) X = agF G (agendaInit G).old X := by
  simp only [agendaInit, pending, agPending_append, agPending_dedup, agF_eq, zero_add]
  congr 1
  rw [agPending_eq, List.map_map, sum_filter_map G.rules (fun r => r.head = X),
    sum_filter_mapB G.rules (fun r => r.body.isEmpty)]
  congr 1
  apply List.map_congr_left
  intro r _
  cases hb : r.body with
  | nil => simp
  | cons y ys => simp

/-! ### one step -/

/-- the loop body preserves the invariant, whatever key is popped -/
theorem step_invariant (G : CFG σ K) (u : σ) (st : AgState σ K)
    (h : ∀ X, st.old X + pending st X = agF G st.old X) (X : σ) :
    (agendaStep G u st).old X + pending (agendaStep G u st) X
      = agF G (agendaStep G u st).old X := by
  simp only [agendaStep, pending, agPending_append, agPending_pop, agPending_pushes]
  rw [agF_update, ← h X]
  simp only [pending]
  by_cases hX : X = u
  · subst hX; simp only [if_true]; ring
  · simp only [hX, if_false]; ring

/-- `old` only grows, and never beyond `old + pending` -/
theorem step_old_le (G : CFG σ K) (u : σ) (st : AgState σ K) (Y : σ) :
    (agendaStep G u st).old Y ≼ st.old Y + pending st Y := by
  simp only [agendaStep, pending]
  by_cases hY : Y = u
  · subst hY; simp only [if_true]; exact AlgLe.refl _
  · simp only [hY, if_false]; exact ⟨_, rfl⟩

theorem foldl_reach (G : CFG σ K) (f : σ → AgState σ K → AgState σ K)
    (hf : ∀ u st, AgReach G st → AgReach G (f u st)) (sched : List σ) (st : AgState σ K)
    (h : AgReach G st) : AgReach G (sched.foldl (fun st u => f u st) st) := by
  induction sched generalizing st with
  | nil => exact h
  | cons u us ih => exact ih _ (hf u st h)

theorem agendaRun_snoc (G : CFG σ K) (sched : List σ) (u : σ) :
    agendaRun G (sched ++ [u]) = agendaStep G u (agendaRun G sched) := by
  simp [agendaRun, List.foldl_append]

end AgendaAux

open AgendaAux

/-! ### reachability -/

theorem agendaRun_reach (G : CFG σ K) (sched : List σ) : AgReach G (agendaRun G sched) :=
  foldl_reach G (agendaStep G) (fun u _ h => AgReach.step u h) sched _ AgReach.init

/-- a `popitem` that can only return existing keys reaches fewer states -/
theorem agendaRunP_reach (G : CFG σ K) (sched : List σ) : AgReach G (agendaRunP G sched) := by
  refine foldl_reach G (agendaStepP G) ?_ sched _ AgReach.init
  intro u st h
  unfold agendaStepP
  split
  · exact AgReach.step u h
  · exact h

/-- `AgReach` is exactly "the state after some list of scheduler choices" -/
theorem agReach_iff_run (G : CFG σ K) (st : AgState σ K) :
    AgReach G st ↔ ∃ sched, st = agendaRun G sched := by
  constructor
  · intro h
    induction h with
    | init => exact ⟨[], rfl⟩
    | step u _ ih =>
      obtain ⟨sched, rfl⟩ := ih
      exact ⟨sched ++ [u], (agendaRun_snoc G sched u).symm⟩
  · rintro ⟨sched, rfl⟩
    exact agendaRun_reach G sched

/-! ### 1. the invariant -/

/-- **Loop invariant of `CFG.agenda`.**  In every reachable state, for every symbol, the value
already committed plus the value still pending is the right-hand side of the grammar equations
evaluated at the committed chart. -/
theorem agenda_invariant (G : CFG σ K) {st : AgState σ K} (h : AgReach G st) (X : σ) :
    st.old X + pending st X = agF G st.old X := by
  induction h generalizing X with
  | init => exact init_invariant G X
  | step u _ ih => exact step_invariant G u _ ih X

theorem agendaRun_invariant (G : CFG σ K) (sched : List σ) (X : σ) :
    (agendaRun G sched).old X + pending (agendaRun G sched) X = agF G (agendaRun G sched).old X :=
  agenda_invariant G (agendaRun_reach G sched) X

theorem agendaRunP_invariant (G : CFG σ K) (sched : List σ) (X : σ) :
    (agendaRunP G sched).old X + pending (agendaRunP G sched) X
      = agF G (agendaRunP G sched).old X :=
  agenda_invariant G (agendaRunP_reach G sched) X

/-! ### 2. termination ⇒ fixed point -/

/-- if every pending value is zero, `old` solves the grammar equations -/
theorem agenda_fixed_point (G : CFG σ K) {st : AgState σ K} (h : AgReach G st)
    (h0 : ∀ X, pending st X = 0) (X : σ) : st.old X = agF G st.old X := by
  rw [← agenda_invariant G h X, h0 X, add_zero]

theorem pending_of_empty {st : AgState σ K} (h0 : st.change = []) (X : σ) :
    pending st X = 0 := by
  simp [pending, h0, agPending_nil]

/-- the `while` loop has emptied `change`: `old` solves the grammar equations -/
theorem agenda_fixed_point_of_empty (G : CFG σ K) {st : AgState σ K} (h : AgReach G st)
    (h0 : st.change = []) (X : σ) : st.old X = agF G st.old X :=
  agenda_fixed_point G h (pending_of_empty h0) X

/-! ### 3. below the Kleene chain; least fixed point -/

/-- every reachable state is below some Kleene iterate of `agF` -/
theorem agenda_le_agIter (G : CFG σ K) {st : AgState σ K} (h : AgReach G st) :
    ∃ n, ∀ X, st.old X + pending st X ≼ agIter G n X := by
  induction h with
  | init =>
    refine ⟨1, fun X => ?_⟩
    rw [init_invariant]
    exact AlgLe.refl _
  | step u hst ih =>
    obtain ⟨n, hn⟩ := ih
    refine ⟨n+1, fun X => ?_⟩
    rw [agenda_invariant G (AgReach.step u hst) X]
    exact agF_mono G _ _ (fun Y => AlgLe.trans (step_old_le G u _ Y) (hn Y)) X

theorem agenda_old_le_agIter (G : CFG σ K) {st : AgState σ K} (h : AgReach G st) :
    ∃ n, ∀ X, st.old X ≼ agIter G n X := by
  obtain ⟨n, hn⟩ := agenda_le_agIter G h
  exact ⟨n, fun X => AlgLe.trans ⟨_, rfl⟩ (hn X)⟩

/-- `agIter` against the library-wide Kleene chain `ZN` (which reads terminals as `1`):
if no rule rewrites a terminal, `agIter n ≤ ZN n` on nonterminals and `agIter n ≤ 1` on terminals -/
theorem agIter_le_ZN (G : CFG σ K) (hV : ∀ r ∈ G.rules, r.head ∉ G.V) (n : Nat) (y : σ) :
    agIter G n y ≼ (if y ∈ G.V then 1 else ZN G n y) := by
  induction n generalizing y with
  | zero => exact AlgLe.zero _
  | succ n ih =>
    show agF G (agIter G n) y ≼ _
    rw [agF_eq]
    by_cases hy : y ∈ G.V
    · have : G.rules.filter (fun r => r.head = y) = [] := by
        rw [List.filter_eq_nil_iff]
        intro r hr
        simp only [decide_eq_true_eq]
        intro e
        exact hV r hr (e ▸ hy)
      rw [this]
      simp only [hy, if_true, List.map_nil, List.sum_nil, add_zero]
      exact AlgLe.refl _
    · simp only [hy, if_false, zero_add]
      rw [ZN_succ]
      unfold znPoly
      apply AlgLe.sum_map
      intro r _
      exact AlgLe.mul (AlgLe.refl _) (AlgLe.prod_map _ _ _ fun y' _ => ih y')

/-- conversely (no hypothesis): `ZN n ≤ agIter (n+1)`; the two chains are cofinal -/
theorem ZN_le_agIter (G : CFG σ K) (n : Nat) (y : σ) :
    (if y ∈ G.V then 1 else ZN G n y) ≼ agIter G (n+1) y := by
  induction n generalizing y with
  | zero =>
    show _ ≼ agF G (agIter G 0) y
    rw [agF_eq]
    by_cases hy : y ∈ G.V
    · simp only [hy, if_true]; exact ⟨_, rfl⟩
    · simp only [hy, if_false]; exact AlgLe.zero _
  | succ n ih =>
    show _ ≼ agF G (agIter G (n+1)) y
    rw [agF_eq]
    by_cases hy : y ∈ G.V
    · simp only [hy, if_true]; exact ⟨_, rfl⟩
    · simp only [hy, if_false, zero_add]
      rw [ZN_succ]
      unfold znPoly
      apply AlgLe.sum_map
      intro r _
      exact AlgLe.mul (AlgLe.refl _) (AlgLe.prod_map _ _ _ fun y' _ => ih y')

/-- **Soundness w.r.t. the reference Kleene chain.**  The chart of every reachable state of the
agenda is, on nonterminals, below some iterate `ZN G n`. -/
theorem agenda_le_ZN (G : CFG σ K) (hV : ∀ r ∈ G.rules, r.head ∉ G.V) {st : AgState σ K}
    (h : AgReach G st) : ∃ n, ∀ X, X ∉ G.V → st.old X ≼ ZN G n X := by
  obtain ⟨n, hn⟩ := agenda_old_le_agIter G h
  refine ⟨n, fun X hX => ?_⟩
  have h1 := agIter_le_ZN G hV n X
  simp only [hX, if_false] at h1
  exact AlgLe.trans (hn X) h1

/-- every pre-fixed point of `agF` dominates the whole Kleene chain -/
theorem agIter_le_prefixed (G : CFG σ K) (z : σ → K) (hz : ∀ X, agF G z X ≼ z X)
    (n : Nat) (X : σ) : agIter G n X ≼ z X := by
  induction n generalizing X with
  | zero => exact AlgLe.zero _
  | succ n ih => exact AlgLe.trans (agF_mono G _ _ ih X) (hz X)

/-- the chart of every reachable state is below every pre-fixed point -/
theorem agenda_le_prefixed (G : CFG σ K) {st : AgState σ K} (h : AgReach G st)
    (z : σ → K) (hz : ∀ X, agF G z X ≼ z X) (X : σ) : st.old X ≼ z X := by
  obtain ⟨n, hn⟩ := agenda_old_le_agIter G h
  exact AlgLe.trans (hn X) (agIter_le_prefixed G z hz n X)

/-- **Least fixed point.**  When the agenda terminates, `old` is a solution of the grammar
equations and lies below every other (pre-)solution. -/
theorem agenda_least (G : CFG σ K) {st : AgState σ K} (h : AgReach G st) (h0 : st.change = []) :
    (∀ X, st.old X = agF G st.old X) ∧
    ∀ z : σ → K, (∀ X, agF G z X ≼ z X) → ∀ X, st.old X ≼ z X :=
  ⟨agenda_fixed_point_of_empty G h h0, agenda_le_prefixed G h⟩

/-- a terminated agenda is an upper bound of the Kleene chain that is itself below one of its
members: the chain is stationary (up to `AlgLe`-equivalence) at `old` -/
theorem agenda_terminated_agIter (G : CFG σ K) {st : AgState σ K} (h : AgReach G st)
    (h0 : ∀ X, pending st X = 0) :
    (∃ n, ∀ X, st.old X ≼ agIter G n X) ∧ ∀ n X, agIter G n X ≼ st.old X :=
  ⟨agenda_old_le_agIter G h, fun n X => agIter_le_prefixed G st.old
    (fun Y => by rw [← agenda_fixed_point G h h0 Y]; exact AlgLe.refl _) n X⟩

/-- the same against `ZN`: the result of a terminated agenda bounds every `ZN G n` from above and
is bounded by one of them -/
theorem agenda_terminated_ZN (G : CFG σ K) (hV : ∀ r ∈ G.rules, r.head ∉ G.V)
    {st : AgState σ K} (h : AgReach G st) (h0 : ∀ X, pending st X = 0) :
    (∃ n, ∀ X, X ∉ G.V → st.old X ≼ ZN G n X) ∧
    ∀ n X, X ∉ G.V → ZN G n X ≼ st.old X := by
  refine ⟨agenda_le_ZN G hV h, fun n X hX => ?_⟩
  have h1 := ZN_le_agIter G n X
  simp only [hX, if_false] at h1
  exact AlgLe.trans h1 ((agenda_terminated_agIter G h h0).2 (n+1) X)

/-! ### 4. non-vacuity -/
section examples
/-- over `ℕ`: `S → A A` (2), `A → a` (3), `A → ε` (1); `S = 0`, `A = 1`, terminal `a = 10`
(listed twice in `V`: Python's `V` is a set).  Total weights: `A = 4`, `S = 2 * 4 * 4 = 32`. -/
private def agExG : CFG Nat Nat := ⟨0, [10, 10], [⟨2, 0, [1, 1]⟩, ⟨3, 1, [10]⟩, ⟨1, 1, []⟩]⟩

example : (agendaInit agExG).change = [(10, 1), (1, 1)] := by decide
/-- pop `a`, then `A` (value `1 + 3`), then `S`: done -/
example : (agendaRun agExG [10, 1, 0]).change = [] := by decide
example : (agendaRun agExG [10, 1, 0]).old 0 = 32 := by decide
example : (agendaRun agExG [10, 1, 0]).old 1 = 4 := by decide
/-- the two routing entries of `A` in `S → A A` send `2 * v * old` and `2 * new * v` -/
example : (agendaRun agExG [10, 1]).change = [(0, 0), (0, 32)] := by decide
/-- another scheduler: `A` is popped before its second update has arrived, and again later;
the `new / v / old` factors make the four updates of `S` add up to the same `32` -/
example : (agendaRun agExG [1, 10, 1]).change = [(0, 0), (0, 2), (0, 6), (0, 24)] := by decide
example : (agendaRun agExG [1, 10, 1, 0]).change = [] := by decide
example : (agendaRun agExG [1, 10, 1, 0]).old 0 = 32 := by decide
/-- the invariant mid-run, `X = S`: `0 + (0 + 2) = 2 * 1 * 1` and `0 + 32 = 2 * 4 * 4` -/
example : (agendaRun agExG [1, 10]).old 0 + pending (agendaRun agExG [1, 10]) 0 = 2 := by decide
example : agF agExG (agendaRun agExG [1, 10]).old 0 = 2 := by decide
example : pending (agendaRun agExG [1, 10, 1]) 0 = 32 := by decide
example : agF agExG (agendaRun agExG [1, 10, 1]).old 0 = 32 := by decide
/-- popping a key that is not there is excluded in `agendaRunP` -/
example : (agendaRunP agExG [0, 10, 0, 1, 0]).change = [] := by decide
example : (agendaRunP agExG [0, 10, 0, 1, 0]).old 0 = 32 := by decide
/-- the hypotheses of `agenda_least` / `agenda_terminated_ZN` are met -/
example : ∀ X, (agendaRun agExG [10, 1, 0]).old X = agF agExG (agendaRun agExG [10, 1, 0]).old X :=
  (agenda_least agExG (agendaRun_reach agExG [10, 1, 0]) (by decide)).1
example : ∀ r ∈ agExG.rules, r.head ∉ agExG.V := by decide
example : ZN agExG 2 0 = 32 := by decide
example : agIter agExG 3 0 = 32 := by decide
/-- a self-loop `S → S S` (1), `S → ε` (1): the update of `S` re-creates the popped key -/
private def agExG2 : CFG Nat Nat := ⟨0, [], [⟨1, 0, [0, 0]⟩, ⟨1, 0, []⟩]⟩
example : (agendaRun agExG2 [0]).change = [(0, 0), (0, 1)] := by decide
example : (agendaRun agExG2 [0, 0]).old 0 = 2 := by decide
example : (agendaRun agExG2 [0, 0]).change = [(0, 1), (0, 2)] := by decide
/-- the hypothesis of `agenda_le_ZN` is needed: `CFG.agenda` does not test whether the head of a
rule is a terminal; with `S → a` (1) and `a → ε` (5) it returns `S = 1 + 5`, but `ZN` stays at `1` -/
private def agExG3 : CFG Nat Nat := ⟨0, [10], [⟨1, 0, [10]⟩, ⟨5, 10, []⟩]⟩
example : (agendaRun agExG3 [10, 0]).change = [] ∧ (agendaRun agExG3 [10, 0]).old 0 = 6 := by decide
example : ZN agExG3 1 0 = 1 ∧ ZN agExG3 2 0 = 1 ∧ ZN agExG3 3 0 = 1 := by decide
end examples

end Genlm
