import GenlmModel.Model.Basic
import GenlmModel.Proofs.Basic
import Mathlib.Data.List.Infix
import Mathlib.Algebra.BigOperators.Group.List.Basic
import Mathlib.Algebra.Ring.Nat

/-!
Correctness of the memo table `WNtab` used by the driver against the specification `WN`,
stabilisation of the table, and invariance of `WN` under permutation of the rules and
injective renaming of the symbols.
-/

namespace Genlm

/-! ### 1. `prefixes`, `suffixes`, `infixes` are Mathlib's `<+:`, `<:+`, `<:+:` -/

theorem mem_prefixes {α : Type} (u x : List α) : u ∈ prefixes x ↔ u <+: x := by
  induction x generalizing u with
  | nil => simp [prefixes]
  | cons a x ih =>
    simp only [prefixes, List.mem_cons, List.mem_map]
    constructor
    · rintro (rfl | ⟨v, hv, rfl⟩)
      · exact List.nil_prefix
      · exact (List.cons_prefix_cons).mpr ⟨rfl, (ih v).mp hv⟩
    · intro h
      cases u with
      | nil => exact Or.inl rfl
      | cons b v =>
        obtain ⟨rfl, hv⟩ := (List.cons_prefix_cons).mp h
        exact Or.inr ⟨v, (ih v).mpr hv, rfl⟩

theorem mem_suffixes {α : Type} (u x : List α) : u ∈ suffixes x ↔ u <:+ x := by
  induction x with
  | nil => simp [suffixes]
  | cons a x ih =>
    simp only [suffixes, List.mem_cons, ih, List.suffix_cons_iff]

theorem mem_infixes {α : Type} (u x : List α) : u ∈ infixes x ↔ u <:+: x := by
  simp only [infixes, List.mem_flatMap, mem_suffixes, mem_prefixes, List.infix_iff_prefix_suffix]
  constructor
  · rintro ⟨t, ht, hu⟩; exact ⟨t, hu, ht⟩
  · rintro ⟨t, hu, ht⟩; exact ⟨t, ht, hu⟩

example : [2, 3] ∈ infixes [1, 2, 3, 4] := by decide
example : [2, 3] <:+: [1, 2, 3, 4] := (mem_infixes _ _).mp (by decide)
example : ¬ [2, 4] <:+: [1, 2, 3, 4] := fun h => absurd ((mem_infixes _ _).mpr h) (by decide)

variable {σ K : Type} [DecidableEq σ] [CommSemiring K]

/-! ### 2. `Wbody … x` only looks at the table on infixes of `x` -/

theorem Wbody_congr_infix (V : List σ) (f g : σ → List σ → K) (body x : List σ)
    (h : ∀ s ∈ body, ∀ u, u <:+: x → f s u = g s u) :
    Wbody V f body x = Wbody V g body x := by
  induction body generalizing x with
  | nil => rfl
  | cons s ss ih =>
    simp only [Wbody, lsum_eq_sum]
    congr 1
    apply List.map_congr_left
    intro p hp
    have hpx : p.1 ++ p.2 = x := (mem_splits x p.1 p.2).mp hp
    have h1 : p.1 <:+: x := ⟨[], p.2, by simpa using hpx⟩
    have h2 : p.2 <:+: x := ⟨p.1, [], by simpa using hpx⟩
    have hs : Wsym V f s p.1 = Wsym V g s p.1 := by
      unfold Wsym; split
      · rfl
      · exact h s (by simp) _ h1
    rw [hs, ih p.2 (fun s' hs' u hu => h s' (by simp [hs']) u (hu.trans h2))]

/-- the hypothesis of `Wbody_congr_infix` is strictly weaker than that of `Wbody_congr`:
two tables that differ outside the infixes of `x`. -/
example : Wbody ([] : List ℕ) (fun _ u => if u.length ≤ 2 then 1 else 0) [7, 8] [1, 2]
    = Wbody ([] : List ℕ) (fun _ _ => (1 : ℕ)) [7, 8] [1, 2] :=
  Wbody_congr_infix (K := ℕ) [] _ _ [7, 8] [1, 2] (fun _ _ u hu => by
    have := hu.length_le
    simp only [List.length_cons, List.length_nil] at this
    simp [this])

/-! ### 3. the memo table computes `WN` -/

theorem Tab.get_nil (X : σ) (x : List σ) : Tab.get ([] : Tab σ K) X x = 0 := rfl

/-- lookup in a table that was built by mapping over a key list -/
theorem Tab.get_map (keys : List (σ × List σ)) (F : σ × List σ → K) (X : σ) (x : List σ) :
    Tab.get (keys.map fun k => (k, F k)) X x = if (X, x) ∈ keys then F (X, x) else 0 := by
  induction keys with
  | nil => simp [Tab.get]
  | cons k ks ih =>
    by_cases hk : k = (X, x)
    · subst hk
      simp [Tab.get]
    · have hk' : ¬ (X, x) = k := fun e => hk e.symm
      have : Tab.get (List.map (fun k => (k, F k)) (k :: ks)) X x
          = Tab.get (List.map (fun k => (k, F k)) ks) X x := by
        simp [Tab.get, hk]
      rw [this, ih]
      simp [List.mem_cons, hk']

omit [CommSemiring K] in
theorem mem_heads (G : CFG σ K) (X : σ) : X ∈ heads G ↔ ∃ r ∈ G.rules, r.head = X := by
  simp [heads, List.mem_eraseDups]

omit [CommSemiring K] in
theorem mem_tabKeys (G : CFG σ K) (xs : List (List σ)) (X : σ) (u : List σ) :
    (X, u) ∈ tabKeys G xs ↔ X ∈ heads G ∧ ∃ x ∈ xs, u <:+: x := by
  simp only [tabKeys, List.mem_flatMap, List.mem_map, Prod.mk.injEq, List.mem_eraseDups,
    mem_infixes]
  constructor
  · rintro ⟨Y, hY, v, ⟨x, hx, hv⟩, rfl, rfl⟩
    exact ⟨hY, x, hx, hv⟩
  · rintro ⟨hX, x, hx, hu⟩
    exact ⟨X, hX, u, ⟨x, hx, hu⟩, rfl, rfl⟩

/-- `WN` vanishes on symbols that head no rule -/
theorem WN_eq_zero_of_not_head (G : CFG σ K) (n : Nat) (X : σ) (x : List σ)
    (hX : X ∉ heads G) : WN G n X x = 0 := by
  cases n with
  | zero => rfl
  | succ n =>
    have : G.rules.filter (fun r => r.head = X) = [] := by
      rw [List.filter_eq_nil_iff]
      intro r hr
      simp only [decide_eq_true_eq]
      exact fun e => hX ((mem_heads G X).mpr ⟨r, hr, e⟩)
    simp [WN, this]

theorem WNtab_spec (G : CFG σ K) (xs : List (List σ)) (n : Nat) (X : σ) (u : List σ)
    (hu : ∃ x ∈ xs, u <:+: x) :
    (WNtab G (tabKeys G xs) n).get X u = WN G n X u := by
  induction n generalizing X u with
  | zero => rfl
  | succ n ih =>
    simp only [WNtab, tabStep]
    rw [Tab.get_map (tabKeys G xs) (fun k => wnStepAt G (WNtab G (tabKeys G xs) n).get k.1 k.2)]
    by_cases hk : (X, u) ∈ tabKeys G xs
    · rw [if_pos hk]
      simp only [wnStepAt, WN, lsum_eq_sum]
      congr 1
      apply List.map_congr_left
      intro r _
      congr 1
      apply Wbody_congr_infix
      intro s _ v hv
      obtain ⟨x, hx, hux⟩ := hu
      exact ih s v ⟨x, hx, hv.trans hux⟩
    · rw [if_neg hk]
      have hX : X ∉ heads G := fun hX => hk ((mem_tabKeys G xs X u).mpr ⟨hX, hu⟩)
      exact (WN_eq_zero_of_not_head G (n + 1) X u hX).symm

/-- a two-rule grammar over `ℕ` symbols and `ℕ` weights: `0 → 0 1 (weight 2) | 1 (weight 3)`,
terminal `1`; the string `1 1` has weight `2 * 3 = 6`, reached at level 2. -/
def tabExG : CFG ℕ ℕ := ⟨0, [1], [⟨2, 0, [0, 1]⟩, ⟨3, 0, [1]⟩]⟩

example : WN tabExG 2 0 [1, 1] = 6 := by decide
example : (WNtab tabExG (tabKeys tabExG [[1, 1]]) 2).get 0 [1, 1] = 6 := by rfl
example : (WNtab tabExG (tabKeys tabExG [[1, 1]]) 2).get 0 [1, 1] = WN tabExG 2 0 [1, 1] :=
  WNtab_spec tabExG [[1, 1]] 2 0 [1, 1] ⟨[1, 1], by simp, List.infix_refl _⟩

/-! ### 4. once the table stops changing it never changes again -/

theorem WNtab_stable (G : CFG σ K) (keys : List (σ × List σ)) (n : Nat)
    (h : WNtab G keys (n + 1) = WNtab G keys n) :
    ∀ m, n ≤ m → WNtab G keys m = WNtab G keys n := by
  intro m hm
  induction m, hm using Nat.le_induction with
  | base => rfl
  | succ m _ ih =>
    calc WNtab G keys (m + 1) = tabStep G keys (WNtab G keys m) := rfl
      _ = tabStep G keys (WNtab G keys n) := by rw [ih]
      _ = WNtab G keys (n + 1) := rfl
      _ = WNtab G keys n := h

/-- the derivation sum of every infix of the inputs is a finite sum, reached at level `n` -/
theorem WN_stable_of_tab (G : CFG σ K) (xs : List (List σ)) (n : Nat) (X : σ) (u : List σ)
    (hu : ∃ x ∈ xs, u <:+: x)
    (h : WNtab G (tabKeys G xs) (n + 1) = WNtab G (tabKeys G xs) n) :
    ∀ m, n ≤ m → WN G m X u = WN G n X u := by
  intro m hm
  rw [← WNtab_spec G xs m X u hu, ← WNtab_spec G xs n X u hu,
    WNtab_stable G (tabKeys G xs) n h m hm]

/-- the stabilisation hypothesis holds for `tabExG` on `1 1` at level 2 (with a non-zero table) -/
example : WNtab tabExG (tabKeys tabExG [[1, 1]]) 3 = WNtab tabExG (tabKeys tabExG [[1, 1]]) 2 := by decide
example : ∀ m, 2 ≤ m → WN tabExG m 0 [1, 1] = 6 := fun m hm =>
  (WN_stable_of_tab tabExG [[1, 1]] 2 0 [1, 1] ⟨[1, 1], by simp, List.infix_refl _⟩ (by decide) m hm).trans
    (by decide)

/-! ### 5. `WN` does not depend on the order of the rules -/

theorem WN_perm (G : CFG σ K) (rules' : List (Rule σ K)) (hp : rules'.Perm G.rules) :
    ∀ n X x, WN {G with rules := rules'} n X x = WN G n X x := by
  intro n
  induction n with
  | zero => intro X x; rfl
  | succ n ih =>
    intro X x
    have hf : WN {G with rules := rules'} n = WN G n := by
      funext Y y; exact ih Y y
    simp only [WN, lsum_eq_sum, hf]
    exact ((hp.filter _).map _).sum_eq

example : WN {tabExG with rules := [⟨3, 0, [1]⟩, ⟨2, 0, [0, 1]⟩]} 2 0 [1, 1] = 6 :=
  (WN_perm tabExG [⟨3, 0, [1]⟩, ⟨2, 0, [0, 1]⟩] (List.Perm.swap _ _ _) 2 0 [1, 1]).trans (by decide)

/-! ### 6. `WN` is invariant under injective renaming of the symbols -/

theorem splits_map {α β : Type} (f : α → β) (x : List α) :
    splits (x.map f) = (splits x).map (Prod.map (List.map f) (List.map f)) := by
  induction x with
  | nil => rfl
  | cons a x ih =>
    simp only [List.map_cons, splits, ih, List.map_map, Prod.map]
    congr 1

variable {τ : Type} [DecidableEq τ]

def renameCFG (f : σ → τ) (G : CFG σ K) : CFG τ K :=
  ⟨f G.S, G.V.map f, G.rules.map fun r => ⟨r.w, f r.head, r.body.map f⟩⟩

theorem Wsym_rename (f : σ → τ) (hf : Function.Injective f) (V : List σ)
    (F : σ → List σ → K) (F' : τ → List τ → K) (s : σ) (u : List σ)
    (h : F' (f s) (u.map f) = F s u) :
    Wsym (V.map f) F' (f s) (u.map f) = Wsym V F s u := by
  unfold Wsym
  have h1 : f s ∈ V.map f ↔ s ∈ V := List.mem_map_of_injective hf
  have h2 : u.map f = [f s] ↔ u = [s] := by
    rw [show [f s] = [s].map f from rfl]
    exact (List.map_injective_iff.mpr hf).eq_iff
  by_cases hs : s ∈ V
  · rw [if_pos (h1.mpr hs), if_pos hs]
    by_cases hu : u = [s]
    · rw [if_pos (h2.mpr hu), if_pos hu]
    · rw [if_neg (fun e => hu (h2.mp e)), if_neg hu]
  · rw [if_neg (fun e => hs (h1.mp e)), if_neg hs, h]

theorem Wbody_rename (f : σ → τ) (hf : Function.Injective f) (V : List σ)
    (F : σ → List σ → K) (F' : τ → List τ → K) (body x : List σ)
    (h : ∀ s ∈ body, ∀ u, F' (f s) (u.map f) = F s u) :
    Wbody (V.map f) F' (body.map f) (x.map f) = Wbody V F body x := by
  induction body generalizing x with
  | nil =>
    simp only [List.map_nil, Wbody, List.map_eq_nil_iff]
  | cons s ss ih =>
    simp only [List.map_cons, Wbody, lsum_eq_sum, splits_map, List.map_map]
    congr 1
    apply List.map_congr_left
    intro p _
    simp only [Function.comp_def, Prod.map]
    rw [Wsym_rename f hf V F F' s p.1 (h s (by simp) p.1),
      ih p.2 (fun s' hs' => h s' (by simp [hs']))]

theorem WN_rename (f : σ → τ) (hf : Function.Injective f) (G : CFG σ K) :
    ∀ n X x, WN (renameCFG f G) n (f X) (x.map f) = WN G n X x := by
  intro n
  induction n with
  | zero => intro X x; rfl
  | succ n ih =>
    intro X x
    simp only [WN, lsum_eq_sum, renameCFG, List.filter_map, List.map_map]
    have hfilt : G.rules.filter ((fun r : Rule τ K => decide (r.head = f X)) ∘
          fun r => ⟨r.w, f r.head, r.body.map f⟩)
        = G.rules.filter (fun r => decide (r.head = X)) := by
      apply List.filter_congr
      intro r _
      simp only [Function.comp_def, hf.eq_iff]
    rw [hfilt]
    congr 1
    apply List.map_congr_left
    intro r _
    simp only [Function.comp_def]
    congr 1
    exact Wbody_rename f hf G.V (WN G n) _ r.body x (fun s _ u => ih s u)

/-- renaming `tabExG` by `fun k => k + 10`: `10 → 10 11 (2) | 11 (3)`, terminal `11` -/
example : WN (renameCFG (fun k : ℕ => k + 10) tabExG) 2 10 [11, 11] = 6 :=
  (WN_rename (fun k : ℕ => k + 10) (fun _ _ h => Nat.add_right_cancel h) tabExG 2 0 [1, 1]).trans
    (by decide)

end Genlm
