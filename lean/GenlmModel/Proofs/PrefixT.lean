import GenlmModel.Model.PrefixT
import GenlmModel.Proofs.Basic
import Mathlib.Algebra.BigOperators.Group.List.Basic
import Mathlib.Algebra.Ring.Defs
import Mathlib.Algebra.Ring.Nat
import Mathlib.Data.List.Basic
import Mathlib.Data.List.Infix

/-!
Property C03: the prefix transducer produces every prefix of its input exactly once.
-/
namespace Genlm
variable {σ K : Type} [DecidableEq σ] [CommSemiring K]

/-! ### sums over the arcs leaving a state -/

omit [DecidableEq σ] in
theorem prefixT_arcs_one (V : List σ) (F : TArc Nat σ K → K) :
    ((((prefixT V : FST Nat σ K).arcs.filter (fun e => e.src = 1)).map F)).sum
      = (V.map fun x => F ⟨1, some x, none, 1, 1⟩).sum := by
  induction V with
  | nil => simp [prefixT]
  | cons a V ih =>
    simp only [prefixT, List.flatMap_cons, List.filter_append, List.map_append,
      List.sum_append, List.map_cons, List.sum_cons] at ih ⊢
    rw [ih]
    simp [List.filter]

omit [DecidableEq σ] in
theorem prefixT_arcs_zero (V : List σ) (F : TArc Nat σ K → K) :
    ((((prefixT V : FST Nat σ K).arcs.filter (fun e => e.src = 0)).map F)).sum
      = (V.map fun x => F ⟨0, some x, some x, 0, 1⟩ + F ⟨0, some x, some x, 1, 1⟩).sum := by
  induction V with
  | nil => simp [prefixT]
  | cons a V ih =>
    simp only [prefixT, List.flatMap_cons, List.filter_append, List.map_append,
      List.sum_append, List.map_cons, List.sum_cons] at ih ⊢
    rw [ih]
    simp [List.filter, add_assoc]

private theorem sum_ite_eq_of_nodup (V : List σ) (hV : V.Nodup) (b : σ) (c : K) :
    (V.map fun x => if x = b then c else 0).sum = if b ∈ V then c else 0 := by
  induction V with
  | nil => simp
  | cons a V ih =>
    rw [List.nodup_cons] at hV
    simp only [List.map_cons, List.sum_cons, ih hV.2, List.mem_cons]
    by_cases h : a = b
    · subst h; simp [hV.1]
    · have h' : ¬ b = a := fun e => h e.symm
      simp [h, h']

/-! ### the one-step recurrences of `Tk (prefixT V)` -/

theorem Tk_prefixT_one_succ (V : List σ) (hV : V.Nodup) (k : Nat) (s p : List σ) :
    Tk (prefixT V : FST Nat σ K) (k+1) 1 s p 1
      = match s with
        | [] => 0
        | b :: s' => if b ∈ V then Tk (prefixT V : FST Nat σ K) k 1 s' p 1 else 0 := by
  rw [Tk, lsum_eq_sum, prefixT_arcs_one]
  cases s with
  | nil => simp
  | cons b s' =>
    simp only [one_mul]
    exact sum_ite_eq_of_nodup V hV b _

theorem Tk_prefixT_zero_succ (V : List σ) (hV : V.Nodup) (k : Nat) (s p : List σ) :
    Tk (prefixT V : FST Nat σ K) (k+1) 0 s p 1
      = match s, p with
        | b :: s', d :: p' =>
          if b ∈ V ∧ b = d then
            Tk (prefixT V : FST Nat σ K) k 0 s' p' 1 + Tk (prefixT V : FST Nat σ K) k 1 s' p' 1
          else 0
        | _, _ => 0 := by
  rw [Tk, lsum_eq_sum, prefixT_arcs_zero]
  cases s with
  | nil => simp
  | cons b s' =>
    cases p with
    | nil => simp
    | cons d p' =>
      simp only [one_mul]
      by_cases hbd : b = d
      · subst hbd
        have : ∀ x : σ, ((if x = b ∧ x = b then Tk (prefixT V : FST Nat σ K) k 0 s' p' 1 else 0)
              + (if x = b ∧ x = b then Tk (prefixT V : FST Nat σ K) k 1 s' p' 1 else 0))
            = if x = b then Tk (prefixT V : FST Nat σ K) k 0 s' p' 1
                + Tk (prefixT V : FST Nat σ K) k 1 s' p' 1 else 0 := by
          intro x; by_cases hx : x = b <;> simp [hx]
        simp only [this, and_true]
        exact sum_ite_eq_of_nodup V hV b _
      · have : ∀ x : σ, ¬ (x = b ∧ x = d) := fun x h => hbd (h.1.symm.trans h.2)
        simp [this, hbd]

/-! ### closed forms -/

/-- from the dropping state: everything is dropped, one arc per input symbol -/
theorem Tk_prefixT_one (V : List σ) (hV : V.Nodup) (k : Nat) (s p : List σ) :
    Tk (prefixT V : FST Nat σ K) k 1 s p 1
      = if k = s.length ∧ p = [] ∧ (∀ a ∈ s, a ∈ V) then 1 else 0 := by
  induction k generalizing s with
  | zero =>
    cases s with
    | nil => simp [Tk]
    | cons b s' => simp [Tk]
  | succ k ih =>
    rw [Tk_prefixT_one_succ V hV]
    cases s with
    | nil => simp
    | cons b s' =>
      simp only [ih, List.length_cons, Nat.add_right_cancel_iff, List.mem_cons, forall_eq_or_imp]
      by_cases hb : b ∈ V
      · simp [hb]
      · simp [hb]

/-- from the copying state: a non-empty prefix is copied, the rest dropped -/
theorem Tk_prefixT_zero (V : List σ) (hV : V.Nodup) (k : Nat) (s p : List σ) :
    Tk (prefixT V : FST Nat σ K) k 0 s p 1
      = if k = s.length ∧ p ≠ [] ∧ p <+: s ∧ (∀ a ∈ s, a ∈ V) then 1 else 0 := by
  induction k generalizing s p with
  | zero =>
    have : ¬ (0 = s.length ∧ p ≠ [] ∧ p <+: s ∧ (∀ a ∈ s, a ∈ V)) := by
      rintro ⟨h1, h2, h3, _⟩
      have hs : s = [] := List.length_eq_zero_iff.1 h1.symm
      subst hs
      exact h2 (List.prefix_nil.1 h3)
    simp only [Tk, this, if_false]
    simp
  | succ k ih =>
    rw [Tk_prefixT_zero_succ V hV]
    cases s with
    | nil => simp
    | cons b s' =>
      cases p with
      | nil => simp
      | cons d p' =>
        simp only [ih, Tk_prefixT_one V hV, List.length_cons, Nat.add_right_cancel_iff,
          List.mem_cons, forall_eq_or_imp, ne_eq, reduceCtorEq, not_false_eq_true, true_and,
          List.cons_prefix_cons]
        by_cases hb : b ∈ V
        · by_cases hbd : b = d
          · by_cases hk : k = s'.length
            · by_cases hall : ∀ a ∈ s', a ∈ V
              · by_cases hp : p' = []
                · subst hp; simp [hbd, hk, eq_true hall]
                · by_cases hpre : p' <+: s' <;> simp [hbd, hk, eq_true hall, hp, hpre]
              · simp [hbd, hk, hall]
            · simp [hbd, hk]
          · have hdb : ¬ d = b := fun e => hbd e.symm
            simp [hb, hbd, hdb]
        · simp [hb]

/-! ### the theorem -/

/-- **C03.** With exactly `k` arcs the prefix transducer maps the input `s` to the output `p`
with weight one if `k = |s|`, `p` is a prefix of `s` and all symbols of `s` are in `V`, and
with weight zero otherwise: every prefix (the empty one and `s` itself included) is produced by
exactly one path, nothing else is produced. -/
theorem prefix_transducer_unique' (V : List σ) (hV : V.Nodup) (k : Nat) (s p : List σ) :
    TPk (prefixT V : FST Nat σ K) k s p
      = if k = s.length ∧ p <+: s ∧ (∀ a ∈ s, a ∈ V) then 1 else 0 := by
  have hstart : (prefixT V : FST Nat σ K).start = [(0, 1), (1, 1)] := rfl
  have hstop : (prefixT V : FST Nat σ K).stop = [(1, 1)] := rfl
  simp only [TPk, hstart, hstop, lsum_eq_sum, List.map_cons, List.map_nil, List.sum_cons,
    List.sum_nil, add_zero, one_mul, mul_one, Tk_prefixT_zero V hV, Tk_prefixT_one V hV]
  by_cases hk : k = s.length
  · by_cases hall : ∀ a ∈ s, a ∈ V
    · by_cases hp : p = []
      · subst hp; simp [hk, eq_true hall]
      · by_cases hpre : p <+: s <;> simp [hk, eq_true hall, hp, hpre]
    · simp [hall]
  · simp [hk]

/-- the statement for inputs over the alphabet -/
theorem prefix_transducer_unique (V : List σ) (hV : V.Nodup) (k : Nat) (s p : List σ)
    (hs : ∀ a ∈ s, a ∈ V) :
    TPk (prefixT V : FST Nat σ K) k s p = if k = s.length ∧ p <+: s then 1 else 0 := by
  rw [prefix_transducer_unique' V hV]
  simp [eq_true hs]

/-- an input with an out-of-vocabulary symbol has weight zero, whatever the output -/
theorem prefix_transducer_oov (V : List σ) (hV : V.Nodup) (k : Nat) (s p : List σ)
    (hs : ∃ a ∈ s, a ∉ V) : TPk (prefixT V : FST Nat σ K) k s p = 0 := by
  rw [prefix_transducer_unique' V hV]
  have : ¬ ∀ a ∈ s, a ∈ V := by
    obtain ⟨a, ha, ha'⟩ := hs
    exact fun h => ha' (h a ha)
  simp [this]

private theorem sum_range_ite_eq (m a : Nat) (c : K) :
    ((List.range m).map fun k => if k = a then c else 0).sum = if a < m then c else 0 := by
  induction m with
  | zero => simp
  | succ m ih =>
    rw [List.range_succ, List.map_append, List.sum_append, ih]
    by_cases h1 : a < m
    · have : ¬ m = a := by omega
      simp [h1, this, Nat.lt_succ_of_lt h1]
    · by_cases h2 : m = a
      · subst h2; simp
      · have : ¬ a < m + 1 := by omega
        simp [h1, h2, this]

/-- summing over the number of arcs (at most `n`): each prefix exactly once as soon as
`|s| ≤ n` -/
theorem prefix_transducer_TPN (V : List σ) (hV : V.Nodup) (n : Nat) (s p : List σ) :
    TPN (prefixT V : FST Nat σ K) n s p
      = if s.length ≤ n ∧ p <+: s ∧ (∀ a ∈ s, a ∈ V) then 1 else 0 := by
  simp only [TPN, lsum_eq_sum, prefix_transducer_unique' V hV]
  by_cases hC : p <+: s ∧ (∀ a ∈ s, a ∈ V)
  · have : ∀ k : Nat, (if k = s.length ∧ p <+: s ∧ (∀ a ∈ s, a ∈ V) then (1 : K) else 0)
        = if k = s.length then 1 else 0 := by
      intro k; simp [eq_true hC.1, eq_true hC.2]
    simp only [this, sum_range_ite_eq, Nat.lt_succ_iff]
    simp [eq_true hC.1, eq_true hC.2]
  · have : ∀ k : Nat, (if k = s.length ∧ p <+: s ∧ (∀ a ∈ s, a ∈ V) then (1 : K) else 0) = 0 := by
      intro k; simp only [ite_eq_right_iff]; intro h; exact absurd h.2 hC
    simp only [this]
    have h2 : ¬ (s.length ≤ n ∧ p <+: s ∧ (∀ a ∈ s, a ∈ V)) := fun h => hC h.2
    simp [h2]

/-- total weight of a pair, any number of arcs: `1` on prefixes, `0` elsewhere
(`n ≥ |s|` is all that is needed) -/
theorem prefix_transducer_total (V : List σ) (hV : V.Nodup) (n : Nat) (s p : List σ)
    (hn : s.length ≤ n) (hs : ∀ a ∈ s, a ∈ V) :
    TPN (prefixT V : FST Nat σ K) n s p = if p <+: s then 1 else 0 := by
  rw [prefix_transducer_TPN V hV]; simp [hn, eq_true hs]

/-! ### non-vacuity -/
section examples
example : TPk (prefixT [1, 2, 3] : FST Nat Nat Nat) 3 [1, 2, 1] [1, 2] = 1 := by decide
example : TPk (prefixT [1, 2, 3] : FST Nat Nat Nat) 3 [1, 2, 1] [] = 1 := by decide
example : TPk (prefixT [1, 2, 3] : FST Nat Nat Nat) 3 [1, 2, 1] [1, 2, 1] = 1 := by decide
example : TPk (prefixT [1, 2, 3] : FST Nat Nat Nat) 3 [1, 2, 1] [2] = 0 := by decide
example : TPk (prefixT [1, 2, 3] : FST Nat Nat Nat) 2 [1, 4] [1] = 0 := by decide
/-- `V.Nodup` is needed: with a repeated symbol every arc is doubled -/
example : TPk (prefixT [1, 1] : FST Nat Nat Nat) 1 [1] [1] = 2 := by decide
example : TPN (prefixT [1, 2, 3] : FST Nat Nat Nat) 5 [1, 2, 1] [1, 2] = 1 :=
  (prefix_transducer_total [1, 2, 3] (by decide) 5 [1, 2, 1] [1, 2] (by decide) (by decide)).trans
    (by decide)
end examples

end Genlm
