import GenlmModel.Proofs.Earley
/-!
# `Earley.next_token_weights` (`_helper`): the backward pass is the transpose of the ATTACH loop

Main results (in `namespace Genlm`; helpers in `Genlm.EarleyAux`):

* `earley_pnext` (C04): for `Acyc G order`, a context `p` over the terminals and a terminal `a`,
  `next_token_weights(chart(p))[a] = Earley(cfg)(p ++ [a])`; `earley_pnext_is_WN`: … `= WN G n G.S (p ++ [a])`;
  `earley_pnext_sched`: the same for every admissible pop order and every sufficient fuel for `_helper`.
* `sched_adjoint`, `adj_eq` : the entry `(0, S)` of the next column is a linear combination of the scanned
  items; its coefficients (`adj`, the reverse-mode derivative of the ATTACH loop) satisfy the backward-chaining
  equations `q(J, Y) = Σ phrase(I, X/[Y], J) * q(I, X)` — no subtraction is needed, so this holds in every
  commutative semiring;
* `Qv_target` : `q(0, S) = 1` is the right initial value (uses that there is no unary cycle through `S`);
* `helper_spec` : the memoised depth-first evaluation `_helper` returns these coefficients (the fuel suffices);
* `chart_shape`, `KeysOK` : structural facts about the keys of `i_chart` (needed for the termination of `_helper`).
-/

set_option linter.unusedSectionVars false

namespace Genlm.EarleyAux
variable {σ K : Type} [DecidableEq σ] [CommSemiring K]
open IncCkyAux

/-! ### the adjoint of a linear schedule -/

/-- the adjoint weights of the entry `T` after the steps `sched`: `get (run sched s) T = Σ_u adj … u * get s u` -/
def adj {α : Type} [DecidableEq α] (A : α → α → K) (T : α) (U : List α) : List α → α → K
  | [], i => if i = T then 1 else 0
  | a :: rest, i => adj A T U rest i + if i = a then (U.map fun u => adj A T U rest u * A a u).sum else 0

theorem sched_adjoint {S α : Type} [DecidableEq α] (get : S → α → K) (step : S → α → S) (A : α → α → K)
    (hstep : ∀ s a n, get (step s a) n = get s n + A a n * get s a)
    (T : α) (U : List α) (hU : U.Nodup) (hT : T ∈ U) (sched : List α) (hsub : ∀ a ∈ sched, a ∈ U) (s : S) :
    get (sched.foldl step s) T = (U.map fun u => adj A T U sched u * get s u).sum := by
  induction sched generalizing s with
  | nil =>
    simp only [List.foldl_nil, adj]
    rw [← sum_ite_eq_nodup U hU T hT (fun u => get s u)]
    apply sum_congr; intro u _
    split <;> simp
  | cons a rest ih =>
    simp only [List.foldl_cons]
    rw [ih (fun b hb => hsub b (List.mem_cons_of_mem _ hb)) (step s a)]
    have ha : a ∈ U := hsub a (List.mem_cons_self ..)
    have e1 : (U.map fun u => adj A T U rest u * get (step s a) u).sum
        = (U.map fun u => adj A T U rest u * get s u).sum
          + (U.map fun u => adj A T U rest u * A a u).sum * get s a := by
      rw [sum_mul_right, ← List.sum_map_add]
      apply sum_congr; intro u _
      rw [hstep]; ring
    have e2 : (U.map fun u => adj A T U (a :: rest) u * get s u).sum
        = (U.map fun u => adj A T U rest u * get s u).sum
          + (U.map fun u => if u = a then (U.map fun u' => adj A T U rest u' * A a u').sum * get s u else 0).sum := by
      rw [← List.sum_map_add]
      apply sum_congr; intro u _
      simp only [adj]
      split <;> ring
    rw [e1, e2, sum_ite_eq_nodup U hU a ha (fun u => (U.map fun u' => adj A T U rest u' * A a u').sum * get s u)]

theorem adj_not_mem {α : Type} [DecidableEq α] (A : α → α → K) (T : α) (U : List α) (sched : List α) (i : α)
    (hi : i ∉ sched) : adj A T U sched i = if i = T then 1 else 0 := by
  induction sched with
  | nil => rfl
  | cons a rest ih =>
    simp only [List.mem_cons, not_or] at hi
    simp only [adj]
    rw [ih hi.2, if_neg hi.1, add_zero]

/-- when no step feeds an earlier step or itself, the adjoint weights satisfy the backward-chaining equations -/
theorem adj_eq {α : Type} [DecidableEq α] (A : α → α → K) (T : α) (U : List α) (sched : List α)
    (hnd : sched.Nodup) (hpw : sched.Pairwise (fun a b => A b a = 0)) (hself : ∀ a ∈ sched, A a a = 0)
    (hsub : ∀ a ∈ sched, a ∈ U) :
    ∀ a ∈ sched, adj A T U sched a = (if a = T then 1 else 0) + (U.map fun u => adj A T U sched u * A a u).sum := by
  induction sched with
  | nil => intro a ha; cases ha
  | cons a rest ih =>
    obtain ⟨hna, hnd'⟩ := List.nodup_cons.mp hnd
    obtain ⟨hpa, hpw'⟩ := List.pairwise_cons.mp hpw
    have ih' := ih hnd' hpw' (fun b hb => hself b (List.mem_cons_of_mem _ hb))
      (fun b hb => hsub b (List.mem_cons_of_mem _ hb))
    -- the sums against `A b ·` do not see the change at `a` when `A b a = 0`
    have hsum : ∀ b, A b a = 0 → (U.map fun u => adj A T U (a :: rest) u * A b u).sum
        = (U.map fun u => adj A T U rest u * A b u).sum := by
      intro b hb
      apply sum_congr; intro u _
      simp only [adj]
      by_cases hu : u = a
      · rw [hu, hb, mul_zero, mul_zero]
      · rw [if_neg hu, add_zero]
    intro b hb
    rcases List.mem_cons.mp hb with rfl | hb'
    · rw [hsum b (hself b (List.mem_cons_self ..))]
      simp only [adj, if_true]
      rw [adj_not_mem A T U rest b hna]
    · have hba : b ≠ a := fun e => hna (e ▸ hb')
      rw [hsum b (hpa b hb')]
      simp only [adj]
      rw [if_neg hba, add_zero, ih' b hb']

end Genlm.EarleyAux

namespace Genlm.EarleyAux
variable {σ K : Type} [DecidableEq σ] [CommSemiring K]
open IncCkyAux

/-! ### structural facts about the keys of `i_chart` -/

/-- the keys `(I, X, Ys)` of column `J`: `I ≤ J`, `X` heads a rule, and for `I = J` (a predicted item) `Ys` is the
whole body of a rule of `X` -/
def KeysOK (G : CFG σ K) (J : Nat) (col : ECol σ K) : Prop :=
  ∀ key ∈ col.i_chart.map (·.1), key.1 ≤ J ∧ ∃ r ∈ G.rules, r.head = key.2.1 ∧ (key.1 = J → r.body = key.2.2)

/-- the keys of the column `k+1` before `PREDICT` -/
def PreKeys (G : CFG σ K) (k : Nat) (col : ECol σ K) : Prop :=
  ∀ key ∈ col.i_chart.map (·.1), key.1 ≤ k ∧ ∃ r ∈ G.rules, r.head = key.2.1

theorem keys_foldUpd (Q : EItem σ → Prop) (col : ECol σ K) (L : List (EItem σ × K))
    (hcol : ∀ key ∈ col.i_chart.map (·.1), Q key) (hL : ∀ e ∈ L, Q e.1) :
    ∀ key ∈ (foldUpd col L).i_chart.map (·.1), Q key := by
  intro key hkey
  rcases ((foldUpd_spec L col).2.2.2 key).mp hkey with h | ⟨e, he, h1, _⟩
  · exact hcol key h
  · exact h1 ▸ hL e he

theorem mem_waitingFor (col : ECol σ K) (Y : σ) (it : EItem σ) (h : it ∈ col.waitingFor Y) :
    it ∈ col.i_chart.map (·.1) := (List.mem_filter.mp h).1

theorem KeysOK.pre {G : CFG σ K} {J : Nat} {col : ECol σ K} (h : KeysOK G J col) (k : Nat) (hJ : J ≤ k)
    (it : EItem σ) (hit : it ∈ col.i_chart.map (·.1)) (tl : List σ) :
    (fun key : EItem σ => key.1 ≤ k ∧ ∃ r ∈ G.rules, r.head = key.2.1) (it.1, it.2.1, tl) := by
  obtain ⟨h1, r, hr, h2, _⟩ := h it hit
  exact ⟨by simp only; omega, r, hr, h2⟩

theorem keys_scan (G : CFG σ K) (k : Nat) (prev : ECol σ K) (hprev : KeysOK G k prev) (a : σ) (next : ECol σ K)
    (hnext : PreKeys G k next) : PreKeys G k (scanStep prev a next) := by
  have e : scanStep prev a next = foldUpd next ((prev.waitingFor a).map fun it =>
      (((it.1, it.2.1, it.2.2.tail) : EItem σ), prev.i_chart.get it)) := by
    unfold scanStep foldUpd
    rw [List.foldl_map]
  rw [e]
  apply keys_foldUpd _ _ _ hnext
  intro e he
  obtain ⟨it, hit, rfl⟩ := List.mem_map.mp he
  exact hprev.pre k (Nat.le_refl k) it (mem_waitingFor _ _ _ hit) _

theorem keys_attach (G : CFG σ K) (k : Nat) (cols : List (ECol σ K)) (hlen : cols.length = k + 1)
    (hcols : ∀ J ≤ k, KeysOK G J (cols.getD J (ECol.empty J))) (next : ECol σ K) (hnext : PreKeys G k next)
    (jy : Nat × σ) : PreKeys G k (attachOne cols next jy) := by
  unfold attachOne
  split
  · simp only
    have e : ((cols.getD jy.1 (ECol.empty jy.1)).waitingFor jy.2).foldl
        (fun col it => eUpdate col it.1 it.2.1 it.2.2.tail
          ((cols.getD jy.1 (ECol.empty jy.1)).i_chart.get it * next.c_chart.get jy)) next
        = foldUpd next (((cols.getD jy.1 (ECol.empty jy.1)).waitingFor jy.2).map fun it =>
          (((it.1, it.2.1, it.2.2.tail) : EItem σ),
            (cols.getD jy.1 (ECol.empty jy.1)).i_chart.get it * next.c_chart.get jy)) := by
      unfold foldUpd
      rw [List.foldl_map]
    rw [e]
    apply keys_foldUpd _ _ _ hnext
    intro e he
    obtain ⟨it, hit, rfl⟩ := List.mem_map.mp he
    rcases Nat.lt_or_ge k jy.1 with hJ | hJ
    · have : cols.getD jy.1 (ECol.empty jy.1) = ECol.empty jy.1 := by
        rw [List.getD_eq_getElem?_getD, List.getElem?_eq_none (by omega)]; rfl
      rw [this] at hit
      cases hit
    · exact (hcols jy.1 hJ).pre k hJ it (mem_waitingFor _ _ _ hit) _
  · exact hnext

theorem keys_pre (G : CFG σ K) (k : Nat) (cols : List (ECol σ K)) (hlen : cols.length = k + 1)
    (hcols : ∀ J ≤ k, KeysOK G J (cols.getD J (ECol.empty J))) (sched : List (Nat × σ)) (a : σ) :
    PreKeys G k (nextColumnPre sched cols a) := by
  unfold nextColumnPre
  simp only
  have hlast : cols.getLastD (ECol.empty 0) = cols.getD k (ECol.empty k) := by
    have hk : k < cols.length := by omega
    rw [List.getLastD_eq_getLast?, List.getLast?_eq_getElem?, List.getD_eq_getElem?_getD, hlen,
      Nat.add_sub_cancel, List.getElem?_eq_getElem hk]
    rfl
  rw [hlast]
  have h0 : PreKeys G k (scanStep (cols.getD k (ECol.empty k)) a
      (ECol.empty ((cols.getD k (ECol.empty k)).k + 1))) :=
    keys_scan G k _ (hcols k (Nat.le_refl k)) a _ (by intro key hkey; cases hkey)
  generalize scanStep (cols.getD k (ECol.empty k)) a (ECol.empty ((cols.getD k (ECol.empty k)).k + 1)) = s0 at h0
  induction sched generalizing s0 with
  | nil => exact h0
  | cons jy rest ih =>
    simp only [List.foldl_cons]
    exact ih _ (keys_attach G k cols hlen hcols s0 h0 jy)

theorem keys_predict (G : CFG σ K) (k : Nat) (c1 : ECol σ K) (hk : c1.k = k + 1) (h : PreKeys G k c1) :
    KeysOK G (k + 1) (predict G c1) := by
  rw [predict_eq_foldUpd]
  apply keys_foldUpd
  · intro key hkey
    obtain ⟨h1, r, hr, h2⟩ := h key hkey
    exact ⟨by omega, r, hr, h2, fun e => by omega⟩
  · intro e he
    simp only [List.mem_flatMap, List.mem_map] at he
    obtain ⟨X, _, wYs, hw, rfl⟩ := he
    unfold rhsOf at hw
    simp only [List.mem_map, List.mem_filter, decide_eq_true_eq] at hw
    obtain ⟨r, ⟨hr, hrX, _⟩, rfl⟩ := hw
    simp only
    exact ⟨by omega, r, hr, hrX, fun _ => rfl⟩

theorem keys_init (G : CFG σ K) : KeysOK G 0 (earleyInit G) := by
  unfold earleyInit
  rw [predict_eq_foldUpd]
  apply keys_foldUpd
  · intro key hkey; cases hkey
  · intro e he
    simp only [List.mem_flatMap, List.mem_map] at he
    obtain ⟨X, _, wYs, hw, rfl⟩ := he
    unfold rhsOf at hw
    simp only [List.mem_map, List.mem_filter, decide_eq_true_eq] at hw
    obtain ⟨r, ⟨hr, hrX, _⟩, rfl⟩ := hw
    exact ⟨Nat.le_refl _, r, hr, hrX, fun _ => rfl⟩

end Genlm.EarleyAux

namespace Genlm.EarleyAux
variable {σ K : Type} [DecidableEq σ] [CommSemiring K]
open IncCkyAux

theorem attachOne_k (cols : List (ECol σ K)) (next : ECol σ K) (jy : Nat × σ) :
    (attachOne cols next jy).k = next.k := by
  unfold attachOne
  split
  · simp only
    have e : ((cols.getD jy.1 (ECol.empty jy.1)).waitingFor jy.2).foldl
        (fun col it => eUpdate col it.1 it.2.1 it.2.2.tail
          ((cols.getD jy.1 (ECol.empty jy.1)).i_chart.get it * next.c_chart.get jy)) next
        = foldUpd next (((cols.getD jy.1 (ECol.empty jy.1)).waitingFor jy.2).map fun it =>
          (((it.1, it.2.1, it.2.2.tail) : EItem σ),
            (cols.getD jy.1 (ECol.empty jy.1)).i_chart.get it * next.c_chart.get jy)) := by
      unfold foldUpd
      rw [List.foldl_map]
    rw [e]
    exact (foldUpd_spec _ next).2.1
  · rfl

theorem nextColumnPre_k (sched : List (Nat × σ)) (cols : List (ECol σ K)) (a : σ) :
    (nextColumnPre sched cols a).k = (cols.getLastD (ECol.empty 0)).k + 1 := by
  unfold nextColumnPre
  simp only
  have h0 : (scanStep (cols.getLastD (ECol.empty 0)) a
      (ECol.empty ((cols.getLastD (ECol.empty 0)).k + 1) : ECol σ K)).k = (cols.getLastD (ECol.empty 0)).k + 1 := by
    have e : scanStep (cols.getLastD (ECol.empty 0)) a (ECol.empty ((cols.getLastD (ECol.empty 0)).k + 1) : ECol σ K)
        = foldUpd (ECol.empty ((cols.getLastD (ECol.empty 0)).k + 1))
          (((cols.getLastD (ECol.empty 0)).waitingFor a).map fun it =>
            (((it.1, it.2.1, it.2.2.tail) : EItem σ), (cols.getLastD (ECol.empty 0)).i_chart.get it)) := by
      unfold scanStep foldUpd
      rw [List.foldl_map]
    rw [e, (foldUpd_spec _ _).2.1]
    rfl
  generalize scanStep (cols.getLastD (ECol.empty 0)) a
    (ECol.empty ((cols.getLastD (ECol.empty 0)).k + 1) : ECol σ K) = s0 at h0
  induction sched generalizing s0 with
  | nil => exact h0
  | cons jy rest ih =>
    simp only [List.foldl_cons]
    exact ih _ ((attachOne_k cols s0 jy).trans h0)

/-- shape of the chart of any prefix: one column per position, with the right index and well-formed keys -/
theorem chart_shape (G : CFG σ K) (sch : Nat → List (Nat × σ)) (p : List σ) :
    (earleyChartWith G sch p).length = p.length + 1 ∧
    ∀ J, J ≤ p.length → ((earleyChartWith G sch p).getD J (ECol.empty J)).k = J ∧
      KeysOK G J ((earleyChartWith G sch p).getD J (ECol.empty J)) := by
  induction p using List.reverseRecOn with
  | nil =>
    refine ⟨rfl, ?_⟩
    intro J hJ
    obtain rfl : J = 0 := by simpa using hJ
    exact ⟨(predict_spec G (ECol.empty 0 : ECol σ K)).1, keys_init G⟩
  | append_singleton p t ih =>
    obtain ⟨hlen, hcols⟩ := ih
    rw [earleyChartWith_snoc]
    generalize earleyChartWith G sch p = cols at *
    have hlast : cols.getLastD (ECol.empty 0) = cols.getD p.length (ECol.empty p.length) := by
      have hk : p.length < cols.length := by omega
      rw [List.getLastD_eq_getLast?, List.getLast?_eq_getElem?, List.getD_eq_getElem?_getD, hlen,
        Nat.add_sub_cancel, List.getElem?_eq_getElem hk]
      rfl
    have hlastk : (cols.getLastD (ECol.empty 0)).k = p.length := by
      rw [hlast]; exact (hcols p.length (Nat.le_refl _)).1
    refine ⟨by simp [hlen], ?_⟩
    intro J hJ
    simp only [List.length_append, List.length_singleton] at hJ
    rcases Nat.lt_or_ge p.length J with hJn | hJn
    · obtain rfl : J = p.length + 1 := by omega
      have e : (cols ++ [earleyExtWith G sch cols t]).getD (p.length + 1) (ECol.empty (p.length + 1))
          = nextColumnWith G (sch (p.length + 1)) cols t := by
        rw [List.getD_eq_getElem?_getD, List.getElem?_append_right (by omega), hlen, Nat.sub_self]
        simp only [List.getElem?_cons_zero, Option.getD_some, earleyExtWith, hlastk]
      rw [e]
      unfold nextColumnWith
      have hk : (nextColumnPre (sch (p.length + 1)) cols t).k = p.length + 1 := by
        rw [nextColumnPre_k, hlastk]
      refine ⟨(predict_spec G _).1.trans hk, ?_⟩
      exact keys_predict G p.length _ hk (keys_pre G p.length cols hlen (fun J hJ => (hcols J hJ).2) _ t)
    · have e : (cols ++ [earleyExtWith G sch cols t]).getD J (ECol.empty J) = cols.getD J (ECol.empty J) := by
        rw [List.getD_eq_getElem?_getD, List.getD_eq_getElem?_getD, List.getElem?_append_left (by omega)]
      rw [e]
      exact hcols J hJn

end Genlm.EarleyAux

namespace Genlm.EarleyAux
variable {σ K : Type} [DecidableEq σ] [CommSemiring K]
open IncCkyAux

/-! ### nodes, edges and the conversion between sums over `waiting_for` lists and sums over nodes -/

theorem schedCands_nodup (G : CFG σ K) (k : Nat) : (schedCands G k).Nodup := by
  unfold schedCands
  rw [List.nodup_flatMap]
  constructor
  · intro I _
    exact List.Nodup.map (fun X X' e => (Prod.mk.inj e).2) (nodup_eraseDups' _)
  · refine (List.nodup_range (n := k)).imp ?_
    intro I I' hne
    simp only [Function.onFun]
    intro jy h1 h2
    obtain ⟨X, _, rfl⟩ := List.mem_map.mp h1
    obtain ⟨X', _, e⟩ := List.mem_map.mp h2
    exact hne (Prod.mk.inj e).1.symm

/-- the universe of nodes: the target `(0, S)` and all potential complete items -/
def nodeU (G : CFG σ K) (k : Nat) : List (Nat × σ) :=
  (0, G.S) :: (schedCands G (k + 1)).filter (fun n => n ≠ (0, G.S))

theorem nodeU_nodup (G : CFG σ K) (k : Nat) : (nodeU G k).Nodup := by
  unfold nodeU
  rw [List.nodup_cons]
  refine ⟨?_, (schedCands_nodup G (k + 1)).filter _⟩
  intro h
  have := (List.mem_filter.mp h).2
  simp at this

theorem mem_nodeU (G : CFG σ K) (k : Nat) (n : Nat × σ) (h : n.1 ≤ k) (hY : n.2 ∈ heads G) : n ∈ nodeU G k := by
  unfold nodeU
  by_cases e : n = (0, G.S)
  · rw [e]; exact List.mem_cons_self ..
  · refine List.mem_cons_of_mem _ (List.mem_filter.mpr ⟨(mem_schedCands G (k + 1) n).mpr ⟨by omega, hY⟩, ?_⟩)
    simpa using e

/-- the coefficient with which the complete item `j` is added to the complete item `i` (`j` feeds `i`) -/
def nodeA (cols : List (ECol σ K)) (j i : Nat × σ) : K :=
  (cols.getD j.1 (ECol.empty j.1)).i_chart.get (i.1, i.2, [j.2])

/-- the unit items of `waiting_for[Y]`: the backward edges out of `(J, Y)` -/
def unitEdges (col : ECol σ K) (Y : σ) : List (EItem σ) :=
  (col.waitingFor Y).filter (fun it => it.2.2.length = 1)

theorem unit_head (l : List σ) (Y : σ) (h1 : l.length = 1) (h2 : l.head? = some Y) : l = [Y] := by
  match l, h1, h2 with
  | [s], _, h2 =>
    simp only [List.head?_cons, Option.some.injEq] at h2
    rw [h2]

theorem mem_unitEdges (col : ECol σ K) (Y : σ) (it : EItem σ) :
    it ∈ unitEdges col Y ↔ it ∈ col.i_chart.map (·.1) ∧ it.2.2 = [Y] := by
  unfold unitEdges ECol.waitingFor
  simp only [List.mem_filter, decide_eq_true_eq]
  constructor
  · rintro ⟨⟨h1, h2⟩, h3⟩
    exact ⟨h1, unit_head _ _ h3 h2⟩
  · rintro ⟨h1, h2⟩
    rw [h2]
    exact ⟨⟨h1, rfl⟩, rfl⟩

theorem edge_sum (col : ECol σ K) (hnd : NodupKeys col.i_chart) (Y : σ) (U : List (Nat × σ)) (hU : U.Nodup)
    (hmem : ∀ key ∈ col.i_chart.map (·.1), key.2.2 = [Y] → (key.1, key.2.1) ∈ U) (F : Nat × σ → K) :
    ((unitEdges col Y).map fun arc => col.i_chart.get arc * F (arc.1, arc.2.1)).sum
      = (U.map fun u => col.i_chart.get (u.1, u.2, [Y]) * F u).sum := by
  -- both sides as sums over the entries of `i_chart`
  have hL : ((unitEdges col Y).map fun arc => col.i_chart.get arc * F (arc.1, arc.2.1)).sum
      = (col.i_chart.map fun e => if e.1.2.2 = [Y] then e.2 * F (e.1.1, e.1.2.1) else 0).sum := by
    unfold unitEdges ECol.waitingFor
    rw [List.filter_filter, sum_filter_ite, List.map_map]
    apply sum_congr; intro e he
    simp only [Function.comp, Bool.and_eq_true, decide_eq_true_eq]
    have hg := get_of_mem col.i_chart hnd e he
    by_cases h : e.1.2.2 = [Y]
    · rw [if_pos h, if_pos (by rw [h]; exact ⟨rfl, rfl⟩), hg]
    · rw [if_neg h, if_neg]
      rintro ⟨h1, h2⟩
      exact h (unit_head _ _ h1 h2)
  have hR : ∀ u ∈ U, col.i_chart.get (u.1, u.2, [Y]) * F u
      = (col.i_chart.map fun e => if e.1 = (u.1, u.2, [Y]) then e.2 * F u else 0).sum := by
    intro u _
    exact (sum_key col.i_chart hnd (u.1, u.2, [Y]) (fun v => v * F u) (zero_mul _)).symm
  rw [hL, sum_congr _ _ _ hR, sum_swap]
  apply sum_congr; intro e he
  by_cases h : e.1.2.2 = [Y]
  · rw [if_pos h]
    have hin := hmem e.1 (List.mem_map_of_mem he) h
    rw [← sum_ite_eq_nodup U hU (e.1.1, e.1.2.1) hin (fun u => e.2 * F u)]
    apply sum_congr; intro u _
    by_cases hu : u = (e.1.1, e.1.2.1)
    · rw [if_pos hu, if_pos]
      rw [hu, ← h]
    · rw [if_neg hu, if_neg]
      intro e'
      apply hu
      rw [e']
  · rw [if_neg h, sum_map_zero]
    intro u _
    rw [if_neg]
    intro e'
    apply h
    rw [e']

end Genlm.EarleyAux

namespace Genlm.EarleyAux
variable {σ K : Type} [DecidableEq σ] [CommSemiring K]
open IncCkyAux

/-! ### the adjoint weights of the new column are the values `_helper` computes -/

/-- the adjoint weight of the complete item `n` of the next column with respect to `(0, S)` -/
def Qv (G : CFG σ K) (cols : List (ECol σ K)) (k : Nat) (sched : List (Nat × σ)) (n : Nat × σ) : K :=
  adj (nodeA cols) (0, G.S) (nodeU G k) sched n

theorem qget?_cons (e : (Nat × σ) × K) (q : QMemo σ K) (n : Nat × σ) :
    QMemo.get? (e :: q) n = if e.1 = n then some e.2 else QMemo.get? q n := by
  unfold QMemo.get?
  by_cases h : e.1 = n
  · simp [h]
  · simp [h]

section next
variable {G : CFG σ K} {f : σ → List σ → K} {order : σ → Nat} {x : List σ} {k : Nat} {a : σ}
  {P : Nat → List σ} {cols : List (ECol σ K)}

theorem sched_mem (sched : List (Nat × σ)) (hs : SchedOK G (k + 1) sched) (n : Nat × σ) :
    n ∈ sched ↔ n.1 ≤ k ∧ n.2 ∈ heads G := by
  rw [hs.perm.mem_iff, mem_schedCands]
  constructor
  · rintro ⟨h1, h2⟩; exact ⟨by omega, h2⟩
  · rintro ⟨h1, h2⟩; exact ⟨by omega, h2⟩

/-- the backward-chaining equations -/
theorem Qv_eq (h : StepHyp G f order x k a P cols) (sched : List (Nat × σ)) (hs : SchedOK G (k + 1) sched)
    (n : Nat × σ) (hn : n.1 ≤ k) (hY : n.2 ∈ heads G) :
    Qv G cols k sched n = (if n = (0, G.S) then 1 else 0) +
      ((nodeU G k).map fun u => Qv G cols k sched u * nodeA cols n u).sum := by
  unfold Qv
  apply adj_eq (nodeA cols) (0, G.S) (nodeU G k) sched
  · exact hs.perm.nodup_iff.mpr (schedCands_nodup G (k + 1))
  · exact hs.pw.imp (fun {a' b} hnf => h.coef_zero a' b hnf)
  · intro a' _; exact h.coef_zero a' a' (not_feeds_self h.hA a')
  · intro a' ha'
    obtain ⟨h1, h2⟩ := (sched_mem sched hs a').mp ha'
    exact mem_nodeU G k a' h1 h2
  · exact (sched_mem sched hs n).mpr ⟨hn, hY⟩

/-- a non-zero coefficient comes from a key, whose shape `KeysOK` describes -/
theorem nodeA_ne_zero (hkeys : ∀ J ≤ k, KeysOK G J (cols.getD J (ECol.empty J))) (j i : Nat × σ) (hj : j.1 ≤ k)
    (hne : nodeA cols j i ≠ 0) :
    i.1 ≤ j.1 ∧ i.2 ∈ heads G ∧ (i.1 = j.1 → ∃ r ∈ G.rules, r.head = i.2 ∧ r.body = [j.2]) := by
  have hkey : ((i.1, i.2, [j.2]) : EItem σ) ∈ (cols.getD j.1 (ECol.empty j.1)).i_chart.map (·.1) := by
    by_contra hnk
    exact hne (get_of_not_mem _ _ hnk)
  obtain ⟨h1, r, hr, h2, h3⟩ := hkeys j.1 hj _ hkey
  simp only at h1 h2 h3
  exact ⟨h1, h2 ▸ mem_heads_of_rule G r hr, fun e => ⟨r, hr, h2, h3 e⟩⟩

theorem order_le_max (G : CFG σ K) (order : σ → Nat) (X : σ) (hX : X ∈ heads G) : order X ≤ orderMaxArg G order :=
  (le_foldl_max (heads G) order 0).2 X hX

theorem heads_notin_V (hA : Acyc G order) (X : σ) (hX : X ∈ heads G) : X ∉ G.V := by
  obtain ⟨r, hr, rfl⟩ := (mem_heads G X).mp hX
  exact hA.headsNT r hr

/-- nothing above the start symbol in the unary order contributes to `(0, S)` -/
theorem Qv_zero_above (h : StepHyp G f order x k a P cols) (sched : List (Nat × σ)) (hs : SchedOK G (k + 1) sched)
    (hkeys : ∀ J ≤ k, KeysOK G J (cols.getD J (ECol.empty J))) :
    ∀ d X, orderMaxArg G order - order X = d → X ∈ heads G → order G.S < order X →
      Qv G cols k sched (0, X) = 0 := by
  intro d
  induction d using Nat.strong_induction_on with
  | _ d ih =>
  intro X hd hX hlt
  rw [Qv_eq h sched hs (0, X) (Nat.zero_le _) hX, if_neg, zero_add]
  · apply sum_map_zero
    intro u _
    by_cases hz : nodeA cols (0, X) u = 0
    · rw [hz, mul_zero]
    · obtain ⟨h1, h2, h3⟩ := nodeA_ne_zero hkeys (0, X) u (Nat.zero_le _) hz
      have hu1 : u.1 = 0 := by simpa using h1
      obtain ⟨r, hr, hr1, hr2⟩ := h3 hu1
      have hlt' : order X < order u.2 := by
        have := h.hA.topo r hr (by rw [hr2]; rfl) X (by rw [hr2]; simp) (heads_notin_V h.hA X hX)
        rw [hr1] at this; exact this
      have hmax := order_le_max G order u.2 h2
      have hu : u = (0, u.2) := by rw [← hu1]
      rw [hu, ih (orderMaxArg G order - order u.2) (by omega) u.2 rfl h2 (by omega), zero_mul]
  · intro e
    have : X = G.S := (Prod.mk.inj e).2
    rw [this] at hlt; omega

/-- `q[0, S] = 1` is the right initial value -/
theorem Qv_target (h : StepHyp G f order x k a P cols) (sched : List (Nat × σ)) (hs : SchedOK G (k + 1) sched)
    (hkeys : ∀ J ≤ k, KeysOK G J (cols.getD J (ECol.empty J))) : Qv G cols k sched (0, G.S) = 1 := by
  by_cases hS : G.S ∈ heads G
  · rw [Qv_eq h sched hs (0, G.S) (Nat.zero_le _) hS, if_pos rfl, sum_map_zero, add_zero]
    intro u _
    by_cases hz : nodeA cols (0, G.S) u = 0
    · rw [hz, mul_zero]
    · obtain ⟨h1, h2, h3⟩ := nodeA_ne_zero hkeys (0, G.S) u (Nat.zero_le _) hz
      have hu1 : u.1 = 0 := by simpa using h1
      obtain ⟨r, hr, hr1, hr2⟩ := h3 hu1
      have hlt' : order G.S < order u.2 := by
        have := h.hA.topo r hr (by rw [hr2]; rfl) G.S (by rw [hr2]; simp) (heads_notin_V h.hA G.S hS)
        rw [hr1] at this; exact this
      have hu : u = (0, u.2) := by rw [← hu1]
      rw [hu, Qv_zero_above h sched hs hkeys _ u.2 rfl h2 hlt', zero_mul]
  · unfold Qv
    rw [adj_not_mem, if_pos rfl]
    intro hmem
    exact hS ((sched_mem sched hs (0, G.S)).mp hmem).2

/-- the memo only holds correct values, and always holds `(0, S)` -/
def MemoOK (G : CFG σ K) (cols : List (ECol σ K)) (k : Nat) (sched : List (Nat × σ)) (q : QMemo σ K) : Prop :=
  (∀ n v, q.get? n = some v → v = Qv G cols k sched n) ∧ q.get? (0, G.S) ≠ none

/-- the loop over the edges of a node, given that the recursive calls are correct -/
theorem helper_edges (sched : List (Nat × σ)) (fuel : Nat) (colJ : ECol σ K) (es : List (EItem σ))
    (hrec : ∀ arc ∈ es, ∀ q, MemoOK G cols k sched q →
      (helperNode cols fuel (arc.1, arc.2.1) q).1 = Qv G cols k sched (arc.1, arc.2.1) ∧
      MemoOK G cols k sched (helperNode cols fuel (arc.1, arc.2.1) q).2)
    (acc : K) (q : QMemo σ K) (hq : MemoOK G cols k sched q) :
    (es.foldl (fun (acc : K × QMemo σ K) arc =>
        (acc.1 + colJ.i_chart.get arc * (helperNode cols fuel (arc.1, arc.2.1) acc.2).1,
          (helperNode cols fuel (arc.1, arc.2.1) acc.2).2)) (acc, q)).1
      = acc + (es.map fun arc => colJ.i_chart.get arc * Qv G cols k sched (arc.1, arc.2.1)).sum ∧
    MemoOK G cols k sched (es.foldl (fun (acc : K × QMemo σ K) arc =>
        (acc.1 + colJ.i_chart.get arc * (helperNode cols fuel (arc.1, arc.2.1) acc.2).1,
          (helperNode cols fuel (arc.1, arc.2.1) acc.2).2)) (acc, q)).2 := by
  induction es generalizing acc q with
  | nil => simpa using hq
  | cons arc es ih =>
    obtain ⟨r1, r2⟩ := hrec arc (List.mem_cons_self ..) q hq
    simp only [List.foldl_cons, List.map_cons, List.sum_cons]
    obtain ⟨i1, i2⟩ := ih (fun arc' h' => hrec arc' (List.mem_cons_of_mem _ h')) _ _ r2
    refine ⟨?_, i2⟩
    rw [i1, r1, add_assoc]

/-- position of a node in the backward order -/
def nodeMu (G : CFG σ K) (order : σ → Nat) (n : Nat × σ) : Nat :=
  n.1 * (orderMaxArg G order + 1) + (orderMaxArg G order - order n.2)

/-- **`_helper` returns the adjoint weight** (and keeps the memo correct), given enough fuel -/
theorem helper_spec (h : StepHyp G f order x k a P cols) (sched : List (Nat × σ)) (hs : SchedOK G (k + 1) sched)
    (hkeys : ∀ J ≤ k, KeysOK G J (cols.getD J (ECol.empty J))) :
    ∀ fuel (node : Nat × σ) (q : QMemo σ K), MemoOK G cols k sched q → node.1 ≤ k → node.2 ∈ heads G →
      nodeMu G order node < fuel →
      (helperNode cols fuel node q).1 = Qv G cols k sched node ∧
      MemoOK G cols k sched (helperNode cols fuel node q).2 := by
  intro fuel
  induction fuel with
  | zero => intro node q _ _ _ hmu; omega
  | succ fuel ih =>
    intro node q hq hn hY hmu
    unfold helperNode
    cases hget : q.get? node with
    | some v =>
      simp only
      exact ⟨hq.1 node v hget, hq⟩
    | none =>
      simp only
      have hnT : node ≠ (0, G.S) := by
        intro e; rw [e] at hget; exact hq.2 hget
      have hes : ∀ arc ∈ unitEdges (cols.getD node.1 (ECol.empty node.1)) node.2,
          ∀ q, MemoOK G cols k sched q →
          (helperNode cols fuel (arc.1, arc.2.1) q).1 = Qv G cols k sched (arc.1, arc.2.1) ∧
          MemoOK G cols k sched (helperNode cols fuel (arc.1, arc.2.1) q).2 := by
        intro arc harc q' hq'
        obtain ⟨hk1, hk2⟩ := (mem_unitEdges _ _ _).mp harc
        obtain ⟨h1, r, hr, h2, h3⟩ := hkeys node.1 hn arc hk1
        have hX : arc.2.1 ∈ heads G := h2 ▸ mem_heads_of_rule G r hr
        apply ih (arc.1, arc.2.1) q' hq' (by simp only; omega) hX
        -- the edge goes down in the backward order
        have hm1 := order_le_max G order arc.2.1 hX
        have hm2 := order_le_max G order node.2 hY
        unfold nodeMu at hmu ⊢
        simp only
        rcases Nat.lt_or_ge arc.1 node.1 with hlt | hge
        · have : (arc.1 + 1) * (orderMaxArg G order + 1) ≤ node.1 * (orderMaxArg G order + 1) :=
            Nat.mul_le_mul_right _ hlt
          rw [Nat.add_mul] at this
          omega
        · have he : arc.1 = node.1 := by omega
          have hb := h3 he
          rw [hk2] at hb
          have := h.hA.topo r hr (by rw [hb]; rfl) node.2 (by rw [hb]; simp) (heads_notin_V h.hA node.2 hY)
          rw [h2] at this
          rw [he]
          omega
      obtain ⟨e1, e2⟩ := helper_edges sched fuel (cols.getD node.1 (ECol.empty node.1))
        (unitEdges (cols.getD node.1 (ECol.empty node.1)) node.2) hes 0 q hq
      have hval : (List.foldl (fun (acc : K × QMemo σ K) arc =>
            (acc.1 + (cols.getD node.1 (ECol.empty node.1)).i_chart.get arc *
                (helperNode cols fuel (arc.1, arc.2.1) acc.2).1,
              (helperNode cols fuel (arc.1, arc.2.1) acc.2).2)) (0, q)
            (unitEdges (cols.getD node.1 (ECol.empty node.1)) node.2)).1 = Qv G cols k sched node := by
        rw [e1, zero_add, Qv_eq h sched hs node hn hY, if_neg hnT, zero_add]
        rw [edge_sum (cols.getD node.1 (ECol.empty node.1)) (h.nd_all node.1) node.2 (nodeU G k) (nodeU_nodup G k)
          ?_ (Qv G cols k sched)]
        · apply sum_congr; intro u _
          unfold nodeA
          ring
        · intro key hkey _
          obtain ⟨h1, r, hr, h2, _⟩ := hkeys node.1 hn key hkey
          exact mem_nodeU G k (key.1, key.2.1) (by simp only; omega) (h2 ▸ mem_heads_of_rule G r hr)
      refine ⟨hval, ?_, ?_⟩
      · intro n v hnv
        rw [qget?_cons] at hnv
        by_cases hnn : node = n
        · rw [if_pos hnn] at hnv
          rw [← Option.some.inj hnv, ← hnn]
          exact hval
        · rw [if_neg hnn] at hnv
          exact e2.1 n v hnv
      · rw [qget?_cons, if_neg hnT]
        exact e2.2

end next
end Genlm.EarleyAux

namespace Genlm.EarleyAux
variable {σ K : Type} [DecidableEq σ] [CommSemiring K]
open IncCkyAux

section next
variable {G : CFG σ K} {f : σ → List σ → K} {order : σ → Nat} {x : List σ} {k : Nat} {a : σ}
  {P : Nat → List σ} {cols : List (ECol σ K)}

/-- the entry `(0, S)` of the next column, as a combination of the scanned items with the adjoint weights -/
theorem pre_adjoint (h : StepHyp G f order x k a P cols) (sched : List (Nat × σ)) (hs : SchedOK G (k + 1) sched) :
    (nextColumnPre sched cols a).c_chart.get (0, G.S) =
      ((nodeU G k).map fun u => Qv G cols k sched u *
        (cols.getD k (ECol.empty k)).i_chart.get (u.1, u.2, [a])).sum := by
  unfold nextColumnPre
  simp only
  rw [getLastD_eq h, (h.hcols k (Nat.le_refl k)).k_eq, ← eget_nil]
  obtain ⟨s1, _, _⟩ := scan_spec (cols.getD k (ECol.empty k)) (h.hcols k (Nat.le_refl k)).nd a
    (ECol.empty (k + 1) : ECol σ K)
  have hadj := sched_adjoint (K := K) (fun (s : ECol σ K) (n : Nat × σ) => eget s (n.1, n.2, []))
    (attachOne cols) (nodeA cols)
    (fun s jy n => (attach_spec cols s jy (h.nd_all jy.1)).1 (n.1, n.2, []))
    (0, G.S) (nodeU G k) (nodeU_nodup G k) (List.mem_cons_self ..) sched
    (fun a' ha' => by
      obtain ⟨h1, h2⟩ := (sched_mem sched hs a').mp ha'
      exact mem_nodeU G k a' h1 h2)
    (scanStep (cols.getD k (ECol.empty k)) a (ECol.empty (k + 1)))
  simp only at hadj
  rw [hadj]
  apply sum_congr; intro u _
  rw [s1, eget_empty, zero_add]
  rfl

theorem get_set {κ : Type} [DecidableEq κ] (c : PyChart κ K) (key : κ) (v : K) (key' : κ) :
    (PyChart.set c key v).get key' = if key = key' then v else c.get key' := by
  induction c with
  | nil => simp [PyChart.set, get_cons, get_nil]
  | cons e c ih =>
    simp only [PyChart.set]
    by_cases h : e.1 = key
    · rw [if_pos h, get_cons, get_cons]
      subst h
      by_cases h' : e.1 = key' <;> simp [h']
    · rw [if_neg h, get_cons, get_cons, ih]
      by_cases h' : e.1 = key'
      · have : key ≠ key' := fun hk => h (hk ▸ h')
        simp [h', this]
      · simp [h']

/-- the total `next_token_weights` stores for the terminal `Y` -/
def ntwTotal (G : CFG σ K) (cols : List (ECol σ K)) (k : Nat) (sched : List (Nat × σ)) (Y : σ) : K :=
  ((unitEdges (cols.getD k (ECol.empty k)) Y).map fun arc =>
    (cols.getD k (ECol.empty k)).i_chart.get arc * Qv G cols k sched (arc.1, arc.2.1)).sum

/-- the loop over the terminals the last column waits for -/
theorem ntw_loop (h : StepHyp G f order x k a P cols) (sched : List (Nat × σ)) (hs : SchedOK G (k + 1) sched)
    (hkeys : ∀ J ≤ k, KeysOK G J (cols.getD J (ECol.empty J))) (fuel : Nat)
    (hfuel : ∀ n : Nat × σ, n.1 ≤ k → n.2 ∈ heads G → nodeMu G order n < fuel) (Ys : List σ) :
    ∀ (st : PyChart σ K × QMemo σ K), MemoOK G cols k sched st.2 →
      (∀ b, (Ys.foldl (fun (st : PyChart σ K × QMemo σ K) Y =>
        if Y ∈ G.V then
          (st.1.set Y ((cols.getD k (ECol.empty k)).waitingFor Y |>.foldl (fun (acc : K × QMemo σ K) it =>
              if it.2.2.length = 1 then
                (acc.1 + (cols.getD k (ECol.empty k)).i_chart.get it * (helperNode cols fuel (it.1, it.2.1) acc.2).1,
                  (helperNode cols fuel (it.1, it.2.1) acc.2).2)
              else acc) (0, st.2)).1,
            ((cols.getD k (ECol.empty k)).waitingFor Y |>.foldl (fun (acc : K × QMemo σ K) it =>
              if it.2.2.length = 1 then
                (acc.1 + (cols.getD k (ECol.empty k)).i_chart.get it * (helperNode cols fuel (it.1, it.2.1) acc.2).1,
                  (helperNode cols fuel (it.1, it.2.1) acc.2).2)
              else acc) (0, st.2)).2)
        else st) st).1.get b = if b ∈ Ys ∧ b ∈ G.V then ntwTotal G cols k sched b else st.1.get b) := by
  induction Ys with
  | nil => intro st _ b; simp
  | cons Y Ys ih =>
    intro st hq b
    simp only [List.foldl_cons]
    by_cases hYV : Y ∈ G.V
    · simp only [if_pos hYV]
      -- the inner loop
      have hinner : ∀ q : QMemo σ K, ((cols.getD k (ECol.empty k)).waitingFor Y).foldl
          (fun (acc : K × QMemo σ K) it =>
            if it.2.2.length = 1 then
              (acc.1 + (cols.getD k (ECol.empty k)).i_chart.get it * (helperNode cols fuel (it.1, it.2.1) acc.2).1,
                (helperNode cols fuel (it.1, it.2.1) acc.2).2)
            else acc) (0, q)
          = (unitEdges (cols.getD k (ECol.empty k)) Y).foldl (fun (acc : K × QMemo σ K) arc =>
            (acc.1 + (cols.getD k (ECol.empty k)).i_chart.get arc * (helperNode cols fuel (arc.1, arc.2.1) acc.2).1,
              (helperNode cols fuel (arc.1, arc.2.1) acc.2).2)) (0, q) := by
        intro q
        unfold unitEdges
        rw [List.foldl_filter]
        simp only [decide_eq_true_eq]
      rw [hinner]
      have hrec : ∀ arc ∈ unitEdges (cols.getD k (ECol.empty k)) Y, ∀ q, MemoOK G cols k sched q →
          (helperNode cols fuel (arc.1, arc.2.1) q).1 = Qv G cols k sched (arc.1, arc.2.1) ∧
          MemoOK G cols k sched (helperNode cols fuel (arc.1, arc.2.1) q).2 := by
        intro arc harc q hq'
        obtain ⟨hk1, _⟩ := (mem_unitEdges _ _ _).mp harc
        obtain ⟨h1, r, hr, h2, _⟩ := hkeys k (Nat.le_refl k) arc hk1
        have hX : arc.2.1 ∈ heads G := h2 ▸ mem_heads_of_rule G r hr
        exact helper_spec h sched hs hkeys fuel (arc.1, arc.2.1) q hq' h1 hX (hfuel _ h1 hX)
      obtain ⟨e1, e2⟩ := helper_edges sched fuel (cols.getD k (ECol.empty k))
        (unitEdges (cols.getD k (ECol.empty k)) Y) hrec 0 st.2 hq
      rw [ih _ e2 b]
      simp only
      rw [get_set, e1, zero_add]
      by_cases hbY : Y = b
      · subst hbY
        simp only [List.mem_cons, true_or, hYV, and_self, if_true]
        by_cases hbYs : Y ∈ Ys
        · simp [hbYs]
        · simp [hbYs]; rfl
      · have : ¬ b = Y := fun e => hbY e.symm
        simp only [if_neg hbY, List.mem_cons, this, false_or]
    · simp only [if_neg hYV]
      rw [ih st hq b]
      by_cases hbY : b = Y
      · subst hbY
        simp [hYV]
      · simp [hbY]

end next
end Genlm.EarleyAux

namespace Genlm
variable {σ K : Type} [DecidableEq σ] [CommSemiring K]
open IncCkyAux EarleyAux

/-- **C04 for the Earley parser** (any admissible pop order, any sufficient fuel): the weight
`next_token_weights(chart(p))[a]` is the weight `Earley(cfg)(p ++ [a])` of the context extended by `a`. -/
theorem earley_pnext_sched (G : CFG σ K) (order : σ → Nat) (M : Nat) (hA : Acyc G order) (hM : OrderBound G order M)
    (sch : Nat → List (Nat × σ)) (hsch : ∀ k, SchedOK G k (sch k)) (p : List σ) (hp : ∀ b ∈ p, b ∈ G.V)
    (a : σ) (ha : a ∈ G.V) (fuel : Nat) (hfuel : helperFuel G order (earleyChartWith G sch p) ≤ fuel) :
    (earleyNextTokenWeights G fuel (earleyChartWith G sch p)).get a = earleyCallWith G sch (p ++ [a]) := by
  have hx : ∀ b ∈ p ++ [a], b ∈ G.V := by
    intro b hb
    rcases List.mem_append.mp hb with h | h
    · exact hp b h
    · rw [List.mem_singleton.mp h]; exact ha
  have hfix := Wlim_fixOK G order M hA hM
  obtain ⟨P, _, hlen, hcols⟩ := chart_ok G (Wlim G M) order hfix hA sch hsch (p ++ [a]) hx p.length (by simp)
  rw [List.take_left' rfl] at hlen hcols
  have hshape := chart_shape G sch p
  have hstep : StepHyp G (Wlim G M) order (p ++ [a]) p.length a P (earleyChartWith G sch p) :=
    ⟨hfix, hA, by simp, ha, hlen, hcols⟩
  have hkeys : ∀ J ≤ p.length, KeysOK G J ((earleyChartWith G sch p).getD J (ECol.empty J)) :=
    fun J hJ => (hshape.2 J hJ).2
  have hlastk : ((earleyChartWith G sch p).getLastD (ECol.empty 0)).k = p.length := by
    rw [getLastD_eq hstep]; exact (hcols p.length (Nat.le_refl _)).k_eq
  -- the right-hand side
  have hR : earleyCallWith G sch (p ++ [a]) =
      (nextColumnPre (sch (p.length + 1)) (earleyChartWith G sch p) a).c_chart.get (0, G.S) := by
    unfold earleyCallWith
    rw [if_neg (by simp), earleyChartWith_snoc, List.getD_eq_getElem?_getD,
      List.getElem?_append_right (by rw [hlen]; simp), hlen]
    simp only [List.length_append, List.length_singleton, Nat.sub_self, List.getElem?_cons_zero,
      Option.getD_some, earleyExtWith, hlastk]
    unfold nextColumnWith
    exact (predict_spec G _).2.2.2.1 0 G.S
  rw [hR, pre_adjoint hstep (sch (p.length + 1)) (hsch _)]
  -- the left-hand side
  have hfuel' : ∀ n : Nat × σ, n.1 ≤ p.length → n.2 ∈ heads G → nodeMu G order n < fuel := by
    intro n h1 h2
    have hm := order_le_max G order n.2 h2
    unfold helperFuel at hfuel
    rw [hlen] at hfuel
    unfold nodeMu
    have : n.1 * (orderMaxArg G order + 1) ≤ p.length * (orderMaxArg G order + 1) := Nat.mul_le_mul_right _ h1
    rw [Nat.add_mul] at hfuel
    omega
  have hq0 : MemoOK G (earleyChartWith G sch p) p.length (sch (p.length + 1)) [((0, G.S), 1)] := by
    constructor
    · intro n v hnv
      rw [qget?_cons] at hnv
      by_cases hn : (0, G.S) = n
      · rw [if_pos hn] at hnv
        rw [← hn, ← Option.some.inj hnv]
        exact (Qv_target hstep (sch (p.length + 1)) (hsch _) hkeys).symm
      · rw [if_neg hn] at hnv; cases hnv
    · rw [qget?_cons, if_pos rfl]; simp
  have hloop := ntw_loop hstep (sch (p.length + 1)) (hsch _) hkeys fuel hfuel'
    ((earleyChartWith G sch p).getD p.length (ECol.empty p.length)).waitingKeys ([], [((0, G.S), 1)]) hq0 a
  unfold earleyNextTokenWeights
  simp only
  rw [getLastD_eq hstep]
  rw [hloop]
  have htot : ntwTotal G (earleyChartWith G sch p) p.length (sch (p.length + 1)) a =
      ((nodeU G p.length).map fun u => Qv G (earleyChartWith G sch p) p.length (sch (p.length + 1)) u *
        ((earleyChartWith G sch p).getD p.length (ECol.empty p.length)).i_chart.get (u.1, u.2, [a])).sum := by
    unfold ntwTotal
    rw [edge_sum _ (hcols p.length (Nat.le_refl _)).nd a (nodeU G p.length) (nodeU_nodup G p.length) ?_
      (Qv G (earleyChartWith G sch p) p.length (sch (p.length + 1)))]
    · apply sum_congr; intro u _; ring
    · intro key hkey _
      obtain ⟨h1, r, hr, h2, _⟩ := hkeys p.length (Nat.le_refl _) key hkey
      exact mem_nodeU G p.length (key.1, key.2.1) h1 (h2 ▸ mem_heads_of_rule G r hr)
  by_cases hin : a ∈ ((earleyChartWith G sch p).getD p.length (ECol.empty p.length)).waitingKeys
  · rw [if_pos ⟨hin, ha⟩, htot]
  · rw [if_neg (fun hc => hin hc.1), ← htot]
    unfold ntwTotal
    have : unitEdges ((earleyChartWith G sch p).getD p.length (ECol.empty p.length)) a = [] := by
      rw [List.eq_nil_iff_forall_not_mem]
      intro arc harc
      obtain ⟨h1, h2⟩ := (mem_unitEdges _ _ _).mp harc
      obtain ⟨e, he, hek⟩ := List.mem_map.mp h1
      exact hin ((mem_waitingKeys _ a).mpr ⟨e, he, by rw [hek, h2]; rfl⟩)
    rw [this]
    rfl

/-- **C04 for the Earley parser**: `next_token_weights(chart(p))[a] = Earley(cfg)(p ++ [a])` -/
theorem earley_pnext (G : CFG σ K) (order : σ → Nat) (M : Nat) (hA : Acyc G order) (hM : OrderBound G order M)
    (p : List σ) (hp : ∀ b ∈ p, b ∈ G.V) (a : σ) (ha : a ∈ G.V) :
    (earleyPNext G order p).get a = earleyCall G order (p ++ [a]) :=
  earley_pnext_sched G order M hA hM (schedule G order) (schedule_ok G order hA) p hp a ha _ (Nat.le_refl _)

/-- … hence it is the derivation sum of the extended context -/
theorem earley_pnext_is_WN (G : CFG σ K) (order : σ → Nat) (M : Nat) (hA : Acyc G order) (hM : OrderBound G order M)
    (p : List σ) (hp : ∀ b ∈ p, b ∈ G.V) (a : σ) (ha : a ∈ G.V) (n : Nat) (hn : (p.length + 1) * M + 1 ≤ n) :
    (earleyPNext G order p).get a = WN G n G.S (p ++ [a]) := by
  rw [earley_pnext G order M hA hM p hp a ha]
  apply earley_correct G order M hA hM
  · intro b hb
    rcases List.mem_append.mp hb with h | h
    · exact hp b h
    · rw [List.mem_singleton.mp h]; exact ha
  · simpa using hn

end Genlm

/-! ### non-vacuity -/
namespace Genlm.EarleyAux.Examples

example : earleyPNext exG exOrd [11, 10] = [(11, 150)] := by decide
example : (earleyPNext exG exOrd [11, 10]).get 11 = earleyCall exG exOrd [11, 10, 11] := by decide
example : (earleyPNext exG exOrd [11]).get 10 = 0 ∧ earleyCall exG exOrd [11, 10] = 0 := by decide
example : (earleyPNext exG exOrd []).get 11 = 15 := by decide

end Genlm.EarleyAux.Examples
