import GenlmModel.Proofs.LimCore
import GenlmModel.Proofs.Wfsa2
import GenlmModel.Proofs.Star
import Mathlib.Topology.Algebra.InfiniteSum.ENNReal
import Mathlib.Topology.Algebra.InfiniteSum.NatInt
import Mathlib.Algebra.BigOperators.NatAntidiagonal
import Mathlib.Algebra.Order.Antidiag.Prod
import Mathlib.Analysis.SpecificLimits.Basic

/-! # Weighted automata at the limit: ε cycles, over `ℝ≥0∞` (properties C11, C12, C13 at full strength)

`PN A n x` (accepting paths with at most `n` arcs) is the level-wise specification of `Proofs/Wfsa*.lean`,
`Proofs/Star.lean` (every commutative semiring).  Over `ℝ≥0∞` its supremum `PL A x = ⨆ n, PN A n x = ∑' k, Pk A k x` is the
sum over ALL accepting paths spelling `x` — through ε arcs and ε CYCLES, divergence (`∞`) included.

1. basics — `PN_monotone`, `PL_eq_tsum`, `QL` (`∑' k, Qk`), `PL_eq_QL`, `QL_unfold`, `QL_unfold_right` (one-step unfoldings),
   `QL_nil`, `QL_cons` (first-symbol factorisation `ε* · a · rest`), `Qk_add` (Chapman–Kolmogorov);
2. ε-removal for ARBITRARY machines — `epsremove_correct_PL`, `forward_epsremove_PL` (`WFSA.__call__` = sum over all
   accepting paths), `epsremove_PL`, `epsremove_correct_PL_states` (hypotheses on states only), `epsremove_epsStarL`
   (the hypotheses hold for EVERY machine with the true closure `epsStarL`), `epsStarL_of_acyclic`, `PL_of_acyclic`
   (link with the ε-acyclic theorems);
3. total weight — `tsum_PL` (`∑' x, PL A x` = all accepting paths whatever they spell), `bwdL_eq`, `bwdL_least` (the true
   backward weights are the LEAST solution of the backward system), `tsum_PL_eq_totalWeight`;
4. rational operations, exact at the limit — `union_PL`, `mapStates_PL`, `reverse_PL`, `trim_PL`, `concat_PL`,
   `kleenePlus_PL`, `kleenePlus_PL_least`, `kleenePlus_PL_series`, `star_PL`, `star_PL_unfold`, `star_PL_series`;
5. `to_cfg` — `toCfgRight_WL`, `toCfgLeft_WL`, `toCfgRight_state_WL`, `toCfgLeft_state_WL`.
Generic `ℝ≥0∞` tools in `Genlm.LimAux` (`tsum_conv`: Cauchy/diagonal rearrangement, `tsum_list_sumW`, `tsum_eq_iSup_range`).
Examples: `exL` (convergent ε loop: `PL exL [7] = 12`, `forward … = 12`), `exD` (divergent ε loop: `∞`). -/
namespace Genlm
open scoped ENNReal
open WfsaAux

namespace LimAux

/-- list sums over `List.range` are `Finset.range` sums -/
theorem list_range_sum {M : Type} [AddCommMonoid M] (f : ℕ → M) (n : ℕ) :
    ((List.range n).map f).sum = ∑ i ∈ Finset.range n, f i := by
  induction n with
  | zero => simp
  | succ n ih =>
    rw [List.range_succ, List.map_append, List.sum_append, ih, Finset.sum_range_succ]
    simp

/-- an infinite sum is the supremum of its partial sums (list form, `n+1` terms) -/
theorem tsum_eq_iSup_range (f : ℕ → ℝ≥0∞) : ∑' k, f k = ⨆ n, ((List.range (n+1)).map f).sum := by
  rw [ENNReal.tsum_eq_iSup_nat]
  simp only [list_range_sum]
  apply le_antisymm
  · refine iSup_le fun n => le_iSup_of_le n ?_
    exact Finset.sum_le_sum_of_subset (Finset.range_mono (Nat.le_succ n))
  · exact iSup_le fun n => le_iSup (fun i => ∑ a ∈ Finset.range i, f a) (n+1)

/-- infinite sums commute with finite (list) sums -/
theorem tsum_list_sumW {ι α : Type} (l : List α) (F : ι → α → ℝ≥0∞) :
    ∑' k, (l.map (F k)).sum = (l.map fun a => ∑' k, F k a).sum := by
  induction l with
  | nil => simp
  | cons a l ih => simp only [List.map_cons, List.sum_cons, ENNReal.tsum_add, ih]

/-- **Cauchy product / diagonal rearrangement** (shifted by one, as in `Qk_cons_fac`, `concat_Pk`):
summing `f m r` over the diagonals `m + r + 1 = k` and then over `k` is summing over all pairs -/
theorem tsum_conv (f : ℕ → ℕ → ℝ≥0∞) :
    ∑' k, ((List.range k).map fun m => f m (k-1-m)).sum = ∑' m, ∑' r, f m r := by
  rw [tsum_eq_zero_add' ENNReal.summable]
  simp only [List.range_zero, List.map_nil, List.sum_nil, zero_add, list_range_sum, Nat.add_sub_cancel]
  rw [← ENNReal.tsum_prod (f := f),
    ← Finset.HasAntidiagonal.sigmaAntidiagonalEquivProd.tsum_eq (fun p : ℕ × ℕ => f p.1 p.2),
    ENNReal.tsum_sigma']
  apply tsum_congr
  intro n
  change _ = ∑' b : ↥(Finset.antidiagonal n), (fun p : ℕ × ℕ => f p.1 p.2) b
  rw [Finset.tsum_subtype (Finset.antidiagonal n) (fun p : ℕ × ℕ => f p.1 p.2),
    Finset.Nat.sum_antidiagonal_eq_sum_range_succ_mk]

end LimAux
open LimAux

/-! ### 1. basics: `PL`, `QL` -/
section Basics
variable {ι σ : Type} [DecidableEq ι] [DecidableEq σ]

/-- the weight of `x`: the sum over ALL accepting paths spelling `x` (through ε arcs and ε cycles) -/
noncomputable def PL (A : WFSA ι σ ℝ≥0∞) (x : List σ) : ℝ≥0∞ := ⨆ n, PN A n x

/-- the total weight of ALL paths from `i` to `j` spelling `x` -/
noncomputable def QL (A : WFSA ι σ ℝ≥0∞) (i : ι) (x : List σ) (j : ι) : ℝ≥0∞ := ∑' k, Qk A k i x j

theorem PN_monotone (A : WFSA ι σ ℝ≥0∞) (x : List σ) : Monotone (fun n => PN A n x) :=
  fun _ _ h => natLe_iff_le.mp (PN_mono A h x)

theorem PN_le_PL (A : WFSA ι σ ℝ≥0∞) (n : Nat) (x : List σ) : PN A n x ≤ PL A x :=
  le_iSup (fun n => PN A n x) n

/-- `PL` is the sum over all path lengths -/
theorem PL_eq_tsum (A : WFSA ι σ ℝ≥0∞) (x : List σ) : PL A x = ∑' k, Pk A k x := by
  unfold PL
  simp only [PN_eq]
  exact (tsum_eq_iSup_range fun k => Pk A k x).symm

theorem Pk_le_PL (A : WFSA ι σ ℝ≥0∞) (k : Nat) (x : List σ) : Pk A k x ≤ PL A x := by
  rw [PL_eq_tsum]; exact ENNReal.le_tsum k

/-- `PL` in terms of `QL`: initial weight, all paths, final weight -/
theorem PL_eq_QL (A : WFSA ι σ ℝ≥0∞) (x : List σ) :
    PL A x = (A.start.map fun s => (A.stop.map fun f => s.2 * QL A s.1 x f.1 * f.2).sum).sum := by
  rw [PL_eq_tsum]
  simp only [Pk_eq]
  rw [tsum_list_sumW A.start (fun k s => (A.stop.map fun f => s.2 * Qk A k s.1 x f.1 * f.2).sum)]
  apply congrArg
  apply List.map_congr_left
  intro s _
  rw [tsum_list_sumW A.stop (fun k f => s.2 * Qk A k s.1 x f.1 * f.2)]
  apply congrArg
  apply List.map_congr_left
  intro f _
  unfold QL
  rw [ENNReal.tsum_mul_right, ENNReal.tsum_mul_left]

/-- **one-step unfolding of `QL` at the first arc** -/
theorem QL_unfold (A : WFSA ι σ ℝ≥0∞) (i : ι) (x : List σ) (j : ι) :
    QL A i x j = (if i = j ∧ x = [] then 1 else 0)
      + ((A.arcs.filter (fun e => e.src = i)).map fun e =>
          ((lpeel e.lbl x).map fun x' => e.w * QL A e.dst x' j).sum).sum := by
  unfold QL
  rw [tsum_eq_zero_add' ENNReal.summable, Qk_zero]
  congr 1
  simp only [Qk_succ]
  rw [tsum_list_sumW (A.arcs.filter (fun e => e.src = i))
    (fun k e => ((lpeel e.lbl x).map fun x' => e.w * Qk A k e.dst x' j).sum)]
  apply congrArg
  apply List.map_congr_left
  intro e _
  rw [tsum_list_sumW (lpeel e.lbl x) (fun k x' => e.w * Qk A k e.dst x' j)]
  apply congrArg
  apply List.map_congr_left
  intro x' _
  rw [ENNReal.tsum_mul_left]

/-- **one-step unfolding of `QL` at the last arc** -/
theorem QL_unfold_right (A : WFSA ι σ ℝ≥0∞) (i : ι) (x : List σ) (j : ι) :
    QL A i x j = (if i = j ∧ x = [] then 1 else 0)
      + ((A.arcs.filter (fun e => e.dst = j)).map fun e =>
          ((rpeel e.lbl x).map fun x' => QL A i x' e.src * e.w).sum).sum := by
  unfold QL
  rw [tsum_eq_zero_add' ENNReal.summable, Qk_zero]
  congr 1
  simp only [Qk_succ_right]
  rw [tsum_list_sumW (A.arcs.filter (fun e => e.dst = j))
    (fun k e => ((rpeel e.lbl x).map fun x' => Qk A k i x' e.src * e.w).sum)]
  apply congrArg
  apply List.map_congr_left
  intro e _
  rw [tsum_list_sumW (rpeel e.lbl x) (fun k x' => Qk A k i x' e.src * e.w)]
  apply congrArg
  apply List.map_congr_left
  intro x' _
  rw [ENNReal.tsum_mul_right]

/-- on the empty string `QL` is the star of the ε matrix -/
theorem QL_nil (A : WFSA ι σ ℝ≥0∞) (i j : ι) : QL A i [] j = ∑' m, Qk A.epsPart m i [] j := by
  unfold QL
  exact tsum_congr fun k => Wfsa2Eps.Qk_nil_eps A k i j

/-- **first-symbol factorisation at the limit**: all paths spelling `a :: x` are `ε* · (arc reading a) · rest` -/
theorem QL_cons (A : WFSA ι σ ℝ≥0∞) (i : ι) (a : σ) (x : List σ) (j : ι) :
    QL A i (a :: x) j = (A.arcs.map fun e => if e.lbl = some a then
      (∑' m, Qk A.epsPart m i [] e.src) * e.w * QL A e.dst x j else 0).sum := by
  have h1 : QL A i (a :: x) j = ∑' m, ∑' r, Wfsa2Eps.fac A a x j m r i := by
    unfold QL
    simp only [Wfsa2Eps.Qk_cons_fac]
    exact tsum_conv (fun m r => Wfsa2Eps.fac A a x j m r i)
  rw [h1]
  have h2 : ∀ m, ∑' r, Wfsa2Eps.fac A a x j m r i = (A.arcs.map fun e => ∑' r,
      (if e.lbl = some a then Qk A.epsPart m i [] e.src * e.w * Qk A r e.dst x j else 0)).sum := by
    intro m
    unfold Wfsa2Eps.fac
    exact tsum_list_sumW A.arcs (fun r e =>
      if e.lbl = some a then Qk A.epsPart m i [] e.src * e.w * Qk A r e.dst x j else 0)
  simp only [h2]
  rw [tsum_list_sumW A.arcs (fun m e => ∑' r,
      (if e.lbl = some a then Qk A.epsPart m i [] e.src * e.w * Qk A r e.dst x j else 0))]
  apply congrArg
  apply List.map_congr_left
  intro e _
  by_cases hl : e.lbl = some a
  · simp only [if_pos hl]
    unfold QL
    simp only [ENNReal.tsum_mul_left, ENNReal.tsum_mul_right]
  · simp only [if_neg hl, tsum_zero]

/-- **Chapman–Kolmogorov**: a path of `a + b` arcs is a path of `a` arcs to some state `m` followed by a path
of `b` arcs (over `ℝ≥0∞` the intermediate state can range over the whole type `ι`) -/
theorem Qk_add (A : WFSA ι σ ℝ≥0∞) (a b : Nat) (i : ι) (x : List σ) (j : ι) :
    Qk A (a+b) i x j = ((splits x).map fun p => ∑' m : ι, Qk A a i p.1 m * Qk A b m p.2 j).sum := by
  induction a generalizing i x with
  | zero =>
    rw [Nat.zero_add]
    have h : ∀ p : List σ × List σ, ∑' m : ι, Qk A 0 i p.1 m * Qk A b m p.2 j
        = (if p.1 = [] then 1 else 0) * Qk A b i p.2 j := by
      intro p
      rw [tsum_eq_single i]
      · simp [Qk_zero]
      · intro m hm
        have : ¬ i = m := fun h => hm h.symm
        simp [Qk_zero, this]
    simp only [h]
    rw [sum_splits_left_nil x (fun u v => (if u = [] then (1 : ℝ≥0∞) else 0) * Qk A b i v j)
      (fun u v hu => by simp [hu])]
    simp
  | succ a ih =>
    rw [Nat.add_right_comm a 1 b, Qk_succ]
    simp only [ih]
    have hR : ∀ p : List σ × List σ, ∑' m, Qk A (a+1) i p.1 m * Qk A b m p.2 j
        = ((A.arcs.filter (fun e => e.src = i)).map fun e => ((lpeel e.lbl p.1).map fun u' =>
            e.w * ∑' m, Qk A a e.dst u' m * Qk A b m p.2 j).sum).sum := by
      intro p
      simp only [Qk_succ A a, ← List.sum_map_mul_right]
      rw [tsum_list_sumW (A.arcs.filter (fun e => e.src = i)) (fun m e =>
        ((lpeel e.lbl p.1).map fun u' => e.w * Qk A a e.dst u' m * Qk A b m p.2 j).sum)]
      apply congrArg
      apply List.map_congr_left
      intro e _
      rw [tsum_list_sumW (lpeel e.lbl p.1) (fun m u' => e.w * Qk A a e.dst u' m * Qk A b m p.2 j)]
      apply congrArg
      apply List.map_congr_left
      intro u' _
      rw [← ENNReal.tsum_mul_left]
      simp only [mul_assoc]
    simp only [hR]
    refine Eq.trans ?_ (sum_swap (A.arcs.filter (fun e => e.src = i)) (splits x)
      (fun e p => ((lpeel e.lbl p.1).map fun u' =>
            e.w * ∑' m, Qk A a e.dst u' m * Qk A b m p.2 j).sum))
    apply congrArg
    apply List.map_congr_left
    intro e _
    simp only [← List.sum_map_mul_left]
    exact sum_lpeel_splits e.lbl x (fun u' v => e.w * ∑' m, Qk A a e.dst u' m * Qk A b m v j)

end Basics

/-! ### 2. ε-removal for arbitrary machines (ε cycles allowed) -/
section EpsRemove
variable {ι σ : Type} [DecidableEq ι] [DecidableEq σ]
open Wfsa2Eps

/-- the true closure (star) of the ε graph: the sum over ALL ε paths from `i` to `k`
(what `WeightedGraph.closure` converges to) -/
noncomputable def WFSA.epsStarL (A : WFSA ι σ ℝ≥0∞) (i k : ι) : ℝ≥0∞ := ∑' m, Qk A.epsPart m i [] k

/-- (e) at the limit: the ε-free machine, weighted by a row of the closure, gives the sum over all paths
of the original machine -/
theorem Lsum_eq_QL (A : WFSA ι σ ℝ≥0∞) (S : ι → ι → ℝ≥0∞) (out : ι → List ι)
    (hS : ∀ i ∈ A.states, ∀ k, S i k = ∑' m, Qk A.epsPart m i [] k)
    (hout : ∀ i ∈ A.states, ∀ k, S i k ≠ 0 → k ∈ out i) (hnd : ∀ i ∈ A.states, (out i).Nodup)
    (x : List σ) : ∀ (i j : ι), i ∈ A.states → Lsum A S out i x j = QL A i x j := by
  induction x with
  | nil =>
    intro i j hi
    rw [Lsum_nil A S out hout hnd i hi, hS i hi j, QL_nil]
  | cons a x ih =>
    intro i j hi
    rw [Lsum_cons A S out hout hnd i hi, QL_cons]
    apply congrArg
    apply List.map_congr_left
    intro e he
    by_cases hl : e.lbl = some a
    · rw [if_pos hl, if_pos hl, hS i hi e.src, ih e.dst j (mem_states_dst A e he)]
    · rw [if_neg hl, if_neg hl]

/-- **ε-removal is correct for ARBITRARY machines** (ε cycles allowed): if `S` is the true closure of the
ε graph on the rows of the states, and `out i` lists (once) at least the support of row `i`, the ε-free
machine gives `x`, along its `|x|` arcs, the sum over ALL accepting paths of `A` spelling `x`. -/
theorem epsremove_correct_PL (A : WFSA ι σ ℝ≥0∞) (S : ι → ι → ℝ≥0∞) (out : ι → List ι)
    (hS : ∀ i ∈ A.states, ∀ k, S i k = ∑' m, Qk A.epsPart m i [] k)
    (hout : ∀ i ∈ A.states, ∀ k, S i k ≠ 0 → k ∈ out i) (hnd : ∀ i ∈ A.states, (out i).Nodup)
    (x : List σ) : Pk (A.epsremove S out) x.length x = PL A x := by
  have hstart : (A.epsremove S out).start
      = A.start.flatMap fun s => (out s.1).map fun k => (k, s.2 * S s.1 k) := rfl
  have hstop : (A.epsremove S out).stop = A.stop := rfl
  rw [Pk_eq, hstart, hstop, sum_flatMap, PL_eq_QL]
  simp only [List.map_map, Function.comp_def]
  apply congrArg
  apply List.map_congr_left
  intro s hs
  rw [sum_swap]
  apply congrArg
  apply List.map_congr_left
  intro f _
  rw [← Lsum_eq_QL A S out hS hout hnd x s.1 f.1 (mem_states_start A s hs), Lsum,
    ← List.sum_map_mul_left, ← List.sum_map_mul_right]
  apply congrArg
  apply List.map_congr_left
  intro k _
  rw [mul_assoc s.2]

/-- on an ε-free machine all the mass sits on the paths of `|x|` arcs -/
theorem PL_epsfree (A : WFSA ι σ ℝ≥0∞) (hA : A.EpsFree) (x : List σ) : PL A x = Pk A x.length x := by
  rw [PL_eq_tsum]
  exact tsum_eq_single x.length (fun k hk => Pk_epsfree_length A hA k x hk)

/-- **`WFSA.__call__`** (`self = self.epsremove`, then the loop) **is the sum over all accepting paths** -/
theorem forward_epsremove_PL (A : WFSA ι σ ℝ≥0∞) (S : ι → ι → ℝ≥0∞) (out : ι → List ι)
    (hS : ∀ i ∈ A.states, ∀ k, S i k = ∑' m, Qk A.epsPart m i [] k)
    (hout : ∀ i ∈ A.states, ∀ k, S i k ≠ 0 → k ∈ out i) (hnd : ∀ i ∈ A.states, (out i).Nodup)
    (x : List σ) : forward (A.epsremove S out) x = PL A x := by
  rw [forward_correct _ (epsremove_epsfree A S out), epsremove_correct_PL A S out hS hout hnd x]

/-- the ε-free machine has the same weighted language (at the limit) as the original one -/
theorem epsremove_PL (A : WFSA ι σ ℝ≥0∞) (S : ι → ι → ℝ≥0∞) (out : ι → List ι)
    (hS : ∀ i ∈ A.states, ∀ k, S i k = ∑' m, Qk A.epsPart m i [] k)
    (hout : ∀ i ∈ A.states, ∀ k, S i k ≠ 0 → k ∈ out i) (hnd : ∀ i ∈ A.states, (out i).Nodup)
    (x : List σ) : PL (A.epsremove S out) x = PL A x := by
  rw [PL_epsfree _ (epsremove_epsfree A S out), epsremove_correct_PL A S out hS hout hnd x]

/-- the closure only reaches states -/
theorem epsStarL_support (A : WFSA ι σ ℝ≥0∞) (i : ι) (hi : i ∈ A.states) (k : ι) (hk : k ∉ A.states) :
    A.epsStarL i k = 0 := by
  unfold WFSA.epsStarL
  rw [ENNReal.tsum_eq_zero]
  intro m
  exact Qk_support A.epsPart (· ∈ A.states)
    (fun e he => mem_states_dst A e (List.mem_filter.mp he).1) m i [] k hi hk

/-- **non-vacuity, for every machine**: the true closure `epsStarL`, with `out i` = the list of states,
satisfies the hypotheses; so the ε-removal relative to the true closure computes `PL` -/
theorem epsremove_epsStarL (A : WFSA ι σ ℝ≥0∞) (x : List σ) :
    Pk (A.epsremove A.epsStarL fun _ => A.states) x.length x = PL A x
    ∧ forward (A.epsremove A.epsStarL fun _ => A.states) x = PL A x
    ∧ (A.epsremove A.epsStarL fun _ => A.states).EpsFree := by
  have hout : ∀ i ∈ A.states, ∀ k, A.epsStarL i k ≠ 0 → k ∈ A.states := by
    intro i hi k hne
    by_contra hk
    exact hne (epsStarL_support A i hi k hk)
  exact ⟨epsremove_correct_PL A _ _ (fun _ _ _ => rfl) hout (fun _ _ => nodup_states A) x,
    forward_epsremove_PL A _ _ (fun _ _ _ => rfl) hout (fun _ _ => nodup_states A) x,
    epsremove_epsfree A _ _⟩

/-- the same with every hypothesis quantified over the (finitely many) states only — the shape of Python's
`S = E.closure()` (a table over pairs of nodes) and `S.outgoing` (lists of nodes) -/
theorem epsremove_correct_PL_states (A : WFSA ι σ ℝ≥0∞) (S : ι → ι → ℝ≥0∞) (out : ι → List ι)
    (hS : ∀ i ∈ A.states, ∀ k ∈ A.states, S i k = ∑' m, Qk A.epsPart m i [] k)
    (hout : ∀ i ∈ A.states, ∀ k ∈ A.states, S i k ≠ 0 → k ∈ out i)
    (hsub : ∀ i ∈ A.states, ∀ k ∈ out i, k ∈ A.states)
    (hnd : ∀ i ∈ A.states, (out i).Nodup) (x : List σ) :
    Pk (A.epsremove S out) x.length x = PL A x ∧ forward (A.epsremove S out) x = PL A x := by
  classical
  have hc := epsremove_congr A S (fun i k => if k ∈ A.states then S i k else 0) out
    (fun i hi k hk => by simp only [if_pos (hsub i hi k hk)])
  rw [← hc]
  have hS' : ∀ i ∈ A.states, ∀ k, (fun i k => if k ∈ A.states then S i k else 0) i k
      = ∑' m, Qk A.epsPart m i [] k := by
    intro i hi k
    by_cases hk : k ∈ A.states
    · simp only [if_pos hk]; exact hS i hi k hk
    · simp only [if_neg hk]; exact (epsStarL_support A i hi k hk).symm
  have hout' : ∀ i ∈ A.states, ∀ k, (fun i k => if k ∈ A.states then S i k else 0) i k ≠ 0 → k ∈ out i := by
    intro i hi k hne
    by_cases hk : k ∈ A.states
    · simp only [if_pos hk] at hne; exact hout i hi k hk hne
    · simp only [if_neg hk] at hne; exact absurd rfl hne
  exact ⟨epsremove_correct_PL A _ out hS' hout' hnd x, forward_epsremove_PL A _ out hS' hout' hnd x⟩

/-- link with the ε-acyclic theorems of `Proofs/Wfsa2.lean`: without ε cycles the true closure is the
truncated one -/
theorem epsStarL_of_acyclic (A : WFSA ι σ ℝ≥0∞) (N : Nat)
    (hacyc : ∀ i k m, N < m → Qk A.epsPart m i [] k = 0) (i k : ι) :
    A.epsStarL i k = A.epsStarN N i k := by
  unfold WFSA.epsStarL
  rw [epsStarN_eq, list_range_sum]
  exact tsum_eq_sum (fun m hm => hacyc i k m (by
    rw [Finset.mem_range] at hm; omega))

/-- … and `PL` is the stratified sum at any level beyond `(|x|+1)(N+1)` -/
theorem PL_of_acyclic (A : WFSA ι σ ℝ≥0∞) (N : Nat)
    (hacyc : ∀ i k m, N < m → Qk A.epsPart m i [] k = 0) (x : List σ) (n : Nat)
    (hn : (x.length+1)*(N+1) ≤ n + 1) : PL A x = PN A n x := by
  apply le_antisymm
  · refine iSup_le fun m => ?_
    calc PN A m x ≤ PN A (max m n) x := PN_monotone A x (le_max_left m n)
      _ = PN A n x := by
        rw [PN_eq_of_acyclic A N hacyc x (max m n) (by omega), PN_eq_of_acyclic A N hacyc x n hn]
  · exact PN_le_PL A n x

end EpsRemove

/-! ### 4. rational operations at the limit -/
section Rational
variable {ι κ σ : Type} [DecidableEq ι] [DecidableEq κ] [DecidableEq σ]
open Misc2Aux

/-- **`__add__`** -/
theorem union_PL (A : WFSA ι σ ℝ≥0∞) (B : WFSA κ σ ℝ≥0∞) (x : List σ) :
    PL (A.union B) x = PL A x + PL B x := by
  simp only [PL_eq_tsum, union_Pk, ENNReal.tsum_add]

/-- **`rename`** (injective) -/
theorem mapStates_PL (f : ι → κ) (hf : Function.Injective f) (A : WFSA ι σ ℝ≥0∞) (x : List σ) :
    PL (A.mapStates f) x = PL A x := by
  simp only [PL_eq_tsum, mapStates_Pk f hf]

/-- **`reverse`** -/
theorem reverse_PL (A : WFSA ι σ ℝ≥0∞) (x : List σ) : PL A.reverse x = PL A x.reverse := by
  have h := fun k => reverse_Pk A k x.reverse
  simp only [List.reverse_reverse] at h
  simp only [PL_eq_tsum, h]

/-- **`trim`** -/
theorem trim_PL [DecidableEq ℝ≥0∞] (A : WFSA ι σ ℝ≥0∞) (x : List σ) : PL A.trim x = PL A x := by
  simp only [PL_eq_tsum, wfsa_trim_Pk]

omit [DecidableEq σ] in
/-- Cauchy product of two stratified families, summed over all strata -/
theorem tsum_conv_splits (P Q : ℕ → List σ → ℝ≥0∞) (x : List σ) :
    ∑' k, ((List.range k).map fun a => ((splits x).map fun p => P a p.1 * Q (k-1-a) p.2).sum).sum
      = ((splits x).map fun p => (∑' a, P a p.1) * ∑' b, Q b p.2).sum := by
  rw [tsum_conv (fun a b => ((splits x).map fun p => P a p.1 * Q b p.2).sum)]
  have h : ∀ a, ∑' b, ((splits x).map fun p => P a p.1 * Q b p.2).sum
      = ((splits x).map fun p => P a p.1 * ∑' b, Q b p.2).sum := by
    intro a
    rw [tsum_list_sumW (splits x) (fun b p => P a p.1 * Q b p.2)]
    apply congrArg
    apply List.map_congr_left
    intro p _
    rw [ENNReal.tsum_mul_left]
  simp only [h]
  rw [tsum_list_sumW (splits x) (fun a p => P a p.1 * ∑' b, Q b p.2)]
  apply congrArg
  apply List.map_congr_left
  intro p _
  rw [ENNReal.tsum_mul_right]

/-- **`__mul__`: the weighted language of the product is the Cauchy product**, exactly, at the limit -/
theorem concat_PL (A : WFSA ι σ ℝ≥0∞) (B : WFSA κ σ ℝ≥0∞) (x : List σ) :
    PL (A.concat B) x = ((splits x).map fun p => PL A p.1 * PL B p.2).sum := by
  simp only [PL_eq_tsum, concat_Pk]
  exact tsum_conv_splits (Pk A) (Pk B) x

/-- **`kleene_plus`: `A⁺ = A + A·A⁺`** at the limit -/
theorem kleenePlus_PL (A : WFSA ι σ ℝ≥0∞) (x : List σ) :
    PL A.kleenePlus x = PL A x + ((splits x).map fun p => PL A p.1 * PL A.kleenePlus p.2).sum := by
  simp only [PL_eq_tsum]
  rw [← tsum_conv_splits (Pk A) (Pk A.kleenePlus) x, ← ENNReal.tsum_add]
  exact tsum_congr fun k => kleenePlus_Pk A k x

/-- **`A⁺` is the LEAST solution of `X = A + A·X`** (even the least pre-fixed point) -/
theorem kleenePlus_PL_least (A : WFSA ι σ ℝ≥0∞) (F : List σ → ℝ≥0∞)
    (hF : ∀ x, PL A x + ((splits x).map fun p => PL A p.1 * F p.2).sum ≤ F x) (x : List σ) :
    PL A.kleenePlus x ≤ F x := by
  have key : ∀ n x, PN A.kleenePlus n x ≤ F x := by
    intro n
    induction n with
    | zero =>
      intro x
      rw [kleenePlus_PN_tri]
      have : tri (fun a b => conv (Pk A) (Pk A.kleenePlus) a b x) 0 = 0 := by simp [tri]
      rw [this, add_zero]
      exact le_trans (le_trans (PN_le_PL A 0 x) le_self_add) (hF x)
    | succ n ih =>
      intro x
      rw [kleenePlus_PN_tri]
      refine le_trans (add_le_add (PN_le_PL A (n+1) x) ?_) (hF x)
      unfold tri conv
      have h1 : ∀ a ∈ List.range (n+1),
          ((List.range (n + 1 - a)).map fun b =>
            ((splits x).map fun p => Pk A a p.1 * Pk A.kleenePlus b p.2).sum).sum
          ≤ ((splits x).map fun p => Pk A a p.1 * F p.2).sum := by
        intro a ha
        have ha' := List.mem_range.mp ha
        rw [sum_swap]
        apply List.sum_le_sum
        intro p _
        rw [List.sum_map_mul_left]
        refine mul_le_mul_right ?_ _
        have e : n + 1 - a = (n - a) + 1 := by omega
        rw [e, ← PN_eq]
        exact le_trans (PN_monotone A.kleenePlus p.2 (Nat.sub_le n a)) (ih p.2)
      refine le_trans (List.sum_le_sum h1) ?_
      rw [sum_swap]
      apply List.sum_le_sum
      intro p _
      rw [List.sum_map_mul_right, ← PN_eq]
      exact mul_le_mul_left (PN_le_PL A n p.1) _
  exact iSup_le fun n => key n x

/-- `convPow L m x`: the sum over the factorisations `x = u₀ u₁ … u_m` (into `m+1` factors, empty factors
allowed) of `L u₀ · L u₁ ⋯ L u_m` -/
noncomputable def convPow (L : List σ → ℝ≥0∞) : ℕ → List σ → ℝ≥0∞
  | 0, x => L x
  | m+1, x => ((splits x).map fun p => L p.1 * convPow L m p.2).sum

/-- **`kleene_plus` at the limit is the sum over all factorisations into `≥ 1` factors** -/
theorem kleenePlus_PL_series (A : WFSA ι σ ℝ≥0∞) (x : List σ) :
    PL A.kleenePlus x = ∑' m, convPow (PL A) m x := by
  -- the series satisfies the equation
  have hfix : ∀ x, ∑' m, convPow (PL A) m x
      = PL A x + ((splits x).map fun p => PL A p.1 * ∑' m, convPow (PL A) m p.2).sum := by
    intro x
    rw [tsum_eq_zero_add' ENNReal.summable]
    congr 1
    simp only [convPow]
    rw [tsum_list_sumW (splits x) (fun m p => PL A p.1 * convPow (PL A) m p.2)]
    apply congrArg
    apply List.map_congr_left
    intro p _
    rw [ENNReal.tsum_mul_left]
  apply le_antisymm
  · exact kleenePlus_PL_least A (fun x => ∑' m, convPow (PL A) m x) (fun x => le_of_eq (hfix x).symm) x
  · -- every partial sum is below any fixed point
    rw [tsum_eq_iSup_range]
    refine iSup_le fun M => ?_
    induction M generalizing x with
    | zero =>
      simp only [List.range_succ, List.range_zero, List.nil_append, List.map_cons, List.map_nil,
        List.sum_cons, List.sum_nil, add_zero, convPow]
      rw [kleenePlus_PL A x]
      exact le_self_add
    | succ M ih =>
      rw [List.sum_range_succ', kleenePlus_PL A x]
      refine add_le_add (le_of_eq (by simp only [convPow])) ?_
      simp only [convPow]
      rw [sum_swap]
      apply List.sum_le_sum
      intro p _
      rw [List.sum_map_mul_left]
      exact mul_le_mul_right (ih p.2) _

/-- **`star`: `A* = 1 + A⁺`** at the limit -/
theorem star_PL (A : WFSA ι σ ℝ≥0∞) (x : List σ) :
    PL A.star x = (if x = [] then 1 else 0) + PL A.kleenePlus x := by
  simp only [PL_eq_tsum, star_Pk, ENNReal.tsum_add]
  congr 1
  by_cases hx : x = []
  · simp only [hx, and_true, if_true]
    exact tsum_ite_eq 1 (fun _ => (1 : ℝ≥0∞))
  · simp [hx]

/-- **`star`: `A* = 1 + A·A*`** at the limit -/
theorem star_PL_unfold (A : WFSA ι σ ℝ≥0∞) (x : List σ) :
    PL A.star x = (if x = [] then 1 else 0) + ((splits x).map fun p => PL A p.1 * PL A.star p.2).sum := by
  rw [star_PL]
  congr 1
  simp only [star_PL, mul_add, List.sum_map_add]
  rw [sum_splits_right_nil x (fun u => PL A u)]
  exact kleenePlus_PL A x

/-- **`star` at the limit is the sum over all factorisations into `≥ 0` factors** -/
theorem star_PL_series (A : WFSA ι σ ℝ≥0∞) (x : List σ) :
    PL A.star x = (if x = [] then 1 else 0) + ∑' m, convPow (PL A) m x := by
  rw [star_PL, kleenePlus_PL_series]

end Rational

/-! ### 5. `to_cfg` at the limit -/
section ToCfg
variable {σ : Type} [DecidableEq σ]

/-- backward weight of the state `i` at the limit: all paths from `i` spelling `x`, final weight included -/
noncomputable def BL {ι : Type} [DecidableEq ι] (A : WFSA ι σ ℝ≥0∞) (i : ι) (x : List σ) : ℝ≥0∞ :=
  (A.stop.map fun f => QL A i x f.1 * f.2).sum

/-- forward weight of the state `j` at the limit -/
noncomputable def FL {ι : Type} [DecidableEq ι] (A : WFSA ι σ ℝ≥0∞) (x : List σ) (j : ι) : ℝ≥0∞ :=
  (A.start.map fun s => s.2 * QL A s.1 x j).sum

/-- **`to_cfg(recursion="right")` preserves the weighted language at the limit**: the sum over ALL derivation
trees of `x` from `S` is the sum over ALL accepting paths spelling `x` -/
theorem toCfgRight_WL (A : WFSA σ σ ℝ≥0∞) (S : σ) (hS : S ∉ A.states)
    (hdisj : ∀ i ∈ A.states, i ∉ A.labels) (x : List σ) : WL (A.toCfgRight S) S x = PL A x := by
  unfold WL PL
  rw [← Monotone.iSup_nat_add (WN_monotone (A.toCfgRight S) S x) 2]
  exact iSup_congr fun n => toCfgRight_spec A S hS hdisj n x

/-- **`to_cfg(recursion="left")` preserves the weighted language at the limit** -/
theorem toCfgLeft_WL (A : WFSA σ σ ℝ≥0∞) (S : σ) (hS : S ∉ A.states)
    (hdisj : ∀ i ∈ A.states, i ∉ A.labels) (x : List σ) : WL (A.toCfgLeft S) S x = PL A x := by
  unfold WL PL
  rw [← Monotone.iSup_nat_add (WN_monotone (A.toCfgLeft S) S x) 2]
  exact iSup_congr fun n => toCfgLeft_spec A S hS hdisj n x

/-- the nonterminal of a state derives the backward weight (right recursion) -/
theorem toCfgRight_state_WL (A : WFSA σ σ ℝ≥0∞) (S : σ) (hS : S ∉ A.states)
    (hdisj : ∀ i ∈ A.states, i ∉ A.labels) (i : σ) (hi : i ∈ A.states) (x : List σ) :
    WL (A.toCfgRight S) i x = BL A i x := by
  unfold WL BL QL
  simp only [toCfgRight_state A S hS hdisj _ i hi x, list_range_sum]
  rw [← ENNReal.tsum_eq_iSup_nat,
    tsum_list_sumW A.stop (fun k f => Qk A k i x f.1 * f.2)]
  simp only [ENNReal.tsum_mul_right]

/-- the nonterminal of a state derives the forward weight (left recursion) -/
theorem toCfgLeft_state_WL (A : WFSA σ σ ℝ≥0∞) (S : σ) (hS : S ∉ A.states)
    (hdisj : ∀ i ∈ A.states, i ∉ A.labels) (j : σ) (hj : j ∈ A.states) (x : List σ) :
    WL (A.toCfgLeft S) j x = FL A x j := by
  unfold WL FL QL
  simp only [toCfgLeft_state A S hS hdisj _ j hj x, list_range_sum]
  rw [← ENNReal.tsum_eq_iSup_nat,
    tsum_list_sumW A.start (fun k s => s.2 * Qk A k s.1 x j)]
  simp only [ENNReal.tsum_mul_left]

end ToCfg

/-! ### 3. total weight: the sum over ALL strings of the sum over ALL accepting paths -/
section Total
variable {ι σ : Type} [DecidableEq ι] [DecidableEq σ]

/-- the machine with every label erased (its paths spelling `[]` are all the paths of `A`) -/
def WFSA.allEps {K : Type} (A : WFSA ι σ K) : WFSA ι σ K :=
  ⟨A.start, A.stop, A.arcs.map fun e => ⟨e.src, none, e.dst, e.w⟩⟩

/-- total weight of all accepting paths, whatever they spell -/
noncomputable def totalL (A : WFSA ι σ ℝ≥0∞) : ℝ≥0∞ := PL A.allEps []

/-- the backward weight of a state: all paths from `i` to a final state, whatever they spell -/
noncomputable def bwdL (A : WFSA ι σ ℝ≥0∞) (i : ι) : ℝ≥0∞ := BL A.allEps i []

/-- sums over the arcs of `allEps` leaving `i`, peeling nothing -/
theorem sum_allEps_src {K : Type} [CommSemiring K] (A : WFSA ι σ K) (i : ι) (x : List σ)
    (T : K → ι → List σ → K) :
    ((A.allEps.arcs.filter (fun e => e.src = i)).map fun e =>
        ((lpeel e.lbl x).map fun x' => T e.w e.dst x').sum).sum
      = ((A.arcs.filter (fun e => e.src = i)).map fun e => T e.w e.dst x).sum := by
  have harcs : A.allEps.arcs = A.arcs.map fun e => ⟨e.src, none, e.dst, e.w⟩ := rfl
  rw [sum_filter_ite, sum_filter_ite, harcs, List.map_map]
  apply congrArg
  apply List.map_congr_left
  intro e _
  simp [lpeel_none]

theorem allEps_Qk_succ {K : Type} [CommSemiring K] (A : WFSA ι σ K) (k : Nat) (i j : ι) :
    Qk A.allEps (k+1) i [] j
      = ((A.arcs.filter (fun e => e.src = i)).map fun e => e.w * Qk A.allEps k e.dst [] j).sum := by
  rw [Qk_succ]
  exact sum_allEps_src A i [] (fun w d x' => w * Qk A.allEps k d x' j)

theorem allEps_Bk_succ {K : Type} [CommSemiring K] (A : WFSA ι σ K) (k : Nat) (i : ι) :
    Bk A.allEps (k+1) i []
      = ((A.arcs.filter (fun e => e.src = i)).map fun e => e.w * Bk A.allEps k e.dst []).sum := by
  rw [Bk_succ]
  exact sum_allEps_src A i [] (fun w d x' => w * Bk A.allEps k d x')

/-- summing over the string that remains after peeling a label is summing over all strings -/
theorem tsum_lpeel (l : Option σ) (G : List σ → ℝ≥0∞) :
    ∑' x, ((lpeel l x).map G).sum = ∑' x, G x := by
  cases l with
  | none => simp [lpeel_none]
  | some a =>
    have hinj : Function.Injective (List.cons a) := fun _ _ h => (List.cons.inj h).2
    rw [← hinj.tsum_eq (f := fun x => ((lpeel (some a) x).map G).sum)]
    · simp [lpeel_some_cons]
    · intro x hx
      rw [Function.mem_support] at hx
      cases x with
      | nil => simp [lpeel_some_nil] at hx
      | cons b t =>
        by_cases hab : a = b
        · subst hab; exact ⟨t, rfl⟩
        · simp [lpeel_some_cons, hab] at hx

/-- summing `Qk` over all strings erases the labels -/
theorem tsum_Qk (A : WFSA ι σ ℝ≥0∞) (k : Nat) (i j : ι) :
    ∑' x, Qk A k i x j = Qk A.allEps k i [] j := by
  induction k generalizing i with
  | zero =>
    simp only [Qk_zero]
    by_cases h : i = j
    · simp only [h, true_and, and_self, if_true]
      exact tsum_ite_eq [] (fun _ => (1 : ℝ≥0∞))
    · simp [h]
  | succ k ih =>
    rw [allEps_Qk_succ]
    simp only [Qk_succ]
    rw [tsum_list_sumW (A.arcs.filter (fun e => e.src = i))
      (fun x e => ((lpeel e.lbl x).map fun x' => e.w * Qk A k e.dst x' j).sum)]
    apply congrArg
    apply List.map_congr_left
    intro e _
    rw [tsum_lpeel e.lbl (fun x' => e.w * Qk A k e.dst x' j), ENNReal.tsum_mul_left, ih]

theorem tsum_QL (A : WFSA ι σ ℝ≥0∞) (i j : ι) : ∑' x, QL A i x j = QL A.allEps i [] j := by
  unfold QL
  rw [ENNReal.tsum_comm]
  exact tsum_congr fun k => tsum_Qk A k i j

/-- **the sum of the string weights over ALL strings is the total weight of all accepting paths** -/
theorem tsum_PL (A : WFSA ι σ ℝ≥0∞) : ∑' x, PL A x = totalL A := by
  have hs : A.allEps.start = A.start := rfl
  have hf : A.allEps.stop = A.stop := rfl
  unfold totalL
  simp only [PL_eq_QL, hs, hf]
  rw [tsum_list_sumW A.start (fun x s => (A.stop.map fun f => s.2 * QL A s.1 x f.1 * f.2).sum)]
  apply congrArg
  apply List.map_congr_left
  intro s _
  rw [tsum_list_sumW A.stop (fun x f => s.2 * QL A s.1 x f.1 * f.2)]
  apply congrArg
  apply List.map_congr_left
  intro f _
  rw [ENNReal.tsum_mul_right, ENNReal.tsum_mul_left, tsum_QL]

theorem BL_eq_tsum (A : WFSA ι σ ℝ≥0∞) (i : ι) (x : List σ) : BL A i x = ∑' k, Bk A k i x := by
  unfold BL Bk QL
  rw [tsum_list_sumW A.stop (fun k f => Qk A k i x f.1 * f.2)]
  simp only [ENNReal.tsum_mul_right]

theorem PL_eq_BL (A : WFSA ι σ ℝ≥0∞) (x : List σ) : PL A x = (A.start.map fun s => s.2 * BL A s.1 x).sum := by
  rw [PL_eq_QL]
  apply congrArg
  apply List.map_congr_left
  intro s _
  unfold BL
  rw [← List.sum_map_mul_left]
  apply congrArg
  apply List.map_congr_left
  intro f _
  rw [mul_assoc]

/-- **one-step unfolding of the backward weights** -/
theorem BL_unfold (A : WFSA ι σ ℝ≥0∞) (i : ι) (x : List σ) :
    BL A i x = (if x = [] then wlook A.stop i else 0)
      + ((A.arcs.filter (fun e => e.src = i)).map fun e =>
          ((lpeel e.lbl x).map fun x' => e.w * BL A e.dst x').sum).sum := by
  simp only [BL_eq_tsum]
  rw [tsum_eq_zero_add' ENNReal.summable, Bk_zero]
  congr 1
  simp only [Bk_succ]
  rw [tsum_list_sumW (A.arcs.filter (fun e => e.src = i))
    (fun k e => ((lpeel e.lbl x).map fun x' => e.w * Bk A k e.dst x').sum)]
  apply congrArg
  apply List.map_congr_left
  intro e _
  rw [tsum_list_sumW (lpeel e.lbl x) (fun k x' => e.w * Bk A k e.dst x')]
  apply congrArg
  apply List.map_congr_left
  intro x' _
  rw [ENNReal.tsum_mul_left]

/-- **`total_weight` relative to the true backward weights is the sum over all strings** -/
theorem totalL_eq_totalWeight (A : WFSA ι σ ℝ≥0∞) : totalL A = A.totalWeight (bwdL A) := by
  rw [totalWeight_eq]
  unfold totalL bwdL
  exact PL_eq_BL A.allEps []

theorem tsum_PL_eq_totalWeight (A : WFSA ι σ ℝ≥0∞) : ∑' x, PL A x = A.totalWeight (bwdL A) := by
  rw [tsum_PL, totalL_eq_totalWeight]

/-- the true backward weights solve the backward system `b = stop + E·b` (what `WFSA.backward` solves) … -/
theorem bwdL_eq (A : WFSA ι σ ℝ≥0∞) (i : ι) :
    bwdL A i = wlook A.stop i + ((A.arcs.filter (fun e => e.src = i)).map fun e => e.w * bwdL A e.dst).sum := by
  unfold bwdL
  rw [BL_unfold A.allEps i [], if_pos rfl]
  congr 1
  exact sum_allEps_src A i [] (fun w d x' => w * BL A.allEps d x')

/-- … and they are its LEAST solution (even the least pre-fixed point) -/
theorem bwdL_least (A : WFSA ι σ ℝ≥0∞) (b : ι → ℝ≥0∞)
    (hb : ∀ i, wlook A.stop i + ((A.arcs.filter (fun e => e.src = i)).map fun e => e.w * b e.dst).sum ≤ b i)
    (i : ι) : bwdL A i ≤ b i := by
  have key : ∀ n i, ((List.range n).map fun k => Bk A.allEps k i []).sum ≤ b i := by
    intro n
    induction n with
    | zero => intro i; simp
    | succ n ih =>
      intro i
      rw [List.sum_range_succ', Bk_zero, if_pos rfl]
      refine le_trans (add_le_add (le_of_eq rfl) ?_) (hb i)
      simp only [Nat.succ_eq_add_one, allEps_Bk_succ]
      rw [sum_swap]
      apply List.sum_le_sum
      intro e _
      rw [List.sum_map_mul_left]
      exact mul_le_mul_right (ih e.dst) _
  unfold bwdL
  rw [BL_eq_tsum, ENNReal.tsum_eq_iSup_nat]
  refine iSup_le fun n => ?_
  rw [← list_range_sum]
  exact key n i

end Total

/-! ### non-vacuity: a machine with an ε cycle (weights in `ℝ≥0∞`) -/
section Examples

/-- one state, initial and final, with an ε self-loop of weight `1/2` and a self-loop reading `7` of weight `3` -/
noncomputable def exL : WFSA Nat Nat ℝ≥0∞ := ⟨[(0, 1)], [(0, 1)], [⟨0, none, 0, 2⁻¹⟩, ⟨0, some 7, 0, 3⟩]⟩

theorem exL_start : exL.start = [(0, 1)] := rfl
theorem exL_stop : exL.stop = [(0, 1)] := rfl
theorem exL_arcs : exL.arcs = [⟨0, none, 0, 2⁻¹⟩, ⟨0, some 7, 0, 3⟩] := rfl

theorem exL_eps (m : Nat) : Qk exL.epsPart m 0 [] 0 = (2⁻¹ : ℝ≥0∞) ^ m := by
  induction m with
  | zero => simp [Qk_zero]
  | succ m ih =>
    rw [Wfsa2Eps.Qk_eps_succ, exL_arcs]
    simp [ih, pow_succ, mul_comm]

/-- the closure of the ε loop is the geometric series `Σ (1/2)^m = 2` -/
theorem exL_star : exL.epsStarL 0 0 = 2 := by
  unfold WFSA.epsStarL
  simp only [exL_eps]
  exact ENNReal.tsum_geometric_two

theorem exL_QL_nil : QL exL 0 [] 0 = 2 := by rw [QL_nil]; exact exL_star

/-- infinitely many accepting paths spell `[]` (`k` turns of the ε loop, weight `(1/2)^k`): their sum is `2` -/
theorem exL_PL_nil : PL exL [] = 2 := by
  rw [PL_eq_QL, exL_start, exL_stop]
  simp [exL_QL_nil]

/-- … and `[7]` has weight `2 · 3 · 2` -/
theorem exL_PL_7 : PL exL [7] = 12 := by
  have h : QL exL 0 [7] 0 = 12 := by
    rw [QL_cons, exL_arcs]
    have h2 : (∑' m, Qk exL.epsPart m 0 [] 0) = 2 := exL_star
    simp [exL_QL_nil, h2]
    norm_num
  rw [PL_eq_QL, exL_start, exL_stop]
  simp [h]

/-- `WFSA.__call__` (ε-removal relative to the true closure, then the loop) returns the limit -/
example : forward (exL.epsremove exL.epsStarL fun _ => exL.states) [7] = 12 :=
  (epsremove_epsStarL exL [7]).2.1.trans exL_PL_7

/-- the hypotheses of the `to_cfg` theorems hold for `exL` with `S = 99`: all derivation trees of `[7]` weigh `12` -/
example : WL (exL.toCfgRight 99) 99 [7] = 12 :=
  (toCfgRight_WL exL 99 (by decide) (by decide) [7]).trans exL_PL_7

example : WL (exL.toCfgLeft 99) 99 [7] = 12 :=
  (toCfgLeft_WL exL 99 (by decide) (by decide) [7]).trans exL_PL_7

/-- the Cauchy product at the limit: `[7] = [] · [7] = [7] · []` -/
example : PL (exL.concat exL) [7] = 48 := by
  rw [concat_PL]
  simp [splits, exL_PL_nil, exL_PL_7]
  norm_num

/-- a divergent ε cycle: a self-loop of weight `1` -/
noncomputable def exD : WFSA Nat Nat ℝ≥0∞ := ⟨[(0, 1)], [(0, 1)], [⟨0, none, 0, 1⟩]⟩

theorem exD_eps (m : Nat) : Qk exD.epsPart m 0 [] 0 = 1 := by
  have harcs : exD.arcs = [⟨0, none, 0, 1⟩] := rfl
  induction m with
  | zero => simp [Qk_zero]
  | succ m ih =>
    rw [Wfsa2Eps.Qk_eps_succ, harcs]
    simp [ih]

/-- divergence is a value, not an error: the closure of the loop, and the weight of `[]`, are `∞`
(Python's `Float.star` would compute `1/(1-1)`) -/
theorem exD_PL_nil : exD.epsStarL 0 0 = ∞ ∧ PL exD [] = ∞ := by
  have h : exD.epsStarL 0 0 = ∞ := by
    unfold WFSA.epsStarL
    simp only [exD_eps]
    exact ENNReal.tsum_const_eq_top_of_ne_zero one_ne_zero
  refine ⟨h, ?_⟩
  have hs : exD.start = [(0, 1)] := rfl
  have hf : exD.stop = [(0, 1)] := rfl
  have hq : QL exD 0 [] 0 = ∞ := by rw [QL_nil]; exact h
  rw [PL_eq_QL, hs, hf]
  simp [hq]

/-- the stratified sums stay strictly below the limit `2` (here level `1`): the limit is a genuinely infinite sum -/
example : PN exL 1 [] = 1 + 2⁻¹ := by
  simp [PN_eq, Pk_eq, Qk, exL_start, exL_stop, exL_arcs, lsum, List.range_succ]

end Examples


end Genlm
