import GenlmModel.Model.EarleySpec
import GenlmModel.Proofs.Tab
import GenlmModel.Proofs.AddEos
import GenlmModel.Proofs.IncCky
/-!
# Declarative semantics of the Earley items: stabilisation of `WN` and the item recurrences

* `WN_stable` : for `Acyc G order` and `OrderBound G order M`, `WN G n X y = Wlim G M X y` for every
  `n ≥ |y| * M + 1` (the derivation sum is a finite sum);
* `Wlim_fixOK` : `Wlim` is a fixpoint of the grammar equations and vanishes at `[]` on body symbols (`FixOK`);
* for every table `f` with `FixOK G f`:
  `cval_eq_ival` (complete item = item with nothing left), `ival_diag` (PREDICT), `ival_step` (SCAN + ATTACH).
-/
set_option linter.unusedSectionVars false

namespace Genlm.EarleyAux
variable {σ K : Type} [DecidableEq σ] [CommSemiring K]
open IncCkyAux

/-! ### stabilisation -/

theorem Wbody_cons_nil (V : List σ) (f : σ → List σ → K) (s : σ) (ss : List σ) :
    Wbody V f (s :: ss) [] = Wsym V f s [] * Wbody V f ss [] := by
  simp [Wbody, splits]

/-- no body symbol derives the empty string, at any level -/
theorem WN_nil_body (G : CFG σ K) (h : NullOK G) :
    ∀ n, ∀ r ∈ G.rules, ∀ s ∈ r.body, Wsym G.V (WN G n) s [] = 0 := by
  intro n
  induction n with
  | zero =>
    intro r _ s _
    unfold Wsym; split
    · simp
    · rfl
  | succ n ih =>
    intro r hr s hs
    unfold Wsym; split
    · simp
    · simp only [WN, lsum_eq_sum]
      apply sum_map_zero
      intro r' hr'
      obtain ⟨hr', hh⟩ := List.mem_filter.mp hr'
      have hh : r'.head = s := by simpa using hh
      match hb : r'.body with
      | [] =>
        exfalso
        obtain ⟨h1, h2⟩ := h r' hr' hb
        exact h2 r hr (by rw [← h1, hh]; exact hs)
      | t :: tt =>
        rw [Wbody_cons_nil, ih r' hr' t (by rw [hb]; simp), zero_mul, mul_zero]

/-- a body of length ≥ 2 whose symbols do not derive `[]` only consults the table on strictly shorter strings -/
theorem Wbody_congr_short (V : List σ) (f g : σ → List σ → K) (body y : List σ)
    (hf : ∀ s ∈ body, Wsym V f s [] = 0) (hg : ∀ s ∈ body, Wsym V g s [] = 0) (hlen : 2 ≤ body.length)
    (h : ∀ s ∈ body, s ∉ V → ∀ u, u ≠ [] → u.length < y.length → f s u = g s u) :
    Wbody V f body y = Wbody V g body y := by
  match body, hlen with
  | s :: t :: tt, _ =>
    rw [Wbody.eq_2, Wbody.eq_2 V g]
    congr 1
    apply List.map_congr_left
    intro p hp
    have hpy : p.1 ++ p.2 = y := (mem_splits y p.1 p.2).mp hp
    have hlen : p.1.length + p.2.length = y.length := by rw [← hpy, List.length_append]
    by_cases h1 : p.1 = []
    · rw [h1, hf s (by simp), hg s (by simp), zero_mul, zero_mul]
    by_cases h2 : p.2 = []
    · rw [h2, Wbody_cons_nil, Wbody_cons_nil, hf t (by simp), hg t (by simp), zero_mul, zero_mul, mul_zero, mul_zero]
    have hl1 : 0 < p.1.length := List.length_pos_iff.mpr h1
    have hl2 : 0 < p.2.length := List.length_pos_iff.mpr h2
    have hs : Wsym V f s p.1 = Wsym V g s p.1 := by
      unfold Wsym; split
      · rfl
      · next hV => exact h s (by simp) hV p.1 h1 (by omega)
    rw [hs]
    congr 1
    apply Wbody_congr_on (fun u => u.length < y.length)
    · intro u v huv
      simp only [List.length_append] at huv
      constructor <;> omega
    · intro s' hs' u hu
      by_cases hu0 : u = []
      · rw [hu0, hf s' (by simp [List.mem_cons.mp hs']), hg s' (by simp [List.mem_cons.mp hs'])]
      · unfold Wsym; split
        · rfl
        · next hV => exact h s' (by simp [List.mem_cons.mp hs']) hV u hu0 hu
    · show p.2.length < y.length
      omega

/-- from level `n` on, the value at `(X, y)` does not change -/
def StableFrom (G : CFG σ K) (n : Nat) (X : σ) (y : List σ) : Prop := ∀ m, n ≤ m → WN G m X y = WN G n X y

theorem StableFrom.mono {G : CFG σ K} {n n' : Nat} {X : σ} {y : List σ} (h : StableFrom G n X y) (hn : n ≤ n') :
    StableFrom G n' X y := by
  intro m hm
  rw [h m (by omega), h n' hn]

theorem stable_not_head (G : CFG σ K) (X : σ) (y : List σ) (hX : X ∉ heads G) (n : Nat) : StableFrom G n X y := by
  intro m _
  rw [WN_eq_zero_of_not_head G m X y hX, WN_eq_zero_of_not_head G n X y hX]

theorem stable_nil (G : CFG σ K) (h : NullOK G) (X : σ) : StableFrom G 1 X [] := by
  intro m hm
  obtain ⟨m', rfl⟩ : ∃ m', m = m' + 1 := ⟨m - 1, by omega⟩
  show WN G (m' + 1) X [] = WN G (0 + 1) X []
  simp only [WN.eq_2, lsum_eq_sum]
  congr 1
  apply List.map_congr_left
  intro r hr
  obtain ⟨hr, _⟩ := List.mem_filter.mp hr
  congr 1
  match hb : r.body with
  | [] => rfl
  | t :: tt =>
    rw [Wbody_cons_nil, Wbody_cons_nil, WN_nil_body G h m' r hr t (by rw [hb]; simp),
      WN_nil_body G h 0 r hr t (by rw [hb]; simp), zero_mul, zero_mul]

theorem stable_main (G : CFG σ K) (order : σ → Nat) (M : Nat) (hA : Acyc G order) (hM : OrderBound G order M) :
    ∀ L o, ∀ X y, y.length = L + 1 → X ∈ heads G → order X = o → StableFrom G (L * M + o + 1) X y := by
  intro L
  induction L using Nat.strong_induction_on with
  | _ L ihL =>
  intro o
  induction o using Nat.strong_induction_on with
  | _ o iho =>
  intro X y hy hX ho m hm
  obtain ⟨m', rfl⟩ : ∃ m', m = m' + 1 := ⟨m - 1, by omega⟩
  have hm' : L * M + o ≤ m' := by omega
  simp only [WN, lsum_eq_sum]
  congr 1
  apply List.map_congr_left
  intro r hr
  obtain ⟨hr, hrX⟩ := List.mem_filter.mp hr
  have hrX : r.head = X := by simpa using hrX
  congr 1
  have hordM : ∀ s, s ∈ heads G → order s < M := by
    intro s hs
    obtain ⟨r', hr', rfl⟩ := (mem_heads G s).mp hs
    exact hM r' hr'
  -- shorter strings
  have ka : ∀ s, s ∉ G.V → ∀ u, u ≠ [] → u.length < y.length →
      WN G m' s u = WN G (L * M + o) s u := by
    intro s _ u hu0 hul
    by_cases hs : s ∈ heads G
    · obtain ⟨L', hL'⟩ : ∃ L', u.length = L' + 1 :=
        ⟨u.length - 1, by have := List.length_pos_iff.mpr hu0; omega⟩
      have hLL : L' < L := by omega
      have hst := ihL L' hLL (order s) s u hL' hs rfl
      have h1 : (L' + 1) * M ≤ L * M := Nat.mul_le_mul_right M hLL
      have h2 : (L' + 1) * M = L' * M + M := Nat.succ_mul L' M
      have h3 := hordM s hs
      rw [hst m' (by omega), hst (L * M + o) (by omega)]
    · rw [WN_eq_zero_of_not_head G _ s u hs, WN_eq_zero_of_not_head G _ s u hs]
  match hb : r.body with
  | [] => rfl
  | [s] =>
    rw [Wbody_singleton, Wbody_singleton]
    unfold Wsym; split
    · rfl
    · next hV =>
      by_cases hs : s ∈ heads G
      · have hlt : order s < o := by
          rw [← ho, ← hrX]
          exact hA.topo r hr (by rw [hb]; rfl) s (by rw [hb]; simp) hV
        have hst := iho (order s) hlt s y hy hs rfl
        rw [hst m' (by omega), hst (L * M + o) (by omega)]
      · rw [WN_eq_zero_of_not_head G _ s y hs, WN_eq_zero_of_not_head G _ s y hs]
  | s :: t :: tt =>
    apply Wbody_congr_short
    · intro s' hs'; exact WN_nil_body G hA.nullOK m' r hr s' (by rw [hb]; exact hs')
    · intro s' hs'; exact WN_nil_body G hA.nullOK _ r hr s' (by rw [hb]; exact hs')
    · simp
    · intro s' _ hV u hu0 hul
      exact ka s' hV u hu0 hul

end Genlm.EarleyAux

namespace Genlm
variable {σ K : Type} [DecidableEq σ] [CommSemiring K]
open IncCkyAux EarleyAux

/-- **the derivation sum of an acyclic grammar is a finite sum**: all levels `n ≥ |y| * M + 1` agree -/
theorem WN_stable (G : CFG σ K) (order : σ → Nat) (M : Nat) (hA : Acyc G order) (hM : OrderBound G order M)
    (X : σ) (y : List σ) (n : Nat) (hn : y.length * M + 1 ≤ n) : WN G n X y = Wlim G M X y := by
  unfold Wlim
  match y with
  | [] =>
    have e : ([] : List σ).length * M + 1 = 1 := by simp
    rw [e]
    exact stable_nil G hA.nullOK X n (by simpa using hn)
  | a :: y' =>
    by_cases hX : X ∈ heads G
    · have hlt : order X < M := by
        obtain ⟨r', hr', rfl⟩ := (mem_heads G X).mp hX
        exact hM r' hr'
      have hst := stable_main G order M hA hM y'.length (order X) X (a :: y') rfl hX rfl
      have h2 : (y'.length + 1) * M = y'.length * M + M := Nat.succ_mul _ M
      simp only [List.length_cons] at hn ⊢
      rw [hst n (by omega), hst ((y'.length + 1) * M + 1) (by omega)]
    · rw [WN_eq_zero_of_not_head G _ X _ hX, WN_eq_zero_of_not_head G _ X _ hX]

namespace EarleyAux

/-- what the Earley invariants need to know about the table of nonterminal weights -/
structure FixOK (G : CFG σ K) (f : σ → List σ → K) : Prop where
  fix : ∀ X y, f X y = ((G.rules.filter (fun r => r.head = X)).map fun r => r.w * Wbody G.V f r.body y).sum
  nil : ∀ r ∈ G.rules, ∀ s ∈ r.body, Wsym G.V f s [] = 0

theorem Wlim_fixOK (G : CFG σ K) (order : σ → Nat) (M : Nat) (hA : Acyc G order) (hM : OrderBound G order M) :
    FixOK G (Wlim G M) := by
  constructor
  · intro X y
    rw [← WN_stable G order M hA hM X y (y.length * M + 1 + 1) (by omega)]
    simp only [WN.eq_2, lsum_eq_sum]
    congr 1
    apply List.map_congr_left
    intro r _
    congr 1
    apply Wbody_congr_on (fun u => u.length ≤ y.length)
    · intro u v huv
      simp only [List.length_append] at huv
      constructor <;> omega
    · intro s _ u hu
      unfold Wsym; split
      · rfl
      · apply WN_stable G order M hA hM
        have := Nat.mul_le_mul_right M hu
        omega
    · exact Nat.le_refl _
  · intro r hr s hs
    have := WN_nil_body G hA.nullOK 1 r hr s hs
    unfold Wsym at this ⊢
    simpa [Wlim] using this

end EarleyAux
end Genlm

namespace Genlm.EarleyAux
variable {σ K : Type} [DecidableEq σ] [CommSemiring K]
open IncCkyAux

/-! ### slices -/

theorem seg_length (x : List σ) (I k : Nat) (hk : k ≤ x.length) : (seg x I k).length = k - I := by
  simp [seg, Nat.min_eq_left hk]

theorem seg_self (x : List σ) (I : Nat) : seg x I I = [] := by
  simp [seg]

theorem seg_zero_length (x : List σ) : seg x 0 x.length = x := by
  simp [seg]

theorem seg_succ (x : List σ) (k : Nat) (a : σ) (ha : x[k]? = some a) : seg x k (k + 1) = [a] := by
  have hk : k < x.length := by
    rcases Nat.lt_or_ge k x.length with h | h
    · exact h
    · rw [List.getElem?_eq_none h] at ha; cases ha
  have e : x[k] = a := by
    rw [List.getElem?_eq_getElem hk] at ha; exact Option.some.inj ha
  unfold seg
  rw [List.drop_take]
  simp only [Nat.add_sub_cancel_left]
  rw [List.drop_eq_getElem_cons hk, e]
  simp

theorem splits_seg (x : List σ) (I k : Nat) (hIk : I ≤ k) (hk : k ≤ x.length) :
    splits (seg x I k) = (List.range' I (k + 1 - I)).map fun J => (seg x I J, seg x J k) := by
  rw [splits_eq_range, seg_length x I k hk]
  apply List.ext_getElem
  · simp; omega
  · intro t h1 h2
    simp only [List.length_map, List.length_range] at h1
    simp only [List.getElem_map, List.getElem_range, List.getElem_range', Nat.one_mul, Prod.mk.injEq]
    constructor
    · unfold seg
      rw [List.take_drop, List.take_take, Nat.min_eq_left (by omega)]
    · unfold seg
      rw [List.drop_drop]

/-! ### linearity of `rawSum` -/

theorem rawSum_congr_rule (G : CFG σ K) (X : σ) (E E' : List σ × List σ → K)
    (h : ∀ r ∈ G.rules, r.head = X → ((splits r.body).map E).sum = ((splits r.body).map E').sum) :
    rawSum G X E = rawSum G X E' := by
  simp only [rawSum, lsum_eq_sum]
  apply sum_congr; intro r hr
  split
  · next hX => rw [h r hr hX]
  · rfl

theorem rawSum_congr (G : CFG σ K) (X : σ) (E E' : List σ × List σ → K)
    (h : ∀ r ∈ G.rules, r.head = X → ∀ p ∈ splits r.body, E p = E' p) : rawSum G X E = rawSum G X E' :=
  rawSum_congr_rule G X E E' (fun r hr hX => sum_congr _ _ _ (h r hr hX))

theorem rawSum_zero (G : CFG σ K) (X : σ) : rawSum G X (fun _ => 0) = 0 := by
  simp only [rawSum, lsum_eq_sum]
  apply sum_map_zero; intro r _
  split
  · rw [sum_map_zero _ _ (fun _ _ => rfl), mul_zero]
  · rfl

theorem rawSum_add (G : CFG σ K) (X : σ) (E E' : List σ × List σ → K) :
    rawSum G X (fun p => E p + E' p) = rawSum G X E + rawSum G X E' := by
  simp only [rawSum, lsum_eq_sum]
  rw [← List.sum_map_add]
  apply sum_congr; intro r _
  split
  · rw [List.sum_map_add, mul_add]
  · rw [add_zero]

theorem rawSum_sum {ι : Type} (G : CFG σ K) (X : σ) (l : List ι) (E : ι → List σ × List σ → K) :
    rawSum G X (fun p => (l.map fun i => E i p).sum) = (l.map fun i => rawSum G X (E i)).sum := by
  induction l with
  | nil => simpa using rawSum_zero G X
  | cons i l ih =>
    simp only [List.map_cons, List.sum_cons]
    rw [rawSum_add, ih]

theorem rawSum_mul_right (G : CFG σ K) (X : σ) (E : List σ × List σ → K) (c : K) :
    rawSum G X (fun p => E p * c) = rawSum G X E * c := by
  simp only [rawSum, lsum_eq_sum]
  rw [sum_mul_right]
  apply sum_congr; intro r _
  split
  · rw [← sum_mul_right, mul_assoc]
  · rw [zero_mul]

theorem rawSum_ite (G : CFG σ K) (X : σ) (E : List σ × List σ → K) (P : Prop) [Decidable P] :
    rawSum G X (fun p => if P then E p else 0) = if P then rawSum G X E else 0 := by
  by_cases h : P
  · simp only [if_pos h]
  · simp only [if_neg h]; exact rawSum_zero G X

/-! ### complete items and predicted items -/

theorem sum_splits_snd_nil (l : List σ) (F : List σ → K) :
    ((splits l).map fun p => if p.2 = [] then F p.1 else 0).sum = F l := by
  rw [← sum_splits_right_nil l F]
  apply sum_congr; intro p _
  split <;> simp

theorem sum_splits_fst_nil (l : List σ) (F : List σ → K) :
    ((splits l).map fun p => if p.1 = [] then F p.2 else 0).sum = F l := by
  cases l with
  | nil => simp [splits]
  | cons b t =>
    simp only [splits, List.map_cons, List.sum_cons, List.map_map, Function.comp_def]
    rw [sum_map_zero _ _ (fun p _ => by simp), add_zero]
    simp

/-- associativity of `splits`: cutting the right part again = cutting the left part again -/
theorem splits_assoc {α : Type} (x : List α) (F : List α → List α → List α → K) :
    ((splits x).map fun p => ((splits p.2).map fun q => F p.1 q.1 q.2).sum).sum
      = ((splits x).map fun p => ((splits p.1).map fun q => F q.1 q.2 p.2).sum).sum := by
  induction x generalizing F with
  | nil => simp [splits]
  | cons a xs ih =>
    simp only [splits, List.map_cons, List.sum_cons, List.map_map, Function.comp_def, List.map_nil,
      List.sum_nil, add_zero]
    rw [List.sum_map_add, ih (fun u v w => F (a :: u) v w)]
    rw [add_assoc]

theorem Wbody_append (V : List σ) (f : σ → List σ → K) (α β : List σ) (x : List σ) :
    Wbody V f (α ++ β) x = ((splits x).map fun p => Wbody V f α p.1 * Wbody V f β p.2).sum := by
  induction α generalizing x with
  | nil =>
    simp only [List.nil_append, Wbody]
    rw [← sum_splits_fst_nil x (fun v => Wbody V f β v)]
    apply sum_congr; intro p _
    split <;> simp
  | cons s ss ih =>
    simp only [List.cons_append, Wbody, lsum_eq_sum]
    have h1 : ∀ p ∈ splits x, Wsym V f s p.1 * Wbody V f (ss ++ β) p.2
        = ((splits p.2).map fun q => Wsym V f s p.1 * Wbody V f ss q.1 * Wbody V f β q.2).sum := by
      intro p _
      rw [ih, sum_mul_left]
      apply sum_congr; intro q _; ring
    rw [List.map_congr_left h1, splits_assoc x (fun u v w => Wsym V f s u * Wbody V f ss v * Wbody V f β w)]
    apply sum_congr; intro p _
    rw [sum_mul_right]

/-- a complete item is an item with nothing left to recognise -/
theorem cval_eq_ival (G : CFG σ K) (f : σ → List σ → K) (hf : FixOK G f) (x : List σ) (I J : Nat) (X : σ) :
    cval f x I J X = ival G f x I J X [] := by
  unfold cval ival dotSum rawSum
  rw [hf.fix, sum_filter_ite, lsum_eq_sum]
  apply sum_congr; intro r _
  simp only [decide_eq_true_eq, lsum_eq_sum]
  rw [sum_splits_snd_nil r.body (fun α => Wbody G.V f α (seg x I J))]

theorem Wbody_nil_of (V : List σ) (f : σ → List σ → K) (α : List σ) (h : ∀ s ∈ α, Wsym V f s [] = 0) :
    Wbody V f α [] = if α = [] then 1 else 0 := by
  match α with
  | [] => simp [Wbody]
  | s :: ss => rw [Wbody_cons_nil, h s (by simp), zero_mul]; simp

/-- PREDICT: in its own column the item `(J, X, β)` holds the weight of the rules `X → β` -/
theorem ival_diag (G : CFG σ K) (f : σ → List σ → K) (hf : FixOK G f) (x : List σ) (J : Nat) (X : σ) (β : List σ) :
    ival G f x J J X β = ruleSum G X β := by
  unfold ival dotSum rawSum ruleSum
  rw [seg_self, lsum_eq_sum, lsum_eq_sum]
  apply sum_congr; intro r hr
  have hin : ((splits r.body).map fun p => if p.2 = β then Wbody G.V f p.1 [] else 0).sum
      = ((splits r.body).map fun p => if p.1 = [] then (if p.2 = β then (1 : K) else 0) else 0).sum := by
    apply sum_congr; intro p hp
    have hpb : p.1 ++ p.2 = r.body := (mem_splits r.body p.1 p.2).mp hp
    rw [Wbody_nil_of G.V f p.1 (fun s hs => hf.nil r hr s (by rw [← hpb]; simp [hs]))]
    by_cases h1 : p.1 = [] <;> by_cases h2 : p.2 = β <;> simp [h1, h2]
  rw [lsum_eq_sum, hin, sum_splits_fst_nil r.body (fun v => if v = β then (1 : K) else 0)]
  by_cases h1 : r.head = X <;> by_cases h2 : r.body = β <;> simp [h1, h2]

end Genlm.EarleyAux

namespace Genlm.EarleyAux
variable {σ K : Type} [DecidableEq σ] [CommSemiring K]
open IncCkyAux

/-! ### moving the dot: SCAN and ATTACH -/

theorem sum_ite_eq_nodup' {α : Type} [DecidableEq α] (l : List α) (hl : l.Nodup) (a : α) (ha : a ∈ l) (F : α → K) :
    (l.map fun w => if a = w then F w else 0).sum = F a := by
  rw [← sum_ite_eq_nodup l hl a ha F]
  apply sum_congr; intro w _
  by_cases h : a = w
  · simp [h]
  · have : ¬ w = a := fun e => h e.symm
    simp [h, this]

/-- the summand of the split `(α, s :: β)` after the dot has moved over `s` -/
def shiftT (β : List σ) (T : σ → List σ → K) (p : List σ × List σ) : K :=
  match p.2 with
  | s :: β' => if β' = β then T s p.1 else 0
  | [] => 0

/-- re-indexing the splits `(α', β)` with `α' = α ++ [s]` by the splits `(α, s :: β)` -/
theorem sum_splits_shift (body β : List σ) (F : List σ → K) :
    ((splits body).map fun p => if p.2 = β then F p.1 else 0).sum =
      (if body = β then F [] else 0) + ((splits body).map (shiftT β fun s α => F (α ++ [s]))).sum := by
  induction body generalizing F with
  | nil => simp [splits, shiftT]
  | cons b body ih =>
    simp only [splits, List.map_cons, List.sum_cons, List.map_map, Function.comp_def]
    rw [ih (fun α => F (b :: α))]
    have e1 : shiftT β (fun s α => F (α ++ [s])) ([], b :: body) = if body = β then F [b] else 0 := by
      simp [shiftT]
    have e2 : ∀ p : List σ × List σ, shiftT β (fun s α => F (α ++ [s])) (b :: p.1, p.2)
        = shiftT β (fun s α => F (b :: α ++ [s])) p := by
      intro p
      unfold shiftT
      cases p.2 <;> simp
    simp only [e1, e2]
    simp only [List.cons_append]

/-- the input: token `a` at position `k`, spans starting at `I ≤ k`;
`nts` enumerates the nonterminals that head a rule -/
structure StepCtx (G : CFG σ K) (x : List σ) (k : Nat) (a : σ) (nts : List σ) : Prop where
  ha : x[k]? = some a
  nodup : nts.Nodup
  heads : ∀ r ∈ G.rules, r.head ∈ nts
  nt : ∀ Y ∈ nts, Y ∉ G.V

theorem f_zero_of_not_nts (G : CFG σ K) (f : σ → List σ → K) (hf : FixOK G f) (nts : List σ)
    (hh : ∀ r ∈ G.rules, r.head ∈ nts) (s : σ) (hs : s ∉ nts) (v : List σ) : f s v = 0 := by
  rw [hf.fix]
  have : G.rules.filter (fun r => r.head = s) = [] := by
    rw [List.filter_eq_nil_iff]
    intro r hr
    simp only [decide_eq_true_eq]
    exact fun e => hs (e ▸ hh r hr)
  simp [this]

/-- the weight of `α s` over `x[I:k+1]`, split at the position `J` where the last symbol `s` starts -/
theorem Wbody_snoc_seg (G : CFG σ K) (f : σ → List σ → K) (hf : FixOK G f) (x : List σ) (k : Nat) (a : σ)
    (nts : List σ) (hc : StepCtx G x k a nts) (I : Nat) (hIk : I ≤ k) (α : List σ) (s : σ)
    (hs0 : Wsym G.V f s [] = 0) :
    Wbody G.V f (α ++ [s]) (seg x I (k + 1)) =
      (if a ∈ G.V then (if s = a then Wbody G.V f α (seg x I k) else 0) else 0) +
      ((List.range' I (k + 1 - I)).map fun J => (nts.map fun Y =>
        if s = Y then Wbody G.V f α (seg x I J) * f Y (seg x J (k + 1)) else 0).sum).sum := by
  have hk : k < x.length := by
    rcases Nat.lt_or_ge k x.length with h | h
    · exact h
    · have := hc.ha; rw [List.getElem?_eq_none h] at this; cases this
  rw [Wbody_append, splits_seg x I (k + 1) (by omega) (by omega), List.map_map]
  simp only [Function.comp_def, Wbody_singleton]
  have hr : List.range' I (k + 1 + 1 - I) = List.range' I (k + 1 - I) ++ [k + 1] := by
    rw [show k + 1 + 1 - I = (k + 1 - I) + 1 by omega, List.range'_concat]
    congr 2; omega
  rw [hr, List.map_append, List.sum_append]
  simp only [List.map_cons, List.map_nil, List.sum_cons, List.sum_nil, seg_self, hs0, mul_zero, add_zero]
  by_cases hsV : s ∈ G.V
  · -- a terminal: only `J = k` and `s = a`
    have hz : ((List.range' I (k + 1 - I)).map fun J => (nts.map fun Y =>
        if s = Y then Wbody G.V f α (seg x I J) * f Y (seg x J (k + 1)) else 0).sum).sum = 0 := by
      apply sum_map_zero; intro J _
      apply sum_map_zero; intro Y hY
      rw [if_neg]; intro e; exact hc.nt Y hY (e ▸ hsV)
    rw [hz, add_zero]
    have hr2 : List.range' I (k + 1 - I) = List.range' I (k - I) ++ [k] := by
      rw [show k + 1 - I = (k - I) + 1 by omega, List.range'_concat]
      congr 2; omega
    rw [hr2, List.map_append, List.sum_append]
    simp only [List.map_cons, List.map_nil, List.sum_cons, List.sum_nil, add_zero]
    rw [sum_map_zero, zero_add, seg_succ x k a hc.ha]
    · unfold Wsym
      rw [if_pos hsV]
      by_cases hsa : s = a
      · subst hsa; simp [hsV]
      · have : ¬ ([a] = [s]) := by simpa using fun e : a = s => hsa e.symm
        simp [hsa, this]
    · intro J hJ
      have hJ' := List.mem_range'_1.mp hJ
      unfold Wsym
      rw [if_pos hsV, if_neg, mul_zero]
      intro e
      have := congrArg List.length e
      rw [seg_length x J (k + 1) (by omega)] at this
      simp at this; omega
  · -- a nonterminal
    have hsa : ¬ (a ∈ G.V ∧ s = a) := fun h => hsV (h.2 ▸ h.1)
    have h0 : (if a ∈ G.V then (if s = a then Wbody G.V f α (seg x I k) else 0) else 0) = 0 := by
      by_cases h1 : a ∈ G.V
      · rw [if_pos h1, if_neg (fun e => hsa ⟨h1, e⟩)]
      · rw [if_neg h1]
    rw [h0, zero_add]
    apply sum_congr; intro J _
    unfold Wsym
    rw [if_neg hsV]
    by_cases hsn : s ∈ nts
    · rw [sum_ite_eq_nodup' nts hc.nodup s hsn]
    · rw [f_zero_of_not_nts G f hf nts hc.heads s hsn, mul_zero, sum_map_zero]
      intro Y hY
      rw [if_neg]; intro e; exact hsn (e ▸ hY)

end Genlm.EarleyAux

namespace Genlm.EarleyAux
variable {σ K : Type} [DecidableEq σ] [CommSemiring K]
open IncCkyAux

/-- **SCAN + ATTACH**: the value of the item `(I, X, β)` in column `k+1` from the items `(I, X, s :: β)` of the
columns `I ≤ J ≤ k` and the complete items `(J, Y)` of column `k+1`.  (For `β = []` this is the recurrence
of the complete items, by `cval_eq_ival`.) -/
theorem ival_step (G : CFG σ K) (f : σ → List σ → K) (hf : FixOK G f) (x : List σ) (k : Nat) (a : σ)
    (nts : List σ) (hc : StepCtx G x k a nts) (I : Nat) (hIk : I ≤ k) (X : σ) (β : List σ) :
    ival G f x I (k + 1) X β =
      (if a ∈ G.V then ival G f x I k X (a :: β) else 0) +
      ((List.range' I (k + 1 - I)).map fun J => (nts.map fun Y =>
        ival G f x I J X (Y :: β) * cval f x J (k + 1) Y).sum).sum := by
  have hk : k < x.length := by
    rcases Nat.lt_or_ge k x.length with h | h
    · exact h
    · have := hc.ha; rw [List.getElem?_eq_none h] at this; cases this
  have hy : seg x I (k + 1) ≠ [] := by
    intro e
    have := congrArg List.length e
    rw [seg_length x I (k + 1) (by omega)] at this
    simp at this; omega
  unfold ival dotSum cval
  have hR : rawSum G X (fun p =>
        (if a ∈ G.V then (if p.2 = a :: β then Wbody G.V f p.1 (seg x I k) else 0) else 0) +
        ((List.range' I (k + 1 - I)).map fun J => (nts.map fun Y =>
          (if p.2 = Y :: β then Wbody G.V f p.1 (seg x I J) else 0) * f Y (seg x J (k + 1))).sum).sum)
      = (if a ∈ G.V then rawSum G X (fun p => if p.2 = a :: β then Wbody G.V f p.1 (seg x I k) else 0) else 0) +
        ((List.range' I (k + 1 - I)).map fun J => (nts.map fun Y =>
          rawSum G X (fun p => if p.2 = Y :: β then Wbody G.V f p.1 (seg x I J) else 0)
            * f Y (seg x J (k + 1))).sum).sum := by
    rw [rawSum_add, rawSum_ite]
    simp only [rawSum_sum, rawSum_mul_right]
  rw [← hR]
  apply rawSum_congr_rule
  intro r hr _
  rw [sum_splits_shift r.body β (fun α => Wbody G.V f α (seg x I (k + 1)))]
  have h0 : (if r.body = β then Wbody G.V f [] (seg x I (k + 1)) else 0) = 0 := by
    simp [Wbody, hy]
  rw [h0, zero_add]
  apply sum_congr
  rintro ⟨α, γ⟩ hp
  have hpb : α ++ γ = r.body := (mem_splits r.body α γ).mp hp
  unfold shiftT
  cases γ with
  | nil => simp
  | cons s β' =>
    simp only
    by_cases hβ : β' = β
    · subst hβ
      rw [if_pos rfl, Wbody_snoc_seg G f hf x k a nts hc I hIk α s
        (hf.nil r hr s (by rw [← hpb]; simp))]
      simp only [List.cons.injEq, and_true, ite_mul, zero_mul]
    · rw [if_neg hβ]
      simp [hβ]

end Genlm.EarleyAux

/-! ### non-vacuity: a grammar with left recursion (`E → E + T`) and a unary chain (`S → E → T`) -/
namespace Genlm.EarleyAux.Examples

/-- `S = 0 → E`, `E = 1 → E + T | T`, `T = 2 → a`; terminals `+ = 10`, `a = 11` -/
def exG : CFG ℕ ℕ := ⟨0, [10, 11], [⟨1, 0, [1]⟩, ⟨2, 1, [1, 10, 2]⟩, ⟨3, 1, [2]⟩, ⟨5, 2, [11]⟩]⟩
def exOrd : ℕ → ℕ := fun X => if X = 0 then 2 else if X = 1 then 1 else 0

example : Acyc exG exOrd := by decide
example : OrderBound exG exOrd 3 := by decide
/-- a cyclic numbering is rejected -/
example : ¬ TopoOrder exG (fun _ => 0) := by decide
example : Wlim exG 3 0 [11, 10, 11] = 150 := by decide
/-- the item `(0, E, [T])` (after `a +`) in column 2 of `a + a` -/
example : ival exG (Wlim exG 3) [11, 10, 11] 0 2 1 [2] = 30 := by decide
example : cval (Wlim exG 3) [11, 10, 11] 0 3 1 = 150 := by decide

end Genlm.EarleyAux.Examples
