import GenlmModel.Proofs.ComposeCore

/-! ε on the input tape of the transducer (helpers of `Proofs/Compose.lean`, in `Genlm.ComposeAux`).

The special rules `a → ε a` and `Other(S) → Other(S) ε` decompose an accepting path uniquely into
*blocks* (a run of ε-input arcs followed by the arc reading the next input symbol) and a *trailing* run
of ε-input arcs:

* `blockR T m a` — at most `m` ε-input arcs, then an arc reading `a`: exactly the triples `(i, a, j)` of
  the composed grammar at level `m + 1` (`block_H`);
* `trailR T m` — at most `m` ε-input arcs; `blocksR T m x` — the blocks of the input string `x`
  followed by a trailing run;
* `pathsLe_le_blocks`, `blocks_le_pathsLe` — the paths with at most `m` arcs are below the block
  decomposition with runs `≤ m`, which is below the paths with at most `(m+1)·|x| + m` arcs;
* `eps_lower`, `eps_upper` — the two bounds at the start symbol.  -/
namespace Genlm
set_option linter.unusedSectionVars false
open UnfoldAux WfsaAux FstAux

namespace ComposeAux
section EpsT
variable {ι σ K : Type} [DecidableEq ι] [DecidableEq σ] [CommSemiring K]
variable (T : FST ι σ K)

/-- at most `m` arcs reading ε, then an arc reading `a` -/
def blockR : Nat → σ → ι → List σ → ι → K
  | 0, a => arcR T (some a)
  | m+1, a => fun i y j =>
      arcR T (some a) i y j + rcomp T.states (arcR T none) (blockR m a) i y j

/-- at most `m` arcs reading ε -/
def trailR : Nat → ι → List σ → ι → K
  | 0 => rid
  | m+1 => fun i y j => rid i y j + rcomp T.states (trailR m) (arcR T none) i y j

/-- the paths with at most `m` arcs reading `x` -/
def pathsLe (m : Nat) (x : List σ) : ι → List σ → ι → K := fun i y j =>
  ((List.range (m+1)).map fun k => Tk T k i x y j).sum

/-- the blocks of `x` (runs of at most `m` ε-arcs before each symbol), then a trailing run -/
def blocksR (m : Nat) (x : List σ) : ι → List σ → ι → K :=
  rcomp T.states (seqR T.states (blockR T m) x) (trailR T m)

theorem rcomp_sum_right {α : Type} (S : List ι) (A : ι → List σ → ι → K) (L : List α)
    (B : α → ι → List σ → ι → K) (i j : ι) (y : List σ) :
    rcomp S A (fun i y j => (L.map fun k => B k i y j).sum) i y j
      = (L.map fun k => rcomp S A (B k) i y j).sum := by
  induction L with
  | nil =>
    simp only [List.map_nil, List.sum_nil]
    exact rcomp_zero_right S A _ i j y (fun _ _ _ => rfl)
  | cons k L ih =>
    simp only [List.map_cons, List.sum_cons]
    rw [rcomp_add_right S A (B k) (fun i y j => (L.map fun k => B k i y j).sum), ih]

theorem arcR_comp_rid (l : Option σ) : rcomp T.states (arcR T l) rid = arcR T l := by
  funext i y j
  rw [comp_rid T.states (nodup_eraseDups _)]
  split
  · rfl
  · next h => exact (arcR_dst T l i j y h).symm

theorem rid_comp_arcR (l : Option σ) : rcomp T.states rid (arcR T l) = arcR T l := by
  funext i y j
  rw [rid_comp T.states (nodup_eraseDups _)]
  split
  · rfl
  · next h => exact (arcR_src T l i j y h).symm

/-- the recurrence of the bounded path sums -/
theorem pathsLe_succ (m : Nat) (x : List σ) (i j : ι) (y : List σ) :
    pathsLe T (m+1) x i y j
      = Tk T 0 i x y j + rcomp T.states (arcR T none) (pathsLe T m x) i y j
        + (match x with
           | [] => 0
           | a :: x' => rcomp T.states (arcR T (some a)) (pathsLe T m x') i y j) := by
  unfold pathsLe
  rw [List.range_succ_eq_map, List.map_cons, List.sum_cons, List.map_map, add_assoc]
  congr 1
  have h1 : ∀ k ∈ List.range (m+1), ((fun k => Tk T k i x y j) ∘ Nat.succ) k
      = rcomp T.states (arcR T none) (fun s y' j' => Tk T k s x y' j') i y j
        + (match x with
           | [] => 0
           | a :: x' => rcomp T.states (arcR T (some a)) (fun s y' j' => Tk T k s x' y' j') i y j) := by
    intro k _
    exact Tk_rec T k i x y j
  rw [List.map_congr_left h1, List.sum_map_add, rcomp_sum_right]
  congr 1
  cases x with
  | nil => simp
  | cons a x' => simp only; rw [rcomp_sum_right]

theorem pathsLe_zero (x : List σ) (i j : ι) (y : List σ) :
    pathsLe T 0 x i y j = Tk T 0 i x y j := by
  simp [pathsLe]

theorem pathsLe_mono_succ (m : Nat) (x : List σ) (i j : ι) (y : List σ) :
    pathsLe T m x i y j ≼ pathsLe T (m+1) x i y j := by
  unfold pathsLe
  rw [List.range_succ (n := m+1), List.map_append, List.sum_append]
  exact nle_add_right _ _

theorem pathsLe_mono {m m' : Nat} (h : m ≤ m') (x : List σ) (i j : ι) (y : List σ) :
    pathsLe T m x i y j ≼ pathsLe T m' x i y j := by
  induction h with
  | refl => exact nle_refl _
  | step _ ih => exact nle_trans ih (pathsLe_mono_succ T _ x i j y)

theorem blockR_mono_succ (m : Nat) (a : σ) (i j : ι) (y : List σ) :
    blockR T m a i y j ≼ blockR T (m+1) a i y j := by
  induction m generalizing i y with
  | zero => exact nle_add_right _ _
  | succ m ih =>
    show arcR T (some a) i y j + rcomp T.states (arcR T none) (blockR T m a) i y j
      ≼ arcR T (some a) i y j + rcomp T.states (arcR T none) (blockR T (m+1) a) i y j
    exact nle_add (nle_refl _)
      (rcomp_le _ _ _ _ _ i j y (fun _ _ _ => nle_refl _) (fun s _ u => ih s u))

theorem trailR_mono_succ (m : Nat) (i j : ι) (y : List σ) :
    trailR T m i y j ≼ trailR T (m+1) i y j := by
  induction m generalizing i j y with
  | zero => exact nle_add_right _ _
  | succ m ih =>
    show rid i y j + rcomp T.states (trailR T m) (arcR T none) i y j
      ≼ rid i y j + rcomp T.states (trailR T (m+1)) (arcR T none) i y j
    exact nle_add (nle_refl _)
      (rcomp_le _ _ _ _ _ i j y (fun u s _ => ih i s u) (fun _ _ _ => nle_refl _))

theorem blocksR_mono_succ (m : Nat) (x : List σ) (i j : ι) (hi : i ∈ T.states) (y : List σ) :
    blocksR T m x i y j ≼ blocksR T (m+1) x i y j := by
  unfold blocksR
  apply rcomp_le
  · intro u s _
    exact seqR_le T.states _ _ x i s hi u (fun a _ s' _ u' t _ => blockR_mono_succ T m a s' t u')
  · intro s _ u; exact trailR_mono_succ T m s j u

theorem blocksR_nil (m : Nat) (i j : ι) (hi : i ∈ T.states) (y : List σ) :
    blocksR T m [] i y j = trailR T m i y j := by
  unfold blocksR
  simp only [seqR]
  rw [rid_comp T.states (nodup_eraseDups _), if_pos hi]

theorem blocksR_cons (m : Nat) (a : σ) (x : List σ) :
    blocksR T m (a :: x) = rcomp T.states (blockR T m a) (blocksR T m x) := by
  unfold blocksR
  simp only [seqR]
  rw [rcomp_assoc]

/-- ε-arcs commute with runs of ε-arcs -/
theorem trailR_comm (m : Nat) :
    rcomp T.states (arcR T none) (trailR T m) = rcomp T.states (trailR T m) (arcR T none) := by
  induction m with
  | zero => simp only [trailR]; rw [arcR_comp_rid, rid_comp_arcR]
  | succ m ih =>
    funext i y j
    show rcomp T.states (arcR T none)
        (fun i y j => rid i y j + rcomp T.states (trailR T m) (arcR T none) i y j) i y j
      = rcomp T.states
        (fun i y j => rid i y j + rcomp T.states (trailR T m) (arcR T none) i y j) (arcR T none) i y j
    rw [rcomp_add_right, rcomp_add_left, arcR_comp_rid, rid_comp_arcR, ← rcomp_assoc, ih]

/-- **the paths with at most `m` arcs are among the block decompositions with runs `≤ m`** -/
theorem pathsLe_le_blocks (m : Nat) (x : List σ) (i j : ι) (hi : i ∈ T.states) (y : List σ) :
    pathsLe T m x i y j ≼ blocksR T m x i y j := by
  induction m generalizing x i y with
  | zero =>
    rw [pathsLe_zero]
    cases x with
    | nil =>
      rw [blocksR_nil T 0 i j hi y]
      simp only [Tk_zero, trailR, rid, true_and]
      exact nle_refl _
    | cons a x' =>
      have : Tk T 0 i (a :: x') y j = 0 := by simp [Tk_zero]
      rw [this]; exact nle_zero _
  | succ m ih =>
    rw [pathsLe_succ]
    cases x with
    | nil =>
      rw [blocksR_nil T (m+1) i j hi y, add_zero]
      show Tk T 0 i [] y j + rcomp T.states (arcR T none) (pathsLe T m []) i y j
        ≼ rid i y j + rcomp T.states (trailR T m) (arcR T none) i y j
      rw [← trailR_comm]
      refine nle_add (nle_of_eq ?_) ?_
      · simp [Tk_zero, rid]
      · apply rcomp_le
        · intro _ _ _; exact nle_refl _
        · intro s hs u
          rw [← blocksR_nil T m s j hs u]
          exact ih [] s hs u
    | cons a x' =>
      have h0 : Tk T 0 i (a :: x') y j = 0 := by simp [Tk_zero]
      rw [h0, zero_add]
      simp only
      have h1 : rcomp T.states (arcR T none) (pathsLe T m (a :: x')) i y j
          ≼ rcomp T.states (rcomp T.states (arcR T none) (blockR T m a)) (blocksR T m x') i y j := by
        rw [rcomp_assoc, ← blocksR_cons]
        apply rcomp_le
        · intro _ _ _; exact nle_refl _
        · intro s hs u; exact ih (a :: x') s hs u
      have h2 : rcomp T.states (arcR T (some a)) (pathsLe T m x') i y j
          ≼ rcomp T.states (arcR T (some a)) (blocksR T m x') i y j := by
        apply rcomp_le
        · intro _ _ _; exact nle_refl _
        · intro s hs u; exact ih x' s hs u
      have h3 : blocksR T (m+1) (a :: x') i y j
          = rcomp T.states (arcR T (some a)) (blocksR T (m+1) x') i y j
            + rcomp T.states (rcomp T.states (arcR T none) (blockR T m a)) (blocksR T (m+1) x') i y j := by
        rw [blocksR_cons]
        show rcomp T.states (fun i y j => arcR T (some a) i y j
          + rcomp T.states (arcR T none) (blockR T m a) i y j) (blocksR T (m+1) x') i y j = _
        rw [rcomp_add_left]
      rw [h3, add_comm]
      refine nle_add (nle_trans h2 ?_) (nle_trans h1 ?_)
      · apply rcomp_le
        · intro _ _ _; exact nle_refl _
        · intro s hs u; exact blocksR_mono_succ T m x' s j hs u
      · apply rcomp_le
        · intro _ _ _; exact nle_refl _
        · intro s hs u; exact blocksR_mono_succ T m x' s j hs u

theorem trailR_le_pathsLe (m : Nat) (i j : ι) (y : List σ) :
    trailR T m i y j ≼ pathsLe T m [] i y j := by
  induction m generalizing i y with
  | zero =>
    rw [pathsLe_zero]
    simp only [Tk_zero, trailR, rid, true_and]
    exact nle_refl _
  | succ m ih =>
    rw [pathsLe_succ, add_zero]
    show rid i y j + rcomp T.states (trailR T m) (arcR T none) i y j ≼ _
    rw [← trailR_comm]
    refine nle_add (nle_of_eq ?_) ?_
    · simp [Tk_zero, rid]
    · apply rcomp_le
      · intro _ _ _; exact nle_refl _
      · intro s _ u; exact ih s u

/-- a block in front of the paths with at most `c` arcs -/
theorem block_pathsLe (m c : Nat) (a : σ) (x : List σ) (i j : ι) (y : List σ) :
    rcomp T.states (blockR T m a) (pathsLe T c x) i y j ≼ pathsLe T (c + m + 1) (a :: x) i y j := by
  induction m generalizing i y with
  | zero =>
    rw [show c + 0 + 1 = c + 1 by omega, pathsLe_succ]
    exact nle_add_left _ _
  | succ m ih =>
    rw [show c + (m + 1) + 1 = (c + m + 1) + 1 by omega, pathsLe_succ]
    have h0 : Tk T 0 i (a :: x) y j = 0 := by simp [Tk_zero]
    rw [h0, zero_add]
    show rcomp T.states (fun i y j => arcR T (some a) i y j
      + rcomp T.states (arcR T none) (blockR T m a) i y j) (pathsLe T c x) i y j ≼ _
    rw [rcomp_add_left, add_comm, rcomp_assoc]
    refine nle_add ?_ ?_
    · apply rcomp_le
      · intro _ _ _; exact nle_refl _
      · intro s _ u; exact ih s u
    · apply rcomp_le
      · intro _ _ _; exact nle_refl _
      · intro s _ u; exact pathsLe_mono T (by omega) x s j u

/-- **a block decomposition with runs `≤ m` has at most `(m+1)·|x| + m` arcs** -/
theorem blocks_le_pathsLe (m : Nat) (x : List σ) (i j : ι) (hi : i ∈ T.states) (y : List σ) :
    blocksR T m x i y j ≼ pathsLe T ((m + 1) * x.length + m) x i y j := by
  induction x generalizing i y with
  | nil =>
    rw [blocksR_nil T m i j hi y]
    simp only [List.length_nil, Nat.mul_zero, Nat.zero_add]
    exact trailR_le_pathsLe T m i j y
  | cons a x' ih =>
    rw [blocksR_cons]
    refine nle_trans (rcomp_le _ _ _ _ (pathsLe T ((m + 1) * x'.length + m) x') i j y
      (fun _ _ _ => nle_refl _) (fun s hs u => ih s hs u)) ?_
    refine nle_trans (block_pathsLe T m _ a x' i j y) (nle_of_eq ?_)
    congr 1
    simp only [List.length_cons]; ring

end EpsT

section EpsH
variable {ι σ K : Type} [DecidableEq ι] [DecidableEq σ] [CommSemiring K]
variable (G : CFG σ K) (T : FST ι σ K)

theorem no_rule_of_term (hok : ComposeOK G T) (a : σ) (ha : a ∈ G.V) :
    G.rules.filter (fun r => r.head = a) = [] := by
  rw [List.filter_eq_nil_iff]
  intro r hr
  simp only [decide_eq_true_eq]
  intro h; exact hok.head_nt r hr (h ▸ ha)

/-- **the triples of a terminal at level `m + 1` are the blocks with runs of at most `m` ε-arcs** -/
theorem block_H (hok : ComposeOK G T) (m : Nat) (a : σ) (ha : a ∈ G.V) (i j : ι)
    (hi : i ∈ T.states) (hj : j ∈ T.states) (y : List σ) :
    WN (composeAll G T) (m+1) (.item i (.sym a) j) (tm y) = blockR T m a i y j := by
  induction m generalizing i y with
  | zero =>
    rw [step_sym G T 0 i j hi, if_pos ha, no_rule_of_term G T hok a ha]
    simp only [List.map_nil, List.sum_nil, zero_add, chainR]
    rw [rcomp_zero_left T.states _ _ i j y (fun _ _ _ => rfl), zero_add]
    rfl
  | succ m ih =>
    rw [step_sym G T (m+1) i j hi, if_pos ha, no_rule_of_term G T hok a ha]
    simp only [List.map_nil, List.sum_nil, zero_add, chainR]
    have : rcomp T.states (hrel (WN (composeAll G T) (m+1)) .eps)
        (rcomp T.states (hrel (WN (composeAll G T) (m+1)) (.sym a)) rid) i y j
        = rcomp T.states (arcR T none) (blockR T m a) i y j := by
      apply rcomp_congr
      · intro u s _; exact step_eps G T m i s hi u
      · intro s hs u
        rw [comp_rid T.states (nodup_eraseDups _), if_pos hj]
        exact ih s hs u
    rw [this, add_comm]
    rfl

theorem eps_item_ge (hok : ComposeOK G T) (n m : Nat) (X : σ) (hX : NtOK G T X) (i j : ι)
    (hi : i ∈ T.states) (hj : j ∈ T.states) (y : List σ) :
    wsum (yields G n X) (fun x => seqR T.states (blockR T m) x i y j)
      ≼ WN (composeAll G T) (n + (m+1)) (.item i (.sym X) j) (tm y) :=
  bh_lower G T hok (blockR T m) (m+1)
    (fun a ha i' hi' y' j' hj' => nle_of_eq (block_H G T hok m a ha i' j' hi' hj' y').symm)
    n X hX i j hi hj y

theorem eps_item_le (hok : ComposeOK G T) (n m : Nat) (hn : n ≤ m + 1) (X : σ) (hX : NtOK G T X)
    (i j : ι) (hi : i ∈ T.states) (hj : j ∈ T.states) (y : List σ) :
    WN (composeAll G T) n (.item i (.sym X) j) (tm y)
      ≼ wsum (yields G n X) (fun x => seqR T.states (blockR T m) x i y j) :=
  bh_upper G T hok (blockR T m) (m+1)
    (fun a ha i' hi' y' j' hj' => nle_of_eq (block_H G T hok m a ha i' j' hi' hj' y'))
    n hn X hX i j hi hj y

/-- one unfolding at `(i, Other(S), j)`, from level 2 on -/
theorem other_succ (n : Nat) (i j : ι) (hi : i ∈ T.states) (hj : j ∈ T.states) (y : List σ) :
    WN (composeAll G T) (n+2) (.item i .other j) (tm y)
      = WN (composeAll G T) (n+1) (.item i (.sym G.S) j) (tm y)
        + rcomp T.states (hrel (WN (composeAll G T) (n+1)) .other) (arcR T none) i y j := by
  rw [step_other G T (n+1) i j hi]
  simp only [chainR]
  rw [comp_rid T.states (nodup_eraseDups _), if_pos hj]
  congr 1
  apply rcomp_congr
  · intros; rfl
  · intro s hs u
    rw [comp_rid T.states (nodup_eraseDups _), if_pos hj]
    exact step_eps G T n s j hs u

/-- the yields of the start symbol through the blocks, as a relation -/
def startBlocks (n m : Nat) : ι → List σ → ι → K := fun i y j =>
  wsum (yields G n G.S) (fun x => seqR T.states (blockR T m) x i y j)

theorem eps_other_ge (hok : ComposeOK G T) (n m m' : Nat) (i j : ι) (hi : i ∈ T.states)
    (hj : j ∈ T.states) (y : List σ) :
    rcomp T.states (startBlocks G T n m) (trailR T m') i y j
      ≼ WN (composeAll G T) (n + m + m' + 2) (.item i .other j) (tm y) := by
  induction m' generalizing j y with
  | zero =>
    simp only [trailR]
    rw [comp_rid T.states (nodup_eraseDups _), if_pos hj, show n + m + 0 + 2 = (n + m) + 2 by omega,
      other_succ G T (n + m) i j hi hj y]
    exact nle_trans (eps_item_ge G T hok n m G.S (ntOK_start hok) i j hi hj y) (nle_add_right _ _)
  | succ m' ih =>
    show rcomp T.states (startBlocks G T n m)
      (fun i y j => rid i y j + rcomp T.states (trailR T m') (arcR T none) i y j) i y j ≼ _
    rw [rcomp_add_right, comp_rid T.states (nodup_eraseDups _), if_pos hj, ← rcomp_assoc,
      show n + m + (m' + 1) + 2 = (n + m + m' + 1) + 2 by omega,
      other_succ G T (n + m + m' + 1) i j hi hj y]
    refine nle_add ?_ ?_
    · exact nle_trans (eps_item_ge G T hok n m G.S (ntOK_start hok) i j hi hj y)
        (WN_mono _ (by omega) _ _)
    · apply rcomp_le
      · intro u s hs; exact ih s hs u
      · intro _ _ _; exact nle_refl _

theorem eps_other_le (hok : ComposeOK G T) (N m : Nat) (hN : N ≤ m + 1) (n : Nat) (hn : n ≤ N + 1)
    (i j : ι) (hi : i ∈ T.states) (hj : j ∈ T.states) (y : List σ) :
    WN (composeAll G T) n (.item i .other j) (tm y)
      ≼ rcomp T.states (startBlocks G T N m) (trailR T n) i y j := by
  induction n generalizing j y with
  | zero => exact nle_zero _
  | succ n ih =>
    rw [step_other G T n i j hi]
    simp only [chainR]
    have hL1 : rcomp T.states (hrel (WN (composeAll G T) n) (.sym G.S)) rid i y j
        = WN (composeAll G T) n (.item i (.sym G.S) j) (tm y) := by
      rw [comp_rid T.states (nodup_eraseDups _), if_pos hj]; rfl
    have hL2 : rcomp T.states (hrel (WN (composeAll G T) n) .other)
          (rcomp T.states (hrel (WN (composeAll G T) n) .eps) rid) i y j
        ≼ rcomp T.states (hrel (WN (composeAll G T) n) .other) (arcR T none) i y j := by
      apply rcomp_le
      · intro _ _ _; exact nle_refl _
      · intro s hs u
        rw [comp_rid T.states (nodup_eraseDups _), if_pos hj]
        cases n with
        | zero => exact nle_zero _
        | succ n' => exact nle_of_eq (step_eps G T n' s j hs u)
    have hR : rcomp T.states (startBlocks G T N m) (trailR T (n+1)) i y j
        = startBlocks G T N m i y j
          + rcomp T.states (rcomp T.states (startBlocks G T N m) (trailR T n)) (arcR T none) i y j := by
      show rcomp T.states (startBlocks G T N m)
        (fun i y j => rid i y j + rcomp T.states (trailR T n) (arcR T none) i y j) i y j = _
      rw [rcomp_add_right, comp_rid T.states (nodup_eraseDups _), if_pos hj, ← rcomp_assoc]
    rw [hL1, hR]
    refine nle_add ?_ (nle_trans hL2 ?_)
    · exact nle_trans (WN_mono _ (by omega : n ≤ N) _ _)
        (eps_item_le G T hok N m hN G.S (ntOK_start hok) i j hi hj y)
    · apply rcomp_le
      · intro u s hs; exact ih (by omega) s hs u
      · intro _ _ _; exact nle_refl _

theorem TPN_pathsLe (m : Nat) (x y : List σ) :
    TPN T m x y = (T.start.map fun s => (T.stop.map fun t =>
      s.2 * pathsLe T m x s.1 y t.1 * t.2).sum).sum := by
  rw [TPN_eq]
  simp only [TPk_eq, pathsLe]
  rw [sum_swap]
  congr 1; apply List.map_congr_left; intro s _
  rw [sum_swap]
  congr 1; apply List.map_congr_left; intro t _
  rw [← List.sum_map_mul_left, ← List.sum_map_mul_right]

theorem startBlocks_trail (n m m' : Nat) (i j : ι) (y : List σ) :
    rcomp T.states (startBlocks G T n m) (trailR T m') i y j
      = wsum (yields G n G.S) (fun x =>
          rcomp T.states (seqR T.states (blockR T m) x) (trailR T m') i y j) :=
  rcomp_wsum_left T.states (yields G n G.S) (fun x => seqR T.states (blockR T m) x) (trailR T m') i j y

/-- **lower bound with ε on the input tape** -/
theorem eps_lower (hok : ComposeOK G T) (n m : Nat) (y : List σ) :
    wsum (yields G n G.S) (fun x => TPN T m x y)
      ≼ WN (composeAll G T) (n + 2 * m + 3) .start (tm y) := by
  rw [wsum_congr _ (fun x => TPN T m x y)
      (fun x => (T.start.map fun s => (T.stop.map fun t =>
        s.2 * pathsLe T m x s.1 y t.1 * t.2).sum).sum) (fun p _ => TPN_pathsLe T m p.1 y),
    wsum_pair (yields G n G.S) T.start T.stop (fun i j x => pathsLe T m x i y j),
    show n + 2 * m + 3 = (n + m + m + 2) + 1 by omega, step_start]
  apply nle_sum; intro s hs
  apply nle_sum; intro t ht
  apply nle_mul_left
  have hi := FstAux.mem_states_start T s hs
  have hj := mem_states_stop T t ht
  refine nle_trans ?_ (eps_other_ge G T hok n m m s.1 t.1 hi hj y)
  rw [startBlocks_trail]
  apply wsum_le
  intro p _
  exact pathsLe_le_blocks T m p.1 s.1 t.1 hi y

/-- **upper bound with ε on the input tape** -/
theorem eps_upper (hok : ComposeOK G T) (n : Nat) (y : List σ) :
    WN (composeAll G T) (n + 2) .start (tm y)
      ≼ wsum (yields G n G.S) (fun x => TPN T ((n + 2) * (x.length + 1)) x y) := by
  rw [wsum_congr _ (fun x => TPN T ((n + 2) * (x.length + 1)) x y)
      (fun x => (T.start.map fun s => (T.stop.map fun t =>
        s.2 * pathsLe T ((n + 2) * (x.length + 1)) x s.1 y t.1 * t.2).sum).sum)
      (fun p _ => TPN_pathsLe T _ p.1 y),
    wsum_pair (yields G n G.S) T.start T.stop
      (fun i j x => pathsLe T ((n + 2) * (x.length + 1)) x i y j), step_start]
  apply nle_sum; intro s hs
  apply nle_sum; intro t ht
  apply nle_mul_left
  have hi := FstAux.mem_states_start T s hs
  have hj := mem_states_stop T t ht
  refine nle_trans (eps_other_le G T hok n (n+1) (by omega) (n+1) (by omega) s.1 t.1 hi hj y) ?_
  rw [startBlocks_trail]
  apply wsum_le
  intro p _
  refine nle_trans (blocks_le_pathsLe T (n+1) p.1 s.1 t.1 hi y) (pathsLe_mono T ?_ p.1 s.1 t.1 y)
  have : (n + 1 + 1) * p.1.length + (n + 1) ≤ (n + 2) * (p.1.length + 1) := by
    rw [Nat.mul_add, show n + 1 + 1 = n + 2 from rfl]; omega
  exact this

end EpsH
end ComposeAux
end Genlm
