import GenlmModel.Model.Horn
import Mathlib.Data.List.Basic
import Mathlib.Tactic.Linarith

namespace Genlm
variable {α : Type} [DecidableEq α]

/-- least model, as an inductive predicate -/
inductive Derivable (cs : List (Clause α)) : α → Prop
  | fire (c : Clause α) : c ∈ cs → (∀ p ∈ c.prem, Derivable cs p) → Derivable cs c.concl

theorem hstep_sound (cs : List (Clause α)) (s : List α) (hs : ∀ a ∈ s, Derivable cs a) :
    ∀ a ∈ hstep cs s, Derivable cs a := by
  intro a ha
  simp only [hstep, List.mem_append, List.mem_map, List.mem_filter, List.all_eq_true,
    decide_eq_true_eq] at ha
  rcases ha with h | ⟨c, ⟨hc, hp⟩, rfl⟩
  · exact hs a h
  · exact Derivable.fire c hc (fun p hp' => hs p (hp p hp'))

theorem hiter_sound (cs : List (Clause α)) (n : Nat) (s : List α) (hs : ∀ a ∈ s, Derivable cs a) :
    ∀ a ∈ hiter cs n s, Derivable cs a := by
  induction n generalizing s with
  | zero => exact hs
  | succ n ih => exact ih _ (hstep_sound cs s hs)



def fired (cs : List (Clause α)) (s : List α) : List (Clause α) :=
  cs.filter (fun c => c.prem.all (· ∈ s))

def Closed (cs : List (Clause α)) (s : List α) : Prop :=
  ∀ c ∈ cs, (∀ p ∈ c.prem, p ∈ s) → c.concl ∈ s

theorem subset_hstep (cs : List (Clause α)) (s : List α) : s ⊆ hstep cs s := by
  intro a ha; simp [hstep, ha]

theorem fired_mono (cs : List (Clause α)) {s t : List α} (h : s ⊆ t) :
    (fired cs s).Sublist (fired cs t) := by
  apply List.monotone_filter_right
  intro c hc
  simp only [List.all_eq_true, decide_eq_true_eq] at hc ⊢
  exact fun p hp => h (hc p hp)

/-- if the set of fired clauses did not grow, the new state is closed -/
theorem closed_of_fired_eq (cs : List (Clause α)) (s : List α)
    (h : fired cs (hstep cs s) = fired cs s) : Closed cs (hstep cs s) := by
  intro c hc hp
  have : c ∈ fired cs (hstep cs s) := by
    simp only [fired, List.mem_filter, List.all_eq_true, decide_eq_true_eq]; exact ⟨hc, hp⟩
  rw [h] at this
  simp only [hstep, List.mem_append, List.mem_map]
  exact Or.inr ⟨c, this, rfl⟩

theorem closed_or_grow (cs : List (Clause α)) (s : List α) :
    Closed cs (hstep cs s) ∨ (fired cs s).length < (fired cs (hstep cs s)).length := by
  have hsub := fired_mono cs (subset_hstep cs s)
  rcases Nat.lt_or_ge (fired cs s).length (fired cs (hstep cs s)).length with h | h
  · exact Or.inr h
  · exact Or.inl (closed_of_fired_eq cs s (hsub.eq_of_length_le h).symm)

theorem closed_hstep (cs : List (Clause α)) (s : List α) (h : Closed cs s) : Closed cs (hstep cs s) := by
  intro c hc hp
  have hmem : ∀ a, a ∈ hstep cs s → a ∈ s := by
    intro a ha
    simp only [hstep, List.mem_append, List.mem_map, List.mem_filter, List.all_eq_true,
      decide_eq_true_eq] at ha
    rcases ha with h' | ⟨c', ⟨hc', hp'⟩, rfl⟩
    · exact h'
    · exact h c' hc' hp'
  exact subset_hstep cs s (h c hc (fun p hp' => hmem p (hp p hp')))

theorem closed_hiter (cs : List (Clause α)) (n : Nat) (s : List α) (h : Closed cs s) :
    Closed cs (hiter cs n s) := by
  induction n generalizing s with
  | zero => exact h
  | succ n ih => exact ih _ (closed_hstep cs s h)

/-- after n+1 rounds from s: closed, or at least n+1 more clauses fire than at the start -/
theorem hiter_closed_or_many (cs : List (Clause α)) (n : Nat) (s : List α) :
    Closed cs (hiter cs (n+1) s) ∨ (fired cs s).length + (n+1) ≤ (fired cs (hiter cs (n+1) s)).length := by
  induction n generalizing s with
  | zero =>
    rcases closed_or_grow cs s with h | h
    · exact Or.inl h
    · exact Or.inr (by simp only [hiter]; omega)
  | succ n ih =>
    rcases closed_or_grow cs s with h | h
    · exact Or.inl (closed_hiter cs (n+1) _ h)
    · rcases ih (hstep cs s) with h' | h'
      · exact Or.inl h'
      · right; simp only [hiter] at h' ⊢; omega

theorem fired_length_le (cs : List (Clause α)) (s : List α) : (fired cs s).length ≤ cs.length :=
  List.length_filter_le _ _

/-- |cs|+1 rounds reach a closed state -/
theorem hiter_closed (cs : List (Clause α)) : Closed cs (hiter cs (cs.length + 1) []) := by
  rcases hiter_closed_or_many cs cs.length [] with h | h
  · exact h
  · have := fired_length_le cs (hiter cs (cs.length + 1) []); omega

theorem derivable_mem_closed (cs : List (Clause α)) (s : List α) (h : Closed cs s) {a : α}
    (ha : Derivable cs a) : a ∈ s := by
  induction ha with
  | fire c hc _ ih => exact h c hc ih

/-- the engine: membership in the computed list ↔ derivability -/
theorem hlfp_spec (cs : List (Clause α)) (a : α) :
    a ∈ hlfp cs ↔ Derivable cs a :=
  ⟨hiter_sound cs _ [] (by simp) a, derivable_mem_closed cs _ (hiter_closed cs)⟩

end Genlm

