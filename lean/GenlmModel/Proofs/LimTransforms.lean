import GenlmModel.Proofs.LimCore
import GenlmModel.Proofs.Sem2Bin
import GenlmModel.Proofs.Sem2Null
import GenlmModel.Proofs.Sem2Unary
import GenlmModel.Proofs.Tab
import GenlmModel.Proofs.Norm

/-! # The normal-form transformations preserve the TRUE weighted language over `ℝ≥0∞`

Property C06 at full strength.  `WL G X x = ⨆ n, WN G n X x` is the sum of the weights of ALL
derivation trees of `x` from `X` (possibly infinitely many: cyclic nullable / unary parts).

* §0  continuity toolkit: finite sums / products / `Wbody` / `stepL` commute with suprema of chains;
      `WL_fixed_pointT`.
* §A  the transformations whose level-wise statements are cofinal: `trim`, `cotrim`,
      `separate_start`, `separate_terminals`, `binarize`, `unfold`, renaming, permutation, `dropZero`.
* §B  `_push_null_weights` with the TRUE null weights `nullWL G y = WL G y []` (an infinite sum in
      general, attained at no finite level).
* §C  `unaryremove` with the TRUE closure `UWL G Y X = ⨆ k, UW G k Y X`.

The `cnf()` pipeline and `unarycycleremove` are in `LimTransforms2.lean`. -/
namespace Genlm
set_option linter.unusedSectionVars false
open scoped ENNReal
open UnfoldAux Sem2Aux

/-! ## §0 continuity toolkit -/
namespace LimAux
section
variable {σ : Type} [DecidableEq σ]

theorem le_of_natLe {a b : ℝ≥0∞} (h : a ≼ b) : a ≤ b := natLe_iff_le.mp h
theorem natLe_of_le {a b : ℝ≥0∞} (h : a ≤ b) : a ≼ b := natLe_iff_le.mpr h

/-- a finite (list) sum of suprema of chains is the supremum of the sums -/
theorem list_sum_iSupT {α : Type} (l : List α) (f : α → ℕ → ℝ≥0∞) (hf : ∀ a ∈ l, Monotone (f a)) :
    (l.map fun a => ⨆ n, f a n).sum = ⨆ n, (l.map fun a => f a n).sum := by
  induction l with
  | nil => simp
  | cons a l ih =>
    simp only [List.map_cons, List.sum_cons]
    rw [ih (fun b hb => hf b (by simp [hb]))]
    refine ENNReal.iSup_add_iSup_of_monotone (hf a (by simp)) ?_
    intro i j hij
    exact List.sum_le_sum (fun b hb => hf b (by simp [hb]) hij)

/-- monotonicity of a list sum in the index -/
theorem list_sum_mono {α : Type} (l : List α) (f : α → ℕ → ℝ≥0∞) (hf : ∀ a ∈ l, Monotone (f a)) :
    Monotone fun n => (l.map fun a => f a n).sum :=
  fun _ _ hij => List.sum_le_sum (fun b hb => hf b hb hij)

/-- the product of the suprema of two chains is the supremum of the products -/
theorem iSup_mul_iSup_mono {f g : ℕ → ℝ≥0∞} (hf : Monotone f) (hg : Monotone g) :
    (⨆ n, f n) * (⨆ n, g n) = ⨆ n, f n * g n := by
  rw [ENNReal.iSup_mul]
  simp_rw [ENNReal.mul_iSup]
  apply le_antisymm
  · refine iSup_le fun i => iSup_le fun j => ?_
    exact le_iSup_of_le (max i j) (mul_le_mul' (hf (le_max_left _ _)) (hg (le_max_right _ _)))
  · exact iSup_le fun i => le_iSup_of_le i (le_iSup_of_le i le_rfl)

/-- a level-indexed family of tables that grows with the level -/
def MonoTab (F : ℕ → σ → List σ → ℝ≥0∞) : Prop := ∀ s u, Monotone fun n => F n s u

theorem monoTab_WN (G : CFG σ ℝ≥0∞) : MonoTab (WN G) := fun s u => WN_monotone G s u

theorem Wsym_mono (V : List σ) (F : ℕ → σ → List σ → ℝ≥0∞) (hF : MonoTab F) (s : σ) (u : List σ) :
    Monotone fun n => Wsym V (F n) s u := by
  intro i j h
  show Wsym V (F i) s u ≤ Wsym V (F j) s u
  unfold Wsym; split
  · exact le_rfl
  · exact hF s u h

theorem Wsym_iSupT (V : List σ) (F : ℕ → σ → List σ → ℝ≥0∞) (s : σ) (u : List σ) :
    Wsym V (fun s u => ⨆ n, F n s u) s u = ⨆ n, Wsym V (F n) s u := by
  unfold Wsym; split
  · rw [iSup_const]
  · rfl

theorem Wbody_mono (V : List σ) (F : ℕ → σ → List σ → ℝ≥0∞) (hF : MonoTab F) (body x : List σ) :
    Monotone fun n => Wbody V (F n) body x := by
  intro i j h
  exact le_of_natLe (Wbody_le V (F i) (F j) body (fun s _ u => natLe_of_le (hF s u h)) x)

/-- `Wbody` commutes with the supremum of a chain of tables -/
theorem Wbody_iSupT (V : List σ) (F : ℕ → σ → List σ → ℝ≥0∞) (hF : MonoTab F) (body x : List σ) :
    Wbody V (fun s u => ⨆ n, F n s u) body x = ⨆ n, Wbody V (F n) body x := by
  induction body generalizing x with
  | nil => simp only [Wbody]; rw [iSup_const]
  | cons s ss ih =>
    simp only [Wbody, lsum_eq_sum]
    rw [← list_sum_iSupT]
    · congr 1; apply List.map_congr_left; intro p _
      rw [Wsym_iSupT, ih, iSup_mul_iSup_mono (Wsym_mono V F hF s p.1) (Wbody_mono V F hF ss p.2)]
    · intro p _ i j h
      exact mul_le_mul' (Wsym_mono V F hF s p.1 h) (Wbody_mono V F hF ss p.2 h)

theorem stepL_mono (V : List σ) (rs : List (Rule σ ℝ≥0∞)) (F : ℕ → σ → List σ → ℝ≥0∞)
    (hF : MonoTab F) (X : σ) (x : List σ) : Monotone fun n => stepL V rs (F n) X x := by
  intro i j h
  exact le_of_natLe (stepL_le V rs (F i) (F j) (fun s u => natLe_of_le (hF s u h)) X x)

/-- one step of the `WN` recursion commutes with the supremum of a chain of tables -/
theorem stepL_iSupT (V : List σ) (rs : List (Rule σ ℝ≥0∞)) (F : ℕ → σ → List σ → ℝ≥0∞)
    (hF : MonoTab F) (X : σ) (x : List σ) :
    stepL V rs (fun s u => ⨆ n, F n s u) X x = ⨆ n, stepL V rs (F n) X x := by
  unfold stepL
  rw [← list_sum_iSupT]
  · congr 1; apply List.map_congr_left; intro r _
    rw [Wbody_iSupT V F hF, ENNReal.mul_iSup]
  · intro r _ i j h
    exact mul_le_mul' le_rfl (Wbody_mono V F hF r.body x h)

theorem Wbody_WL (G : CFG σ ℝ≥0∞) (body x : List σ) :
    Wbody G.V (WL G) body x = ⨆ n, Wbody G.V (WN G n) body x :=
  Wbody_iSupT G.V (WN G) (monoTab_WN G) body x

end
end LimAux
open LimAux

section
variable {σ : Type} [DecidableEq σ]

/-- **the true weights are a fixed point of the grammar's equations**: the weight of `x` from `X` is
the sum over the rules of `X` of the rule weight times the weight of the body (computed with the
true weights of the nonterminals) -/
theorem WL_fixed_pointT (G : CFG σ ℝ≥0∞) (X : σ) (x : List σ) :
    WL G X x = stepL G.V G.rules (WL G) X x := by
  have h := stepL_iSupT G.V G.rules (WN G) (monoTab_WN G) X x
  show (⨆ n, WN G n X x) = stepL G.V G.rules (fun s u => ⨆ n, WN G n s u) X x
  rw [h, ← Monotone.iSup_nat_add (WN_monotone G X x) 1]
  exact iSup_congr fun n => WN_succ G n X x

/-- cofinal families of levels, stated with `≤` -/
theorem WL_eq_of_cofinal {τ : Type} [DecidableEq τ] (G : CFG σ ℝ≥0∞) (G' : CFG τ ℝ≥0∞) (X : σ)
    (x : List σ) (X' : τ) (x' : List τ) (h1 : ∀ n, ∃ m, WN G' n X' x' ≼ WN G m X x)
    (h2 : ∀ n, ∃ m, WN G n X x ≼ WN G' m X' x') : WL G' X' x' = WL G X x :=
  iSup_eq_of_cofinal h1 h2

theorem WL_le_of_levels {τ : Type} [DecidableEq τ] (G : CFG σ ℝ≥0∞) (G' : CFG τ ℝ≥0∞) (X : σ)
    (x : List σ) (X' : τ) (x' : List τ) (h : ∀ n, WN G' n X' x' ≤ WL G X x) :
    WL G' X' x' ≤ WL G X x := iSup_le h

theorem WL_zero_of_levels (G : CFG σ ℝ≥0∞) (X : σ) (x : List σ) (h : ∀ n, WN G n X x = 0) :
    WL G X x = 0 := by
  unfold WL; simp [h]

end

/-! ## §A the easy lifts -/
section
variable {σ : Type} [DecidableEq σ] [DecidableEq ℝ≥0∞]

/-- **C06 (limit), `trim`**: same true weight of every string at the start symbol; no hypothesis -/
theorem trim_WL (G : CFG σ ℝ≥0∞) (x : List σ) : WL (trim G) G.S x = WL G G.S x :=
  WL_congr G (trim G) G.S x G.S x (fun n => trim_preserves G n x)

/-- … at every useful symbol -/
theorem trim_WL_at (G : CFG σ ℝ≥0∞) (X : σ) (hX : X ∈ reachable G (generating G)) (x : List σ) :
    WL (trim G) X x = WL G X x :=
  WL_congr G (trim G) X x X x (fun n => trim_preserves_at G n X hX x)

/-- **C06 (limit), `cotrim`**: same true weight of every string at every symbol -/
theorem cotrim_WL (G : CFG σ ℝ≥0∞) (X : σ) (x : List σ) : WL (cotrim G) X x = WL G X x :=
  WL_congr G (cotrim G) X x X x (fun n => cotrim_preserves G n X x)

/-- **C06 (limit), `separate_start`** -/
theorem separateStart_WL (G : CFG σ ℝ≥0∞) (fresh : σ) (hf : Fresh G fresh) (hS : G.S ∉ G.V)
    (x : List σ) : WL (separateStart G fresh) (separateStart G fresh).S x = WL G G.S x := by
  apply WL_eq_of_cofinal
  · intro n
    refine ⟨n, ?_⟩
    have h := separateStart_preserves G fresh hf hS n x
    rw [← h]
    split
    · exact WN_le_succ _ n _ x
    · exact le_rfl' _
  · intro n
    exact ⟨_, le_of_eq' (separateStart_preserves G fresh hf hS n x).symm⟩

/-- the old symbols keep their true weights -/
theorem separateStart_WL_old (G : CFG σ ℝ≥0∞) (fresh : σ) (hf : Fresh G fresh) (X : σ)
    (hX : X ≠ fresh) (x : List σ) : WL (separateStart G fresh) X x = WL G X x :=
  WL_congr G (separateStart G fresh) X x X x (fun n => separateStart_old G fresh hf n X hX x)

/-- the un-conditional model `sepStart` -/
theorem sepStart_WL (G : CFG σ ℝ≥0∞) (S' : σ) (hf : Fresh G S') (hS : G.S ∉ G.V) (x : List σ) :
    WL (sepStart G S') S' x = WL G G.S x := by
  apply WL_eq_of_cofinal
  · intro n
    exact ⟨n, le_trans' (WN_le_succ _ n _ x) (le_of_eq' (sepStart_spec G S' hf hS n x))⟩
  · intro n
    exact ⟨n + 1, le_of_eq' (sepStart_spec G S' hf hS n x).symm⟩

/-- **C06 (limit), `separate_terminals`**: same true weight at every symbol that is not a generated
name, under the freshness conditions of `separateTerminals_ge` -/
theorem separateTerminals_WL (gen : Nat → σ) (G : CFG σ ℝ≥0∞) (ctr : Nat)
    (hgenV : ∀ k, ctr < k → gen k ∉ G.V)
    (hinj : ∀ i j, ctr < i → ctr < j → gen i = gen j → i = j)
    (hhead : ∀ r ∈ G.rules, ∀ k, ctr < k → r.head ≠ gen k)
    (hbody : ∀ r ∈ G.rules, ∀ s ∈ r.body, ∀ k, ctr < k → s ≠ gen k)
    (X : σ) (hX : ∀ k, ctr < k → X ≠ gen k) (x : List σ) :
    WL (separateTerminals gen G ctr).1 X x = WL G X x :=
  WL_eq_of_cofinal G _ X x X x
    (fun n => ⟨n, separateTerminals_ge gen G ctr hgenV hinj hhead hbody n X hX x⟩)
    (fun n => ⟨n + 1, separateTerminals_le gen G ctr hgenV n X x⟩)

/-- **C06 (limit), `binarize`** -/
theorem binarize_WL (gen : Nat → σ) (G : CFG σ ℝ≥0∞) (ctr : Nat)
    (hgenV : ∀ k, ctr < k → gen k ∉ G.V)
    (hinj : ∀ i j, ctr < i → ctr < j → gen i = gen j → i = j)
    (hhead : ∀ r ∈ G.rules, ∀ k, ctr < k → r.head ≠ gen k)
    (hbody : ∀ r ∈ G.rules, ∀ s ∈ r.body, ∀ k, ctr < k → s ≠ gen k)
    (X : σ) (hX : ∀ k, ctr < k → X ≠ gen k) (x : List σ) :
    WL (binarize gen G ctr).1 X x = WL G X x :=
  WL_eq_of_cofinal G _ X x X x
    (fun n => ⟨n, binarize_ge gen G ctr hgenV hinj hhead hbody n X hX x⟩)
    (fun n => ⟨_, (binarize_preserves gen G ctr hgenV hinj hhead hbody n X hX x).1⟩)

/-- the first two stages of `cnf()` (the second continues with the counter of the first) -/
theorem separateTerminals_binarize_WL (gen : Nat → σ) (G : CFG σ ℝ≥0∞) (ctr : Nat)
    (hgenV : ∀ k, ctr < k → gen k ∉ G.V)
    (hinj : ∀ i j, ctr < i → ctr < j → gen i = gen j → i = j)
    (hhead : ∀ r ∈ G.rules, ∀ k, ctr < k → r.head ≠ gen k)
    (hbody : ∀ r ∈ G.rules, ∀ s ∈ r.body, ∀ k, ctr < k → s ≠ gen k)
    (X : σ) (hX : ∀ k, ctr < k → X ≠ gen k) (x : List σ) :
    WL (binarize gen (separateTerminals gen G ctr).1 (separateTerminals gen G ctr).2).1 X x
      = WL G X x :=
  WL_eq_of_cofinal G _ X x X x
    (fun n => ⟨n,
      (separateTerminals_binarize_preserves gen G ctr hgenV hinj hhead hbody n X hX x).2⟩)
    (fun n => ⟨_,
      (separateTerminals_binarize_preserves gen G ctr hgenV hinj hhead hbody n X hX x).1⟩)

/-- **C06 (limit), `unfold(i, k)`** -/
theorem unfold_WL {G G' : CFG σ ℝ≥0∞} {i k : Nat} (h : unfoldRule G i k = some G') (X : σ)
    (x : List σ) : WL G' X x = WL G X x :=
  WL_eq_of_cofinal G G' X x X x (fun n => ⟨2 * n, unfold_ge h n X x⟩)
    (fun n => ⟨n, unfold_le h n X x⟩)

/-- **C06 (limit), `dropZero`** (what `CFG.add` does to zero-weight rules) -/
theorem dropZero_WL (G : CFG σ ℝ≥0∞) (X : σ) (x : List σ) : WL (dropZero G) X x = WL G X x :=
  WL_congr G (dropZero G) X x X x (fun n => WN_dropZero G n X x)

end

section
variable {σ : Type} [DecidableEq σ]

/-- the true weights do not depend on the order of the rules -/
theorem perm_WL (G : CFG σ ℝ≥0∞) (rules' : List (Rule σ ℝ≥0∞)) (hp : rules'.Perm G.rules) (X : σ)
    (x : List σ) : WL {G with rules := rules'} X x = WL G X x :=
  WL_congr G {G with rules := rules'} X x X x (fun n => WN_perm G rules' hp n X x)

/-- the true weights are invariant under injective renaming of the symbols -/
theorem rename_WL {τ : Type} [DecidableEq τ] (f : σ → τ) (hf : Function.Injective f)
    (G : CFG σ ℝ≥0∞) (X : σ) (x : List σ) : WL (renameCFG f G) (f X) (x.map f) = WL G X x :=
  WL_congr G (renameCFG f G) X x (f X) (x.map f) (fun n => WN_rename f hf G n X x)

end

/-! ## §B `_push_null_weights` with the TRUE null weights -/
section
variable {σ : Type} [DecidableEq σ] [DecidableEq ℝ≥0∞]

/-- the TRUE null weight of a symbol: the sum of the weights of ALL derivation trees of the empty
string (what `CFG.null_weight` converges to); zero at terminals -/
noncomputable def nullWL (G : CFG σ ℝ≥0∞) (y : σ) : ℝ≥0∞ := if y ∈ G.V then 0 else WL G y []

theorem nullWL_term (G : CFG σ ℝ≥0∞) {a : σ} (ha : a ∈ G.V) : nullWL G a = 0 := if_pos ha
theorem nullWL_nt (G : CFG σ ℝ≥0∞) {y : σ} (hy : y ∉ G.V) : nullWL G y = WL G y [] := if_neg hy

/-- **(⊑, limit)** any null-weight table that is *above* the true null weights (on the nonterminals
that occur in bodies) loses nothing on non-empty strings -/
theorem pushNull_WL_le_of_ge (ν : σ → ℝ≥0∞) (rename : σ → σ) (G : CFG σ ℝ≥0∞)
    (hV0 : ∀ a ∈ G.V, ν a = 0) (hrenV : ∀ y, rename y ∉ G.V)
    (hν : ∀ r ∈ G.rules, ∀ y ∈ r.body, y ∉ G.V → WL G y [] ≤ ν y)
    (X : σ) (x : List σ) (hx : x ≠ []) :
    WL G X x ≤ WL (pushNull ν rename G) (pnF ν rename G X) x := by
  refine iSup_le fun n => le_iSup_of_le n (le_of_natLe ?_)
  exact pushNull_le ν rename G hV0 hrenV
    (fun r hr y hy hyV m => natLe_of_le (le_trans (WN_le_WL G m y []) (hν r hr y hy hyV))) n X x hx

/-- **(⊒, levels against the limit)** any null-weight table that is *below* the true null weights
adds nothing on non-empty strings: every level of the new grammar is below the true weight in the
old one.  No attainment at a finite level is needed: the proof unfolds the fixed-point equation of
`WL` once per level. -/
theorem pushNull_level_le_WL (ν : σ → ℝ≥0∞) (rename : σ → σ) (G : CFG σ ℝ≥0∞)
    (hS : G.S ∉ bodySyms G) (hV0 : ∀ a ∈ G.V, ν a = 0)
    (hrenV : ∀ y, rename y ∉ G.V) (hrenS : ∀ y, rename y ≠ G.S)
    (hinj : ∀ y z, rename y = rename z → y = z)
    (hrenH : ∀ y, ∀ r ∈ G.rules, rename y ≠ r.head) (hrenB : ∀ y, rename y ∉ bodySyms G)
    (hν : ∀ r ∈ G.rules, ∀ y ∈ r.body, y ∉ G.V → ν y ≤ WL G y [])
    (n : Nat) (X : σ) (hX : ∀ y, rename y ≠ X) (x : List σ) (hx : x ≠ []) :
    WN (pushNull ν rename G) n (pnF ν rename G X) x ≤ WL G X x := by
  induction n generalizing X x with
  | zero => exact zero_le
  | succ n ih =>
    rw [WL_fixed_pointT G X x, WN_succ]
    show stepL G.V _ _ _ _ ≤ _
    rw [pushNull_step, stepL_eq_ite]
    have hSt : (if G.S = pnF ν rename G X then ν G.S * (if x = [] then 1 else 0) else 0)
        = 0 := by rw [if_neg hx, mul_zero]; simp
    rw [hSt, zero_add]
    apply List.sum_le_sum
    intro r hr
    by_cases hh : r.head = X
    · rw [if_pos (by rw [hh]), if_pos hh, filter_nc_sum _ _ _ _ _ _ hx]
      refine mul_le_mul' le_rfl ?_
      refine KL (fun a b => b ≤ a) (fun _ => le_rfl) (fun _ _ _ _ h1 h2 => add_le_add h1 h2)
        (fun _ _ _ _ h1 h2 => mul_le_mul' h1 h2) G.V (WL G) _ ν _ r.body ?_ ?_ x
      · intro y hy
        by_cases hyV : y ∈ G.V
        · rw [hV0 y hyV]; exact zero_le
        · rw [Wsym_nt _ _ _ hyV]
          exact hν r hr y hy hyV
      · intro y hy u
        show Wsym G.V _ (pnF ν rename G y) u ≤ (if u = [] then 0 else Wsym G.V (WL G) y u)
        by_cases hyV : y ∈ G.V
        · rw [pnF_term ν rename G hV0 hyV, Wsym_term _ _ _ hyV]
          by_cases hu : u = []
          · subst hu; rw [if_pos rfl, if_neg (by simp)]
          · rw [if_neg hu, Wsym_term _ _ _ hyV]
        · rw [Wsym_nt _ _ _ (pnF_notV ν rename G hrenV hyV)]
          have hyS : y ≠ G.S := fun e => hS (mem_bodySyms.mpr ⟨r, hr, e ▸ hy⟩)
          split
          · next hu =>
            rw [hu, pushNull_nil_other ν rename G hS hrenS n _ (pnF_ne_S ν rename G hrenS hyS)]
          · next hu =>
            rw [Wsym_nt _ _ _ hyV]
            exact ih y (fun z e => hrenB z (e ▸ mem_bodySyms.mpr ⟨r, hr, hy⟩)) u hu
    · rw [if_neg hh, if_neg (fun e => hh (pnF_inj ν rename G hinj
        (fun y e' => hrenH y r hr e') hX e))]

/-- **C06.5 (limit)** `_push_null_weights` called with the TRUE null weights preserves the TRUE
weight of every non-empty string at every old symbol `X` (renamed to `pnF … X`), however the
ε-derivations of the grammar look like (cyclic nullable parts included).  Side conditions: those of
`pushNull_le`/`pushNull_ge` on the names (`rename` injective, new nonterminals; the start symbol on
no right-hand side). -/
theorem pushNull_WL (rename : σ → σ) (G : CFG σ ℝ≥0∞)
    (hS : G.S ∉ bodySyms G) (hrenV : ∀ y, rename y ∉ G.V) (hrenS : ∀ y, rename y ≠ G.S)
    (hinj : ∀ y z, rename y = rename z → y = z)
    (hrenH : ∀ y, ∀ r ∈ G.rules, rename y ≠ r.head) (hrenB : ∀ y, rename y ∉ bodySyms G)
    (X : σ) (hX : ∀ y, rename y ≠ X) (x : List σ) (hx : x ≠ []) :
    WL (pushNull (nullWL G) rename G) (pnF (nullWL G) rename G X) x = WL G X x := by
  apply le_antisymm
  · refine iSup_le fun n => ?_
    exact pushNull_level_le_WL (nullWL G) rename G hS (fun a ha => nullWL_term G ha) hrenV hrenS
      hinj hrenH hrenB (fun r hr y hy hyV => le_of_eq (nullWL_nt G hyV)) n X hX x hx
  · exact pushNull_WL_le_of_ge (nullWL G) rename G (fun a ha => nullWL_term G ha) hrenV
      (fun r hr y hy hyV => le_of_eq (nullWL_nt G hyV).symm) X x hx

/-- the empty string: the start symbol gets `nullW S` (any table `ν`) … -/
theorem pushNull_WL_nil_start (ν : σ → ℝ≥0∞) (rename : σ → σ) (G : CFG σ ℝ≥0∞)
    (hS : G.S ∉ bodySyms G) (hrenS : ∀ y, rename y ≠ G.S) :
    WL (pushNull ν rename G) G.S [] = ν G.S :=
  WL_of_stable _ G.S [] 1 (ν G.S) (fun m hm => by
    obtain ⟨k, rfl⟩ : ∃ k, m = k + 1 := ⟨m - 1, by omega⟩
    exact pushNull_nil_start ν rename G hS hrenS k)

/-- … and every other symbol 0 -/
theorem pushNull_WL_nil_other (ν : σ → ℝ≥0∞) (rename : σ → σ) (G : CFG σ ℝ≥0∞)
    (hS : G.S ∉ bodySyms G) (hrenS : ∀ y, rename y ≠ G.S) (Z : σ) (hZ : Z ≠ G.S) :
    WL (pushNull ν rename G) Z [] = 0 :=
  WL_zero_of_levels _ Z [] (fun n => pushNull_nil_other ν rename G hS hrenS n Z hZ)

theorem pnF_start (ν : σ → ℝ≥0∞) (rename : σ → σ) (G : CFG σ ℝ≥0∞) : pnF ν rename G G.S = G.S :=
  if_pos (Or.inr rfl)

/-- **C06.5 (limit, start symbol)** with the TRUE null weights the weighted language (at the start
symbol, which keeps its name) is preserved for EVERY string, the empty one included -/
theorem pushNull_WL_start (rename : σ → σ) (G : CFG σ ℝ≥0∞) (hSV : G.S ∉ G.V)
    (hS : G.S ∉ bodySyms G) (hrenV : ∀ y, rename y ∉ G.V) (hrenS : ∀ y, rename y ≠ G.S)
    (hinj : ∀ y z, rename y = rename z → y = z)
    (hrenH : ∀ y, ∀ r ∈ G.rules, rename y ≠ r.head) (hrenB : ∀ y, rename y ∉ bodySyms G)
    (x : List σ) : WL (pushNull (nullWL G) rename G) G.S x = WL G G.S x := by
  by_cases hx : x = []
  · subst hx
    rw [pushNull_WL_nil_start (nullWL G) rename G hS hrenS, nullWL_nt G hSV]
  · have := pushNull_WL rename G hS hrenV hrenS hinj hrenH hrenB G.S hrenS x hx
    rwa [pnF_start] at this

end

/-! ## §C `unaryremove` with the TRUE closure of the unary rule graph -/
namespace LimAux
section

/-- continuity of `Σ_r [c r] (A_r · (w_r · B_r))` in the chains `A_r`, `B_r` (diagonal index) -/
theorem sum_ite_mul_iSup {α : Type} (l : List α) (c : α → Prop) [DecidablePred c]
    (a b : α → ℕ → ℝ≥0∞) (w : α → ℝ≥0∞)
    (ha : ∀ r ∈ l, Monotone (a r)) (hb : ∀ r ∈ l, Monotone (b r)) :
    (l.map fun r => if c r then (⨆ k, a r k) * (w r * ⨆ m, b r m) else 0).sum
      = ⨆ n, (l.map fun r => if c r then a r n * (w r * b r n) else 0).sum := by
  rw [← list_sum_iSupT]
  · congr 1; apply List.map_congr_left; intro r hr
    by_cases hc : c r
    · simp only [if_pos hc]
      rw [ENNReal.mul_iSup, iSup_mul_iSup_mono (ha r hr)
        (fun i j h => mul_le_mul' le_rfl (hb r hr h))]
    · simp only [if_neg hc]
      rw [iSup_const]
  · intro r hr i j h
    show (if c r then a r i * (w r * b r i) else 0) ≤ (if c r then a r j * (w r * b r j) else 0)
    split
    · exact mul_le_mul' (ha r hr h) (mul_le_mul' le_rfl (hb r hr h))
    · exact le_rfl

end
end LimAux

section
variable {σ : Type} [DecidableEq σ] [DecidableEq ℝ≥0∞]

/-- the TRUE closure `Σ_k A^k` of the unary rule graph (`A Y Z` = total weight of the unary rules
`Y → Z`): an infinite sum when the unary rules are cyclic -/
noncomputable def UWL (G : CFG σ ℝ≥0∞) (Y X : σ) : ℝ≥0∞ := ⨆ k, UW G k Y X

theorem UW_monotone (G : CFG σ ℝ≥0∞) (Y X : σ) : Monotone fun k => UW G k Y X :=
  monotone_nat_of_le_succ fun k => le_of_natLe (UW_mono G k Y X)

theorem UW_le_UWL (G : CFG σ ℝ≥0∞) (k : Nat) (Y X : σ) : UW G k Y X ≤ UWL G Y X :=
  le_iSup (fun k => UW G k Y X) k

/-- **(⊑, limit)** any closure table above the true closure loses nothing -/
theorem unaryRemove_WL_le_of_ge (W : σ → σ → ℝ≥0∞) (G : CFG σ ℝ≥0∞)
    (hW : ∀ Y ∈ nonterminals G, ∀ X ∈ nonterminals G, UWL G Y X ≤ W Y X) (Y : σ) (x : List σ) :
    WL G Y x ≤ WL (unaryRemove W G) Y x := by
  refine iSup_le fun n => le_iSup_of_le n (le_of_natLe ?_)
  exact unaryRemove_le W G
    (fun k Y hY X hX => natLe_of_le (le_trans (UW_le_UWL G k Y X) (hW Y hY X hX))) n Y x

/-- **(⊒, levels against the limit)** any closure table below the true closure adds nothing: every
level of the new grammar is below the true weight in the old one -/
theorem unaryRemove_level_le_WL (W : σ → σ → ℝ≥0∞) (G : CFG σ ℝ≥0∞)
    (hW : ∀ Y ∈ nonterminals G, ∀ X ∈ nonterminals G, W Y X ≤ UWL G Y X)
    (n : Nat) (Y : σ) (x : List σ) : WN (unaryRemove W G) n Y x ≤ WL G Y x := by
  induction n generalizing Y x with
  | zero => exact zero_le
  | succ n ih =>
    rw [WN_succ]
    show stepL G.V _ _ _ _ ≤ _
    rw [unaryRemove_step]
    split
    · next hY =>
      calc CLs G.V G.rules (W Y) (fun r => Wbody G.V (WN (unaryRemove W G) n) r.body x)
          ≤ CLs G.V G.rules (fun X => ⨆ k, UW G k Y X) (fun r => Wbody G.V (WL G) r.body x) :=
            le_of_natLe (CLs_le _ _ _ _ _ _
              (fun r hr => natLe_of_le (hW Y hY _ (head_mem_nonterminals hr)))
              (fun r _ => Wbody_le _ _ _ _ (fun s _ u => natLe_of_le (ih s u)) x))
        _ = ⨆ m, CLs G.V G.rules (UW G m Y) (fun r => Wbody G.V (WN G m) r.body x) := by
            unfold CLs
            simp only [Wbody_WL]
            exact sum_ite_mul_iSup G.rules (fun r => isUnaryRule G.V r = false)
              (fun r k => UW G k Y r.head) (fun r m => Wbody G.V (WN G m) r.body x) (fun r => r.w)
              (fun r _ => UW_monotone G Y r.head)
              (fun r _ => Wbody_mono G.V (WN G) (monoTab_WN G) r.body x)
        _ ≤ WL G Y x :=
            iSup_le fun m => le_trans (le_of_natLe (closure_le_WN G m m Y x)) (WN_le_WL G _ Y x)
    · exact zero_le

/-- **C06.6 (limit)** `unaryremove` called with the TRUE closure of the unary rule graph preserves
the TRUE weight of every string at every symbol — no hypothesis at all (cyclic unary rules and
divergent closures included) -/
theorem unaryRemove_WL (G : CFG σ ℝ≥0∞) (Y : σ) (x : List σ) :
    WL (unaryRemove (UWL G) G) Y x = WL G Y x :=
  le_antisymm
    (iSup_le fun n => unaryRemove_level_le_WL (UWL G) G (fun _ _ _ _ => le_rfl) n Y x)
    (unaryRemove_WL_le_of_ge (UWL G) G (fun _ _ _ _ => le_rfl) Y x)

/-- the closure table only matters on the nonterminals -/
theorem unaryRemove_WL_of_eq (W : σ → σ → ℝ≥0∞) (G : CFG σ ℝ≥0∞)
    (hW : ∀ Y ∈ nonterminals G, ∀ X ∈ nonterminals G, W Y X = UWL G Y X) (Y : σ) (x : List σ) :
    WL (unaryRemove W G) Y x = WL G Y x :=
  le_antisymm
    (iSup_le fun n => unaryRemove_level_le_WL W G (fun Y hY X hX => le_of_eq (hW Y hY X hX)) n Y x)
    (unaryRemove_WL_le_of_ge W G (fun Y hY X hX => le_of_eq (hW Y hY X hX).symm) Y x)

end

/-! ## non-vacuity: grammars over `ℝ≥0∞` with genuinely infinite derivation sums -/
section Examples

/-- `5 → 0 (1); 0 → 0 0 (1/4) | ε (1/2) | 1 (1/4)`, terminal `1`: the nullable part is cyclic, every
string has infinitely many derivation trees, and the null weight of `0` (the least solution of
`z = 1/2 + z²/4`, i.e. `2 - √2`) is attained at no finite level (all levels are rational) -/
noncomputable def limNullG : CFG ℕ ℝ≥0∞ :=
  ⟨5, [1], [⟨1, 5, [0]⟩, ⟨1/4, 0, [0, 0]⟩, ⟨1/2, 0, []⟩, ⟨1/4, 0, [1]⟩]⟩

theorem limNullG_S : limNullG.S ∉ bodySyms limNullG := by decide
theorem limNullG_renV : ∀ y, (fun k => k + 100) y ∉ limNullG.V := by intro y; simp [limNullG]
theorem limNullG_renS : ∀ y, (fun k => k + 100) y ≠ limNullG.S := by intro y; simp [limNullG]
theorem limNullG_renH : ∀ y, ∀ r ∈ limNullG.rules, (fun k => k + 100) y ≠ r.head := by
  intro y r hr
  simp only [limNullG, List.mem_cons, List.not_mem_nil, or_false] at hr
  rcases hr with rfl | rfl | rfl | rfl <;> simp
theorem limNullG_renB : ∀ y, (fun k => k + 100) y ∉ bodySyms limNullG := by
  intro y h
  have : ∀ s ∈ bodySyms limNullG, s < 100 := by decide
  have := this _ h
  simp at this

-- all side conditions of `pushNull_WL` are met: the nullable `0` (renamed, its true null weight
-- being `≥ 1/2 > 0`) keeps the true weight of every non-empty string
example (x : List ℕ) (hx : x ≠ []) :
    WL (pushNull (nullWL limNullG) (· + 100) limNullG)
      (pnF (nullWL limNullG) (· + 100) limNullG 0) x = WL limNullG 0 x :=
  pushNull_WL (· + 100) limNullG limNullG_S limNullG_renV limNullG_renS
    (fun y z h => by simpa using h) limNullG_renH limNullG_renB 0 (by intro y; simp) x hx
-- … and the whole weighted language at the start symbol, `ε` included
example (x : List ℕ) :
    WL (pushNull (nullWL limNullG) (· + 100) limNullG) 5 x = WL limNullG 5 x :=
  pushNull_WL_start (· + 100) limNullG (by decide) limNullG_S limNullG_renV limNullG_renS
    (fun y z h => by simpa using h) limNullG_renH limNullG_renB x

/-- `0 → 0 (1/2) | 2 (1/2); 2 → 0 (1/2) | 1 (1/2)`: cyclic unary rules; the closure is an infinite
sum; `unaryRemove_WL` needs no hypothesis -/
noncomputable def limUnG : CFG ℕ ℝ≥0∞ :=
  ⟨0, [1], [⟨1/2, 0, [0]⟩, ⟨1/2, 0, [2]⟩, ⟨1/2, 2, [0]⟩, ⟨1/2, 2, [1]⟩]⟩
example (x : List ℕ) : WL (unaryRemove (UWL limUnG) limUnG) 0 x = WL limUnG 0 x :=
  unaryRemove_WL limUnG 0 x

/-- `0 → 0 1 0 1 (1/2) | 1 (1/2)` (the grammar `structExG` with weights in `ℝ≥0∞`) -/
noncomputable def limExG : CFG ℕ ℝ≥0∞ := ⟨0, [1], [⟨1/2, 0, [0, 1, 0, 1]⟩, ⟨1/2, 0, [1]⟩]⟩
example (x : List ℕ) :
    WL (binarize structGen (separateTerminals structGen limExG 0).1
        (separateTerminals structGen limExG 0).2).1 0 x = WL limExG 0 x :=
  separateTerminals_binarize_WL structGen limExG 0
    (by intro k _; simp [limExG, structGen]; omega)
    (by intro i j _ _ h; simpa [structGen] using h)
    (by intro r hr k _
        have h : ∀ r ∈ limExG.rules, r.head < 10 := by
          intro r hr
          simp only [limExG, List.mem_cons, List.not_mem_nil, or_false] at hr
          rcases hr with rfl | rfl <;> simp
        have := h r hr
        simp only [structGen]; omega)
    (by intro r hr s hs k _
        have h : ∀ s ∈ bodySyms limExG, s < 10 := by decide
        have := h s (mem_bodySyms.mpr ⟨r, hr, hs⟩)
        simp only [structGen]; omega)
    0 (by intro k _; simp only [structGen]; omega) x

end Examples
end Genlm

