import GenlmModel.Proofs.EndToEnd
import GenlmModel.Proofs.LmLink
import GenlmModel.Proofs.LimPrefix
import GenlmModel.Proofs.BoolLink
import GenlmModel.Proofs.AddEosDerives

/-! # End-to-end theorems for the weighted language models `CKYLM` / `EarleyLM` over `ℝ≥0∞` (C04)

`Proofs/LmLink.lean` proves the LM theorems for an ABSTRACT prefix-weight function `P` and an abstract oracle
(`PNextOK`); `Proofs/LimPrefix.lean` proves that the TRUE prefix weights `pw H c = Σ_y WL H S (c·y)` (infinite sums
over all completions and all derivation trees) of `H = add_EOS G` satisfy the chain rule, but "`pwR` is not linked
to a concrete parser oracle".  This file closes that gap by composing

  `add_EOS`  →  `prefix_grammar` (`prefixWeight_WL'`)  →  the parsers with their preprocessing
  (`inc_cky_call_is_WL`, `earley_call_as_run_is_WL` of `Proofs/EndToEnd.lean`, applied to the PREFIX grammar)
  →  `next_token_weights` (`outside_is_inside_of_extension`, `earleyQ_pnext`)  →  `Chart.normalize`  →  `LM.__call__`.

* §B.0  `Chart.sum`, `Chart.normalize`, `LM.__call__` over `ℝ≥0∞` (`normalize` divides: the `Field` lemmas of
        `ChainRule`/`LmLink` are re-proved for `ℝ≥0∞`, with the side condition `≠ ∞`): `chart_link_E10`,
        `lmCall_eq_prod_E10`; the oracle interface `PNextOKE` (the tokens `t` are the symbols `ι t = CSym.term t` of
        the composed grammar), `lm_next_E10`, `lm_call_E10`.
* §B.1  the alphabet of the prefix grammar (`mem_composeV_prefixT_E10`); `pw_congr_E10`; a context of non-zero prefix
        weight consists of tokens (`over_of_pw_ne_zero_E10`).
* names `CnfNamesK` (the freshness hypotheses `CnfNames`, any weight type) and **`cnfNamesK_prefix_E10`: fresh names
        for the `cnf()` / `nullaryremove` run on the prefix grammar always exist** (`genPfx`, `freshPfx`, `renPfx`:
        names that mention a transducer state `≥ 2`).
* `incCkyPNext_renumber_E10`: `IncrementalCKY.__init__`'s `renumber()` does not change any chart entry.
* §B.2  `ckyPfgL` = `cfg.cnf.prefix_grammar.cnf`, `ckyPfgRenL` (renumbered), `ckyLmPNext`; **`ckyPfgL_call_E10`**
        (`IncrementalCKY(pfg)(c) = pw H c`), **`cky_lm_pnextOK_E10`**, `cky_lm_pnextOK_ren_E10`, and the literal
        `PNextOK` of `LmLink` (`cky_pfg_pnextOK_E10`).
* §B.3  `earleyPfgL` = the grammar `Earley(cfg.prefix_grammar)` builds, `earleyLmPNext`; **`earley_lm_pnextOK_E10`**.
* §B.4  **`lm_end_to_end`** (any oracle), `lm_end_to_end_real` (link with `pwR`, `cond`, `addEOS_chain_rule_lm`),
        **`cky_lm_end_to_end`**, **`earley_lm_end_to_end`**.
* non-vacuity: `limG` (`S → a S (1/2) | ε (1/2)`) through the whole CKY pipeline.

## Model vs. code
* `CKYLM.__init__`: `pfg = cfg.cnf.prefix_grammar.cnf`; both `cnf()` runs are `cnfL` (TRUE null weights, TRUE unary
  closure; `EndToEnd.lean` explains why).  `IncrementalCKY.__init__` calls `renumber()`: modelled (`ckyPfgRenL`).
* `EarleyLM.__init__`: `Earley(cfg.prefix_grammar)` — NO `cnf()` before the composition, unlike `CKYLM`.
* the prefix grammar lives over the symbols `CSym Nat σ` (`(i, X, j)` triples, output terminals, start); a token `t` is
  the terminal `CSym.term t`, a context `c` the string `tm c`.  Python uses the SAME objects for tokens and
  terminals of the composed grammar; `CSym.term` is the model's tag.
* `Chart.normalize` over `ℝ≥0∞`: `x / ∞ = 0`, and `∞ / ∞ = 0` where floats give `nan`; all statements about
  normalised charts assume `pw H c ≠ ∞` (implied by `ZL G S ≠ ∞`).
* `_helper` of `Earley.next_token_weights` is modelled with fuel; `earleyLmChart` passes `helperFuel`. -/
namespace Genlm
set_option linter.unusedSectionVars false
open scoped ENNReal
open UnfoldAux IncCkyAux LinkAux LimAux

/-! ## B.0 charts over `ℝ≥0∞`: `Chart.sum`, `Chart.normalize`, `LM.__call__` -/
section AlgE10
variable {τ : Type} [DecidableEq τ] [DecidableEq ℝ≥0∞]

theorem chartSum_eq_sum_E10 (q : List (τ × ℝ≥0∞)) : chartSum q = (q.map (·.2)).sum := by
  unfold chartSum
  have : ∀ a : ℝ≥0∞, q.foldl (fun a e => a + e.2) a = a + (q.map (·.2)).sum := by
    induction q with
    | nil => intro a; simp
    | cons e q ih => intro a; simp only [List.foldl_cons, ih, List.map_cons, List.sum_cons, add_assoc]
  rw [this, zero_add]

theorem get_map_div_E10 (q : PyChart τ ℝ≥0∞) (Z : ℝ≥0∞) (t : τ) :
    PyChart.get (q.map fun e => (e.1, e.2 / Z)) t = PyChart.get q t / Z := by
  induction q with
  | nil => rw [List.map_nil, get_nil, ENNReal.zero_div]
  | cons e q ih =>
    rw [List.map_cons, get_cons, get_cons, ih]
    by_cases h : e.1 = t
    · rw [if_pos h, if_pos h]
    · rw [if_neg h, if_neg h]

theorem get_normalize_E10 (q : PyChart τ ℝ≥0∞) (hZ : chartSum q ≠ 0) (t : τ) :
    PyChart.get (normalize q) t = PyChart.get q t / chartSum q := by
  have hn : normalize q = q.map fun e => (e.1, e.2 / chartSum q) := by
    simp only [normalize, hZ, if_false]
  rw [hn, get_map_div_E10]

theorem normalize_sums_to_one_E10 (q : PyChart τ ℝ≥0∞) (hZ : chartSum q ≠ 0) (hI : chartSum q ≠ ∞) :
    chartSum (normalize q) = 1 := by
  have hn : normalize q = q.map fun e => (e.1, e.2 / chartSum q) := by
    simp only [normalize, hZ, if_false]
  rw [hn, chartSum_eq_sum_E10, List.map_map]
  simp only [Function.comp_def, div_eq_mul_inv]
  rw [List.sum_map_mul_right, ← chartSum_eq_sum_E10]
  exact ENNReal.mul_inv_cancel hZ hI

/-- one chart over `ℝ≥0∞`: the keys of `q` are distinct, `q` vanishes outside the tokens `ι t` (`t ∈ V`), the entry
at `ι t` is `Pn t`, and `Pc = Σ_{t ∈ V} Pn t` is neither `0` nor `∞` -/
theorem chart_link_E10 {σ : Type} (V : List σ) (hV : V.Nodup) (ι : σ → τ) (hι : Function.Injective ι)
    (q : PyChart τ ℝ≥0∞) (Pc : ℝ≥0∞) (Pn : σ → ℝ≥0∞)
    (hnd : NodupKeys q) (hout : ∀ t', t' ∉ V.map ι → q.get t' = 0) (hget : ∀ t, t ∈ V → q.get (ι t) = Pn t)
    (hcons : Pc = (V.map Pn).sum) (h0 : Pc ≠ 0) (hI : Pc ≠ ∞) :
    chartSum q = Pc
    ∧ (∀ t, t ∈ V → PyChart.get (normalize q) (ι t) = Pn t / Pc)
    ∧ (∀ t', t' ∉ V.map ι → PyChart.get (normalize q) t' = 0)
    ∧ chartSum (normalize q) = 1
    ∧ (V.map fun t => PyChart.get (normalize q) (ι t)).sum = 1 := by
  have hZ : chartSum q = Pc := by
    rw [chartSum_eq_sum_E10, sum_values_eq_sum_get q (V.map ι) (hV.map hι) hnd hout, hcons, List.map_map]
    congr 1; apply List.map_congr_left; intro t ht
    exact hget t ht
  have hZ0 : chartSum q ≠ 0 := hZ ▸ h0
  have hZI : chartSum q ≠ ∞ := hZ ▸ hI
  have h2 : ∀ t, t ∈ V → PyChart.get (normalize q) (ι t) = Pn t / Pc := by
    intro t ht
    rw [get_normalize_E10 _ hZ0, hget t ht, hZ]
  refine ⟨hZ, h2, ?_, normalize_sums_to_one_E10 _ hZ0 hZI, ?_⟩
  · intro t ht
    rw [get_normalize_E10 _ hZ0, hout t ht, ENNReal.zero_div]
  · rw [List.map_congr_left (g := fun t => Pn t * Pc⁻¹) (fun t ht => by rw [h2 t ht, div_eq_mul_inv]),
      List.sum_map_mul_right, ← hcons]
    exact ENNReal.mul_inv_cancel h0 hI

theorem foldl_break_E10 {α : Type} (f : α → ℝ≥0∞) (l : List α) (a : ℝ≥0∞) :
    l.foldl (fun P b => if P = 0 then P else P * f b) a = a * (l.map f).prod := by
  induction l generalizing a with
  | nil => simp
  | cons b l ih =>
    simp only [List.foldl_cons, List.map_cons, List.prod_cons]
    by_cases ha : a = 0
    · subst ha
      rw [if_pos rfl, ih, zero_mul, zero_mul]
    · rw [if_neg ha, ih, mul_assoc]

/-- the early `break` of `LM.__call__` is unobservable (over `ℝ≥0∞`) -/
theorem lmCall_eq_prod_E10 (pnext : List τ → τ → ℝ≥0∞) (d : τ) (ctx : List τ) :
    lmCall pnext ctx
      = ((List.range ctx.length).map fun i => pnext (ctx.take i) (ctx.getD i d)).prod := by
  unfold lmCall
  rw [foldl_break_E10 (fun yi : τ × Nat => pnext (ctx.take yi.2) yi.1), one_mul]
  congr 1
  apply List.ext_getElem
  · simp
  · intro i h1 h2
    have hi : i < ctx.length := by simpa using h1
    simp [hi]

end AlgE10

/-! ### the interface of a next-token oracle whose tokens `ι t` live in another alphabet -/
section AbstractE10
variable {σ τ : Type} [DecidableEq σ] [DecidableEq τ] [DecidableEq ℝ≥0∞]

/-- `pn c` is the unnormalised chart `p_next(c)` of a parser that runs on a grammar over the alphabet `τ` in
which the token `t` is the symbol `ι t` (for the prefix grammar `G @ prefix_transducer`: `ι = CSym.term`), and
`P` are the weights of the contexts: distinct keys, nothing outside the tokens, entry `ι t` is `P (c ++ [t])` -/
structure PNextOKE (V : List σ) (ι : σ → τ) (pn : List σ → PyChart τ ℝ≥0∞) (P : List σ → ℝ≥0∞) : Prop where
  nodup : ∀ c, (∀ b ∈ c, b ∈ V) → NodupKeys (pn c)
  out : ∀ c, (∀ b ∈ c, b ∈ V) → ∀ t', t' ∉ V.map ι → (pn c).get t' = 0
  get : ∀ c, (∀ b ∈ c, b ∈ V) → ∀ t, t ∈ V → (pn c).get (ι t) = P (c ++ [t])

/-- **one step over `ℝ≥0∞`**: at a context `c` where the weights are consistent and `0 < P c < ∞`, the chart
`p_next(c)` has total `P c`, its normalisation has the entry `P (c ++ [t]) / P c` at every token, `0` elsewhere,
and total one -/
theorem lm_next_E10 (V : List σ) (hV : V.Nodup) (ι : σ → τ) (hι : Function.Injective ι)
    (pn : List σ → PyChart τ ℝ≥0∞) (P : List σ → ℝ≥0∞) (hpn : PNextOKE V ι pn P) (c : List σ)
    (hc : ∀ b ∈ c, b ∈ V) (hcons : P c = (V.map fun t => P (c ++ [t])).sum) (h0 : P c ≠ 0) (hI : P c ≠ ∞) :
    chartSum (pn c) = P c
    ∧ (∀ t, t ∈ V → PyChart.get (normalize (pn c)) (ι t) = P (c ++ [t]) / P c)
    ∧ (∀ t', t' ∉ V.map ι → PyChart.get (normalize (pn c)) t' = 0)
    ∧ chartSum (normalize (pn c)) = 1
    ∧ (V.map fun t => PyChart.get (normalize (pn c)) (ι t)).sum = 1 :=
  chart_link_E10 V hV ι hι (pn c) (P c) (fun t => P (c ++ [t])) (hpn.nodup c hc) (hpn.out c hc)
    (hpn.get c hc) hcons h0 hI

/-- **the whole string over `ℝ≥0∞`**: `LM.__call__ (x ++ [eos])`, with `p_next(c) = pn(c).normalize()`, is
`P (x ++ [eos]) / P []` when every prefix of `x` has a weight that is neither `0` nor `∞` -/
theorem lm_call_E10 (V : List σ) (hV : V.Nodup) (ι : σ → τ) (hι : Function.Injective ι)
    (pn : List σ → PyChart τ ℝ≥0∞) (P : List σ → ℝ≥0∞) (hpn : PNextOKE V ι pn P) (eos : σ) (heos : eos ∈ V)
    (x : List σ) (hx : ∀ b ∈ x, b ∈ V)
    (hcons : ∀ i, i ≤ x.length → P (x.take i) = (V.map fun t => P (x.take i ++ [t])).sum)
    (h0 : ∀ i, i ≤ x.length → P (x.take i) ≠ 0) (hI : ∀ i, i ≤ x.length → P (x.take i) ≠ ∞) :
    lmCall (fun c t => PyChart.get (normalize (pn c)) (ι t)) (x ++ [eos]) = P (x ++ [eos]) / P [] := by
  rw [lmCall_eq_prod_E10 _ eos]
  have hstep : ∀ i, i ≤ x.length → ∀ t, t ∈ V →
      PyChart.get (normalize (pn (x.take i))) (ι t) = P (x.take i ++ [t]) / P (x.take i) := by
    intro i hi t ht
    exact (lm_next_E10 V hV ι hι pn P hpn (x.take i) (fun b hb => hx b (List.mem_of_mem_take hb))
      (hcons i hi) (h0 i hi) (hI i hi)).2.1 t ht
  simp only [List.length_append, List.length_cons, List.length_nil, Nat.zero_add]
  rw [List.range_succ, List.map_append, List.prod_append]
  have e1 : ((List.range x.length).map fun i =>
        PyChart.get (normalize (pn ((x ++ [eos]).take i))) (ι ((x ++ [eos]).getD i eos)))
      = (List.range x.length).map fun i => P (x.take (i+1)) / P (x.take i) := by
    apply List.map_congr_left
    intro i hi
    have hi' : i < x.length := List.mem_range.1 hi
    rw [List.take_append_of_le_length (Nat.le_of_lt hi'), List.getD_eq_getElem?_getD,
      List.getElem?_append_left hi', List.getElem?_eq_getElem hi', Option.getD_some,
      hstep i (Nat.le_of_lt hi') _ (hx _ (List.getElem_mem hi')), List.take_append_getElem hi']
  rw [e1, LimAux.prod_ratio_take P x x.length le_rfl h0 hI]
  simp only [List.map_cons, List.map_nil, List.prod_cons, List.prod_nil, mul_one]
  have e2 : (x ++ [eos]).take x.length = x := List.take_left' rfl
  have e3 : (x ++ [eos]).getD x.length eos = eos := by
    rw [List.getD_eq_getElem?_getD, List.getElem?_append_right (Nat.le_refl _)]
    simp
  have hl := hstep x.length le_rfl eos heos
  rw [List.take_length] at hl ⊢
  rw [e2, e3, hl]
  simp only [div_eq_mul_inv]
  have h1 := ENNReal.mul_inv_cancel (by simpa using h0 x.length le_rfl) (by simpa using hI x.length le_rfl)
  calc P x * (P [])⁻¹ * (P (x ++ [eos]) * (P x)⁻¹)
      = P (x ++ [eos]) * (P [])⁻¹ * (P x * (P x)⁻¹) := by ring
    _ = P (x ++ [eos]) * (P [])⁻¹ := by rw [h1, mul_one]

end AbstractE10

/-! ## B.1 the alphabet of the prefix grammar; prefix weights -/
section PrefixE10
open ComposeAux WfsaAux
variable {σ : Type} [DecidableEq σ]

theorem prefixT_outSyms_mem_E10 {K : Type} [One K] (V : List σ) (a : σ) :
    a ∈ (prefixT V : FST Nat σ K).outSyms ↔ a ∈ V := by
  simp only [FST.outSyms, prefixT, List.mem_eraseDups, List.mem_filterMap, List.mem_flatMap]
  constructor
  · rintro ⟨e, ⟨x, hx, he⟩, hout⟩
    simp only [List.mem_cons, List.not_mem_nil, or_false] at he
    rcases he with rfl | rfl | rfl
    · simp only [Option.some.injEq] at hout; exact hout ▸ hx
    · simp only [Option.some.injEq] at hout; exact hout ▸ hx
    · simp at hout
  · intro ha
    exact ⟨⟨0, some a, some a, 0, 1⟩, ⟨a, ha, by simp⟩, rfl⟩

/-- the terminals of the prefix grammar are the tokens, tagged -/
theorem mem_composeV_prefixT_E10 {K : Type} [One K] (V : List σ) (s : CSym Nat σ) :
    s ∈ composeV (prefixT V : FST Nat σ K) ↔ s ∈ V.map CSym.term := by
  simp only [composeV, List.mem_map, prefixT_outSyms_mem_E10]

theorem composeV_prefixT_nodup_E10 {K : Type} [One K] (V : List σ) :
    (composeV (prefixT V : FST Nat σ K)).Nodup := by
  unfold composeV
  exact (nodup_eraseDups _).map (fun a b h => by injection h)

theorem term_injective_E10 : Function.Injective (CSym.term : σ → CSym Nat σ) :=
  fun a b h => by injection h

theorem mem_tm_E10 (c : List σ) (V : List σ) (hc : ∀ b ∈ c, b ∈ V) :
    ∀ s ∈ (tm c : List (CSym Nat σ)), s ∈ V.map CSym.term := by
  intro s hs
  obtain ⟨b, hb, rfl⟩ := List.mem_map.mp hs
  exact List.mem_map.mpr ⟨b, hc b hb, rfl⟩

theorem tm_append_singleton_E10 (c : List σ) (t : σ) :
    (tm c : List (CSym Nat σ)) ++ [CSym.term t] = tm (c ++ [t]) := by
  simp [tm]

/-- two grammars with the same weighted language have the same prefix weights -/
theorem pw_congr_E10 (G : CFG σ ℝ≥0∞) (G' : CFG σ ℝ≥0∞)
    (h : ∀ x, WL G' G'.S x = WL G G.S x) (p : List σ) : pw G' p = pw G p := by
  unfold pw
  exact tsum_congr fun y => h (p ++ y)

/-- a context of non-zero prefix weight consists of terminals -/
theorem over_of_pw_ne_zero_E10 (G : CFG σ ℝ≥0∞) (p : List σ) (h : pw G p ≠ 0) : ∀ a ∈ p, a ∈ G.V := by
  intro a ha
  by_contra hna
  apply h
  unfold pw
  rw [ENNReal.tsum_eq_zero]
  intro y
  exact WL_eq_zero_of_not_over G G.S (p ++ y) ⟨a, List.mem_append_left _ ha, hna⟩

end PrefixE10

/-! ## names: the freshness hypotheses for any weight type; fresh names for the prefix grammar exist -/
section NamesE10
variable {σ : Type} [DecidableEq σ]

/-- the freshness hypotheses of the `cnf()` pipeline (`CnfNames` of `Proofs/EndToEnd.lean`, for any weight type) -/
structure CnfNamesK {K : Type} (gen : Nat → σ) (fresh : σ) (rename : σ → σ) (G : CFG σ K) (ctr : Nat) :
    Prop where
  startNT : G.S ∉ G.V
  headsNT : ∀ r ∈ G.rules, r.head ∉ G.V
  genNT : ∀ i, gen i ∉ G.V
  genInj : ∀ i j, ctr < i → ctr < j → gen i = gen j → i = j
  genHead : ∀ r ∈ G.rules, ∀ k, ctr < k → r.head ≠ gen k
  genBody : ∀ r ∈ G.rules, ∀ s ∈ r.body, ∀ k, ctr < k → s ≠ gen k
  genStart : ∀ k, ctr < k → G.S ≠ gen k
  genFresh : ∀ i, gen i ≠ fresh
  freshNT : fresh ∉ G.V
  freshStart : fresh ≠ G.S
  freshHead : ∀ r ∈ G.rules, r.head ≠ fresh
  freshBody : fresh ∉ bodySyms G
  renNT : ∀ y, rename y ∉ G.V
  renInj : ∀ y z, rename y = rename z → y = z
  renStart : ∀ y, rename y ≠ G.S
  renFresh : ∀ y, rename y ≠ fresh
  renGen : ∀ y i, rename y ≠ gen i
  renHead : ∀ y, ∀ r ∈ G.rules, rename y ≠ r.head
  renBody : ∀ y, rename y ∉ bodySyms G

theorem CnfNamesK.toCnfNames {gen : Nat → σ} {fresh : σ} {rename : σ → σ} {G : CFG σ ℝ≥0∞} {ctr : Nat}
    (h : CnfNamesK gen fresh rename G ctr) : CnfNames gen fresh rename G ctr :=
  ⟨h.startNT, h.headsNT, h.genNT, h.genInj, h.genHead, h.genBody, h.genStart, h.genFresh, h.freshNT,
    h.freshStart, h.freshHead, h.freshBody, h.renNT, h.renInj, h.renStart, h.renFresh, h.renGen, h.renHead,
    h.renBody⟩

end NamesE10

section ComposeNamesE10
variable {σ K : Type} [DecidableEq σ]

/-- a name that mentions a state `≥ 2` in first position: no symbol of `G @ prefix_transducer` (states `0`, `1`) -/
def bigSym : CSym Nat σ → Prop
  | .item i _ _ => 2 ≤ i
  | _ => False

/-- names for `_gen_nt()` over the symbols of the prefix grammar -/
def genPfx (i : Nat) : CSym Nat σ := .item 2 .eps (i + 2)
/-- a name for the new start symbol of `separate_start` -/
def freshPfx : CSym Nat σ := .item 2 .eps 0
/-- names for `NotNull(y)` -/
def renPfx : CSym Nat σ → CSym Nat σ
  | .term b => .item 2 (.sym b) 1
  | .item i x j => .item (i + 3) x (j + 3)
  | .start => .item 2 .other 1

theorem joinAll_small_E10 (S : List Nat) (hS : ∀ q ∈ S, q < 2) :
    ∀ (Ys : List (CX σ)) (s : Nat), s ∈ S → ∀ p ∈ joinAll S s Ys, (∀ y ∈ p.1, ¬ bigSym y) ∧ p.2 ∈ S
  | [], s, hs, p, hp => by
    simp only [joinAll, List.mem_singleton] at hp
    subst hp
    exact ⟨fun y hy => (by cases hy), hs⟩
  | Y :: Ys, s, hs, p, hp => by
    simp only [joinAll, List.mem_flatMap, List.mem_map] at hp
    obtain ⟨k, hk, q, hq, rfl⟩ := hp
    obtain ⟨h1, h2⟩ := joinAll_small_E10 S hS Ys k hk q hq
    refine ⟨?_, h2⟩
    intro y hy
    rcases List.mem_cons.mp hy with rfl | hy
    · intro hb
      have := hS s hs
      simp only [bigSym] at hb
      omega
    · exact h1 y hy

theorem prefixT_states_E10 [One K] (V : List σ) : ∀ q ∈ (prefixT V : FST Nat σ K).states, q < 2 := by
  intro q hq
  simp only [FST.states, prefixT, List.mem_eraseDups, List.mem_append, List.mem_map, List.mem_flatMap,
    List.mem_cons, List.not_mem_nil, or_false] at hq
  rcases hq with (⟨a, (rfl | rfl), rfl⟩ | ⟨a, rfl, rfl⟩) | ⟨e, ⟨x, _, (rfl | rfl | rfl)⟩, (rfl | rfl)⟩ <;> simp

/-- every rule of the prefix grammar has a head `.start` or `.item i X j` with small states, and a body of
terminals and such items -/
theorem compose_prefix_small_E10 [Add K] [Mul K] [One K] [Zero K] [DecidableEq K] (G : CFG σ K) (V : List σ) :
    ∀ r ∈ (compose G (prefixT V : FST Nat σ K)).rules,
      ¬ bigSym r.head ∧ (∀ b, r.head ≠ .term b) ∧ ∀ y ∈ r.body, ¬ bigSym y := by
  intro r hr
  have hS := prefixT_states_E10 (K := K) V
  have hr' := (mem_mkRules.mp hr).1
  rcases List.mem_append.mp hr' with h | h
  · rcases List.mem_append.mp h with h | h
    · obtain ⟨h, _⟩ := List.mem_filter.mp h
      simp only [expandedRules, expandRule, List.mem_flatMap, List.mem_map] at h
      obtain ⟨q, _, s, hs, p, hp, rfl⟩ := h
      obtain ⟨h1, _⟩ := joinAll_small_E10 _ hS q.body s hs p hp
      refine ⟨?_, (fun b hb => by cases hb), h1⟩
      intro hb
      have := hS s hs
      simp only [bigSym] at hb
      omega
    · simp only [startRules, List.mem_flatMap, List.mem_map] at h
      obtain ⟨s, hs, f, hf, rfl⟩ := h
      refine ⟨fun hb => hb, (fun b hb => by cases hb), ?_⟩
      intro y hy
      have hy' : y = .item s.1 .other f.1 := by simpa using hy
      subst hy'
      simp only [prefixT, List.mem_cons, List.not_mem_nil, or_false] at hs
      rcases hs with rfl | rfl <;> simp [bigSym]
  · simp only [arcRules, List.mem_map] at h
    obtain ⟨e, he, rfl⟩ := h
    simp only [prefixT, List.mem_flatMap, List.mem_cons, List.not_mem_nil, or_false] at he
    obtain ⟨x, _, he⟩ := he
    have hsrc : e.src < 2 := by rcases he with rfl | rfl | rfl <;> simp
    refine ⟨fun hb => ?_, (fun b hb => by cases hb), ?_⟩
    · simp only [bigSym] at hb; omega
    · intro y hy
      rcases he with rfl | rfl | rfl <;> simp [outBody] at hy <;> (try subst hy) <;> simp [bigSym]

theorem renPfx_big_E10 (y : CSym Nat σ) : bigSym (renPfx y) := by
  cases y <;> simp [renPfx, bigSym]

theorem renPfx_inj_E10 : ∀ (y z : CSym Nat σ), renPfx y = renPfx z → y = z
  | .term a, .term b, h => by
    simp only [renPfx, CSym.item.injEq, CX.sym.injEq] at h; rw [h.2.1]
  | .term a, .item i x j, h => by
    simp only [renPfx, CSym.item.injEq] at h; exact absurd h.1 (by omega)
  | .term a, .start, h => by simp [renPfx] at h
  | .item i x j, .term b, h => by
    simp only [renPfx, CSym.item.injEq] at h; exact absurd h.1 (by omega)
  | .item i x j, .item i' x' j', h => by
    simp only [renPfx, CSym.item.injEq] at h
    obtain ⟨h1, h2, h3⟩ := h
    have e1 := Nat.add_right_cancel h1
    have e3 := Nat.add_right_cancel h3
    subst e1 h2 e3
    rfl
  | .item i x j, .start, h => by
    simp only [renPfx, CSym.item.injEq] at h; exact absurd h.1 (by omega)
  | .start, .term b, h => by simp [renPfx] at h
  | .start, .item i x j, h => by
    simp only [renPfx, CSym.item.injEq] at h; exact absurd h.1 (by omega)
  | .start, .start, _ => rfl

/-- **fresh names for the `cnf()` / `nullaryremove` run on the prefix grammar exist**, for every grammar `G`, every
weight type and every token list: `CnfNamesK` (hence `CnfNames`) holds for `genPfx`, `freshPfx`, `renPfx` -/
theorem cnfNamesK_prefix_E10 [Add K] [Mul K] [One K] [Zero K] [DecidableEq K] (G : CFG σ K) (V : List σ) :
    CnfNamesK genPfx freshPfx renPfx (compose G (prefixT V : FST Nat σ K)) 0 := by
  have hsm := compose_prefix_small_E10 G V
  have hV : ∀ s ∈ (compose G (prefixT V : FST Nat σ K)).V, ∃ b, s = .term b := by
    intro s hs
    obtain ⟨b, _, rfl⟩ := List.mem_map.mp hs
    exact ⟨b, rfl⟩
  have hbody : ∀ s ∈ bodySyms (compose G (prefixT V : FST Nat σ K)), ¬ bigSym s := by
    intro s hs
    obtain ⟨r, hr, hm⟩ := mem_bodySyms.mp hs
    exact (hsm r hr).2.2 s hm
  have hgen : ∀ i, bigSym (genPfx i : CSym Nat σ) := fun i => by simp [genPfx, bigSym]
  have hfresh : bigSym (freshPfx : CSym Nat σ) := by simp [freshPfx, bigSym]
  refine ⟨?_, ?_, ?_, ?_, ?_, ?_, ?_, ?_, ?_, ?_, ?_, ?_, ?_, ?_, ?_, ?_, ?_, ?_, ?_⟩
  · intro h; obtain ⟨b, hb⟩ := hV _ h; cases hb
  · intro r hr h; obtain ⟨b, hb⟩ := hV _ h; exact (hsm r hr).2.1 b hb
  · intro i h; obtain ⟨b, hb⟩ := hV _ h; cases hb
  · intro i j _ _ h; simp only [genPfx, CSym.item.injEq] at h; omega
  · intro r hr k _ h; exact (hsm r hr).1 (h ▸ hgen k)
  · intro r hr s hs k _ h; exact (hsm r hr).2.2 s hs (h ▸ hgen k)
  · intro k _ h; cases h
  · intro i h; simp only [genPfx, freshPfx, CSym.item.injEq] at h; omega
  · intro h; obtain ⟨b, hb⟩ := hV _ h; cases hb
  · intro h; cases h
  · intro r hr h; exact (hsm r hr).1 (h ▸ hfresh)
  · intro h; exact hbody _ h hfresh
  · intro y h; obtain ⟨b, hb⟩ := hV _ h; cases y <;> cases hb
  · exact renPfx_inj_E10
  · intro y h; cases y <;> cases h
  · intro y h; cases y <;> simp [renPfx, freshPfx] at h
  · intro y i h; cases y <;> simp [renPfx, genPfx] at h
  · intro y r hr h; exact (hsm r hr).1 (h ▸ renPfx_big_E10 y)
  · intro y h; exact hbody _ h (renPfx_big_E10 y)

end ComposeNamesE10

/-! ### `IncrementalCKY.__init__` calls `cfg.renumber()`: the chart entries do not depend on the names -/
section RenumberE10
variable {σ K : Type} [DecidableEq σ] [DecidableEq K] [CommSemiring K]

theorem inCNF_renameCFG_E10 {τ : Type} [DecidableEq τ] (g : σ → τ) (hg : Function.Injective g) (G : CFG σ K)
    (h : InCNF G) : InCNF (renameCFG g G) := by
  intro r' hr'
  obtain ⟨r, hr, rfl⟩ := List.mem_map.mp hr'
  obtain ⟨h1, h2⟩ := h r hr
  have hm : ∀ y, g y ∈ G.V.map g ↔ y ∈ G.V := fun y => List.mem_map_of_injective hg
  refine ⟨fun hc => h1 ((hm _).mp hc), ?_⟩
  rcases h2 with ⟨hb, hh⟩ | ⟨a, hb, ha⟩ | ⟨B, C, hb, hB, hC, hBS, hCS⟩
  · exact Or.inl ⟨by simp [hb], congrArg g hh⟩
  · exact Or.inr (Or.inl ⟨g a, by simp [hb], (hm a).mpr ha⟩)
  · exact Or.inr (Or.inr ⟨g B, g C, by simp [hb], fun hc => hB ((hm _).mp hc), fun hc => hC ((hm _).mp hc),
      fun e => hBS (hg e), fun e => hCS (hg e)⟩)

/-- **`renumber()` is unobservable for `IncrementalCKY.p_next`**: for a grammar in CNF (non-zero weights, start
symbol a nonterminal) and an injective renaming `f` of the nonterminals into the nonterminals, every entry of the
chart `p_next(p)` (context `p` of terminals) is the same before and after the renaming -/
theorem incCkyPNext_renumber_E10 (P : CFG σ K) (hcnf : InCNF P) (hV : P.V.Nodup) (hS : P.S ∉ P.V)
    (hnz : ∀ r ∈ P.rules, r.w ≠ 0) (f : σ → σ) (hfV : ∀ y, y ∉ P.V → f y ∉ P.V)
    (hfinj : ∀ y z, y ∉ P.V → z ∉ P.V → f y = f z → y = z) (p : List σ) (hp : ∀ b ∈ p, b ∈ P.V) (k : σ) :
    (incCkyPNext (renameNT f P) p).get k = (incCkyPNext P p).get k := by
  have hg : Function.Injective (ntMap P.V f) := ntMap_injective_E1 _ f hfV hfinj
  have heq : renameNT f P = renameCFG (ntMap P.V f) P :=
    renameNT_eq_renameCFG_E1 f P hS (fun r hr => (hcnf r hr).1) hnz
  have hVr : (renameCFG (ntMap P.V f) P).V = P.V := map_ntMap_of_terminals_E1 P.V f P.V (fun _ h => h)
  rw [heq]
  by_cases hk : k ∈ P.V
  · have hpk : ∀ b ∈ p ++ [k], b ∈ P.V := by
      intro b hb
      rcases List.mem_append.mp hb with h | h
      · exact hp b h
      · rw [List.mem_singleton.mp h]; exact hk
    rw [incCky_pnext_is_WN _ (inCNF_renameCFG_E10 _ hg P hcnf) (by rw [hVr]; exact hV) p k
        (by rw [hVr]; exact hk) (p.length + 2) (Nat.le_refl _),
      incCky_pnext_is_WN P hcnf hV p k hk (p.length + 2) (Nat.le_refl _)]
    have := WN_rename (ntMap P.V f) hg P (p.length + 2) P.S (p ++ [k])
    rw [map_ntMap_of_terminals_E1 P.V f (p ++ [k]) hpk] at this
    exact this
  · rw [show (incCkyPNext (renameCFG (ntMap P.V f) P) p).get k = 0 from
        incCkyPNext_notin _ _ p k (by rw [hVr]; exact hk),
      show (incCkyPNext P p).get k = 0 from incCkyPNext_notin P _ p k hk]

end RenumberE10

/-! ## B.2 `CKYLM`: `IncrementalCKY(cfg.cnf.prefix_grammar.cnf).p_next(c).normalize()` -/
section CkyLmE10
open ComposeAux
variable {σ : Type} [DecidableEq σ] [DecidableEq ℝ≥0∞]

/-- `CKYLM.pfg = cfg.cnf.prefix_grammar.cnf`: both `cnf()` runs with the TRUE null weights and the TRUE unary
closures (`cnfL`), each with its own naming functions; `prefix_grammar` is `compose · (prefixT V)` -/
noncomputable def ckyPfgL (gen1 : Nat → σ) (fresh1 : σ) (ren1 : σ → σ) (ctr1 : Nat)
    (gen2 : Nat → CSym Nat σ) (fresh2 : CSym Nat σ) (ren2 : CSym Nat σ → CSym Nat σ) (ctr2 : Nat)
    (H : CFG σ ℝ≥0∞) : CFG (CSym Nat σ) ℝ≥0∞ :=
  cnfL gen2 fresh2 ren2
    (compose (cnfL gen1 fresh1 ren1 H ctr1) (prefixT (cnfL gen1 fresh1 ren1 H ctr1).V : FST Nat σ ℝ≥0∞)) ctr2

/-- the unnormalised chart of `CKYLM.p_next(c)`: `IncrementalCKY(pfg).p_next(c)`; the context `c` is a string of
terminals `tm c` of the prefix grammar -/
noncomputable def ckyLmChart (pfg : CFG (CSym Nat σ) ℝ≥0∞) (c : List σ) : PyChart (CSym Nat σ) ℝ≥0∞ :=
  incCkyPNext pfg (tm c)

/-- `CKYLM.p_next(c)[t]` -/
noncomputable def ckyLmPNext (pfg : CFG (CSym Nat σ) ℝ≥0∞) (c : List σ) (t : σ) : ℝ≥0∞ :=
  PyChart.get (normalize (ckyLmChart pfg c)) (CSym.term t)

variable (gen1 : Nat → σ) (fresh1 : σ) (ren1 : σ → σ) (ctr1 : Nat)
  (gen2 : Nat → CSym Nat σ) (fresh2 : CSym Nat σ) (ren2 : CSym Nat σ → CSym Nat σ) (ctr2 : Nat)
  (H : CFG σ ℝ≥0∞)

theorem cnfL_V_E10 : (cnfL gen1 fresh1 ren1 H ctr1).V = H.V := cnfModel_V _ _ _ _ _ H ctr1

theorem cnfL_composeOK_E10 (Hn1 : CnfNames gen1 fresh1 ren1 H ctr1) :
    ComposeOK (cnfL gen1 fresh1 ren1 H ctr1)
      (prefixT (cnfL gen1 fresh1 ren1 H ctr1).V : FST Nat σ ℝ≥0∞) := by
  obtain ⟨hI, _⟩ := cnfL_inCNF_E1 gen1 fresh1 ren1 H ctr1 Hn1
  apply composeOK_prefixT
  · intro r hr; exact (hI r hr).1
  · rw [cnfL_V_E10, cnfL_S]
    rcases cnfPrep_S_cases gen1 fresh1 H ctr1 with h | h <;> rw [h]
    · exact Hn1.freshNT
    · exact Hn1.startNT

theorem ckyPfgL_V_E10 :
    (ckyPfgL gen1 fresh1 ren1 ctr1 gen2 fresh2 ren2 ctr2 H).V
      = composeV (prefixT H.V : FST Nat σ ℝ≥0∞) := by
  unfold ckyPfgL
  rw [cnfL_V_E10, cnfL_V_E10]
  rfl

/-- **the string weights of `CKYLM.pfg` are the prefix weights of the grammar**: `IncrementalCKY(pfg)(c)` is
`pw H c = Σ_y (weight of ALL derivation trees of c·y in H)`, for every string `c` -/
theorem ckyPfgL_call_E10 (Hn1 : CnfNames gen1 fresh1 ren1 H ctr1)
    (Hn2 : CnfNames gen2 fresh2 ren2
      (compose (cnfL gen1 fresh1 ren1 H ctr1) (prefixT (cnfL gen1 fresh1 ren1 H ctr1).V : FST Nat σ ℝ≥0∞))
      ctr2)
    (hV : H.V.Nodup) (c : List σ) :
    incCkyCall (ckyPfgL gen1 fresh1 ren1 ctr1 gen2 fresh2 ren2 ctr2 H) (tm c) = pw H c := by
  unfold ckyPfgL
  rw [inc_cky_call_is_WL gen2 fresh2 ren2 _ ctr2 Hn2 (tm c)]
  have hok := cnfL_composeOK_E10 gen1 fresh1 ren1 ctr1 H Hn1
  have hV1 : (cnfL gen1 fresh1 ren1 H ctr1).V.Nodup := by rw [cnfL_V_E10]; exact hV
  rw [prefixWeight_WL' (cnfL gen1 fresh1 ren1 H ctr1) hok hV1 c]
  exact pw_congr_E10 H _ (cnfL_inCNF_E1 gen1 fresh1 ren1 H ctr1 Hn1).2 c

/-- **C04, the CKY back end meets the oracle interface with `P = pw H`** (the gap left open by `LimPrefix`):
the unnormalised entry of `CKYLM.p_next(c)` at the token `t` is the prefix weight `pw H (c ++ [t])` -/
theorem cky_lm_pnextOK_E10 (Hn1 : CnfNames gen1 fresh1 ren1 H ctr1)
    (Hn2 : CnfNames gen2 fresh2 ren2
      (compose (cnfL gen1 fresh1 ren1 H ctr1) (prefixT (cnfL gen1 fresh1 ren1 H ctr1).V : FST Nat σ ℝ≥0∞))
      ctr2)
    (hV : H.V.Nodup) :
    PNextOKE H.V CSym.term (ckyLmChart (ckyPfgL gen1 fresh1 ren1 ctr1 gen2 fresh2 ren2 ctr2 H)) (pw H) := by
  have hPV := ckyPfgL_V_E10 gen1 fresh1 ren1 ctr1 gen2 fresh2 ren2 ctr2 H
  refine ⟨fun c _ => incCkyPNext_nodupKeys _ _, fun c _ t' ht' => ?_, fun c _ t ht => ?_⟩
  · apply incCkyPNext_notin
    rw [hPV, mem_composeV_prefixT_E10]
    exact ht'
  · unfold ckyLmChart
    rw [outside_is_inside_of_extension _ (by rw [hPV]; exact composeV_prefixT_nodup_E10 H.V) (tm c)
      (CSym.term t) (by rw [hPV, mem_composeV_prefixT_E10]; exact List.mem_map.mpr ⟨t, ht, rfl⟩),
      tm_append_singleton_E10]
    exact ckyPfgL_call_E10 gen1 fresh1 ren1 ctr1 gen2 fresh2 ren2 ctr2 H Hn1 Hn2 hV (c ++ [t])

/-- a string of the prefix grammar read back as a string of tokens -/
def untm (c' : List (CSym Nat σ)) : List σ :=
  c'.filterMap fun s => match s with
    | .term b => some b
    | _ => none

theorem untm_tm_E10 (c : List σ) : untm (tm c : List (CSym Nat σ)) = c := by
  induction c with
  | nil => rfl
  | cons a c ih =>
    show untm (CSym.term a :: tm c) = a :: c
    unfold untm at ih ⊢
    rw [List.filterMap_cons_some (by rfl), ih]

theorem tm_untm_E10 (V : List σ) (c' : List (CSym Nat σ)) (h : ∀ s ∈ c', s ∈ V.map CSym.term) :
    (tm (untm c') : List (CSym Nat σ)) = c' := by
  induction c' with
  | nil => rfl
  | cons s c' ih =>
    obtain ⟨b, _, rfl⟩ := List.mem_map.mp (h s (List.mem_cons_self ..))
    have ih' := ih (fun s' hs' => h s' (List.mem_cons_of_mem _ hs'))
    show tm (untm (CSym.term b :: c')) = CSym.term b :: c'
    have : untm (CSym.term b :: c') = b :: untm c' := by
      unfold untm; rw [List.filterMap_cons_some (by rfl)]
    rw [this]
    show CSym.term b :: tm (untm c') = _
    rw [ih']

/-- **the gap left open by `LimPrefix` ("`pwR` is not linked to a concrete parser oracle"), literally**: the
interface `PNextOK` of `Proofs/LmLink.lean` is met by `IncrementalCKY` on `CKYLM.pfg` with the string weights
`c' ↦ pw H (untm c')`, the prefix weights of `H` -/
theorem cky_pfg_pnextOK_E10 (Hn1 : CnfNames gen1 fresh1 ren1 H ctr1)
    (Hn2 : CnfNames gen2 fresh2 ren2
      (compose (cnfL gen1 fresh1 ren1 H ctr1) (prefixT (cnfL gen1 fresh1 ren1 H ctr1).V : FST Nat σ ℝ≥0∞))
      ctr2)
    (hV : H.V.Nodup) :
    PNextOK (ckyPfgL gen1 fresh1 ren1 ctr1 gen2 fresh2 ren2 ctr2 H).V
      (incCkyPNext (ckyPfgL gen1 fresh1 ren1 ctr1 gen2 fresh2 ren2 ctr2 H)) (fun c' => pw H (untm c')) := by
  have hPV := ckyPfgL_V_E10 gen1 fresh1 ren1 ctr1 gen2 fresh2 ren2 ctr2 H
  refine (cky_pnextOK _ (by rw [hPV]; exact composeV_prefixT_nodup_E10 H.V)).congr (fun c' hc' _ => ?_)
  have hc'' : ∀ s ∈ c', s ∈ H.V.map CSym.term := by
    intro s hs
    have := hc' s hs
    rwa [hPV, mem_composeV_prefixT_E10] at this
  conv_lhs => rw [← tm_untm_E10 H.V c' hc'']
  exact ckyPfgL_call_E10 gen1 fresh1 ren1 ctr1 gen2 fresh2 ren2 ctr2 H Hn1 Hn2 hV (untm c')

/-- the grammar `IncrementalCKY` stores: `CKYLM.pfg.renumber()` (`f`: the injective renaming of the nonterminals) -/
noncomputable def ckyPfgRenL (f : CSym Nat σ → CSym Nat σ) : CFG (CSym Nat σ) ℝ≥0∞ :=
  renameNT f (ckyPfgL gen1 fresh1 ren1 ctr1 gen2 fresh2 ren2 ctr2 H)

theorem ckyPfgL_shape_E10
    (Hn2 : CnfNames gen2 fresh2 ren2
      (compose (cnfL gen1 fresh1 ren1 H ctr1) (prefixT (cnfL gen1 fresh1 ren1 H ctr1).V : FST Nat σ ℝ≥0∞))
      ctr2) :
    InCNF (ckyPfgL gen1 fresh1 ren1 ctr1 gen2 fresh2 ren2 ctr2 H)
    ∧ (ckyPfgL gen1 fresh1 ren1 ctr1 gen2 fresh2 ren2 ctr2 H).S ∉
        (ckyPfgL gen1 fresh1 ren1 ctr1 gen2 fresh2 ren2 ctr2 H).V
    ∧ ∀ r ∈ (ckyPfgL gen1 fresh1 ren1 ctr1 gen2 fresh2 ren2 ctr2 H).rules, r.w ≠ 0 := by
  refine ⟨(cnfL_inCNF_E1 gen2 fresh2 ren2 _ ctr2 Hn2).1, ?_, fun r hr => (mem_trimTo.mp hr).2.2.1⟩
  unfold ckyPfgL
  rw [cnfL_V_E10, cnfL_S]
  rcases cnfPrep_S_cases gen2 fresh2
    (compose (cnfL gen1 fresh1 ren1 H ctr1) (prefixT (cnfL gen1 fresh1 ren1 H ctr1).V : FST Nat σ ℝ≥0∞))
    ctr2 with h | h <;> rw [h]
  · exact Hn2.freshNT
  · exact Hn2.startNT

/-- **C04, the CKY back end as `CKYLM` runs it** (`renumber()` included) meets the oracle interface with `P = pw H` -/
theorem cky_lm_pnextOK_ren_E10 (Hn1 : CnfNames gen1 fresh1 ren1 H ctr1)
    (Hn2 : CnfNames gen2 fresh2 ren2
      (compose (cnfL gen1 fresh1 ren1 H ctr1) (prefixT (cnfL gen1 fresh1 ren1 H ctr1).V : FST Nat σ ℝ≥0∞))
      ctr2)
    (hV : H.V.Nodup) (f : CSym Nat σ → CSym Nat σ)
    (hfV : ∀ y, y ∉ composeV (prefixT H.V : FST Nat σ ℝ≥0∞) → f y ∉ composeV (prefixT H.V : FST Nat σ ℝ≥0∞))
    (hfinj : ∀ y z, y ∉ composeV (prefixT H.V : FST Nat σ ℝ≥0∞) →
      z ∉ composeV (prefixT H.V : FST Nat σ ℝ≥0∞) → f y = f z → y = z) :
    PNextOKE H.V CSym.term
      (ckyLmChart (ckyPfgRenL gen1 fresh1 ren1 ctr1 gen2 fresh2 ren2 ctr2 H f)) (pw H) := by
  have hpn := cky_lm_pnextOK_E10 gen1 fresh1 ren1 ctr1 gen2 fresh2 ren2 ctr2 H Hn1 Hn2 hV
  have hPV := ckyPfgL_V_E10 gen1 fresh1 ren1 ctr1 gen2 fresh2 ren2 ctr2 H
  obtain ⟨hcnf, hS, hnz⟩ := ckyPfgL_shape_E10 gen1 fresh1 ren1 ctr1 gen2 fresh2 ren2 ctr2 H Hn2
  have hget : ∀ c, (∀ b ∈ c, b ∈ H.V) → ∀ k,
      (ckyLmChart (ckyPfgRenL gen1 fresh1 ren1 ctr1 gen2 fresh2 ren2 ctr2 H f) c).get k
        = (ckyLmChart (ckyPfgL gen1 fresh1 ren1 ctr1 gen2 fresh2 ren2 ctr2 H) c).get k := by
    intro c hc k
    unfold ckyLmChart ckyPfgRenL
    refine incCkyPNext_renumber_E10 _ hcnf (by rw [hPV]; exact composeV_prefixT_nodup_E10 H.V) hS hnz f
      (by rw [hPV]; exact hfV) (by rw [hPV]; exact hfinj) (tm c) ?_ k
    intro b hb
    rw [hPV, mem_composeV_prefixT_E10]
    exact mem_tm_E10 c H.V hc b hb
  refine ⟨fun c _ => incCkyPNext_nodupKeys _ _, fun c hc t' ht' => ?_, fun c hc t ht => ?_⟩
  · rw [hget c hc]; exact hpn.out c hc t' ht'
  · rw [hget c hc]; exact hpn.get c hc t ht

end CkyLmE10

/-! ## B.3 `EarleyLM`: `Earley(cfg.prefix_grammar).next_token_weights(chart(c)).normalize()` -/
section EarleyLmE10
open ComposeAux UCycleAux EarleyAux
variable {σ : Type} [DecidableEq σ] [DecidableEq ℝ≥0∞]

/-- the grammar `Earley.__init__` builds from `cfg.prefix_grammar`:
`nullaryremove(binarize=True).unarycycleremove().renumber()` with the TRUE null weights and block closures -/
noncomputable def earleyPfgL (gen : Nat → CSym Nat σ) (fresh : CSym Nat σ) (rename : CSym Nat σ → CSym Nat σ)
    (A : CSym Nat σ → CSym Nat σ → ℝ≥0∞) (blocks : List (Block (CSym Nat σ) ℝ≥0∞))
    (bot f : CSym Nat σ → CSym Nat σ) (ctr : Nat) (H : CFG σ ℝ≥0∞) : CFG (CSym Nat σ) ℝ≥0∞ :=
  earleyGrammarRenL gen fresh rename A blocks bot f (compose H (prefixT H.V : FST Nat σ ℝ≥0∞)) ctr

/-- the unnormalised chart of `EarleyLM.p_next(c)`: `next_token_weights(chart(c))`, the chart computed with the
priority-queue agenda (`pick`), `_helper` with enough fuel for its recursion -/
noncomputable def earleyLmChart (E : CFG (CSym Nat σ) ℝ≥0∞) (order : CSym Nat σ → Nat)
    (pick : Nat → List (Nat × CSym Nat σ) → Option ((Nat × CSym Nat σ) × List (Nat × CSym Nat σ)))
    (c : List σ) : PyChart (CSym Nat σ) ℝ≥0∞ :=
  earleyNextTokenWeights E (helperFuel E order (earleyChartQ E pick (tm c))) (earleyChartQ E pick (tm c))

/-- `EarleyLM.p_next(c)[t]` -/
noncomputable def earleyLmPNext (E : CFG (CSym Nat σ) ℝ≥0∞) (order : CSym Nat σ → Nat)
    (pick : Nat → List (Nat × CSym Nat σ) → Option ((Nat × CSym Nat σ) × List (Nat × CSym Nat σ)))
    (c : List σ) (t : σ) : ℝ≥0∞ :=
  PyChart.get (normalize (earleyLmChart E order pick c)) (CSym.term t)

/-- **C04, the Earley back end meets the oracle interface with `P = pw H`**: the unnormalised entry of
`EarleyLM.p_next(c)` at the token `t` is the prefix weight `pw H (c ++ [t])`.  Hypotheses as in
`earley_call_as_run_is_WL`, for the prefix grammar `compose H (prefixT H.V)`. -/
theorem earley_lm_pnextOK_E10 (gen : Nat → CSym Nat σ) (fresh : CSym Nat σ) (rename : CSym Nat σ → CSym Nat σ)
    (A : CSym Nat σ → CSym Nat σ → ℝ≥0∞) (blocks : List (Block (CSym Nat σ) ℝ≥0∞))
    (bot f : CSym Nat σ → CSym Nat σ) (nodes : List (CSym Nat σ)) (ctr : Nat) (H : CFG σ ℝ≥0∞)
    (hok : ComposeOK H (prefixT H.V : FST Nat σ ℝ≥0∞)) (hV : H.V.Nodup)
    (Hn : CnfNames gen fresh rename (compose H (prefixT H.V : FST Nat σ ℝ≥0∞)) ctr)
    (hU : UcShape A blocks bot nodes
      (nullaryRemoveL gen fresh rename (compose H (prefixT H.V : FST Nat σ ℝ≥0∞)) ctr))
    (hW : TrueClosures A blocks nodes
      (nullaryRemoveL gen fresh rename (compose H (prefixT H.V : FST Nat σ ℝ≥0∞)) ctr))
    (hfV : ∀ y, y ∉ (compose H (prefixT H.V : FST Nat σ ℝ≥0∞)).V →
      f y ∉ (compose H (prefixT H.V : FST Nat σ ℝ≥0∞)).V)
    (hfinj : ∀ y z, y ∉ (compose H (prefixT H.V : FST Nat σ ℝ≥0∞)).V →
      z ∉ (compose H (prefixT H.V : FST Nat σ ℝ≥0∞)).V → f y = f z → y = z)
    (nodes' : List (CSym Nat σ)) (bl' : List (List (CSym Nat σ)))
    (hd' : IsSccDecomp nodes'
      ((unaryEdges (earleyPfgL gen fresh rename A blocks bot f ctr H)).map Prod.swap) bl')
    (pick : Nat → List (Nat × CSym Nat σ) → Option ((Nat × CSym Nat σ) × List (Nat × CSym Nat σ)))
    (hpick : ∀ k, PickOK (itemPrio (earleyPfgL gen fresh rename A blocks bot f ctr H) (blockIdx bl') k)
      (pick k)) :
    PNextOKE H.V CSym.term
      (earleyLmChart (earleyPfgL gen fresh rename A blocks bot f ctr H) (blockIdx bl') pick) (pw H) := by
  obtain ⟨⟨order0, hA0⟩, hVE, _⟩ :=
    earleyGrammarRenL_spec gen fresh rename A blocks bot nodes f _ ctr Hn hU hW hfV hfinj
  have hb := topoOrder_of_buckets_E1 (earleyPfgL gen fresh rename A blocks bot f ctr H) order0
    hA0.topo nodes' bl' hd'
  have hA : Acyc (earleyPfgL gen fresh rename A blocks bot f ctr H) (blockIdx bl') :=
    ⟨hA0.nullOK, hA0.headsNT, hb.1⟩
  have hEV : ∀ s, s ∈ (earleyPfgL gen fresh rename A blocks bot f ctr H).V ↔ s ∈ H.V.map CSym.term := by
    intro s
    have : (earleyPfgL gen fresh rename A blocks bot f ctr H).V
        = composeV (prefixT H.V : FST Nat σ ℝ≥0∞) := hVE
    rw [this, mem_composeV_prefixT_E10]
  refine ⟨fun c _ => (earleyNTW_keys _ _ _).1, fun c _ t' ht' => ?_, fun c hc t ht => ?_⟩
  · apply get_eq_zero_of_not_key
    intro hk
    exact ht' ((hEV t').mp ((earleyNTW_keys _ _ _).2 t' hk))
  · have htV : CSym.term t ∈ (earleyPfgL gen fresh rename A blocks bot f ctr H).V :=
      (hEV _).mpr (List.mem_map.mpr ⟨t, ht, rfl⟩)
    have hcV : ∀ b ∈ (tm c : List (CSym Nat σ)), b ∈ (earleyPfgL gen fresh rename A blocks bot f ctr H).V :=
      fun b hb => (hEV b).mpr (mem_tm_E10 c H.V hc b hb)
    unfold earleyLmChart
    rw [earleyQ_pnext _ (blockIdx bl') (bl'.length + 1) hA hb.2 pick hpick (tm c) hcV (CSym.term t) htV _
      (Nat.le_refl _), tm_append_singleton_E10]
    have hx : ∀ a ∈ (tm (c ++ [t]) : List (CSym Nat σ)),
        a ∈ (compose H (prefixT H.V : FST Nat σ ℝ≥0∞)).V := by
      intro a ha
      show a ∈ composeV (prefixT H.V : FST Nat σ ℝ≥0∞)
      rw [mem_composeV_prefixT_E10]
      refine mem_tm_E10 (c ++ [t]) H.V ?_ a ha
      intro b hb
      rcases List.mem_append.mp hb with h | h
      · exact hc b h
      · rw [List.mem_singleton.mp h]; exact ht
    have := earley_call_as_run_is_WL gen fresh rename A blocks bot nodes f _ ctr Hn hU hW hfV hfinj nodes' bl'
      hd' pick hpick (tm (c ++ [t])) hx
    unfold earleyPfgL
    rw [this, prefixWeight_WL' H hok hV (c ++ [t])]
    rfl

end EarleyLmE10

/-! ## B.4 `lm_end_to_end` -/
section EndToEndLmE10
open ComposeAux UCycleAux EarleyAux
variable {σ : Type} [DecidableEq σ] [DecidableEq ℝ≥0∞]

theorem addEOS_V_E10 {K : Type} [One K] (G : CFG σ K) (S' eos : σ) : (addEOS G S' eos).V = eos :: G.V := rfl

/-- the EOS-wrapped grammar satisfies the side conditions of the prefix-grammar construction -/
theorem addEOS_composeOK_E10 (G : CFG σ ℝ≥0∞) (S' eos : σ) (h : AddEosOK G S' eos)
    (hheads : ∀ r ∈ G.rules, r.head ∉ G.V) :
    ComposeOK (addEOS G S' eos) (prefixT (addEOS G S' eos).V : FST Nat σ ℝ≥0∞) := by
  apply composeOK_prefixT
  · intro r hr
    simp only [addEOS, List.mem_cons] at hr ⊢
    rcases hr with rfl | hr
    · rintro (h' | h')
      · exact h.hS'.2.1 h'
      · exact h.hS'.1 h'
    · rintro (h' | h')
      · exact (h.heos.2.2 r hr).1 h'
      · exact hheads r hr h'
  · simp only [addEOS, List.mem_cons]
    rintro (h' | h')
    · exact h.hS'.2.1 h'
    · exact h.hS'.1 h'

/-- **C04 end to end, any back end.**  `G` a grammar over `ℝ≥0∞`, `H = add_EOS G` (`AddEosOK`: `S'`, `eos` new),
`pn` a next-token oracle whose unnormalised entries are the prefix weights `pw H (c ++ [t])` of `H`
(`PNextOKE`; `cky_lm_pnextOK_E10`, `earley_lm_pnextOK_E10`: the two parsers of the library, run on the prefix
grammar, are such oracles).  Then

1. for every `eos`-free context `c` whose prefix weight is neither `0` (viable) nor `∞`: the chart `pn c` sums to
   `pw H c`; the LM's conditional `p_next(c)[t] = pn(c).normalize()[t]` is the ratio `pw H (c·t) / pw H c` for
   every token `t ∈ V ∪ {eos}`, it is `0` at every other key, the conditionals sum to one (as a chart, and over
   the tokens), and the conditional of `eos` is `WL G S c / pw H c` — the weight of `c` as a complete sentence of
   `G` (sum over ALL its derivation trees) over its prefix weight;
2. if the total weight `ZL G S` of `G` is finite, `LM.__call__ (x ++ [eos])` is `WL G S x / ZL G S` for every
   `eos`-free string `x` of non-zero prefix weight. -/
theorem lm_end_to_end {τ : Type} [DecidableEq τ] (G : CFG σ ℝ≥0∞) (S' eos : σ) (h : AddEosOK G S' eos)
    (hV : (eos :: G.V).Nodup) (ι : σ → τ) (hι : Function.Injective ι) (pn : List σ → PyChart τ ℝ≥0∞)
    (hpn : PNextOKE (eos :: G.V) ι pn (pw (addEOS G S' eos))) :
    (∀ c, eos ∉ c → pw (addEOS G S' eos) c ≠ 0 → pw (addEOS G S' eos) c ≠ ∞ →
      chartSum (pn c) = pw (addEOS G S' eos) c
      ∧ (∀ t, t ∈ eos :: G.V → PyChart.get (normalize (pn c)) (ι t)
          = pw (addEOS G S' eos) (c ++ [t]) / pw (addEOS G S' eos) c)
      ∧ (∀ t', t' ∉ (eos :: G.V).map ι → PyChart.get (normalize (pn c)) t' = 0)
      ∧ chartSum (normalize (pn c)) = 1
      ∧ ((eos :: G.V).map fun t => PyChart.get (normalize (pn c)) (ι t)).sum = 1
      ∧ PyChart.get (normalize (pn c)) (ι eos) = WL G G.S c / pw (addEOS G S' eos) c)
    ∧ (∀ x, eos ∉ x → pw (addEOS G S' eos) x ≠ 0 → ZL G G.S ≠ ∞ →
      lmCall (fun c t => PyChart.get (normalize (pn c)) (ι t)) (x ++ [eos]) = WL G G.S x / ZL G G.S) := by
  have hover : ∀ c, pw (addEOS G S' eos) c ≠ 0 → ∀ b ∈ c, b ∈ eos :: G.V :=
    fun c hc => over_of_pw_ne_zero_E10 (addEOS G S' eos) c hc
  constructor
  · intro c hc h0 hI
    obtain ⟨h1, h2, h3, h4, h5⟩ := lm_next_E10 (eos :: G.V) hV ι hι pn _ hpn c (hover c h0)
      (addEOS_pw_consistent G S' eos h hV c hc) h0 hI
    refine ⟨h1, h2, h3, h4, h5, ?_⟩
    rw [h2 eos (List.mem_cons_self ..), addEOS_pw_eos G S' eos h c hc]
  · intro x hx h0 hI
    have hle : ∀ i, pw (addEOS G S' eos) x ≤ pw (addEOS G S' eos) (x.take i) := by
      intro i
      conv_lhs => rw [← List.take_append_drop i x]
      exact pw_anti _ _ _
    have h0' : ∀ i, i ≤ x.length → pw (addEOS G S' eos) (x.take i) ≠ 0 :=
      fun i _ hc => h0 (le_antisymm (hc ▸ hle i) zero_le)
    have hI' : ∀ i, i ≤ x.length → pw (addEOS G S' eos) (x.take i) ≠ ∞ :=
      fun i _ => addEOS_pw_ne_top G S' eos h hI _
    rw [lm_call_E10 (eos :: G.V) hV ι hι pn _ hpn eos (List.mem_cons_self ..) x (hover x h0)
      (fun i _ => addEOS_pw_consistent G S' eos h hV _ (fun hm => hx (List.mem_of_mem_take hm))) h0' hI',
      addEOS_pw_eos G S' eos h x hx, addEOS_pw_nil G S' eos h]

/-- **the link with the real-valued prefix weights `pwR` of `Proofs/LimPrefix.lean`**: for a viable context of
finite prefix weight the LM's conditional, read as a real number, is `cond (pwR H) c t` — the conditional of
`chain_rule_lm` / `addEOS_chain_rule_lm` —, and for a grammar of finite total weight `LM.__call__`, read as a real
number, is `lmCall (cond (pwR H))`, the abstract language model of `addEOS_chain_rule_lm` -/
theorem lm_end_to_end_real {τ : Type} [DecidableEq τ] (G : CFG σ ℝ≥0∞) (S' eos : σ) (h : AddEosOK G S' eos)
    (hV : (eos :: G.V).Nodup) (ι : σ → τ) (hι : Function.Injective ι) (pn : List σ → PyChart τ ℝ≥0∞)
    (hpn : PNextOKE (eos :: G.V) ι pn (pw (addEOS G S' eos))) :
    (∀ c, eos ∉ c → pw (addEOS G S' eos) c ≠ 0 → pw (addEOS G S' eos) c ≠ ∞ → ∀ t, t ∈ eos :: G.V →
      (PyChart.get (normalize (pn c)) (ι t)).toReal = cond (pwR (addEOS G S' eos)) c t)
    ∧ (∀ x, eos ∉ x → pw (addEOS G S' eos) x ≠ 0 → ZL G G.S ≠ ∞ →
      (lmCall (fun c t => PyChart.get (normalize (pn c)) (ι t)) (x ++ [eos])).toReal
        = lmCall (cond (pwR (addEOS G S' eos))) (x ++ [eos])) := by
  obtain ⟨h1, h2⟩ := lm_end_to_end G S' eos h hV ι hι pn hpn
  constructor
  · intro c hc h0 hI t ht
    rw [(h1 c hc h0 hI).2.1 t ht, ENNReal.toReal_div]
    rfl
  · intro x hx h0 hI
    rw [h2 x hx h0 hI, ENNReal.toReal_div, (addEOS_chain_rule_lm G S' eos h hV hI x hx h0).2.2]

/-- **C04 end to end, `CKYLM`.**  `CKYLM(G)`: `add_EOS`, `pfg = cfg.cnf.prefix_grammar.cnf` (both `cnf()` with the
TRUE null weights / unary closures), `IncrementalCKY(pfg)` — which renames the nonterminals (`renumber()`, `f`) —,
`p_next(c).normalize()`.  Remaining hypotheses: freshness of `S'`, `eos` (`AddEosOK`), the token list has no
repetition, freshness of the names generated by the two `cnf()` runs (`CnfNames`, which includes: the start symbol
and the heads are nonterminals; the second one is over the symbols `CSym Nat σ` of the composed grammar and can
always be met: `cnfNamesK_prefix_E10`), `renumber` injective on the nonterminals and into the nonterminals. -/
theorem cky_lm_end_to_end (G : CFG σ ℝ≥0∞) (S' eos : σ) (h : AddEosOK G S' eos) (hV : (eos :: G.V).Nodup)
    (gen1 : Nat → σ) (fresh1 : σ) (ren1 : σ → σ) (ctr1 : Nat)
    (gen2 : Nat → CSym Nat σ) (fresh2 : CSym Nat σ) (ren2 : CSym Nat σ → CSym Nat σ) (ctr2 : Nat)
    (Hn1 : CnfNames gen1 fresh1 ren1 (addEOS G S' eos) ctr1)
    (Hn2 : CnfNames gen2 fresh2 ren2
      (compose (cnfL gen1 fresh1 ren1 (addEOS G S' eos) ctr1)
        (prefixT (cnfL gen1 fresh1 ren1 (addEOS G S' eos) ctr1).V : FST Nat σ ℝ≥0∞)) ctr2)
    (f : CSym Nat σ → CSym Nat σ)
    (hfV : ∀ y, y ∉ composeV (prefixT (eos :: G.V) : FST Nat σ ℝ≥0∞) →
      f y ∉ composeV (prefixT (eos :: G.V) : FST Nat σ ℝ≥0∞))
    (hfinj : ∀ y z, y ∉ composeV (prefixT (eos :: G.V) : FST Nat σ ℝ≥0∞) →
      z ∉ composeV (prefixT (eos :: G.V) : FST Nat σ ℝ≥0∞) → f y = f z → y = z) :
    (∀ c, eos ∉ c → pw (addEOS G S' eos) c ≠ 0 → pw (addEOS G S' eos) c ≠ ∞ →
      (∀ t, t ∈ eos :: G.V →
        ckyLmPNext (ckyPfgRenL gen1 fresh1 ren1 ctr1 gen2 fresh2 ren2 ctr2 (addEOS G S' eos) f) c t
          = pw (addEOS G S' eos) (c ++ [t]) / pw (addEOS G S' eos) c)
      ∧ ((eos :: G.V).map fun t =>
          ckyLmPNext (ckyPfgRenL gen1 fresh1 ren1 ctr1 gen2 fresh2 ren2 ctr2 (addEOS G S' eos) f) c t).sum = 1
      ∧ chartSum (normalize
          (ckyLmChart (ckyPfgRenL gen1 fresh1 ren1 ctr1 gen2 fresh2 ren2 ctr2 (addEOS G S' eos) f) c)) = 1
      ∧ ckyLmPNext (ckyPfgRenL gen1 fresh1 ren1 ctr1 gen2 fresh2 ren2 ctr2 (addEOS G S' eos) f) c eos
          = WL G G.S c / pw (addEOS G S' eos) c)
    ∧ (∀ x, eos ∉ x → pw (addEOS G S' eos) x ≠ 0 → ZL G G.S ≠ ∞ →
      lmCall (ckyLmPNext (ckyPfgRenL gen1 fresh1 ren1 ctr1 gen2 fresh2 ren2 ctr2 (addEOS G S' eos) f))
        (x ++ [eos]) = WL G G.S x / ZL G G.S) := by
  have hpn := cky_lm_pnextOK_ren_E10 gen1 fresh1 ren1 ctr1 gen2 fresh2 ren2 ctr2 (addEOS G S' eos) Hn1 Hn2 hV f
    hfV hfinj
  obtain ⟨h1, h2⟩ := lm_end_to_end G S' eos h hV CSym.term term_injective_E10 _ hpn
  refine ⟨fun c hc h0 hI => ?_, h2⟩
  obtain ⟨_, a2, _, a4, a5, a6⟩ := h1 c hc h0 hI
  exact ⟨a2, a5, a4, a6⟩

/-- **C04 end to end, `EarleyLM`.**  `EarleyLM(G)`: `add_EOS`, `Earley(cfg.prefix_grammar)` with its
preprocessing `nullaryremove(binarize=True).unarycycleremove().renumber()` (TRUE null weights and block
closures), `order = buckets`, agenda = priority queue, `next_token_weights(chart(c)).normalize()`.  Remaining
hypotheses: as in `earley_call_as_run_is_WL`, for the prefix grammar of `add_EOS G`. -/
theorem earley_lm_end_to_end (G : CFG σ ℝ≥0∞) (S' eos : σ) (h : AddEosOK G S' eos)
    (hheads : ∀ r ∈ G.rules, r.head ∉ G.V) (hV : (eos :: G.V).Nodup)
    (gen : Nat → CSym Nat σ) (fresh : CSym Nat σ) (rename : CSym Nat σ → CSym Nat σ)
    (A : CSym Nat σ → CSym Nat σ → ℝ≥0∞) (blocks : List (Block (CSym Nat σ) ℝ≥0∞))
    (bot f : CSym Nat σ → CSym Nat σ) (nodes : List (CSym Nat σ)) (ctr : Nat)
    (Hn : CnfNames gen fresh rename
      (compose (addEOS G S' eos) (prefixT (addEOS G S' eos).V : FST Nat σ ℝ≥0∞)) ctr)
    (hU : UcShape A blocks bot nodes (nullaryRemoveL gen fresh rename
      (compose (addEOS G S' eos) (prefixT (addEOS G S' eos).V : FST Nat σ ℝ≥0∞)) ctr))
    (hW : TrueClosures A blocks nodes (nullaryRemoveL gen fresh rename
      (compose (addEOS G S' eos) (prefixT (addEOS G S' eos).V : FST Nat σ ℝ≥0∞)) ctr))
    (hfV : ∀ y, y ∉ (compose (addEOS G S' eos) (prefixT (addEOS G S' eos).V : FST Nat σ ℝ≥0∞)).V →
      f y ∉ (compose (addEOS G S' eos) (prefixT (addEOS G S' eos).V : FST Nat σ ℝ≥0∞)).V)
    (hfinj : ∀ y z, y ∉ (compose (addEOS G S' eos) (prefixT (addEOS G S' eos).V : FST Nat σ ℝ≥0∞)).V →
      z ∉ (compose (addEOS G S' eos) (prefixT (addEOS G S' eos).V : FST Nat σ ℝ≥0∞)).V → f y = f z → y = z)
    (nodes' : List (CSym Nat σ)) (bl' : List (List (CSym Nat σ)))
    (hd' : IsSccDecomp nodes'
      ((unaryEdges (earleyPfgL gen fresh rename A blocks bot f ctr (addEOS G S' eos))).map Prod.swap) bl')
    (pick : Nat → List (Nat × CSym Nat σ) → Option ((Nat × CSym Nat σ) × List (Nat × CSym Nat σ)))
    (hpick : ∀ k, PickOK (itemPrio (earleyPfgL gen fresh rename A blocks bot f ctr (addEOS G S' eos))
      (blockIdx bl') k) (pick k)) :
    (∀ c, eos ∉ c → pw (addEOS G S' eos) c ≠ 0 → pw (addEOS G S' eos) c ≠ ∞ →
      (∀ t, t ∈ eos :: G.V →
        earleyLmPNext (earleyPfgL gen fresh rename A blocks bot f ctr (addEOS G S' eos)) (blockIdx bl') pick c t
          = pw (addEOS G S' eos) (c ++ [t]) / pw (addEOS G S' eos) c)
      ∧ ((eos :: G.V).map fun t =>
          earleyLmPNext (earleyPfgL gen fresh rename A blocks bot f ctr (addEOS G S' eos)) (blockIdx bl')
            pick c t).sum = 1
      ∧ chartSum (normalize (earleyLmChart
          (earleyPfgL gen fresh rename A blocks bot f ctr (addEOS G S' eos)) (blockIdx bl') pick c)) = 1
      ∧ earleyLmPNext (earleyPfgL gen fresh rename A blocks bot f ctr (addEOS G S' eos)) (blockIdx bl') pick
          c eos = WL G G.S c / pw (addEOS G S' eos) c)
    ∧ (∀ x, eos ∉ x → pw (addEOS G S' eos) x ≠ 0 → ZL G G.S ≠ ∞ →
      lmCall (earleyLmPNext (earleyPfgL gen fresh rename A blocks bot f ctr (addEOS G S' eos)) (blockIdx bl')
        pick) (x ++ [eos]) = WL G G.S x / ZL G G.S) := by
  have hpn := earley_lm_pnextOK_E10 gen fresh rename A blocks bot f nodes ctr (addEOS G S' eos)
    (addEOS_composeOK_E10 G S' eos h hheads) hV Hn hU hW hfV hfinj nodes' bl' hd' pick hpick
  obtain ⟨h1, h2⟩ := lm_end_to_end G S' eos h hV CSym.term term_injective_E10 _ hpn
  refine ⟨fun c hc h0 hI => ?_, h2⟩
  obtain ⟨_, a2, _, a4, a5, a6⟩ := h1 c hc h0 hI
  exact ⟨a2, a5, a4, a6⟩

end EndToEndLmE10

/-! ## non-vacuity -/
section ExamplesE10
open ComposeAux

/-- fresh names for `cnf()` on a grammar over `ℕ` all of whose symbols are `< 9` (any weight type) -/
theorem cnfNamesK_nat_E10 {K : Type} (G : CFG ℕ K) (hS : G.S ∉ G.V) (hheads : ∀ r ∈ G.rules, r.head ∉ G.V)
    (hbS : G.S < 9) (hbV : ∀ a ∈ G.V, a < 9) (hbR : ∀ r ∈ G.rules, r.head < 9 ∧ ∀ s ∈ r.body, s < 9) :
    CnfNamesK (fun i => 2 * i + 10) 9 (fun y => 2 * y + 101) G 0 where
  startNT := hS
  headsNT := hheads
  genNT := by intro i h; have := hbV _ h; omega
  genInj := by intro i j _ _ h; simpa using h
  genHead := by intro r hr k _; have := (hbR r hr).1; omega
  genBody := by intro r hr s hs k _; have := (hbR r hr).2 s hs; omega
  genStart := by intro k _; omega
  genFresh := by intro i; omega
  freshNT := by intro h; have := hbV _ h; omega
  freshStart := by omega
  freshHead := by intro r hr; have := (hbR r hr).1; omega
  freshBody := by
    intro h
    obtain ⟨r, hr, hm⟩ := List.mem_flatMap.mp h
    have := (hbR r hr).2 _ hm
    omega
  renNT := by intro y h; have := hbV _ h; omega
  renInj := by intro y z h; simpa using h
  renStart := by intro y; omega
  renFresh := by intro y; omega
  renGen := by intro y i; omega
  renHead := by intro y r hr; have := (hbR r hr).1; omega
  renBody := by
    intro y h
    obtain ⟨r, hr, hm⟩ := List.mem_flatMap.mp h
    have := (hbR r hr).2 _ hm
    omega

/-- the names of the first `cnf()` run for `add_EOS limG` (`limG = S → a S (1/2) | ε (1/2)`, `S' = 2`, `eos = 3`) -/
theorem limG_names_E10 : CnfNames (fun i => 2 * i + 10) 9 (fun y => 2 * y + 101) (addEOS limG 2 3) 0 := by
  apply CnfNamesK.toCnfNames
  apply cnfNamesK_nat_E10
  · simp [addEOS, limG]
  · intro r hr
    simp only [addEOS, limG, List.mem_cons, List.not_mem_nil, or_false] at hr
    rcases hr with rfl | rfl | rfl <;> simp [addEOS, limG]
  · show (2 : ℕ) < 9; omega
  · intro a ha
    simp only [addEOS, limG, List.mem_cons, List.not_mem_nil, or_false] at ha
    rcases ha with rfl | rfl <;> omega
  · intro r hr
    simp only [addEOS, limG, List.mem_cons, List.not_mem_nil, or_false] at hr
    rcases hr with rfl | rfl | rfl <;> simp

/-- **all hypotheses of `cky_lm_end_to_end` are satisfiable together** (`limG`: infinitely many strings, total
weight `1`; names: `limG_names_E10` for the first `cnf()`, `cnfNamesK_prefix_E10` for the second), and the
conclusions are informative: after the context `a`, `CKYLM.p_next(a)[eos]` is `weight(a) / prefix weight(a)`, and
`LM(a eos)` is `weight(a) / total weight` with `weight(a) ≥ 1/4` -/
example [DecidableEq ℝ≥0∞] :
    ckyLmPNext (ckyPfgRenL (fun i => 2 * i + 10) 9 (fun y => 2 * y + 101) 0 genPfx freshPfx renPfx 0
        (addEOS limG 2 3) id) [1] 3 = WL limG limG.S [1] / pw (addEOS limG 2 3) [1]
    ∧ ((3 :: limG.V).map fun t =>
        ckyLmPNext (ckyPfgRenL (fun i => 2 * i + 10) 9 (fun y => 2 * y + 101) 0 genPfx freshPfx renPfx 0
          (addEOS limG 2 3) id) [1] t).sum = 1
    ∧ lmCall (ckyLmPNext (ckyPfgRenL (fun i => 2 * i + 10) 9 (fun y => 2 * y + 101) 0 genPfx freshPfx renPfx 0
        (addEOS limG 2 3) id)) ([1] ++ [3]) = WL limG limG.S [1] / ZL limG limG.S := by
  obtain ⟨h1, h2⟩ := cky_lm_end_to_end limG 2 3 limG_eos (by simp [limG]) (fun i => 2 * i + 10) 9
    (fun y => 2 * y + 101) 0 genPfx freshPfx renPfx 0 limG_names_E10 (cnfNamesK_prefix_E10 _ _).toCnfNames
    id (fun _ h => h) (fun _ _ _ _ h => h)
  obtain ⟨_, a2, _, a4⟩ := h1 [1] (by simp) limG_pw_ne_zero (addEOS_pw_ne_top limG 2 3 limG_eos limG_ZL_ne_top [1])
  exact ⟨a4, a2, h2 [1] (by simp) limG_pw_ne_zero limG_ZL_ne_top⟩

end ExamplesE10
end Genlm
