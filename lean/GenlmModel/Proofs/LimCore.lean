import GenlmModel.Proofs.TrimSem
import GenlmModel.Proofs.Zn
import Mathlib.Data.ENNReal.Inv
import Mathlib.Data.ENNReal.BigOperators

/-! # Limits: genuinely infinite derivation sums over `ℝ≥0∞`

The level-wise statements of `Proofs/*` (`WN G n X x` = sum over derivation trees of height ≤ n) hold in every
commutative semiring.  Where a string has infinitely many derivation trees (cyclic nullable / unary parts) the
weight the property speaks about is the *limit* of these partial sums.  `ℝ≥0∞` is the canonical ω-continuous
commutative semiring (non-negative reals with `∞`, the value domain of the library's `Float`/`Real` semirings on
non-negative weights, divergence included): the natural preorder `≼` is `≤`, every increasing chain has a supremum,
and `+`, `*` commute with suprema of chains.  `WL G X x = ⨆ n, WN G n X x` is therefore the sum over ALL derivation
trees, and two level-indexed families that are cofinal in each other (what the `…_le`/`…_ge` theorems state) have the
same limit. -/
namespace Genlm
open scoped ENNReal
open UnfoldAux

section
variable {σ : Type} [DecidableEq σ]

/-- over `ℝ≥0∞` the natural (algebraic) preorder of the semiring is the usual order -/
theorem natLe_iff_le {a b : ℝ≥0∞} : a ≼ b ↔ a ≤ b :=
  ⟨fun ⟨_, h⟩ => h ▸ le_self_add, fun h => ⟨b - a, (add_tsub_cancel_of_le h).symm⟩⟩

theorem algLe_iff_le {a b : ℝ≥0∞} : AlgLe a b ↔ a ≤ b :=
  ⟨fun ⟨_, h⟩ => h ▸ le_self_add, fun h => ⟨b - a, (add_tsub_cancel_of_le h).symm⟩⟩

/-- the weight of `x` from `X`: the sum over ALL derivation trees (supremum of the height-bounded sums) -/
noncomputable def WL (G : CFG σ ℝ≥0∞) (X : σ) (x : List σ) : ℝ≥0∞ := ⨆ n, WN G n X x

/-- the total weight of `X`: supremum of the Kleene iterates -/
noncomputable def ZL (G : CFG σ ℝ≥0∞) (X : σ) : ℝ≥0∞ := ⨆ n, ZN G n X

theorem WN_monotone (G : CFG σ ℝ≥0∞) (X : σ) (x : List σ) : Monotone (fun n => WN G n X x) :=
  fun _ _ h => natLe_iff_le.mp (WN_le_of_le G h X x)

theorem ZN_monotone (G : CFG σ ℝ≥0∞) (X : σ) : Monotone (fun n => ZN G n X) :=
  fun _ _ h => algLe_iff_le.mp (ZN_mono_le G h X)

theorem WN_le_WL (G : CFG σ ℝ≥0∞) (n : Nat) (X : σ) (x : List σ) : WN G n X x ≤ WL G X x :=
  le_iSup (fun n => WN G n X x) n

/-- two families that bound each other (in the natural preorder) have the same supremum -/
theorem iSup_eq_of_cofinal {a b : ℕ → ℝ≥0∞} (h1 : ∀ n, ∃ m, a n ≼ b m) (h2 : ∀ n, ∃ m, b n ≼ a m) :
    ⨆ n, a n = ⨆ n, b n := by
  apply le_antisymm
  · exact iSup_le fun n => by obtain ⟨m, h⟩ := h1 n; exact le_iSup_of_le m (natLe_iff_le.mp h)
  · exact iSup_le fun n => by obtain ⟨m, h⟩ := h2 n; exact le_iSup_of_le m (natLe_iff_le.mp h)

/-- a level identity gives equal limits -/
theorem WL_congr {τ : Type} [DecidableEq τ] (G : CFG σ ℝ≥0∞) (G' : CFG τ ℝ≥0∞) (X : σ) (x : List σ) (X' : τ)
    (x' : List τ) (h : ∀ n, WN G' n X' x' = WN G n X x) : WL G' X' x' = WL G X x := by
  unfold WL; exact iSup_congr h

/-- a sequence that has stabilised at `L` has limit `L` (links the `…_limit` theorems to `WL`) -/
theorem WL_of_stable (G : CFG σ ℝ≥0∞) (X : σ) (x : List σ) (N : Nat) (L : ℝ≥0∞)
    (h : ∀ m, N ≤ m → WN G m X x = L) : WL G X x = L := by
  apply le_antisymm
  · refine iSup_le fun n => ?_
    rw [← h (max n N) (le_max_right _ _)]
    exact WN_monotone G X x (le_max_left _ _)
  · rw [← h N (le_refl _)]; exact WN_le_WL G N X x

end
end Genlm
