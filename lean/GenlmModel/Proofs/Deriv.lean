import GenlmModel.Proofs.Sem2Null

/-! Semantics of `CFG.derivative` (property C03): the derivative of a grammar with respect to a
token `a` gives every string `y` the weight the original grammar gives to `a :: y`.

The mirror model `derivative slash U a G` (`Model/Transform.lean`) keeps every rule of `G` and adds,
for every rule `X → y₁ … y_m` and every position `k`, the rule
`slash X → slash y_k  y_{k+1} … y_m` (or `slash X → y_{k+1} … y_m` when `y_k` is the terminal `a`)
with weight `w · U y₁ ⋯ U y_{k-1}`: the skipped prefix must derive the empty string, which costs its
null weights.

The key algebraic fact is an exact decomposition (`DerivAux.Wbody_cons_eq_DB`) of the weight with
which a body derives a non-empty string `a :: x` according to the first body symbol that yields a
non-empty string; `DerivAux.DB` has exactly the shape of the rules the code creates
(`DerivAux.derivative_step`).

Results (all in every commutative semiring, every grammar; `slash` must be injective and produce
names that are new nonterminals, which also makes the `SKIP` branch of the code unreachable):

* `derivative_old` : symbols that are not slash symbols keep their weights, level by level
  (no hypothesis on `U`, `SKIP` branch included);
* `derivative_eps_free` : if nothing derives the empty string and `U = 0`, then
  `WN D n (slash X) y = WN G n X (a :: y)` at every level, for every symbol `X`;
* `derivative_le`, `derivative_ge`, `derivative_spec` : relative to null weights `U` that bound the
  level-wise weights of the empty string and are attained at level `N0`,
  `WN G n X (a :: y) ≼ WN D n (slash X) y ≼ WN G (n + N0) X (a :: y)`;
* `derivative_limit` : where `≼` is antisymmetric and the weight of `a :: y` has stabilised, the
  derivative grammar gives exactly that weight to `y`. -/
namespace Genlm
set_option linter.unusedSectionVars false
open UnfoldAux Sem2Aux

namespace DerivAux
section
variable {σ K : Type} [DecidableEq σ] [CommSemiring K] [DecidableEq K]

/-- the weight of `a :: x` under a body, split according to the first body symbol `y` that yields a
non-empty string: the symbols before it yield `ε` (weight `ν`), `y` yields `a :: u` (weight `h y u`,
or `y` is the terminal `a` itself), the rest of the body yields the rest of `x` (table `f`) -/
def DB (V : List σ) (a : σ) (ν : σ → K) (h f : σ → List σ → K) : List σ → List σ → K
  | [], _ => 0
  | y :: rest, x =>
    (if y ∈ V then (if y = a then Wbody V f rest x else 0)
      else ((splits x).map fun p => h y p.1 * Wbody V f rest p.2).sum)
    + ν y * DB V a ν h f rest x

theorem sum_splits_single (a y : σ) (x : List σ) (F : List σ → K) :
    ((splits x).map fun p => (if a :: p.1 = [y] then 1 else 0) * F p.2).sum
      = if y = a then F x else 0 := by
  by_cases hya : y = a
  · subst hya
    rw [if_pos rfl, ← sum_splits_left_nil' x F]
    congr 1; apply List.map_congr_left; intro p _
    simp
  · rw [if_neg hya]
    apply sum_map_zero; intro p _
    have : ¬ (a :: p.1 = [y]) := by
      intro e; injection e with e1 _; exact hya e1.symm
    rw [if_neg this, zero_mul]

/-- **exact decomposition**: `Wbody` on a non-empty string is `DB` with the table's own weights of
the empty string and of the strings starting with `a` -/
theorem Wbody_cons_eq_DB (V : List σ) (f : σ → List σ → K) (a : σ) (body : List σ) (x : List σ) :
    Wbody V f body (a :: x)
      = DB V a (fun y => Wsym V f y []) (fun y u => f y (a :: u)) f body x := by
  induction body with
  | nil => simp [Wbody, DB]
  | cons y rest ih =>
    have e : Wbody V f (y :: rest) (a :: x)
        = Wsym V f y [] * Wbody V f rest (a :: x)
          + ((splits x).map fun p => Wsym V f y (a :: p.1) * Wbody V f rest p.2).sum := by
      simp only [Wbody, lsum_eq_sum, splits, List.map_cons, List.sum_cons, List.map_map,
        Function.comp_def]
    rw [e, ih, add_comm]
    show _ = _ + _
    congr 1
    by_cases hy : y ∈ V
    · rw [if_pos hy]
      simp only [Wsym_term V f y hy]
      exact sum_splits_single a y x (fun v => Wbody V f rest v)
    · rw [if_neg hy]
      simp only [Wsym_nt V f y hy]

/-- `DB` is monotone in all its tables -/
theorem DB_le (V : List σ) (a : σ) (ν ν' : σ → K) (h h' f f' : σ → List σ → K) (body : List σ)
    (hν : ∀ y ∈ body, ν y ≼ ν' y) (hh : ∀ y ∈ body, y ∉ V → ∀ u, h y u ≼ h' y u)
    (hf : ∀ s ∈ body, s ∉ V → ∀ u, f s u ≼ f' s u) (x : List σ) :
    DB V a ν h f body x ≼ DB V a ν' h' f' body x := by
  induction body with
  | nil => exact le_rfl' _
  | cons y rest ih =>
    have hrest : ∀ v, Wbody V f rest v ≼ Wbody V f' rest v :=
      fun v => Wbody_le_nt V f f' rest (fun s hs => hf s (by simp [hs])) v
    have ih' := ih (fun s hs => hν s (by simp [hs])) (fun s hs => hh s (by simp [hs]))
      (fun s hs => hf s (by simp [hs]))
    simp only [DB]
    refine add_le' ?_ (mul_le' (hν y (by simp)) ih')
    by_cases hy : y ∈ V
    · rw [if_pos hy, if_pos hy]
      split
      · exact hrest x
      · exact le_rfl' _
    · rw [if_neg hy, if_neg hy]
      apply sum_le'; intro p _
      exact mul_le' (hh y (by simp) hy p.1) (hrest p.2)

theorem Wbody_congr_nt (V : List σ) (f g : σ → List σ → K) (body : List σ)
    (h : ∀ s ∈ body, s ∉ V → ∀ u, f s u = g s u) (x : List σ) :
    Wbody V f body x = Wbody V g body x := by
  induction body generalizing x with
  | nil => rfl
  | cons s ss ih =>
    simp only [Wbody, lsum_eq_sum]
    congr 1
    apply List.map_congr_left
    intro p _
    have hs : Wsym V f s p.1 = Wsym V g s p.1 := by
      unfold Wsym; split
      · rfl
      · next hV => exact h s (by simp) hV _
    rw [hs, ih (fun s' hs' => h s' (by simp [hs']))]

theorem DB_congr (V : List σ) (a : σ) (ν ν' : σ → K) (h h' f f' : σ → List σ → K) (body : List σ)
    (hν : ∀ y ∈ body, ν y = ν' y) (hh : ∀ y ∈ body, y ∉ V → ∀ u, h y u = h' y u)
    (hf : ∀ s ∈ body, s ∉ V → ∀ u, f s u = f' s u) (x : List σ) :
    DB V a ν h f body x = DB V a ν' h' f' body x := by
  induction body with
  | nil => rfl
  | cons y rest ih =>
    have hrest : ∀ v, Wbody V f rest v = Wbody V f' rest v := fun v =>
      Wbody_congr_nt V f f' rest (fun s hs => hf s (by simp [hs])) v
    have ih' := ih (fun s hs => hν s (by simp [hs])) (fun s hs => hh s (by simp [hs]))
      (fun s hs => hf s (by simp [hs]))
    simp only [DB]
    rw [hν y (by simp), ih']
    congr 1
    by_cases hy : y ∈ V
    · rw [if_pos hy, if_pos hy, hrest x]
    · rw [if_neg hy, if_neg hy]
      congr 1; apply List.map_congr_left; intro p _
      rw [hh y (by simp) hy p.1, hrest p.2]

/-! ### the rules `derivative` creates -/

/-- every rule created by the inner loop has the head `slash r.head` -/
theorem go_head (slash : σ → σ) (U : σ → K) (a : σ) (G : CFG σ K) (N : List σ) (r : Rule σ K)
    (k : Nat) (ys : List σ) (delta : K) :
    ∀ q ∈ derivative.go slash U a G N r k ys delta, q.head = slash r.head := by
  induction ys generalizing k delta with
  | nil => intro q hq; simp [derivative.go] at hq
  | cons y rest ih =>
    intro q hq
    rw [derivative.go, List.mem_append] at hq
    rcases hq with hq | hq
    · split at hq
      · simp at hq
      · split at hq
        · split at hq
          · rw [List.mem_singleton] at hq; rw [hq]
          · simp at hq
        · rw [List.mem_singleton] at hq; rw [hq]
    · exact ih _ _ q hq

theorem stepL_zero_of_heads (V : List σ) (rs : List (Rule σ K)) (f : σ → List σ → K) (Z : σ)
    (x : List σ) (h : ∀ q ∈ rs, q.head ≠ Z) : stepL V rs f Z x = 0 := by
  rw [stepL_eq_ite]
  apply sum_map_zero; intro q hq
  rw [if_neg (h q hq)]

/-- one `WN` step over the rules the inner loop creates for the rest `ys` of a body, when the
`SKIP` branch is not taken -/
theorem go_step (slash : σ → σ) (U : σ → K) (a : σ) (G : CFG σ K) (N : List σ) (r : Rule σ K)
    (hskip : slash r.head ∉ N) (hslV : ∀ y, slash y ∉ G.V)
    (g : σ → List σ → K) (Z : σ) (x : List σ) (k : Nat) (ys : List σ) (delta : K) :
    stepL G.V (derivative.go slash U a G N r k ys delta) g Z x
      = if slash r.head = Z then
          delta * r.w * DB G.V a U (fun y u => g (slash y) u) g ys x else 0 := by
  induction ys generalizing k delta with
  | nil => simp [derivative.go, stepL_nil, DB]
  | cons y rest ih =>
    rw [derivative.go, stepL_append, ih, if_neg hskip, if_neg hskip]
    by_cases hZ : slash r.head = Z
    · simp only [if_pos hZ, DB]
      by_cases hy : y ∈ G.V
      · rw [if_pos hy, if_pos hy]
        by_cases hya : y = a
        · rw [if_pos hya, if_pos hya, stepL_cons, stepL_nil, if_pos hZ]; ring
        · rw [if_neg hya, if_neg hya, stepL_nil]; ring
      · rw [if_neg hy, if_neg hy, stepL_cons, stepL_nil, if_pos hZ]
        have : Wbody G.V g (slash y :: rest) x
            = ((splits x).map fun p => g (slash y) p.1 * Wbody G.V g rest p.2).sum := by
          simp only [Wbody, lsum_eq_sum, Wsym_nt G.V g (slash y) (hslV y)]
        rw [this]; ring
    · simp only [if_neg hZ, add_zero]
      apply stepL_zero_of_heads
      intro q hq
      have hh : q.head = slash r.head := by
        by_cases hy : y ∈ G.V
        · rw [if_pos hy] at hq
          split at hq
          · rw [List.mem_singleton] at hq; rw [hq]
          · simp at hq
        · rw [if_neg hy, List.mem_singleton] at hq; rw [hq]
      rw [hh]; exact hZ

/-- one step of the derivative grammar at a slash symbol, spelled out over the rules of `G` -/
theorem derivative_step (slash : σ → σ) (U : σ → K) (a : σ) (G : CFG σ K)
    (hinj : ∀ X Y, slash X = slash Y → X = Y) (hslV : ∀ y, slash y ∉ G.V)
    (hslN : ∀ y, slash y ∉ nonterminals G)
    (g : σ → List σ → K) (X : σ) (x : List σ) :
    stepL G.V (derivative slash U a G).rules g (slash X) x
      = (G.rules.map fun r => if r.head = X then
          r.w * DB G.V a U (fun y u => g (slash y) u) g r.body x else 0).sum := by
  show stepL G.V (mkRules (G.rules.flatMap fun r =>
      r :: derivative.go slash U a G (nonterminals G) r 0 r.body 1)) g (slash X) x = _
  rw [stepL_mkRules, stepL_flatMap]
  congr 1
  apply List.map_congr_left
  intro r hr
  have hne : ¬ r.head = slash X := fun e =>
    hslN X (mem_nonterminals.mpr (Or.inr ⟨r, hr, e⟩))
  rw [stepL_cons, go_step slash U a G _ r (hslN _) hslV, if_neg hne, zero_add]
  by_cases hX : r.head = X
  · rw [if_pos (by rw [hX]), if_pos hX, one_mul]
  · rw [if_neg (fun e => hX (hinj _ _ e)), if_neg hX]

/-- one step of the derivative grammar at a symbol that is not a slash symbol: only the rules of
`G` count (whether or not the `SKIP` branch is taken) -/
theorem derivative_step_old (slash : σ → σ) (U : σ → K) (a : σ) (G : CFG σ K)
    (g : σ → List σ → K) (X : σ) (hX : ∀ Y, slash Y ≠ X) (x : List σ) :
    stepL G.V (derivative slash U a G).rules g X x = stepL G.V G.rules g X x := by
  show stepL G.V (mkRules (G.rules.flatMap fun r =>
      r :: derivative.go slash U a G (nonterminals G) r 0 r.body 1)) g X x = _
  rw [stepL_mkRules, stepL_flatMap, stepL_eq_ite]
  congr 1
  apply List.map_congr_left
  intro r _
  rw [stepL_cons, stepL_zero_of_heads _ _ _ _ _ (fun q hq => by
    rw [go_head slash U a G _ r 0 r.body 1 q hq]; exact hX _), add_zero]

/-- a grammar without nullary rules derives the empty string from no symbol -/
theorem WN_nil_zero_of_no_nullary (G : CFG σ K) (hne : ∀ r ∈ G.rules, r.body ≠ []) (n : Nat)
    (X : σ) : WN G n X [] = 0 := by
  induction n generalizing X with
  | zero => rfl
  | succ n ih =>
    rw [WN_succ, stepL_eq_ite]
    apply sum_map_zero; intro r hr
    split
    · match hb : r.body with
      | [] => exact absurd hb (hne r hr)
      | s :: rest =>
        rw [Wbody_cons_nil_zero, mul_zero]
        unfold Wsym; split
        · simp
        · exact ih s
    · rfl

end
end DerivAux

open DerivAux
section
variable {σ K : Type} [DecidableEq σ] [CommSemiring K] [DecidableEq K]

/-- **C03 (old symbols)** the derivative grammar keeps all the rules of `G`: a symbol that is not a
slash symbol keeps its weights, level by level.  No hypothesis on `U`; the `SKIP` branch is covered. -/
theorem derivative_old (slash : σ → σ) (U : σ → K) (a : σ) (G : CFG σ K)
    (hslB : ∀ Y, slash Y ∉ bodySyms G) (n : Nat) (X : σ) (hX : ∀ Y, slash Y ≠ X) (x : List σ) :
    WN (derivative slash U a G) n X x = WN G n X x := by
  induction n generalizing X x with
  | zero => rfl
  | succ n ih =>
    rw [WN_succ, WN_succ]
    show stepL G.V _ _ _ _ = _
    rw [derivative_step_old slash U a G _ X hX]
    unfold stepL
    congr 1
    apply List.map_congr_left
    intro r hr
    have hr' := (List.mem_filter.mp hr).1
    congr 1
    apply Wbody_congr_nt
    intro s hs _ u
    exact ih s (fun Y e => hslB Y (e ▸ mem_bodySyms.mpr ⟨r, hr', hs⟩)) u

/-- **C03 (ε-free grammars, exact)** if no nonterminal derives the empty string and the null
weights `U` are zero, the derivative grammar gives `y` at `slash X` exactly the weight `G` gives
`a :: y` at `X`, at every level and for every symbol `X`.  `slash` must be injective with values
that are not terminals, not nonterminals (start symbol, heads: this makes the `SKIP` branch
unreachable) and not body symbols of `G`. -/
theorem derivative_eps_free (slash : σ → σ) (U : σ → K) (a : σ) (G : CFG σ K)
    (hinj : ∀ X Y, slash X = slash Y → X = Y) (hslV : ∀ y, slash y ∉ G.V)
    (hslN : ∀ y, slash y ∉ nonterminals G) (hslB : ∀ y, slash y ∉ bodySyms G)
    (hU : ∀ y, U y = 0) (hnil : ∀ n X, X ∉ G.V → WN G n X [] = 0)
    (n : Nat) (X : σ) (y : List σ) :
    WN (derivative slash U a G) n (slash X) y = WN G n X (a :: y) := by
  induction n generalizing X y with
  | zero => rfl
  | succ n ih =>
    rw [WN_succ, WN_succ]
    show stepL G.V _ _ _ _ = _
    rw [derivative_step slash U a G hinj hslV hslN, stepL_eq_ite]
    congr 1
    apply List.map_congr_left
    intro r hr
    split
    · congr 1
      rw [Wbody_cons_eq_DB]
      apply DB_congr
      · intro s _
        rw [hU s]
        by_cases hsV : s ∈ G.V
        · rw [Wsym_term _ _ _ hsV]; simp
        · rw [Wsym_nt _ _ _ hsV, hnil n s hsV]
      · intro s _ _ u; exact ih s u
      · intro s hs _ u
        exact derivative_old slash U a G hslB n s
          (fun Y e => hslB Y (e ▸ mem_bodySyms.mpr ⟨r, hr, hs⟩)) u
    · rfl

/-- the ε-free hypothesis of `derivative_eps_free` holds for grammars without nullary rules -/
theorem derivative_no_nullary (slash : σ → σ) (U : σ → K) (a : σ) (G : CFG σ K)
    (hinj : ∀ X Y, slash X = slash Y → X = Y) (hslV : ∀ y, slash y ∉ G.V)
    (hslN : ∀ y, slash y ∉ nonterminals G) (hslB : ∀ y, slash y ∉ bodySyms G)
    (hU : ∀ y, U y = 0) (hne : ∀ r ∈ G.rules, r.body ≠ [])
    (n : Nat) (X : σ) (y : List σ) :
    WN (derivative slash U a G) n (slash X) y = WN G n X (a :: y) :=
  derivative_eps_free slash U a G hinj hslV hslN hslB hU
    (fun m Z _ => WN_nil_zero_of_no_nullary G hne m Z) n X y

/-- **C03 (⊑)** the derivative grammar loses nothing, level by level, as soon as `U` bounds the
level-wise weights of the empty string (for the nonterminals that occur in bodies) -/
theorem derivative_le (slash : σ → σ) (U : σ → K) (a : σ) (G : CFG σ K)
    (hinj : ∀ X Y, slash X = slash Y → X = Y) (hslV : ∀ y, slash y ∉ G.V)
    (hslN : ∀ y, slash y ∉ nonterminals G) (hslB : ∀ y, slash y ∉ bodySyms G)
    (hN : ∀ r ∈ G.rules, ∀ s ∈ r.body, s ∉ G.V → ∀ n, WN G n s [] ≼ U s)
    (n : Nat) (X : σ) (y : List σ) :
    WN G n X (a :: y) ≼ WN (derivative slash U a G) n (slash X) y := by
  induction n generalizing X y with
  | zero => exact le_rfl' _
  | succ n ih =>
    rw [WN_succ, WN_succ]
    show _ ≼ stepL G.V _ _ _ _
    rw [derivative_step slash U a G hinj hslV hslN, stepL_eq_ite]
    apply sum_le'
    intro r hr
    split
    · refine mul_le' (le_rfl' _) ?_
      rw [Wbody_cons_eq_DB]
      apply DB_le
      · intro s hs
        by_cases hsV : s ∈ G.V
        · rw [Wsym_term _ _ _ hsV]; simp only [List.nil_eq, List.cons_ne_self, if_false]
          exact zero_le' _
        · rw [Wsym_nt _ _ _ hsV]; exact hN r hr s hs hsV n
      · intro s _ _ u; exact ih s u
      · intro s hs _ u
        exact le_of_eq' (derivative_old slash U a G hslB n s
          (fun Y e => hslB Y (e ▸ mem_bodySyms.mpr ⟨r, hr, hs⟩)) u).symm
    · exact le_rfl' _

/-- **C03 (⊒)** the derivative grammar adds nothing: if `U` vanishes on terminals and is attained
by the level-`N0` weights of the empty string, level `n` of the derivative grammar is below level
`n + N0` of the original grammar -/
theorem derivative_ge (slash : σ → σ) (U : σ → K) (a : σ) (G : CFG σ K)
    (hinj : ∀ X Y, slash X = slash Y → X = Y) (hslV : ∀ y, slash y ∉ G.V)
    (hslN : ∀ y, slash y ∉ nonterminals G) (hslB : ∀ y, slash y ∉ bodySyms G)
    (hV0 : ∀ b ∈ G.V, U b = 0) (N0 : Nat)
    (hN : ∀ r ∈ G.rules, ∀ s ∈ r.body, s ∉ G.V → U s ≼ WN G N0 s [])
    (n : Nat) (X : σ) (y : List σ) :
    WN (derivative slash U a G) n (slash X) y ≼ WN G (n + N0) X (a :: y) := by
  induction n generalizing X y with
  | zero => exact zero_le' _
  | succ n ih =>
    rw [show n + 1 + N0 = (n + N0) + 1 by omega, WN_succ, WN_succ]
    show stepL G.V _ _ _ _ ≼ _
    rw [derivative_step slash U a G hinj hslV hslN, stepL_eq_ite]
    apply sum_le'
    intro r hr
    split
    · refine mul_le' (le_rfl' _) ?_
      rw [Wbody_cons_eq_DB]
      apply DB_le
      · intro s hs
        by_cases hsV : s ∈ G.V
        · rw [hV0 s hsV]; exact zero_le' _
        · rw [Wsym_nt _ _ _ hsV]
          exact le_trans' (hN r hr s hs hsV) (WN_le_of_le G (by omega) s [])
      · intro s _ _ u; exact ih s u
      · intro s hs _ u
        rw [derivative_old slash U a G hslB n s
          (fun Y e => hslB Y (e ▸ mem_bodySyms.mpr ⟨r, hr, hs⟩)) u]
        exact WN_le_of_le G (by omega) s u
    · exact le_rfl' _

/-- **C03** relative to null weights `U` at which the level-wise weights of the empty string
stabilise (from level `N0` on; zero on terminals): at every symbol `X` the level-indexed
approximations of `G` on `a :: y` and of the derivative grammar on `y` bound each other with a shift
of `N0` -/
theorem derivative_spec (slash : σ → σ) (U : σ → K) (a : σ) (G : CFG σ K)
    (hinj : ∀ X Y, slash X = slash Y → X = Y) (hslV : ∀ y, slash y ∉ G.V)
    (hslN : ∀ y, slash y ∉ nonterminals G) (hslB : ∀ y, slash y ∉ bodySyms G)
    (hV0 : ∀ b ∈ G.V, U b = 0) (N0 : Nat)
    (hstab : ∀ r ∈ G.rules, ∀ s ∈ r.body, s ∉ G.V → ∀ n, N0 ≤ n → WN G n s [] = U s)
    (n : Nat) (X : σ) (y : List σ) :
    WN G n X (a :: y) ≼ WN (derivative slash U a G) n (slash X) y ∧
      WN (derivative slash U a G) n (slash X) y ≼ WN G (n + N0) X (a :: y) := by
  refine ⟨derivative_le slash U a G hinj hslV hslN hslB ?_ n X y,
    derivative_ge slash U a G hinj hslV hslN hslB hV0 N0
      (fun r hr s hs hsV => le_of_eq' (hstab r hr s hs hsV N0 (Nat.le_refl _)).symm) n X y⟩
  intro r hr s hs hsV m
  rw [← hstab r hr s hs hsV (max m N0) (Nat.le_max_right _ _)]
  exact WN_le_of_le G (Nat.le_max_left _ _) s []

/-- **C03 (limit form)** where `≼` is antisymmetric and the weight of `a :: y` at `X` in `G` has
stabilised at `L` from level `N` on, the derivative grammar gives `y` the weight `L` at `slash X`
from level `N` on; with `X = G.S` this is the start symbol of the derivative grammar -/
theorem derivative_limit (slash : σ → σ) (U : σ → K) (a : σ) (G : CFG σ K)
    (hinj : ∀ X Y, slash X = slash Y → X = Y) (hslV : ∀ y, slash y ∉ G.V)
    (hslN : ∀ y, slash y ∉ nonterminals G) (hslB : ∀ y, slash y ∉ bodySyms G)
    (hV0 : ∀ b ∈ G.V, U b = 0) (N0 : Nat)
    (hstab : ∀ r ∈ G.rules, ∀ s ∈ r.body, s ∉ G.V → ∀ n, N0 ≤ n → WN G n s [] = U s)
    (hanti : ∀ a b : K, a ≼ b → b ≼ a → a = b) (X : σ) (y : List σ)
    (N : Nat) (L : K) (hL : ∀ m, N ≤ m → WN G m X (a :: y) = L) (n : Nat) (hn : N ≤ n) :
    WN (derivative slash U a G) n (slash X) y = L :=
  limit_transfer hanti (a := fun m => WN G m X (a :: y))
    (b := fun m => WN (derivative slash U a G) m (slash X) y)
    (fun _ _ h => WN_le_of_le _ h _ y) N N L hL
    (derivative_spec slash U a G hinj hslV hslN hslB hV0 N0 hstab N X y).1
    (fun m => ⟨m + N0, Nat.le_add_right _ _,
      (derivative_spec slash U a G hinj hslV hslN hslB hV0 N0 hstab m X y).2⟩)
    n hn hn

theorem derivative_start (slash : σ → σ) (U : σ → K) (a : σ) (G : CFG σ K) :
    (derivative slash U a G).S = slash G.S ∧ (derivative slash U a G).V = G.V := ⟨rfl, rfl⟩

end
end Genlm

/-! ### non-vacuity -/
namespace Genlm
open UnfoldAux Sem2Aux DerivAux
section Examples

/-- `structNullG` (`5 → 0 0 (1); 0 → ε (2) | 1 (3)`, terminal `1`) differentiated by the token `1`,
with the exact null weights (`U 0 = 2`): the rule `5 → 0 0` yields `105 → 100 0 (1)` and, skipping
the nullable first `0`, `105 → 100 (2)`; the rule `0 → 1` yields `100 → ε (3)` -/
example : (derivative (· + 100) structNullW 1 structNullG).rules
    = [⟨1, 5, [0, 0]⟩, ⟨1, 105, [100, 0]⟩, ⟨2, 105, [100]⟩, ⟨2, 0, []⟩, ⟨3, 0, [1]⟩, ⟨3, 100, []⟩] := by
  decide
example : (derivative (· + 100) structNullW 1 structNullG).S = 105 := rfl
-- `[1]` has weight 12 at `5` (either `0` yields it), `[]` has weight 12 at `105`
example : WN structNullG 2 5 [1] = 12 ∧ WN (derivative (· + 100) structNullW 1 structNullG) 2 105 [] = 12 := by
  decide
example : WN structNullG 2 5 [1, 1] = 9 ∧ WN (derivative (· + 100) structNullW 1 structNullG) 2 105 [1] = 9 := by
  decide
-- without the null-weight factor (`U = 0`) the derivative grammar loses the derivations that skip a prefix
example : WN (derivative (· + 100) (fun _ => 0) 1 structNullG) 5 105 [] = 6 := by decide

-- all hypotheses of the two bounds are met, for every level, every symbol and every string
example (n X : ℕ) (y : List ℕ) :
    WN structNullG n X (1 :: y) ≼ WN (derivative (· + 100) structNullW 1 structNullG) n (X + 100) y ∧
    WN (derivative (· + 100) structNullW 1 structNullG) n (X + 100) y ≼ WN structNullG (n + 1) X (1 :: y) := by
  have hN : ∀ s ∈ nonterminals structNullG, s < 100 := by decide
  have hB : ∀ s ∈ bodySyms structNullG, s < 100 := by decide
  have hinj : ∀ X Y : ℕ, X + 100 = Y + 100 → X = Y := by intro X Y h; omega
  have hslV : ∀ y : ℕ, y + 100 ∉ structNullG.V := by intro y; simp [structNullG]
  have hslN : ∀ y : ℕ, y + 100 ∉ nonterminals structNullG := by
    intro y h; have := hN _ h; omega
  have hslB : ∀ y : ℕ, y + 100 ∉ bodySyms structNullG := by
    intro y h; have := hB _ h; omega
  exact ⟨derivative_le (· + 100) structNullW 1 structNullG hinj hslV hslN hslB
      (fun _ _ s _ _ m => structNull_bound m s) n X y,
    derivative_ge (· + 100) structNullW 1 structNullG hinj hslV hslN hslB (by decide) 1
      structNull_attained n X y⟩

-- an ε-free grammar (`0 → 2 1 (2); 2 → 1 (3) | 2 1 (1)`): exact equality at every level
example (n X : ℕ) (y : List ℕ) :
    WN (derivative (· + 100) (fun _ => 0) 1 unfExG) n (X + 100) y = WN unfExG n X (1 :: y) := by
  have hN : ∀ s ∈ nonterminals unfExG, s < 100 := by decide
  have hB : ∀ s ∈ bodySyms unfExG, s < 100 := by decide
  exact derivative_no_nullary (· + 100) (fun _ => 0) 1 unfExG (by intro X Y h; omega)
    (by intro y; simp [unfExG]) (by intro y h; have := hN _ h; omega)
    (by intro y h; have := hB _ h; omega) (fun _ => rfl) (by decide) n X y
example : WN unfExG 3 0 [1, 1, 1] = 6 ∧ WN (derivative (· + 100) (fun _ => 0) 1 unfExG) 3 100 [1, 1] = 6 := by
  decide

-- the hypothesis `U = 0` on terminals cannot be dropped in `⊒`: with `U 1 = 1` the rule
-- `2 → 2 1` also yields `102 → ε (1)`
example : WN unfExG 4 2 [1] = 3 ∧ WN (derivative (· + 100) (fun _ => 1) 1 unfExG) 4 102 [] = 4 := by
  decide

end Examples
end Genlm
