import GenlmModel.Model.Cfg
import GenlmModel.Proofs.Basic

namespace Genlm
variable {σ K : Type} [DecidableEq σ] [CommSemiring K]

/-- Chomsky normal form as `CFG.in_cnf` checks it (plus: heads are not terminals). -/
def InCNF (G : CFG σ K) : Prop :=
  ∀ r ∈ G.rules, r.head ∉ G.V ∧
    ((r.body = [] ∧ r.head = G.S) ∨ (∃ a, r.body = [a] ∧ a ∈ G.V) ∨
     (∃ B C, r.body = [B, C] ∧ B ∉ G.V ∧ C ∉ G.V ∧ B ≠ G.S ∧ C ≠ G.S))

/-- a non-start nonterminal of a CNF grammar never derives the empty string -/
theorem WN_nil_nonstart (G : CFG σ K) (h : InCNF G) (n : Nat) (B : σ) (hB : B ≠ G.S) :
    WN G n B [] = 0 := by
  induction n generalizing B with
  | zero => rfl
  | succ n ih =>
    simp only [WN, lsum_eq_sum]
    apply sum_map_zero
    intro r hr
    obtain ⟨hrG, hhead⟩ := List.mem_filter.mp hr
    have hhead : r.head = B := by simpa using hhead
    obtain ⟨_, hshape⟩ := h r hrG
    rcases hshape with ⟨_, hS⟩ | ⟨a, hb, ha⟩ | ⟨B', C', hb, hB', hC', hBS, hCS⟩
    · exact absurd (hhead ▸ hS) hB
    · rw [hb, Wbody_singleton]; simp [Wsym, ha]
    · rw [hb]
      simp only [Wbody, splits, List.map_cons, List.map_nil, lsum_eq_sum, List.sum_cons, List.sum_nil]
      simp [Wsym, hB', ih B' hBS]


/-- level by level, the CKY recurrence computes the stratified derivation sum -/
theorem insN_eq_WN (G : CFG σ K) (h : InCNF G) (n : Nat) (x : List σ) (X : σ) :
    insN G n x X = WN G n X x := by
  induction n generalizing x X with
  | zero => rfl
  | succ n ih =>
    simp only [insN, WN, lsum_eq_sum]
    congr 1
    apply List.map_congr_left
    intro r hr
    obtain ⟨hrG, _⟩ := List.mem_filter.mp hr
    obtain ⟨_, hshape⟩ := h r hrG
    congr 1
    rcases hshape with ⟨hb, _⟩ | ⟨a, hb, ha⟩ | ⟨B, C, hb, hB, hC, hBS, hCS⟩
    · simp [ruleTerm, hb, Wbody]
    · rw [hb, Wbody_singleton]; simp [ruleTerm, hb, Wsym, ha]
    · simp only [ruleTerm, hb, Wbody, lsum_eq_sum]
      have hW : ∀ p : List σ × List σ,
          Wsym G.V (WN G n) B p.1 * ((splits p.2).map fun q => Wsym G.V (WN G n) C q.1 * (if q.2 = [] then 1 else 0)).sum
            = WN G n B p.1 * WN G n C p.2 := by
        intro p
        rw [sum_splits_right_nil p.2 (fun u => Wsym G.V (WN G n) C u)]
        simp [Wsym, hB, hC]
      simp only [hW]
      symm
      rw [sum_filter_of_zero (splits x) (fun p => decide (p.1 ≠ [] ∧ p.2 ≠ []))]
      · apply congrArg; apply List.map_congr_left; intro p _; rw [ih, ih]
      · intro p _ hp
        simp only [ne_eq, decide_eq_false_iff_not, not_and_or, not_not] at hp
        rcases hp with hp | hp
        · rw [hp, WN_nil_nonstart G h n B hBS, zero_mul]
        · rw [hp, WN_nil_nonstart G h n C hCS, mul_zero]


/-- the CKY value of a span no longer changes once the fuel exceeds its length -/
theorem insN_stable (G : CFG σ K) : ∀ (L : Nat) (x : List σ), x.length = L →
    ∀ n m X, L + 1 ≤ n → n ≤ m → insN G m x X = insN G n x X := by
  intro L
  induction L using Nat.strong_induction_on with
  | _ L IH =>
    intro x hx n m X hn hm
    obtain ⟨n', rfl⟩ : ∃ n', n = n' + 1 := ⟨n - 1, by omega⟩
    obtain ⟨m', rfl⟩ : ∃ m', m = m' + 1 := ⟨m - 1, by omega⟩
    simp only [insN, lsum_eq_sum]
    congr 1
    apply List.map_congr_left
    intro r _
    congr 1
    rcases hb : r.body with _ | ⟨a, _ | ⟨b, _ | ⟨c, l⟩⟩⟩
    · simp [ruleTerm, hb]
    · simp [ruleTerm, hb]
    · simp only [ruleTerm, hb, lsum_eq_sum]
      congr 1
      apply List.map_congr_left
      intro p hp
      obtain ⟨hps, hne⟩ := List.mem_filter.mp hp
      have hcat : p.1 ++ p.2 = x := (mem_splits x p.1 p.2).mp hps
      have hlen : p.1.length + p.2.length = L := by rw [← hx, ← hcat, List.length_append]
      simp only [ne_eq, decide_eq_true_eq] at hne
      have h1 : 0 < p.1.length := List.length_pos_iff.mpr hne.1
      have h2 : 0 < p.2.length := List.length_pos_iff.mpr hne.2
      rw [IH p.1.length (by omega) p.1 rfl n' m' a (by omega) (by omega),
          IH p.2.length (by omega) p.2 rfl n' m' b (by omega) (by omega)]
    · simp [ruleTerm, hb]

/-- C02, CKY leg: for every CNF grammar over every commutative semiring, every string and
    every fuel beyond its length, the CKY recurrence returns the derivation sum. -/
theorem cky_correct (G : CFG σ K) (h : InCNF G) (x : List σ) (X : σ) (n : Nat) (hn : x.length + 1 ≤ n) :
    insN G (x.length + 1) x X = WN G n X x := by
  rw [← insN_eq_WN G h n x X]
  exact (insN_stable G x.length x rfl (x.length + 1) n X (Nat.le_refl _) hn).symm

end Genlm

